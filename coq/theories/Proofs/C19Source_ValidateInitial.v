(* C19: validate_initial_output_dir_and_get_result_files_as_dict of nextflow/scripts/batchie.py, re-translated from /repo on
   every run (Generated/SrcOrchInit.v, configuration C19_VALIDATE_INITIAL of harness/src_functions.py), is the model's
   validate_initial; what that means in terms of the files the model's initial step publishes; and that on every tree the
   retrospective script can reach, a completed initial step is one the function accepts. *)
From Coq Require Import ZArith List Bool Lia Arith.
From Batchie Require Import Lib.Sexp Lib.PyRt Model.Orchestrate Generated.SrcOrchInit Proofs.C19Base Proofs.C19Step Proofs.C19Main.
Import ListNotations.
Open Scope Z_scope.

(* ---- the link: for every job directory ---- *)
Theorem src_validate_initial_is_model : forall p : plate_path,
  src_validate_initial p = validate_initial p.
Proof.
  intros [s d]. unfold src_validate_initial, validate_initial, glob_in_plate, glob_meta, produced. cbn [fst snd].
  destruct (f_training d) as [tr|], (f_meta d) as [m|], (f_test d); reflexivity.
Qed.

(* ---- what the function decides, in terms of the three required files ---- *)
(* it returns the dict exactly when test.screen.h5, training.screen.h5 and screen_metadata.json are all there; the dict names
   the test and training screen of THAT directory and carries the metadata that is in it *)
Theorem validate_initial_some_iff : forall (p : plate_path) (r : initial_files),
  validate_initial p = SOk (Some r) <->
  initial_complete (snd p) = true /\ if_test r = SFile (fst p) KTest /\ if_training r = SFile (fst p) KTraining
  /\ f_meta (snd p) = Some (if_meta r).
Proof.
  intros [s d] [te tr m]. unfold validate_initial, initial_complete, initial_required, produced.
  cbn [fst snd forallb if_test if_training if_meta].
  destruct (f_training d) as [t|], (f_meta d) as [m0|], (f_test d); cbn [andb]; split;
    try (intros H; discriminate H); try (intros (H & _); discriminate H).
  - intros H. injection H as <- <- <-. auto.
  - intros (_ & -> & -> & H). injection H as <-. reflexivity.
Qed.

(* None: exactly when the training screen or the metadata is missing (whatever else is there) *)
Theorem validate_initial_none_iff : forall p : plate_path,
  validate_initial p = SOk None <-> produced (snd p) KTraining && produced (snd p) KMeta = false.
Proof.
  intros [s d]. unfold validate_initial, produced. cbn [fst snd].
  destruct (f_training d) as [t|], (f_meta d) as [m0|], (f_test d); cbn [andb]; split; intros H;
    (reflexivity || discriminate H).
Qed.

(* IndexError (test_screen_glob[0]): exactly when only the test screen is missing; nothing has been touched *)
Theorem validate_initial_raises_iff : forall (p : plate_path) done why,
  validate_initial p = SRaised done why <->
  produced (snd p) KTraining && produced (snd p) KMeta = true /\ produced (snd p) KTest = false /\ done = [] /\ why = 98.
Proof.
  intros [s d] done why. unfold validate_initial, produced. cbn [fst snd].
  destruct (f_training d) as [t|], (f_meta d) as [m0|], (f_test d); cbn [andb]; split;
    try (intros H; discriminate H); try (intros (H & H2 & _); (discriminate H || discriminate H2)).
  - intros H. injection H as <- <-. auto.
  - intros (_ & _ & -> & ->). reflexivity.
Qed.

(* never a named directory *)
Theorem validate_initial_never_names : forall (p : plate_path) w s, validate_initial p <> SNamed w s.
Proof.
  intros [s0 d] w s. unfold validate_initial. cbn [fst snd].
  destruct (f_training d), (f_meta d), (f_test d); discriminate.
Qed.

(* each required file missing in turn (the others present) *)
Theorem validate_initial_each_missing : forall s tr m by_ th di se ad,
  validate_initial (s, mkp (Some tr) true th di se ad (Some m) by_)
    = SOk (Some (mkif (SFile s KTest) (SFile s KTraining) m)) /\
  validate_initial (s, mkp None true th di se ad (Some m) by_) = SOk None /\
  validate_initial (s, mkp (Some tr) true th di se ad None by_) = SOk None /\
  validate_initial (s, mkp (Some tr) false th di se ad (Some m) by_) = SRaised [] 98.
Proof. intros. repeat split. Qed.

(* ---- the model's notion of a complete initial step ---- *)
(* the files the function insists on are among those the pipeline's initial workflow publishes (expected (LInit _)) *)
Theorem initial_required_expected : forall md sc, incl initial_required (expected md (LInit sc)).
Proof. intros md sc k Hk. cbn in Hk |- *. intuition. Qed.

(* a run of the initial workflow that the model counts as complete (complete_run: every expected file published) leaves a
   directory the function accepts *)
Theorem complete_initial_run_validates : forall md sc (p : plate_path),
  complete_run md (LInit sc) (snd p) = true ->
  exists m, f_meta (snd p) = Some m /\
            validate_initial p = SOk (Some (mkif (SFile (fst p) KTest) (SFile (fst p) KTraining) m)).
Proof.
  intros md sc [s d]. unfold complete_run, expected, all_kinds, validate_initial, produced. cbn [fst snd forallb].
  destruct (f_training d) as [t|], (f_test d), (f_meta d) as [m|]; cbn [andb]; intros H;
    try discriminate H; try (rewrite ?andb_false_r in H; discriminate H).
  exists m. auto.
Qed.

Lemma zlen_seqZ a m : zlen (seqZ a m) = Z.of_nat m.
Proof.
  revert a; induction m as [|m IH]; intros a; [reflexivity|].
  unfold zlen in *. cbn [seqZ length]. rewrite Nat2Z.inj_succ, IH, Nat2Z.inj_succ. reflexivity.
Qed.

(* in particular: what the model's pipeline publishes for the initial launch on n >= 1 plates *)
Theorem initial_outputs_validate : forall (n : nat) f sc s, (1 <= n)%nat ->
  validate_initial (s, outputs n f (LInit sc))
  = SOk (Some (mkif (SFile s KTest) (SFile s KTraining) (Z.of_nat n - 1))).
Proof.
  intros n f sc s Hn. destruct n as [|k]; [lia|].
  unfold outputs, sel_rev, select. cbn [seqZ find mem existsb negb].
  unfold validate_initial. cbn [fst snd f_training f_meta f_test].
  do 3 f_equal. unfold reveal. cbn [filter]. rewrite Z.eqb_refl. cbn [negb].
  assert (E : forall a m, 0 < a -> filter (fun q => negb (q =? 0)) (seqZ a m) = seqZ a m).
  { intros a m; revert a; induction m as [|m IH]; intros a Ha; cbn [seqZ filter]; [reflexivity|].
    destruct (Z.eqb_spec a 0) as [->|_]; [lia|]. cbn [negb]. rewrite IH by lia. reflexivity. }
  rewrite E by lia.
  rewrite zlen_seqZ. lia.
Qed.

(* ---- on every tree the retrospective script reaches, whatever the crash schedule ---- *)
(* a job directory that carries the completion marker and is iter_0/plate_0 is accepted: the function returns the dict with
   that directory's test and training screen and n - 1 unobserved plates - never None, never the IndexError *)
Theorem reachable_initial_validates : forall (bs n : nat) fixed,
  (1 <= bs)%nat -> (1 <= n)%nat -> fixed = true \/ bs = 1%nat ->
  forall sched, Forall (fun e => entry_ok e = true) sched ->
  let f := fst (script_run Retro fixed (Z.of_nat bs) n [] sched) in
  forall p : plate_path, In p (completed f) -> fst p = (0, 0) ->
  validate_initial p = SOk (Some (mkif (SFile (0, 0) KTest) (SFile (0, 0) KTraining) (Z.of_nat n - 1))).
Proof.
  intros bs n fixed Hbs Hn Hfix sched Hs. cbn zeta. intros p Hin Hp.
  destruct (resume_correct Retro bs n fixed Hbs Hn Hfix sched Hs) as [Hc _]. cbn zeta in Hc.
  rewrite Hc in Hin. unfold ideal in Hin. apply in_map_iff in Hin as (c & <- & _).
  unfold ideal_step in Hp |- *. cbn [fst] in Hp.
  rewrite <- (step_of_0 bs n Hbs Hn) in Hp. apply (step_of_inj bs n Hbs Hn) in Hp. subst c.
  rewrite (step_of_0 bs n Hbs Hn). unfold validate_initial, ideal_pdir. cbn [fst snd f_training f_meta f_test].
  rewrite zlen_seqZ. do 3 f_equal. lia.
Qed.

(* ---- the same facts said of the translation (what Props/C19.v states) ---- *)
Theorem src_validate_initial_accepts_iff : forall (p : plate_path) (r : initial_files),
  src_validate_initial p = SOk (Some r) <->
  forallb (produced (snd p)) [KTest; KTraining; KMeta] = true /\ if_test r = SFile (fst p) KTest
  /\ if_training r = SFile (fst p) KTraining /\ f_meta (snd p) = Some (if_meta r).
Proof. intros p r. rewrite src_validate_initial_is_model. exact (validate_initial_some_iff p r). Qed.

Theorem src_validate_initial_raises_iff : forall (p : plate_path) done why,
  src_validate_initial p = SRaised done why <->
  produced (snd p) KTraining && produced (snd p) KMeta = true /\ produced (snd p) KTest = false /\ done = [] /\ why = 98.
Proof. intros p done why. rewrite src_validate_initial_is_model. exact (validate_initial_raises_iff p done why). Qed.

Theorem src_validate_initial_none_iff : forall p : plate_path,
  src_validate_initial p = SOk None <-> produced (snd p) KTraining && produced (snd p) KMeta = false.
Proof. intros p. rewrite src_validate_initial_is_model. exact (validate_initial_none_iff p). Qed.

Theorem src_validate_initial_never_names : forall (p : plate_path) w s, src_validate_initial p <> SNamed w s.
Proof. intros p w s. rewrite src_validate_initial_is_model. apply validate_initial_never_names. Qed.

Theorem src_validate_initial_complete_run : forall md sc (p : plate_path),
  complete_run md (LInit sc) (snd p) = true ->
  exists m, f_meta (snd p) = Some m /\
            src_validate_initial p = SOk (Some (mkif (SFile (fst p) KTest) (SFile (fst p) KTraining) m)).
Proof. intros md sc p H. rewrite src_validate_initial_is_model. exact (complete_initial_run_validates md sc p H). Qed.

Theorem src_validate_initial_on_reachable_trees : forall (bs n : nat) fixed,
  (1 <= bs)%nat -> (1 <= n)%nat -> fixed = true \/ bs = 1%nat ->
  forall sched, Forall (fun e => entry_ok e = true) sched ->
  let f := fst (script_run Retro fixed (Z.of_nat bs) n [] sched) in
  forall p : plate_path, In p (completed f) -> fst p = (0, 0) ->
  src_validate_initial p = SOk (Some (mkif (SFile (0, 0) KTest) (SFile (0, 0) KTraining) (Z.of_nat n - 1))).
Proof.
  intros bs n fixed Hbs Hn Hfix sched Hs f p Hin Hp. rewrite src_validate_initial_is_model.
  exact (reachable_initial_validates bs n fixed Hbs Hn Hfix sched Hs p Hin Hp).
Qed.
