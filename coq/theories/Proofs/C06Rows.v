(* C06 proofs, part 2: plates, candidates, chunk contents, first-occurrence unique. *)
From Coq Require Import ZArith List Arith Lia Bool Sorted.
From Batchie Require Import Lib.ListX Lib.Sexp Model.Scores Proofs.C06Split.
Import ListNotations.
Open Scope Z_scope.

(* ---------- small list facts ---------- *)
Lemma zmem_true x l : zmem x l = true <-> In x l.
Proof.
  unfold zmem. rewrite existsb_exists. split.
  - intros (y & Hy & E). apply Z.eqb_eq in E. now subst.
  - intros H. exists x. split; [exact H|apply Z.eqb_refl].
Qed.
Lemma zmem_false x l : zmem x l = false <-> ~ In x l.
Proof. rewrite <- zmem_true. destruct (zmem x l); split; congruence. Qed.

Lemma filter_map_comm {A B} (f : B -> bool) (h : A -> B) l :
  filter f (map h l) = map h (filter (fun a => f (h a)) l).
Proof.
  induction l as [|a l IH]; cbn [map filter]; [reflexivity|].
  destruct (f (h a)); cbn [map]; now rewrite IH.
Qed.

Lemma forallb_false_iff {A} (f : A -> bool) l :
  forallb f l = false <-> exists x, In x l /\ f x = false.
Proof.
  induction l as [|a l IH]; cbn [forallb].
  - split; [discriminate|intros (x & [] & _)].
  - destruct (f a) eqn:E; cbn [andb].
    + rewrite IH. split; intros (x & Hx & Hf).
      * exists x. split; [now right|exact Hf].
      * destruct Hx as [->|Hx]; [congruence|]. exists x. now split.
    + split; [intros _; exists a; split; [now left|exact E]|reflexivity].
Qed.

Lemma StronglySorted_filter {A} (R : A -> A -> Prop) (f : A -> bool) l :
  StronglySorted R l -> StronglySorted R (filter f l).
Proof.
  induction 1 as [|a l Hs IH Hall]; cbn [filter]; [constructor|].
  destruct (f a); [|exact IH].
  constructor; [exact IH|].
  rewrite Forall_forall in *. intros x Hx. apply filter_In in Hx. now apply Hall.
Qed.

Lemma StronglySorted_lt_NoDup l : StronglySorted Z.lt l -> NoDup l.
Proof.
  induction 1 as [|a l Hs IH Hall]; constructor; [|exact IH].
  intros Hin. rewrite Forall_forall in Hall. specialize (Hall a Hin). lia.
Qed.

(* ---------- np.unique on plate ids ---------- *)
Lemma insert_uniq_In x l y : In y (insert_uniq x l) <-> y = x \/ In y l.
Proof.
  induction l as [|a l IH]; cbn [insert_uniq].
  - cbn [In]. intuition.
  - destruct (x <? a) eqn:E1; [cbn [In]; intuition|].
    destruct (x =? a) eqn:E2.
    + apply Z.eqb_eq in E2. subst. cbn [In]. intuition.
    + cbn [In]. rewrite IH. intuition.
Qed.

Lemma insert_uniq_sorted x l : StronglySorted Z.lt l -> StronglySorted Z.lt (insert_uniq x l).
Proof.
  induction 1 as [|a l Hs IH Hall]; cbn [insert_uniq].
  - repeat constructor.
  - destruct (x <? a) eqn:E1.
    + apply Z.ltb_lt in E1. constructor; [now constructor|].
      constructor; [exact E1|]. rewrite Forall_forall in *. intros y Hy. specialize (Hall y Hy). lia.
    + apply Z.ltb_ge in E1. destruct (x =? a) eqn:E2; [now constructor|].
      apply Z.eqb_neq in E2. constructor; [exact IH|].
      rewrite Forall_forall in *. intros y Hy. apply insert_uniq_In in Hy.
      destruct Hy as [->|Hy]; [lia|now apply Hall].
Qed.

Lemma sort_uniq_sorted l : StronglySorted Z.lt (sort_uniq l).
Proof. induction l as [|a l IH]; cbn [sort_uniq fold_right]; [constructor|now apply insert_uniq_sorted]. Qed.

Lemma sort_uniq_In l y : In y (sort_uniq l) <-> In y l.
Proof.
  induction l as [|a l IH]; cbn [sort_uniq fold_right In]; [reflexivity|].
  fold (sort_uniq l). rewrite insert_uniq_In, IH. intuition.
Qed.

(* ---------- indexed rows ---------- *)
Lemma combine_seq_snd {A} (l : list A) a : map snd (combine (seq a (length l)) l) = l.
Proof. revert a; induction l as [|x l IH]; intros a; cbn [length seq combine map snd]; [reflexivity|now rewrite IH]. Qed.

Lemma combine_seq_fst {A} (l : list A) a : map fst (combine (seq a (length l)) l) = seq a (length l).
Proof. revert a; induction l as [|x l IH]; intros a; cbn [length seq combine map fst]; [reflexivity|now rewrite IH]. Qed.

Lemma indexed_snd s : map snd (indexed s) = s.
Proof. apply combine_seq_snd. Qed.
Lemma indexed_fst s : map fst (indexed s) = seq 0 (length s).
Proof. apply combine_seq_fst. Qed.

Lemma combine_seq_In {A} (l : list A) a i x :
  In (i, x) (combine (seq a (length l)) l) <-> (a <= i)%nat /\ nth_error l (i - a) = Some x.
Proof.
  revert a; induction l as [|y l IH]; intros a; cbn [length seq combine In].
  - split; [contradiction|]. intros [_ H]. destruct (i - a)%nat; discriminate.
  - rewrite IH. split.
    + intros [E|[Hle Hn]].
      * inversion E; subst. split; [lia|]. now rewrite Nat.sub_diag.
      * split; [lia|]. replace (i - a)%nat with (S (i - S a)) by lia. exact Hn.
    + intros [Hle Hn]. destruct (Nat.eq_dec i a) as [->|Hne].
      * rewrite Nat.sub_diag in Hn. cbn [nth_error] in Hn. left. congruence.
      * right. split; [lia|]. replace (i - a)%nat with (S (i - S a)) in Hn by lia. exact Hn.
Qed.

Lemma indexed_In s i r : In (i, r) (indexed s) <-> nth_error s i = Some r.
Proof. unfold indexed. rewrite combine_seq_In, Nat.sub_0_r. intuition lia. Qed.

Lemma indexed_NoDup s : NoDup (indexed s).
Proof. apply (NoDup_map_inv fst). rewrite indexed_fst. apply seq_NoDup. Qed.

Lemma seq_sorted a n : StronglySorted lt (seq a n).
Proof.
  revert a; induction n as [|n IH]; intros a; cbn [seq]; constructor; [apply IH|].
  rewrite Forall_forall. intros x Hx. apply in_seq in Hx. lia.
Qed.

Lemma StronglySorted_map_fst_filter {B} (f : nat * B -> bool) l :
  StronglySorted lt (map fst l) -> StronglySorted lt (map fst (filter f l)).
Proof.
  induction l as [|x l IH]; cbn [map filter]; intros H; [constructor|].
  inversion H as [|? ? Hs Hall]; subst.
  destruct (f x); [|now apply IH]. cbn [map]. constructor; [now apply IH|].
  rewrite Forall_forall in *. intros y Hy. apply Hall.
  apply in_map_iff in Hy. destruct Hy as (z & <- & Hz). apply filter_In in Hz. apply in_map, Hz.
Qed.

Lemma sub_rows_In s f i r :
  In (i, r) (sub_rows s f) <-> nth_error s i = Some r /\ f (r_plate r) = true.
Proof. unfold sub_rows. rewrite filter_In, indexed_In. reflexivity. Qed.

Lemma sub_rows_positions_ascending s f : StronglySorted lt (map fst (sub_rows s f)).
Proof. unfold sub_rows. apply StronglySorted_map_fst_filter. rewrite indexed_fst. apply seq_sorted. Qed.

Lemma sub_rows_NoDup s f : NoDup (sub_rows s f).
Proof. unfold sub_rows. apply NoDup_filter, indexed_NoDup. Qed.

Lemma sub_rows_snd s f : map snd (sub_rows s f) = filter (fun r => f (r_plate r)) s.
Proof.
  unfold sub_rows. rewrite <- (indexed_snd s) at 2. now rewrite filter_map_comm.
Qed.

(* ---------- plates and candidates ---------- *)
Lemma forallb_snd {A B} (h : B -> bool) (l : list (A * B)) :
  forallb (fun ir => h (snd ir)) l = forallb h (map snd l).
Proof. induction l as [|x l IH]; cbn [forallb map]; [reflexivity|now rewrite IH]. Qed.

Lemma is_observed_get_plate s pid :
  is_observed (get_plate s pid) = forallb r_obs (filter (fun r => pid =? r_plate r) s).
Proof. unfold is_observed, get_plate. cbn [p_rows]. now rewrite forallb_snd, sub_rows_snd. Qed.

Lemma unobserved_iff s pid :
  is_observed (get_plate s pid) = false <-> exists r, In r s /\ r_plate r = pid /\ r_obs r = false.
Proof.
  rewrite is_observed_get_plate, forallb_false_iff. split.
  - intros (r & Hr & Ho). apply filter_In in Hr. destruct Hr as [Hr E]. apply Z.eqb_eq in E.
    exists r. now repeat split.
  - intros (r & Hr & E & Ho). exists r. split; [|exact Ho]. apply filter_In. split; [exact Hr|].
    apply Z.eqb_eq. now symmetry.
Qed.

Definition cand_ok (s : screen) (batch : list Z) (pid : Z) : bool :=
  negb (is_observed (get_plate s pid)) && negb (zmem pid batch).
Definition candidate_ids (s : screen) (batch : list Z) : list Z :=
  filter (cand_ok s batch) (unique_plate_ids s).

Lemma sorted_by_id_sorted s l :
  StronglySorted Z.lt l -> sorted_by_id (map (get_plate s) l) = map (get_plate s) l.
Proof.
  induction 1 as [|a l Hs IH Hall]; [reflexivity|].
  cbn [map sorted_by_id fold_right]. fold (sorted_by_id (map (get_plate s) l)). rewrite IH.
  destruct l as [|b l]; [reflexivity|]. cbn [map insert_by_id get_plate p_id].
  inversion Hall as [|? ? Hab _]; subst.
  destruct (a <=? b) eqn:E; [reflexivity|]. apply Z.leb_gt in E. lia.
Qed.

Lemma candidates_eq s batch : candidates s batch = map (get_plate s) (candidate_ids s batch).
Proof.
  unfold candidates, plates, candidate_ids.
  rewrite !filter_map_comm.
  rewrite sorted_by_id_sorted.
  - f_equal. cbn [get_plate p_id].
    generalize (unique_plate_ids s). intros l. induction l as [|a l IH]; cbn [filter]; [reflexivity|].
    unfold cand_ok at 1. destruct (negb (is_observed (get_plate s a))); cbn [andb filter];
      [destruct (negb (zmem a batch))|]; now rewrite IH.
  - apply StronglySorted_filter, StronglySorted_filter, sort_uniq_sorted.
Qed.

Lemma candidate_ids_map s batch : map p_id (candidates s batch) = candidate_ids s batch.
Proof.
  rewrite candidates_eq, map_map. cbn [get_plate p_id]. apply map_id.
Qed.

Lemma candidate_ids_sorted s batch : StronglySorted Z.lt (candidate_ids s batch).
Proof. apply StronglySorted_filter, sort_uniq_sorted. Qed.

Lemma candidate_ids_In s batch pid :
  In pid (candidate_ids s batch) <->
  In pid (map r_plate s) /\ (exists r, In r s /\ r_plate r = pid /\ r_obs r = false) /\ ~ In pid batch.
Proof.
  unfold candidate_ids, unique_plate_ids, cand_ok. rewrite filter_In, sort_uniq_In, andb_true_iff, !negb_true_iff.
  rewrite unobserved_iff, zmem_false. reflexivity.
Qed.

Lemma candidates_are_plates s batch p : In p (candidates s batch) -> p = get_plate s (p_id p).
Proof.
  rewrite candidates_eq, in_map_iff. intros (pid & <- & _). reflexivity.
Qed.

Lemma candidates_In_id s batch p : In p (candidates s batch) -> In (p_id p) (candidate_ids s batch).
Proof. intros H. rewrite <- candidate_ids_map. now apply in_map. Qed.

Theorem candidates_spec s batch :
  StronglySorted Z.lt (map p_id (candidates s batch)) /\
  forall pid, In pid (map p_id (candidates s batch)) <->
    In pid (map r_plate s) /\ (exists r, In r s /\ r_plate r = pid /\ r_obs r = false) /\ ~ In pid batch.
Proof.
  rewrite candidate_ids_map. split; [apply candidate_ids_sorted|apply candidate_ids_In].
Qed.

(* ---------- score_chunk ---------- *)
Definition batch_valid (s : screen) (batch : list Z) : Prop :=
  batch = [] \/ exists b, In b batch /\ In b (map r_plate s).

Definition handed_of (s : screen) (batch : list Z) (p : plate) : Z * list irow :=
  (p_id p, rows_for s batch p).

Definition chunk_plates (s : screen) (batch : list Z) (n : Z) (k : nat) : list plate :=
  nth k (array_split (candidates s batch) (Z.to_nat n)) [].

Lemma batch_present s batch :
  (exists b, In b batch /\ In b (map r_plate s)) ->
  existsb (fun p => zmem (p_id p) batch) (plates s) = true.
Proof.
  intros (b & Hb & Hs). apply existsb_exists. exists (get_plate s b). split.
  - unfold plates. apply in_map. unfold unique_plate_ids. now apply sort_uniq_In.
  - cbn [get_plate p_id]. now apply zmem_true.
Qed.

Lemma batch_absent s batch :
  (forall b, In b batch -> ~ In b (map r_plate s)) ->
  existsb (fun p => zmem (p_id p) batch) (plates s) = false.
Proof.
  intros H. destruct (existsb _ _) eqn:E; [|reflexivity].
  apply existsb_exists in E. destruct E as (p & Hp & Hz).
  unfold plates in Hp. apply in_map_iff in Hp. destruct Hp as (pid & <- & Hpid).
  cbn [get_plate p_id] in Hz. apply zmem_true in Hz.
  exfalso. apply (H pid Hz). unfold unique_plate_ids in Hpid. apply (proj1 (sort_uniq_In _ _)) in Hpid; exact Hpid.
Qed.

Lemma score_chunk_ok s batch n k :
  batch_valid s batch -> 0 <= k < n ->
  score_chunk s batch n k = Ok (map (handed_of s batch) (chunk_plates s batch n (Z.to_nat k))).
Proof.
  intros Hb Hk. unfold score_chunk.
  destruct (n <=? 0) eqn:E; [apply Z.leb_le in E; lia|].
  rewrite py_index_in_range by (rewrite array_split_length; lia).
  rewrite (nth_error_nth' _ []) by (rewrite array_split_length; lia).
  fold (chunk_plates s batch n (Z.to_nat k)). unfold handed_of.
  destruct batch as [|b0 batch']; [reflexivity|].
  destruct Hb as [Hb|Hb]; [discriminate|]. now rewrite batch_present.
Qed.

Lemma score_chunk_unknown_batch s batch n k :
  batch <> [] -> (forall b, In b batch -> ~ In b (map r_plate s)) ->
  exists tag, score_chunk s batch n k = Err tag.
Proof.
  intros Hne Hb. unfold score_chunk.
  destruct (n <=? 0); [now eexists|].
  destruct (py_index _ k); [|now eexists].
  destruct batch as [|b0 batch']; [congruence|]. rewrite batch_absent by exact Hb. now eexists.
Qed.

Lemma res_map_all_ok {A B} (f : A -> result B) (g : A -> B) l :
  (forall x, In x l -> f x = Ok (g x)) -> res_map_all f l = Ok (map g l).
Proof.
  induction l as [|a l IH]; intros H; cbn [res_map_all map]; [reflexivity|].
  rewrite (H a (or_introl eq_refl)). cbn [res_bind]. rewrite IH by (intros x Hx; apply H; now right).
  reflexivity.
Qed.

Lemma map_nth_seq {B} (l : list B) d : map (fun k => nth k l d) (seq 0 (length l)) = l.
Proof.
  apply (nth_ext _ _ d d); [now rewrite map_length, seq_length|].
  intros k Hk. rewrite map_length, seq_length in Hk. now rewrite nth_map_seq.
Qed.

Lemma chunk_plates_all s batch (n : nat) :
  map (chunk_plates s batch (Z.of_nat n)) (seq 0 n) = array_split (candidates s batch) n.
Proof.
  unfold chunk_plates. rewrite Nat2Z.id.
  rewrite <- (array_split_length (candidates s batch) n) at 1. apply map_nth_seq.
Qed.

Theorem chunks_partition s batch (n : nat) :
  (0 < n)%nat -> batch_valid s batch ->
  exists pss,
    res_map_all (score_chunk s batch (Z.of_nat n)) (map Z.of_nat (seq 0 n)) = Ok pss /\
    length pss = n /\
    map fst (concat pss) = map p_id (candidates s batch).
Proof.
  intros Hn Hb.
  set (g := fun j : nat => map (handed_of s batch) (chunk_plates s batch (Z.of_nat n) j)).
  exists (map g (seq 0 n)).
  split; [|split].
  - rewrite (res_map_all_ok _ (fun k => g (Z.to_nat k))).
    + rewrite map_map. f_equal. apply map_ext. intros j. now rewrite Nat2Z.id.
    + intros k Hk. apply in_map_iff in Hk. destruct Hk as (j & <- & Hj).
      apply in_seq in Hj. unfold g. apply score_chunk_ok; [exact Hb|lia].
  - now rewrite map_length, seq_length.
  - unfold g. rewrite <- (map_map (chunk_plates s batch (Z.of_nat n)) (map (handed_of s batch))).
    rewrite chunk_plates_all. rewrite <- concat_map, array_split_concat by exact Hn.
    rewrite map_map. reflexivity.
Qed.

Theorem chunks_disjoint s batch (n : nat) (k1 k2 : nat) pid ps1 ps2 :
  (k1 < n)%nat -> (k2 < n)%nat -> k1 <> k2 ->
  score_chunk s batch (Z.of_nat n) (Z.of_nat k1) = Ok ps1 ->
  score_chunk s batch (Z.of_nat n) (Z.of_nat k2) = Ok ps2 ->
  In pid (map fst ps1) -> In pid (map fst ps2) -> False.
Proof.
  intros H1 H2 Hne E1 E2 I1 I2.
  assert (Hb : batch_valid s batch).
  { destruct batch as [|b0 batch']; [now left|]. right.
    unfold score_chunk in E1. destruct (Z.of_nat n <=? 0); [discriminate|].
    destruct (py_index _ _); [|discriminate].
    destruct (existsb _ (plates s)) eqn:Ex; [|discriminate].
    apply existsb_exists in Ex. destruct Ex as (p & Hp & Hz). apply zmem_true in Hz.
    exists (p_id p). split; [exact Hz|]. unfold plates in Hp. apply in_map_iff in Hp.
    destruct Hp as (q & <- & Hq). cbn [get_plate p_id]. unfold unique_plate_ids in Hq. apply (proj1 (sort_uniq_In _ _)) in Hq; exact Hq. }
  rewrite score_chunk_ok in E1, E2 by (exact Hb || lia).
  injection E1 as <-. injection E2 as <-.
  rewrite map_map in I1, I2. cbn [handed_of fst] in I1, I2.
  unfold chunk_plates in I1, I2. rewrite !Nat2Z.id in I1, I2.
  set (ls := map (map p_id) (array_split (candidates s batch) n)).
  assert (Hnd : NoDup (concat ls)).
  { unfold ls. rewrite <- concat_map, array_split_concat by lia. rewrite candidate_ids_map.
    apply StronglySorted_lt_NoDup, candidate_ids_sorted. }
  apply (NoDup_concat_disjoint ls k1 k2 pid Hnd Hne); unfold ls.
  - change (@nil Z) with (map p_id []). now rewrite map_nth.
  - change (@nil Z) with (map p_id []). now rewrite map_nth.
Qed.

(* ---------- first-occurrence unique ---------- *)
Lemma zlist_eqb_eq a b : zlist_eqb a b = true <-> a = b.
Proof.
  revert b; induction a as [|x a IH]; intros [|y b]; cbn [zlist_eqb]; try (split; [discriminate|congruence]).
  - tauto.
  - rewrite andb_true_iff, Z.eqb_eq, IH. split; [intros [-> ->]; reflexivity|intros E; inversion E; auto].
Qed.

Lemma key_eqb_eq a b : key_eqb a b = true <-> a = b.
Proof.
  unfold key_eqb. rewrite andb_true_iff, Z.eqb_eq, zlist_eqb_eq.
  destruct a, b; cbn [fst snd]. split; [intros [-> ->]; reflexivity|intros E; inversion E; auto].
Qed.

Lemma key_mem_true k l : key_mem k l = true <-> In k l.
Proof.
  unfold key_mem. rewrite existsb_exists. split.
  - intros (y & Hy & E). apply key_eqb_eq in E. now subst.
  - intros H. exists k. split; [exact H|now apply key_eqb_eq].
Qed.
Lemma key_mem_false k l : key_mem k l = false <-> ~ In k l.
Proof. rewrite <- key_mem_true. destruct (key_mem k l); split; congruence. Qed.

Lemma uniq_first_incl seen l x : In x (uniq_first seen l) -> In x l.
Proof.
  revert seen; induction l as [|a l IH]; intros seen; cbn [uniq_first]; [contradiction|].
  destruct (key_mem (row_key a) seen).
  - intros H. right. eapply IH, H.
  - intros [->|H]; [now left|right; eapply IH, H].
Qed.

Lemma uniq_first_keys_fresh seen l k :
  In k (map row_key (uniq_first seen l)) -> ~ In k seen.
Proof.
  revert seen; induction l as [|a l IH]; intros seen; cbn [uniq_first]; [contradiction|].
  destruct (key_mem (row_key a) seen) eqn:E; [apply IH|].
  cbn [map In]. intros [<-|H]; [now apply key_mem_false|].
  intros Hs. apply (IH _ H). now right.
Qed.

Lemma uniq_first_NoDup seen l : NoDup (map row_key (uniq_first seen l)).
Proof.
  revert seen; induction l as [|a l IH]; intros seen; cbn [uniq_first]; [constructor|].
  destruct (key_mem (row_key a) seen); [apply IH|].
  cbn [map]. constructor; [|apply IH].
  intros H. apply uniq_first_keys_fresh in H. apply H. now left.
Qed.

Lemma uniq_first_keys_complete seen l k :
  In k (map row_key l) -> In k seen \/ In k (map row_key (uniq_first seen l)).
Proof.
  revert seen; induction l as [|a l IH]; intros seen; cbn [uniq_first map In]; [contradiction|].
  destruct (key_mem (row_key a) seen) eqn:E.
  - intros [<-|H]; [left; now apply key_mem_true|now apply IH].
  - cbn [map In]. intros [<-|H]; [right; now left|].
    destruct (IH (row_key a :: seen) H) as [[<-|Hs]|Hu]; [right; now left|now left|right; now right].
Qed.

Lemma uniq_first_seen_ext seen1 seen2 l :
  (forall k, In k seen1 <-> In k seen2) -> uniq_first seen1 l = uniq_first seen2 l.
Proof.
  revert seen1 seen2; induction l as [|a l IH]; intros seen1 seen2 H; cbn [uniq_first]; [reflexivity|].
  assert (E : key_mem (row_key a) seen1 = key_mem (row_key a) seen2).
  { destruct (key_mem (row_key a) seen2) eqn:E2.
    - apply key_mem_true. apply H. now apply key_mem_true.
    - apply key_mem_false. intros Hin. apply H in Hin. now apply key_mem_false in E2. }
  rewrite E. destruct (key_mem (row_key a) seen2); [now apply IH|].
  f_equal. apply IH. intros k. cbn [In]. now rewrite H.
Qed.

Lemma uniq_first_app seen l1 l2 :
  uniq_first seen (l1 ++ l2) = uniq_first seen l1 ++ uniq_first (map row_key l1 ++ seen) l2.
Proof.
  revert seen; induction l1 as [|a l1 IH]; intros seen; cbn [app uniq_first map]; [reflexivity|].
  destruct (key_mem (row_key a) seen) eqn:E.
  - rewrite IH. f_equal. apply uniq_first_seen_ext. intros k. cbn [In]. rewrite !in_app_iff.
    apply key_mem_true in E. split; [tauto|]. intros [<-|H]; tauto.
  - cbn [app]. f_equal. rewrite IH. f_equal. apply uniq_first_seen_ext. intros k.
    cbn [In]. rewrite !in_app_iff. cbn [In]. tauto.
Qed.

(* a row of l is kept iff no earlier row of l has its key *)
Lemma uniq_first_first_occurrence pre x post :
  NoDup (pre ++ x :: post) ->
  (In x (uniq_first [] (pre ++ x :: post)) <-> ~ In (row_key x) (map row_key pre)).
Proof.
  intros Hnd. rewrite uniq_first_app, app_nil_r. cbn [uniq_first].
  apply NoDup_remove_2 in Hnd.
  assert (Hpre : ~ In x pre) by (intros H; apply Hnd, in_or_app; now left).
  assert (Hpost : ~ In x post) by (intros H; apply Hnd, in_or_app; now right).
  destruct (key_mem (row_key x) (map row_key pre)) eqn:E.
  - apply key_mem_true in E. split; [|tauto]. intros H. apply in_app_or in H.
    destruct H as [H|H]; apply uniq_first_incl in H; tauto.
  - apply key_mem_false in E. split; [tauto|]. intros _. apply in_or_app. right. now left.
Qed.

Theorem conditioned_spec s batch pid :
  let union := union_rows s batch pid in
  let rows := conditioned s batch pid in
  (forall i r, In (i, r) union <-> nth_error s i = Some r /\ (r_plate r = pid \/ In (r_plate r) batch)) /\
  StronglySorted lt (map fst union) /\
  NoDup (map row_key rows) /\
  (forall k, In k (map row_key rows) <-> In k (map row_key union)) /\
  (forall x, In x rows -> In x union) /\
  (forall pre x post, union = pre ++ x :: post ->
     (In x rows <-> ~ In (row_key x) (map row_key pre))).
Proof.
  cbv zeta. unfold conditioned, union_rows.
  split; [|split; [|split; [|split; [|split]]]].
  - intros i r. rewrite sub_rows_In, orb_true_iff, Z.eqb_eq, zmem_true. reflexivity.
  - apply sub_rows_positions_ascending.
  - apply uniq_first_NoDup.
  - intros k. split.
    + intros H. apply in_map_iff in H. destruct H as (x & <- & Hx). apply in_map. eapply uniq_first_incl, Hx.
    + intros H. destruct (uniq_first_keys_complete [] _ _ H) as [[]|Hu]. exact Hu.
  - intros x. apply uniq_first_incl.
  - intros pre x post E. rewrite E. apply uniq_first_first_occurrence. rewrite <- E. apply sub_rows_NoDup.
Qed.

(* what score_chunk hands over, per candidate *)
Theorem handed_rows s batch n k ps pid rows :
  score_chunk s batch n k = Ok ps -> In (pid, rows) ps ->
  In pid (map p_id (candidates s batch)) /\
  rows = match batch with
         | [] => sub_rows s (Z.eqb pid)
         | _ => conditioned s batch pid
         end.
Proof.
  intros E Hin. unfold score_chunk in E.
  destruct (n <=? 0); [discriminate|].
  destruct (py_index _ k) as [chunk|] eqn:Ei; [|discriminate].
  assert (Hc : forall p, In p chunk -> In p (candidates s batch)).
  { intros p Hp. unfold py_index in Ei.
    assert (exists j, nth_error (array_split (candidates s batch) (Z.to_nat n)) j = Some chunk) as (j & Hj).
    { destruct (_ && _)%bool; [eauto|]. destruct (_ && _)%bool; [eauto|discriminate]. }
    apply (array_split_In _ (Z.to_nat n) j). now rewrite (nth_error_nth _ _ _ Hj). }
  assert (Hps : ps = map (fun p => (p_id p, rows_for s batch p)) chunk).
  { destruct batch as [|b0 b']; [congruence|]. destruct (existsb _ (plates s)); congruence. }
  subst ps. apply in_map_iff in Hin. destruct Hin as (p & Ep & Hp). inversion Ep; subst.
  specialize (Hc p Hp). split; [now apply in_map|].
  unfold rows_for. destruct batch; [|reflexivity].
  rewrite (candidates_are_plates _ _ _ Hc) at 1. reflexivity.
Qed.
