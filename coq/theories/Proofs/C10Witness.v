(* C10 lemmas, part 3: concrete witnesses for the two statements that are false of the faithful
   model without their side condition. *)
From Coq Require Import ZArith List Lia.
From Batchie Require Import Lib.Sexp Model.Thetas Proofs.C10Thetas.
Import ListNotations.
Open Scope Z_scope.

(* two samples with different shared parameters: the reloaded second sample carries the shared
   parameters of the first *)
Lemma mixed_shared_refuted : exists h : holder Z Z,
  h_thetas h <> [] /\ Z.of_nat (length (h_thetas h)) <= h_declared h /\ save_load Z Z h <> Ok h.
Proof.
  exists {| h_declared := 2; h_thetas := [(10, 1); (20, 2)] |}.
  split; [discriminate|]. split; [cbn; lia|]. vm_compute. intros H. discriminate H.
Qed.

(* a partially filled first chain: chain_ids (built from declared sizes) labels the first sample
   of chain 1 with chain 0 *)
Lemma chain_ids_partial_misaligned : exists hs : list (holder Z unit),
  (forall h, In h hs -> Z.of_nat (length (h_thetas h)) <= h_declared h) /\
  combine (chain_ids Z unit hs) (concat (map h_thetas hs))
  <> concat (map (fun ih => map (pair (Z.of_nat (fst ih))) (h_thetas (snd ih))) (enumerate hs)).
Proof.
  exists [ {| h_declared := 3; h_thetas := [(1, tt); (2, tt)] |}; {| h_declared := 1; h_thetas := [(3, tt)] |} ].
  split.
  - intros h [<-|[<-|[]]]; cbn; lia.
  - vm_compute. intros H. discriminate H.
Qed.
