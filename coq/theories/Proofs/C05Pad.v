(* C05 proofs, part 1: padding.  Reading a padded array with the padding value as the
   out-of-range default is the same as reading the ragged original; shapes of the padded
   arrays; small list lemmas used later. *)
From Coq Require Import ZArith List QArith Qcanon Lia Arith Permutation.
From Batchie Require Import Lib.Sexp Lib.Num Lib.NumP Model.Dbal.
Import ListNotations.

Lemma nth_repeat_same {A} (a : A) n k : nth k (repeat a n) a = a.
Proof.
  revert k; induction n as [|n IH]; intros [|k]; cbn [repeat nth]; auto.
Qed.

Lemma nth_pad_row {A} (pad : A) w r j : nth j (pad_row pad w r) pad = nth j r pad.
Proof.
  unfold pad_row. destruct (Nat.lt_ge_cases j (length r)) as [Hlt|Hge].
  - now rewrite app_nth1.
  - rewrite app_nth2 by exact Hge. rewrite nth_repeat_same. symmetry. now apply nth_overflow.
Qed.

Lemma nth_map_in {A B} (f : A -> B) l i da db : (i < length l)%nat -> nth i (map f l) db = f (nth i l da).
Proof.
  intros H. rewrite (nth_indep (map f l) db (f da)) by now rewrite map_length.
  apply map_nth.
Qed.

Lemma get2_nil {A} (d : A) i j : get2 d [] i j = d.
Proof. unfold get2. destruct i; cbn [nth]; now destruct j. Qed.

Lemma get2_pad2 {A} (pad : A) h w a i j : get2 pad (pad2 pad h w a) i j = get2 pad a i j.
Proof.
  unfold get2, pad2. destruct (Nat.lt_ge_cases i (length a)) as [Hlt|Hge].
  - rewrite app_nth1 by now rewrite map_length.
    rewrite (nth_map_in _ _ _ [] []) by exact Hlt. apply nth_pad_row.
  - rewrite app_nth2 by now rewrite map_length. rewrite map_length.
    rewrite (nth_overflow a) by exact Hge.
    set (k := (i - length a)%nat). set (m := (h - length a)%nat).
    destruct (Nat.lt_ge_cases k m) as [Hk|Hk].
    + assert (Hlen : (k < length (repeat (repeat pad w) m))%nat) by (rewrite repeat_length; exact Hk).
      rewrite (nth_indep (repeat (repeat pad w) m) [] (repeat pad w) Hlen).
      rewrite nth_repeat_same, nth_repeat_same. now destruct j.
    + assert (Hlen : (length (repeat (repeat pad w) m) <= k)%nat) by (rewrite repeat_length; exact Hk).
      rewrite (nth_overflow (repeat (repeat pad w) m) [] Hlen). reflexivity.
Qed.

Lemma get3_pad_ragged {A} (pad : A) arrays p i j :
  get3 pad (pad_ragged pad arrays) p i j = get3 pad arrays p i j.
Proof.
  unfold get3, pad_ragged. destruct (Nat.lt_ge_cases p (length arrays)) as [Hlt|Hge].
  - rewrite (nth_map_in _ _ _ [] []) by exact Hlt. apply get2_pad2.
  - rewrite !nth_overflow by (rewrite ?map_length; exact Hge). reflexivity.
Qed.

Lemma max_list_ge l x : In x l -> (x <= max_list l)%nat.
Proof.
  induction l as [|a l IH]; cbn [max_list fold_right In]; [contradiction|].
  intros [->|H]; [apply Nat.le_max_l|]. etransitivity; [now apply IH|apply Nat.le_max_r].
Qed.

Lemma length_pad_row {A} (pad : A) w r : (length r <= w)%nat -> length (pad_row pad w r) = w.
Proof. intros H. unfold pad_row. rewrite app_length, repeat_length. lia. Qed.

Lemma length_pad2 {A} (pad : A) h w a : (length a <= h)%nat -> length (pad2 pad h w a) = h.
Proof. intros H. unfold pad2. rewrite app_length, map_length, repeat_length. lia. Qed.

(* width of the first row of a padded array *)
Lemma width_pad2 {A} (pad : A) h w a :
  (0 < h)%nat -> (length a <= h)%nat -> (length (hd [] a) <= w)%nat ->
  length (hd [] (pad2 pad h w a)) = w.
Proof.
  intros Hh Ha Hw. unfold pad2. destruct a as [|r a]; cbn [map app hd length] in *.
  - rewrite Nat.sub_0_r. destruct h; [lia|]. cbn [repeat hd]. apply repeat_length.
  - now apply length_pad_row.
Qed.

Lemma shape3_pad_ragged {A} (pad : A) a arrays :
  (0 < fst (shape2 a))%nat ->
  shape3 (pad_ragged pad (a :: arrays))
  = (S (length arrays),
     max_list (map (fun a => fst (shape2 a)) (a :: arrays)),
     max_list (map (fun a => snd (shape2 a)) (a :: arrays))).
Proof.
  intros Hpos. unfold shape3, pad_ragged. cbn [map hd length].
  set (h := max_list _). set (w := max_list _).
  assert (Hh : (length a <= h)%nat) by (apply (max_list_ge (_ :: _)); now left).
  assert (Hw : (length (hd [] a) <= w)%nat) by (apply (max_list_ge (_ :: _)); now left).
  cbn [shape2 fst] in Hpos.
  rewrite map_length, length_pad2, width_pad2 by (assumption || lia). reflexivity.
Qed.

(* ---- generic list lemmas ---- *)
Lemma map_seq_nth {A B} (g : A -> B) (l : list A) d :
  map (fun p => g (nth p l d)) (seq 0 (length l)) = map g l.
Proof.
  induction l as [|a l IH]; cbn [length seq map]; [reflexivity|].
  cbn [nth]. f_equal. rewrite <- seq_shift, map_map. exact IH.
Qed.

Lemma qsum_nil : qsum [] = 0%Qc.
Proof. reflexivity. Qed.
Lemma qsum_cons x l : (qsum (x :: l) = x + qsum l)%Qc.
Proof. reflexivity. Qed.

Lemma qsum_app l1 l2 : (qsum (l1 ++ l2) = qsum l1 + qsum l2)%Qc.
Proof.
  induction l1 as [|x l1 IH]; cbn [app]; rewrite ?qsum_cons, ?qsum_nil; [ring|].
  rewrite IH. ring.
Qed.

Lemma qsum_perm l l' : Permutation l l' -> qsum l = qsum l'.
Proof.
  induction 1 as [|x l l' _ IH|x y l|l l' l'' _ IH1 _ IH2]; rewrite ?qsum_cons.
  - reflexivity.
  - now rewrite IH.
  - ring.
  - congruence.
Qed.

Lemma qsum_map_ext {A} (f g : A -> Qc) l : (forall x, In x l -> f x = g x) -> qsum (map f l) = qsum (map g l).
Proof. intros H. f_equal. now apply map_ext_in. Qed.

Lemma qsum_map_zero {A} (f : A -> Qc) l : (forall x, In x l -> f x = 0%Qc) -> qsum (map f l) = 0%Qc.
Proof.
  intros H. apply qsum_zero. apply Forall_forall. intros y Hy.
  apply in_map_iff in Hy as (x & <- & Hx). now apply H.
Qed.

(* a sum over [0, W) whose terms vanish from E on is the sum over [0, E) *)
Lemma qsum_seq_trunc (f : nat -> Qc) E W :
  (E <= W)%nat -> (forall e, (E <= e)%nat -> f e = 0%Qc) ->
  qsum (map f (seq 0 W)) = qsum (map f (seq 0 E)).
Proof.
  intros Hle Hz. replace W with (E + (W - E))%nat by lia.
  rewrite seq_app, map_app, qsum_app. cbn [Nat.add].
  rewrite (qsum_map_zero f (seq E (W - E))).
  - ring.
  - intros e He. apply in_seq in He. apply Hz. lia.
Qed.
