(* C14, one piece of Proofs/C14SourceHelpers.v (which see): Plate.merge *)
From Coq Require Import ZArith List Bool Arith Lia ZifyBool.
From Batchie Require Import Lib.Sexp Lib.PyRt Generated.Consts Model.Encode Model.Screen Model.Views
  Generated.SrcEncode Generated.SrcViews Generated.SrcPlates
  Proofs.PyRtLemmas Proofs.C01Sort Proofs.C14Defs Proofs.C14Lists Proofs.C14Unique
  Proofs.C01Source_Encode1d Proofs.C14SourceHelpers_Base Proofs.C14SourceHelpers_PlateName.
Import ListNotations.
Open Scope Z_scope.

Theorem src_plate_merge_is_model : forall self other : view, src_plate_merge self other = view_merge self other.
Proof.
  intros self other. unfold src_plate_merge, view_merge, same_object, view_screen. cbn [fst snd].
  destruct (negb (v_tag other =? v_tag self)); [reflexivity|].
  rewrite src_plate_name_is_model. unfold view_plate_name, view_plate_names, set_view_sel. cbn [v_sel v_parent v_tag].
  set (sel := bor_vec (v_sel self) (v_sel other)). set (p := v_parent self).
  rewrite select_map. destruct (select sel (s_rows p)) as [|r0 rest]; cbn [map res_bind]; [reflexivity|].
  unfold mask_fill. rewrite map_length.
  destruct (negb (Nat.eqb (length sel) (length (s_rows p)))); cbn [res_bind]; [reflexivity|].
  unfold set_screen_plate_names, set_view_screen, with_rows_pids. cbn [fst snd s_rows s_pids v_parent v_tag v_sel].
  rewrite relabel_column.
  rewrite (src_encode_1d_is_model _ None I). cbn [option_map].
  destruct (encode_names (map r_plate (relabel sel (r_plate r0) (s_rows p))) None 6) as [[ids m]|t]; cbn [res_bind fst snd];
    [|reflexivity].
  unfold store_plate_ids. cbn [fst snd s_rows]. rewrite ids_of_column_some. cbn [res_bind]. reflexivity.
Qed.
