(* C03 / C12: facts about the shared encoders and the Screen constructor (Model/Encode.v, Model/Screen.v)
   that the lifecycle proofs need.  Stated and proved here because the shared model files carry no proofs. *)
From Coq Require Import ZArith List Bool Lia Arith.
From Batchie Require Import Lib.Sexp Generated.Consts Model.Encode Model.Screen.
Import ListNotations.
Open Scope Z_scope.

(* ---------- names and keys ---------- *)
Lemma name_cmp_eq a : forall b, name_cmp a b = Eq -> a = b.
Proof.
  induction a as [|x a IH]; intros [|y b] H; cbn [name_cmp] in H; try discriminate; [reflexivity|].
  destruct (x ?= y) eqn:E; try discriminate.
  apply Z.compare_eq in E. subst y. f_equal. now apply IH.
Qed.

Lemma name_cmp_refl a : name_cmp a a = Eq.
Proof. induction a as [|x a IH]; cbn [name_cmp]; [reflexivity|]. now rewrite Z.compare_refl. Qed.

Lemma name_eqb_eq a b : name_eqb a b = true <-> a = b.
Proof.
  unfold name_eqb. split.
  - destruct (name_cmp a b) eqn:E; try discriminate. intros _. now apply name_cmp_eq.
  - intros ->. now rewrite name_cmp_refl.
Qed.

Lemma name_eqb_refl a : name_eqb a a = true.
Proof. now apply name_eqb_eq. Qed.

Lemma tkey_cmp_eq a b : tkey_cmp a b = Eq -> a = b.
Proof.
  destruct a as [n d], b as [n' d']. unfold tkey_cmp. cbn [fst snd].
  destruct (name_cmp n n') eqn:E; try discriminate.
  intros H. apply name_cmp_eq in E. apply Z.compare_eq in H. now subst.
Qed.

Lemma tkey_cmp_refl a : tkey_cmp a a = Eq.
Proof. destruct a as [n d]. unfold tkey_cmp. cbn [fst snd]. rewrite name_cmp_refl. apply Z.compare_refl. Qed.

Lemma tkey_eqb_eq a b : tkey_eqb a b = true <-> a = b.
Proof.
  unfold tkey_eqb. split.
  - destruct (tkey_cmp a b) eqn:E; try discriminate. intros _. now apply tkey_cmp_eq.
  - intros ->. now rewrite tkey_cmp_refl.
Qed.

(* ---------- sort_uniq keeps every element ---------- *)
Section SortUniqIn.
Context {K : Type} (cmp : K -> K -> comparison).
Hypothesis cmp_eq : forall a b, cmp a b = Eq -> a = b.

Lemma In_insert_uniq k l x : In x (insert_uniq cmp k l) <-> x = k \/ In x l.
Proof.
  induction l as [|a l IH]; cbn [insert_uniq In].
  - intuition.
  - destruct (cmp k a) eqn:E; cbn [In].
    + apply cmp_eq in E. subst a. intuition.
    + intuition.
    + rewrite IH. intuition.
Qed.

Lemma In_sort_uniq l x : In x (sort_uniq cmp l) <-> In x l.
Proof.
  unfold sort_uniq. induction l as [|a l IH]; cbn [fold_right In]; [reflexivity|].
  rewrite In_insert_uniq, IH. intuition.
Qed.
End SortUniqIn.

(* ---------- opt_map_all ---------- *)
Lemma opt_map_all_Some {A B} (f : A -> option B) l r :
  opt_map_all f l = Some r -> map Some r = map f l.
Proof.
  revert r; induction l as [|a l IH]; intros r H; cbn [opt_map_all] in H.
  - now inversion H.
  - unfold opt_bind in H. destruct (f a) eqn:Ea; [|discriminate].
    destruct (opt_map_all f l) eqn:El; [|discriminate]. inversion H; subst.
    cbn [map]. now rewrite Ea, (IH l0 eq_refl).
Qed.

Lemma opt_map_all_length {A B} (f : A -> option B) l r :
  opt_map_all f l = Some r -> length r = length l.
Proof. intros H. apply opt_map_all_Some in H. apply (f_equal (@length _)) in H. now rewrite !map_length in H. Qed.

Lemma opt_map_all_nth {A B} (f : A -> option B) l r (da : A) (db : B) i :
  opt_map_all f l = Some r -> (i < length l)%nat -> f (nth i l da) = Some (nth i r db).
Proof.
  intros H Hi. pose proof (opt_map_all_length _ _ _ H) as Hl. apply opt_map_all_Some in H.
  apply (f_equal (fun x => nth i x None)) in H.
  rewrite (nth_indep _ None (Some db)) in H by (rewrite map_length; lia).
  rewrite (nth_indep (map f l) None (f da)) in H by (rewrite map_length; lia).
  now rewrite !map_nth in H.
Qed.

Lemma opt_map_all_total {A B} (f : A -> option B) l :
  (forall x, In x l -> f x <> None) -> exists r, opt_map_all f l = Some r.
Proof.
  induction l as [|a l IH]; intros H; cbn [opt_map_all]; [now eexists|].
  destruct (f a) eqn:Ea; [|exfalso; apply (H a); [now left|exact Ea]].
  destruct IH as [r Hr]; [intros x Hx; apply H; now right|].
  unfold opt_bind. rewrite Hr. now eexists.
Qed.

Lemma opt_map_all_ext {A B} (f g : A -> option B) l :
  (forall x, In x l -> f x = g x) -> opt_map_all f l = opt_map_all g l.
Proof.
  induction l as [|a l IH]; intros H; cbn [opt_map_all]; [reflexivity|].
  rewrite (H a) by now left. rewrite IH by (intros x Hx; apply H; now right). reflexivity.
Qed.

(* ---------- lookups ---------- *)
Lemma nlookup_In m k i : nlookup m k = Some i -> In (k, i) m.
Proof.
  induction m as [|[k' i'] m IH]; cbn [nlookup]; [discriminate|].
  destruct (name_eqb k k') eqn:E.
  - intros H; inversion H; subst. apply name_eqb_eq in E. subst. now left.
  - intros H. right. now apply IH.
Qed.

Lemma nlookup_found m k i : In (k, i) m -> nlookup m k <> None.
Proof.
  induction m as [|[k' i'] m IH]; cbn [nlookup In]; [tauto|].
  intros [H|H].
  - inversion H; subst. now rewrite name_eqb_refl.
  - destruct (name_eqb k k'); [discriminate|now apply IH].
Qed.

Lemma tlookup_found m k i : In (k, i) m -> tlookup m k <> None.
Proof.
  induction m as [|[k' i'] m IH]; cbn [tlookup In]; [tauto|].
  intros [H|H].
  - inversion H; subst. destruct (tkey_eqb k k) eqn:E; [discriminate|].
    pose proof (proj2 (tkey_eqb_eq k k) eq_refl). congruence.
  - destruct (tkey_eqb k k'); [discriminate|now apply IH].
Qed.

Lemma number_from_keys {A} (l : list A) idx : map fst (number_from idx l) = l.
Proof. revert idx; induction l as [|a l IH]; intros idx; cbn [number_from map fst]; [reflexivity|]. now rewrite IH. Qed.

Lemma number_from_ge {A} (l : list A) idx a i : In (a, i) (number_from idx l) -> idx <= i.
Proof.
  revert idx; induction l as [|b l IH]; intros idx; cbn [number_from In]; [tauto|].
  intros [H|H]; [inversion H; lia|]. apply IH in H. lia.
Qed.

Lemma number_from_inj {A} (l : list A) idx a b i :
  In (a, i) (number_from idx l) -> In (b, i) (number_from idx l) -> a = b.
Proof.
  revert idx; induction l as [|c l IH]; intros idx; cbn [number_from In]; [tauto|].
  intros [H1|H1] [H2|H2].
  - congruence.
  - inversion H1; subst. apply number_from_ge in H2. lia.
  - inversion H2; subst. apply number_from_ge in H1. lia.
  - eapply IH; eassumption.
Qed.

Lemma assign_from_keys ctrl l idx cum : map fst (assign_from ctrl idx cum l) = l.
Proof.
  revert idx cum; induction l as [|a l IH]; intros idx cum; cbn [assign_from map fst]; [reflexivity|]. now rewrite IH.
Qed.

Lemma In_map_fst_pair {A B} (l : list (A * B)) a : In a (map fst l) -> exists b, In (a, b) l.
Proof.
  induction l as [|[x y] l IH]; cbn [map In fst]; [tauto|].
  intros [H|H]; [subst; eexists; now left|]. destruct (IH H) as [b Hb]. eexists; right; eassumption.
Qed.

(* a mapping built from the data covers the data *)
Lemma build_nmapping_total names k : In k names -> nlookup (build_nmapping names) k <> None.
Proof.
  intros H. unfold build_nmapping.
  assert (Hin : In k (map fst (number_from 0 (sort_uniq name_cmp names)))).
  { rewrite number_from_keys. apply In_sort_uniq; [exact name_cmp_eq|exact H]. }
  destruct (In_map_fst_pair _ _ Hin) as [i Hi]. eapply nlookup_found; eassumption.
Qed.

Lemma build_tmapping_total ctrl keys k : In k keys -> tlookup (build_tmapping ctrl keys) k <> None.
Proof.
  intros H. unfold build_tmapping.
  assert (Hin : In k (map fst (assign_from ctrl 0 0 (sort_uniq tkey_cmp keys)))).
  { rewrite assign_from_keys. apply In_sort_uniq; [exact tkey_cmp_eq|exact H]. }
  destruct (In_map_fst_pair _ _ Hin) as [i Hi]. eapply tlookup_found; eassumption.
Qed.

(* ids of a built 1-d mapping identify the name *)
Lemma build_nmapping_inj names a b i :
  nlookup (build_nmapping names) a = Some i -> nlookup (build_nmapping names) b = Some i -> a = b.
Proof.
  intros Ha Hb. apply nlookup_In in Ha. apply nlookup_In in Hb. eapply number_from_inj; eassumption.
Qed.

Lemma encode_names_built_total names tag : exists ids, encode_names names None tag = Ok (ids, build_nmapping names).
Proof.
  unfold encode_names.
  destruct (opt_map_all_total (nlookup (build_nmapping names)) names) as [r Hr].
  - intros x Hx. now apply build_nmapping_total.
  - rewrite Hr. now eexists.
Qed.

Lemma encode_treatments_built_total keys ctrl :
  exists ids, encode_treatments keys ctrl None = Ok (ids, build_tmapping ctrl keys).
Proof.
  unfold encode_treatments.
  destruct (opt_map_all_total (tlookup (build_tmapping ctrl keys)) keys) as [r Hr].
  - intros x Hx. now apply build_tmapping_total.
  - rewrite Hr. now eexists.
Qed.

Lemma encode_names_inv names ex tag ids m :
  encode_names names ex tag = Ok (ids, m) ->
  m = match ex with Some m' => m' | None => build_nmapping names end /\ opt_map_all (nlookup m) names = Some ids.
Proof.
  unfold encode_names. set (m0 := match ex with Some m' => m' | None => build_nmapping names end).
  destruct (opt_map_all (nlookup m0) names) eqn:E; [|discriminate].
  intros H; inversion H; subst. split; [reflexivity|exact E].
Qed.

Lemma encode_treatments_inv keys ctrl ex ids m :
  encode_treatments keys ctrl ex = Ok (ids, m) ->
  m = match ex with Some m' => m' | None => build_tmapping ctrl keys end /\ opt_map_all (tlookup m) keys = Some ids.
Proof.
  unfold encode_treatments. set (m0 := match ex with Some m' => m' | None => build_tmapping ctrl keys end).
  destruct (opt_map_all (tlookup m0) keys) eqn:E; [|discriminate].
  intros H; inversion H; subst. split; [reflexivity|exact E].
Qed.
