(* C14, one piece of Proofs/C14Source.v (conventions and objects: see there): ScreenSubset.invert *)
From Coq Require Import ZArith List Bool Arith Lia ZifyBool.
From Batchie Require Import Lib.Sexp Lib.PyRt Model.Encode Model.Screen Model.Views Generated.SrcViews
  Proofs.PyRtLemmas Proofs.C14Lists Proofs.C14Source_Base Proofs.C14Source_ViewInit.
Import ListNotations.
Open Scope Z_scope.

Theorem src_view_invert_is_model : forall v : view, src_view_invert v = view_invert v.
Proof. intros v. unfold src_view_invert. rewrite src_view_init_is_model, res_bind_ok. reflexivity. Qed.
