(* C10: the dict methods of the two posterior-sample classes (private_parameters_dict / shared_parameters_dict / from_dicts)
   and Theta.equals, re-translated from /repo on every run (Generated/SrcThetaDicts.v, by harness/py2gal.py), equal the
   hand-written model Model/ThetaDicts.v for all inputs; from_dicts inverts the two dict methods; the primitives the
   ThetaHolder.save_h5 / load_h5 configurations (C10_SAVE / C10_LOAD) gave to these three calls are these translations on the
   representation sample -> (private dict, shared dict); Theta.equals is the model equality of the samples. *)
From Coq Require Import ZArith List Bool Lia ZifyBool.
From Batchie Require Import Lib.Sexp Lib.PyRt Model.Thetas Model.ThetaDicts Generated.SrcThetas Generated.SrcThetaDicts.
From Batchie Require Import Proofs.PyRtLemmas Proofs.C10Thetas Proofs.C10Source.
From Coq Require String.
Import ListNotations.
Import String.StringSyntax.
Local Open Scope string_scope.
Open Scope Z_scope.

(* ---- strings and string-keyed dicts ---- *)
Lemma str_eqb_eq (a b : pystr) : str_eqb a b = true <-> a = b.
Proof.
  revert b. induction a as [|x a IH]; intros [|y b]; cbn [str_eqb]; split; intros H; try reflexivity; try discriminate.
  - apply andb_true_iff in H. destruct H as [H1 H2]. apply IH in H2. f_equal; [lia | exact H2].
  - inversion H; subst. apply andb_true_iff. split; [lia | now apply IH].
Qed.

Lemma str_eqb_refl (a : pystr) : str_eqb a a = true.
Proof. now apply str_eqb_eq. Qed.

Lemma str_eqb_sym (a b : pystr) : str_eqb a b = str_eqb b a.
Proof.
  destruct (str_eqb a b) eqn:E.
  - apply str_eqb_eq in E. subst. symmetry. apply str_eqb_refl.
  - destruct (str_eqb b a) eqn:E2; [|reflexivity]. apply str_eqb_eq in E2. subst. now rewrite str_eqb_refl in E.
Qed.

Lemma sdict_get_in {V : Type} (d : list (pystr * V)) k v : In (k, v) d -> exists v', sdict_get d k = Some v'.
Proof.
  induction d as [|[k' w] r IH]; intros H; [contradiction|]. cbn [sdict_get].
  destruct (str_eqb k' k) eqn:E; [now exists w|].
  destruct H as [H|H]; [inversion H; subst; now rewrite str_eqb_refl in E | now apply IH].
Qed.

Lemma sdict_get_key {V : Type} (d : list (pystr * V)) k v :
  sdict_get d k = Some v -> existsb (str_eqb k) (map fst d) = true.
Proof.
  induction d as [|[k' w] r IH]; cbn [sdict_get map fst existsb]; intros H; [discriminate|].
  rewrite (str_eqb_sym k k'). destruct (str_eqb k' k); [reflexivity|]. now apply IH.
Qed.

Section Dicts.
Variables A F : Type.
Notation pval := (pval A F).
Notation pdict := (pdict A F).

(* a dict that is the same finite map as d has its keys among those of d *)
Lemma equiv_keys_among (p d : pdict) : dict_equiv A F p d -> keys_among A F (map fst d) p = true.
Proof.
  intros H. unfold keys_among. apply forallb_forall. intros [k v] Hin. cbn [fst].
  destruct (sdict_get_in p k v Hin) as [v' Hv]. rewrite H in Hv. exact (sdict_get_key d k v' Hv).
Qed.

Lemma equiv_read (p d : pdict) tag k : dict_equiv A F p d -> sdict_read tag p k = sdict_read tag d k.
Proof. intros H. unfold sdict_read. now rewrite H. Qed.

(* ================= SparseDrugComboMCMCSample ================= *)

Theorem src_sc_private_is_model : forall t : sc_sample A F,
  src_sc_private_parameters_dict A F t = Ok (sc_private t).
Proof. intros t. reflexivity. Qed.

(* the inherited Theta.shared_parameters_dict, on an object of ANY class *)
Theorem src_theta_shared_is_model : forall (T : Type) (t : T),
  src_theta_shared_parameters_dict A F T t = Ok (no_shared A F).
Proof. reflexivity. Qed.

Theorem src_sc_from_dicts_is_model : forall p s : pdict,
  src_sc_from_dicts A F p s = sc_from_dicts A F p s.
Proof.
  intros p s. unfold src_sc_from_dicts, sc_from_dicts, sdict_only, kwarg.
  set (b := keys_among A F _ p).
  match goal with |- context [forallb ?f p] => change (forallb f p) with b end.
  destruct b; reflexivity.
Qed.

(* from_dicts gives the sample back from ANY dict that is the same finite map as its private dict (any entry order),
   whatever the shared dict *)
Theorem sc_from_dicts_of_equiv : forall (t : sc_sample A F) (p s : pdict),
  dict_equiv A F p (sc_private t) -> sc_from_dicts A F p s = Ok t.
Proof.
  intros t p s H. unfold sc_from_dicts.
  change [key "W"; key "W0"; key "V2"; key "V1"; key "V0"; key "alpha"; key "precision"] with (map fst (sc_private t)).
  rewrite (equiv_keys_among p (sc_private t) H). cbn [negb].
  unfold kwarg. rewrite !(equiv_read p (sc_private t) 93 _ H). destruct t. reflexivity.
Qed.

Theorem sc_roundtrip : forall (t : sc_sample A F) (s : pdict), sc_from_dicts A F (sc_private t) s = Ok t.
Proof. intros t s. apply sc_from_dicts_of_equiv. intros k. reflexivity. Qed.

(* the round trip through the three TRANSLATED methods *)
Theorem src_sc_roundtrip : forall t : sc_sample A F,
  (dor p <- src_sc_private_parameters_dict A F t;
   dor s <- src_theta_shared_parameters_dict A F (sc_sample A F) t;
   src_sc_from_dicts A F p s) = Ok t.
Proof.
  intros t. rewrite src_sc_private_is_model, src_theta_shared_is_model. cbn [res_bind].
  rewrite src_sc_from_dicts_is_model. apply sc_roundtrip.
Qed.

(* conversely: whatever from_dicts accepts IS (as a finite map) the private dict of the sample it returns *)
Theorem sc_from_dicts_only_of_private : forall (p s : pdict) (t : sc_sample A F),
  sc_from_dicts A F p s = Ok t -> dict_equiv A F p (sc_private t).
Proof.
  intros p s t. unfold sc_from_dicts, kwarg, sdict_read.
  destruct (keys_among A F _ p) eqn:Hk; cbn [negb]; [|discriminate].
  destruct (sdict_get p (key "W")) as [w|] eqn:E1; [|discriminate]. cbn [res_bind].
  destruct (sdict_get p (key "W0")) as [w0|] eqn:E2; [|discriminate]. cbn [res_bind].
  destruct (sdict_get p (key "V2")) as [v2|] eqn:E3; [|discriminate]. cbn [res_bind].
  destruct (sdict_get p (key "V1")) as [v1|] eqn:E4; [|discriminate]. cbn [res_bind].
  destruct (sdict_get p (key "V0")) as [v0|] eqn:E5; [|discriminate]. cbn [res_bind].
  destruct (sdict_get p (key "alpha")) as [al|] eqn:E6; [|discriminate]. cbn [res_bind].
  destruct (sdict_get p (key "precision")) as [pr|] eqn:E7; [|discriminate]. cbn [res_bind].
  destruct w; cbn [as_arr res_bind]; try discriminate.
  destruct w0; cbn [as_arr res_bind]; try discriminate.
  destruct v2; cbn [as_arr res_bind]; try discriminate.
  destruct v1; cbn [as_arr res_bind]; try discriminate.
  destruct v0; cbn [as_arr res_bind]; try discriminate.
  destruct al; cbn [as_num res_bind]; try discriminate.
  destruct pr; cbn [as_num res_bind]; try discriminate.
  intros Ht. inversion Ht; subst; clear Ht. intros k. unfold sc_private. cbn [sc_W sc_W0 sc_V2 sc_V1 sc_V0 sc_alpha sc_precision sdict_get].
  destruct (str_eqb (key "W") k) eqn:K1; [apply str_eqb_eq in K1; subst k; exact E1|].
  destruct (str_eqb (key "W0") k) eqn:K2; [apply str_eqb_eq in K2; subst k; exact E2|].
  destruct (str_eqb (key "V2") k) eqn:K3; [apply str_eqb_eq in K3; subst k; exact E3|].
  destruct (str_eqb (key "V1") k) eqn:K4; [apply str_eqb_eq in K4; subst k; exact E4|].
  destruct (str_eqb (key "V0") k) eqn:K5; [apply str_eqb_eq in K5; subst k; exact E5|].
  destruct (str_eqb (key "alpha") k) eqn:K6; [apply str_eqb_eq in K6; subst k; exact E6|].
  destruct (str_eqb (key "precision") k) eqn:K7; [apply str_eqb_eq in K7; subst k; exact E7|].
  destruct (sdict_get p k) as [v|] eqn:Ek; [|reflexivity]. exfalso.
  (* a key of p outside the seven names contradicts keys_among *)
  assert (Hin : exists v', In (k, v') p).
  { clear -Ek. induction p as [|[k' w] r IH]; cbn [sdict_get] in Ek; [discriminate|].
    destruct (str_eqb k' k) eqn:E; [apply str_eqb_eq in E; subst; exists w; now left|].
    destruct (IH Ek) as [v' Hv]. exists v'. now right. }
  destruct Hin as [v' Hin]. unfold keys_among in Hk. rewrite forallb_forall in Hk. specialize (Hk _ Hin). cbn [fst existsb] in Hk.
  rewrite (str_eqb_sym k (key "W")), (str_eqb_sym k (key "W0")), (str_eqb_sym k (key "V2")), (str_eqb_sym k (key "V1")),
    (str_eqb_sym k (key "V0")), (str_eqb_sym k (key "alpha")), (str_eqb_sym k (key "precision")) in Hk.
  rewrite K1, K2, K3, K4, K5, K6, K7 in Hk. discriminate.
Qed.

(* ================= SparseDrugComboInteractionMCMCSample ================= *)

Theorem src_in_private_is_model : forall t : in_sample A F,
  src_in_private_parameters_dict A F t = Ok (in_private t).
Proof. reflexivity. Qed.

Theorem src_in_shared_is_model : forall t : in_sample A F,
  src_in_shared_parameters_dict A F t = Ok (in_shared t).
Proof. reflexivity. Qed.

Theorem src_in_from_dicts_is_model : forall p s : pdict,
  src_in_from_dicts A F p s = in_from_dicts A F p s.
Proof.
  intros p s. unfold src_in_from_dicts, in_from_dicts, sdict_only, kwarg.
  set (b := keys_among A F _ p).
  match goal with |- context [forallb ?f p] => change (forallb f p) with b end.
  destruct (sdict_read 94 s _) as [k1|e]; [|reflexivity]. cbn [res_bind].
  destruct (sdict_read 94 s _) as [k2|e]; [|reflexivity]. cbn [res_bind].
  destruct (zip_ids k1 k2) as [ks|e]; [|reflexivity]. cbn [res_bind].
  destruct (sdict_read 94 s _) as [vs|e]; [|reflexivity]. cbn [res_bind].
  destruct (zip_vals ks vs) as [kv|e]; [|reflexivity]. cbn [res_bind].
  destruct b; reflexivity.
Qed.

(* the three exported columns zipped back are the rows *)
Lemma rezip_rows (l : table F) :
  combine (combine (map (fun x => fst (fst x)) l) (map (fun x => snd (fst x)) l)) (map (fun x => snd x) l) = l.
Proof. induction l as [|[[a b] v] r IH]; cbn [map combine fst snd]; [reflexivity | now rewrite IH]. Qed.

Lemma pdict_set_fresh (d : table F) a b v :
  ~ In (a, b) (map fst d) -> pdict_set d a b v = d ++ [((a, b), v)].
Proof.
  induction d as [|[[a' b'] v'] r IH]; intros H; cbn [pdict_set app]; [reflexivity|].
  destruct ((a' =? a) && (b' =? b)) eqn:E.
  - exfalso. apply H. left. cbn [fst]. f_equal; lia.
  - rewrite IH; [reflexivity|]. intros X. apply H. now right.
Qed.

Lemma table_fold_distinct (l d : table F) :
  NoDup (map fst d ++ map fst l) ->
  fold_left (fun d kv => pdict_set d (fst (fst kv)) (snd (fst kv)) (snd kv)) l d = d ++ l.
Proof.
  revert d. induction l as [|[[a b] v] r IH]; intros d H; cbn [fold_left fst snd]; [now rewrite app_nil_r|].
  cbn [map fst] in H. rewrite pdict_set_fresh.
  - rewrite IH; [now rewrite <- app_assoc|]. rewrite map_app. cbn [map fst]. now rewrite <- app_assoc.
  - apply NoDup_remove_2 in H. intros X. apply H. apply in_or_app. now left.
Qed.

(* dict(rows) of rows with distinct keys - the items of a dict - is that dict *)
Lemma table_of_items (l : table F) : NoDup (map fst l) -> table_of_pairs l = l.
Proof. intros H. unfold table_of_pairs. now rewrite (table_fold_distinct l []). Qed.

(* from_dicts on ANY dicts that are the same finite maps as the sample's two dicts: the sample with its table rebuilt by
   dict(...) - the sample itself when the table's keys are distinct, as the keys of a Python dict are *)
Theorem in_from_dicts_of_equiv_general : forall (t : in_sample A F) (p s : pdict),
  dict_equiv A F p (in_private t) -> dict_equiv A F s (in_shared t) ->
  in_from_dicts A F p s
  = Ok {| in_W := in_W t; in_V2 := in_V2 t; in_precision := in_precision t; in_lookup := table_of_pairs (in_lookup t) |}.
Proof.
  intros t p s Hp Hs. unfold in_from_dicts.
  rewrite !(equiv_read s (in_shared t) 94 _ Hs).
  change [key "W"; key "V2"; key "precision"] with (map fst (in_private t)).
  rewrite (equiv_keys_among p (in_private t) Hp).
  unfold kwarg. rewrite !(equiv_read p (in_private t) 93 _ Hp).
  destruct t as [w v2 pr l]. unfold in_shared, in_private, sdict_read. cbn [in_lookup in_W in_V2 in_precision].
  cbn [sdict_get str_eqb key res_bind zip_ids zip_vals as_ints as_nums]. cbn. rewrite rezip_rows. reflexivity.
Qed.

Theorem in_from_dicts_of_equiv : forall (t : in_sample A F) (p s : pdict),
  NoDup (map fst (in_lookup t)) ->
  dict_equiv A F p (in_private t) -> dict_equiv A F s (in_shared t) -> in_from_dicts A F p s = Ok t.
Proof.
  intros t p s Hnd Hp Hs. rewrite (in_from_dicts_of_equiv_general t p s Hp Hs), (table_of_items _ Hnd). now destruct t.
Qed.

Theorem in_roundtrip : forall t : in_sample A F,
  NoDup (map fst (in_lookup t)) -> in_from_dicts A F (in_private t) (in_shared t) = Ok t.
Proof. intros t H. apply in_from_dicts_of_equiv; [exact H | |]; intros k; reflexivity. Qed.

(* the empty table: three empty columns out, the empty dict back *)
Corollary in_roundtrip_empty_table : forall (w v2 : A) (pr : F),
  let t := {| in_W := w; in_V2 := v2; in_precision := pr; in_lookup := [] |} in
  in_shared t = [(key "single_effect_lookup_keys1", PInts []); (key "single_effect_lookup_keys2", PInts []);
                 (key "single_effect_lookup_vals", PNums [])]
  /\ in_from_dicts A F (in_private t) (in_shared t) = Ok t.
Proof. intros w v2 pr t. split; [reflexivity | apply in_roundtrip; constructor]. Qed.

Theorem src_in_roundtrip : forall t : in_sample A F,
  NoDup (map fst (in_lookup t)) ->
  (dor p <- src_in_private_parameters_dict A F t;
   dor s <- src_in_shared_parameters_dict A F t;
   src_in_from_dicts A F p s) = Ok t.
Proof.
  intros t H. rewrite src_in_private_is_model, src_in_shared_is_model. cbn [res_bind].
  rewrite src_in_from_dicts_is_model. now apply in_roundtrip.
Qed.

(* ================= consistency with the primitives of C10_SAVE / C10_LOAD =================
   There a sample IS a pair theta P S = (private, shared): `t.private_parameters_dict()` was given the meaning fst t,
   `t.shared_parameters_dict()` the meaning snd t, `C.from_dicts(private_params=p, shared_params=s)` the meaning (p, s).
   With P = S = pdict and the representation sample_theta t = (sample_private t, sample_shared t), these meanings are what
   the translated methods compute. *)
Definition src_private_of (t : sample A F) : result pdict :=
  match t with SCombo c => src_sc_private_parameters_dict A F c | SInter i => src_in_private_parameters_dict A F i end.
Definition src_shared_of (t : sample A F) : result pdict :=
  match t with
  | SCombo c => src_theta_shared_parameters_dict A F (sc_sample A F) c
  | SInter i => src_in_shared_parameters_dict A F i
  end.
(* C.from_dicts for the class C of t *)
Definition src_from_dicts_as (t : sample A F) (p s : pdict) : result (sample A F) :=
  match t with
  | SCombo _ => dor c <- src_sc_from_dicts A F p s; Ok (SCombo c)
  | SInter _ => dor i <- src_in_from_dicts A F p s; Ok (SInter i)
  end.
Definition table_ok (t : sample A F) : Prop :=
  match t with SCombo _ => True | SInter i => NoDup (map fst (in_lookup i)) end.

Theorem save_prim_private_is_source : forall t : sample A F,
  src_private_of t = Ok (fst (sample_theta A F t)).
Proof. intros [c|i]; reflexivity. Qed.

Theorem save_prim_shared_is_source : forall t : sample A F,
  src_shared_of t = Ok (snd (sample_theta A F t)).
Proof. intros [c|i]; reflexivity. Qed.

(* the pair (p, s) that load_h5's primitive builds from a sample's two dicts stands for that sample: from_dicts of the
   sample's class returns it (tables with distinct keys) *)
Theorem load_prim_from_dicts_is_source : forall t : sample A F,
  table_ok t ->
  src_from_dicts_as t (fst (sample_theta A F t)) (snd (sample_theta A F t)) = Ok t.
Proof.
  intros [c|i] H; cbn [src_from_dicts_as sample_theta fst snd sample_private sample_shared].
  - rewrite src_sc_from_dicts_is_model, sc_roundtrip. reflexivity.
  - rewrite src_in_from_dicts_is_model, in_roundtrip by exact H. reflexivity.
Qed.

(* so the representation loses nothing *)
Corollary sample_theta_injective : forall t u : sample A F,
  table_ok t -> table_ok u -> same_class A F t u = true -> sample_theta A F t = sample_theta A F u -> t = u.
Proof.
  intros t u Ht Hu Hc E. pose proof (load_prim_from_dicts_is_source t Ht) as H1.
  pose proof (load_prim_from_dicts_is_source u Hu) as H2. rewrite E in H1.
  destruct t, u; cbn [same_class] in Hc; try discriminate; cbn [src_from_dicts_as] in H1, H2; rewrite H1 in H2; now inversion H2.
Qed.

(* ---- end to end: a collection of samples through the translated save_h5, the file, the translated load_h5 and the
   translated from_dicts comes back sample by sample ---- *)
Definition holder_of (n : Z) (ts : list (sample A F)) : pyobj pdict pdict :=
  as_obj {| h_declared := n; h_thetas := map (sample_theta A F) ts |}.

Lemma from_dicts_all (ts : list (sample A F)) :
  (forall t, In t ts -> table_ok t) ->
  res_map_all (fun tt' : sample A F * theta pdict pdict => src_from_dicts_as (fst tt') (fst (snd tt')) (snd (snd tt')))
              (combine ts (map (sample_theta A F) ts)) = Ok ts.
Proof.
  induction ts as [|t r IH]; intros H; cbn [map combine res_map_all]; [reflexivity|]. cbn [fst snd].
  rewrite load_prim_from_dicts_is_source by (apply H; now left). cbn [res_bind].
  rewrite IH by (intros x Hx; apply H; now right). reflexivity.
Qed.

Theorem src_samples_persist : forall (n : Z) (ts : list (sample A F)),
  ts <> [] -> Z.of_nat (length ts) <= n ->
  (forall t u, In t ts -> In u ts -> sample_shared A F t = sample_shared A F u) ->
  (forall t, In t ts -> table_ok t) ->
  (dor w <- src_save_h5 pdict pdict (holder_of n ts);
   dor f <- h5_close w;
   dor o <- src_load_h5 pdict pdict f;
   dor back <- res_map_all (fun tt' : sample A F * theta pdict pdict =>
                              src_from_dicts_as (fst tt') (fst (snd tt')) (snd (snd tt')))
                           (combine ts (attr_thetas o));
   Ok (attr_n_thetas o, back))
  = Ok (n, ts).
Proof.
  intros n ts Hne Hlen Hsh Hok.
  pose proof (src_save_load_is_model pdict pdict (holder_of n ts)) as H.
  assert (Hsl : save_load pdict pdict (snd (holder_of n ts)) = Ok (snd (holder_of n ts))).
  { apply load_save; unfold within_declared, shared_uniform, holder_of, as_obj; cbn [snd h_thetas h_declared].
    - destruct ts; [now elim Hne | discriminate].
    - unfold hlen. cbn [h_thetas]. now rewrite map_length.
    - intros x y Hx Hy. apply in_map_iff in Hx. apply in_map_iff in Hy.
      destruct Hx as [t [Ex Ht]]. destruct Hy as [u [Ey Hu]]. subst x y. cbn [sample_theta snd]. now apply Hsh. }
  rewrite Hsl in H. cbn [res_bind] in H.
  destruct (src_save_h5 pdict pdict (holder_of n ts)) as [w|e]; cbn [res_bind] in H |- *; [|discriminate].
  destruct (h5_close w) as [f|e]; cbn [res_bind] in H |- *; [|discriminate].
  rewrite H. cbn [res_bind]. unfold holder_of, as_obj, attr_thetas, attr_n_thetas. cbn [snd h_thetas h_declared].
  rewrite from_dicts_all by exact Hok. reflexivity.
Qed.

(* ================= Theta.equals ================= *)
Variables (aeqb : A -> A -> bool) (feqb : F -> F -> bool).

Definition incl_state (r : result bool) : result (option bool) := dor e <- r; Ok (if e then None else Some false).

(* the loop over d1.items(): it stops with Some false at the first entry without an equal partner in d2 *)
Lemma equals_inner_loop (d2 : pdict) (f : option bool -> pystr * pval -> result (bool * option bool)) :
  (forall st k v, f st (k, v) =
     match sdict_get d2 k with
     | None => Ok (false, Some false)
     | Some w => dor e <- pval_equal A F aeqb feqb v w; Ok (if e then (true, st) else (false, Some false))
     end) ->
  forall d1, res_fold_brk f d1 None = incl_state (dict_included A F aeqb feqb d1 d2).
Proof.
  intros Hf. induction d1 as [|[k v] r IH]; cbn [res_fold_brk dict_included]; [reflexivity|].
  rewrite Hf. destruct (sdict_get d2 k) as [w|]; [|reflexivity].
  destruct (pval_equal A F aeqb feqb v w) as [[|]|e]; cbn [res_bind fst snd]; [exact IH | reflexivity | reflexivity].
Qed.

Theorem src_theta_equals_is_model :
  forall (T : Type) (same : T -> T -> bool) (priv shar : T -> result pdict) (a b : T),
  src_theta_equals A F aeqb feqb T same priv shar a b = theta_equals A F aeqb feqb same priv shar a b.
Proof.
  intros T same priv shar a b. unfold src_theta_equals, theta_equals.
  destruct (same a b); cbn [negb]; [|reflexivity].
  destruct (priv a) as [p1|e]; [|reflexivity]. cbn [res_bind].
  destruct (priv b) as [p2|e]; [|reflexivity]. cbn [res_bind].
  destruct (shar a) as [s1|e]; [|reflexivity]. cbn [res_bind].
  destruct (shar b) as [s2|e]; [|reflexivity]. cbn [res_bind].
  assert (Hbody : forall d2 : pdict, forall st k v,
    (fun (ret : option bool) '(it1, it2) =>
       let k' := it1 in let v' := it2 in
       if negb (sdict_mem d2 k') then Ok (false, Some false)
       else if pval_is_number v' then
              dor r1 <- sdict_read 94 d2 k'; dor r2 <- py_ne feqb v' r1;
              if r2 then Ok (false, Some false) else Ok (true, ret)
            else if pval_is_array v' then
                   dor r3 <- sdict_read 94 d2 k'; dor r4 <- np_array_equal aeqb feqb v' r3;
                   if negb r4 then Ok (false, Some false) else Ok (true, ret)
                 else dor r5 <- sdict_read 94 d2 k'; dor r6 <- py_ne feqb v' r5;
                      if r6 then Ok (false, Some false) else Ok (true, ret)) st (k, v)
    = match sdict_get d2 k with
      | None => Ok (false, Some false)
      | Some w => dor e <- pval_equal A F aeqb feqb v w; Ok (if e then (true, st) else (false, Some false))
      end).
  { intros d2 st k v. cbn beta iota zeta. unfold sdict_mem, sdict_read, pval_equal.
    destruct (sdict_get d2 k) as [w|]; cbn [negb]; [|reflexivity].
    destruct v, w; cbn [pval_is_number pval_is_array py_ne np_array_equal res_bind negb]; try reflexivity;
      match goal with
      | |- context [aeqb ?x ?y] => destruct (aeqb x y)
      | |- context [feqb ?x ?y] => destruct (feqb x y)
      | |- context [list_eqb ?e ?x ?y] => destruct (list_eqb e x y)
      end; reflexivity. }
  cbn [res_fold_brk].
  rewrite (equals_inner_loop p2 _ (Hbody p2)).
  destruct (dict_included A F aeqb feqb p1 p2) as [[|]|e]; cbn [incl_state res_bind fst snd]; [|reflexivity|reflexivity].
  rewrite (equals_inner_loop s2 _ (Hbody s2)).
  destruct (dict_included A F aeqb feqb s1 s2) as [[|]|e]; reflexivity.
Qed.

(* equals on the two shipped classes, with the class's own dict methods: the model equalities *)
Lemma list_eqb_refl_z (l : list Z) : list_eqb Z.eqb l l = true.
Proof. induction l as [|x l IH]; cbn [list_eqb]; [reflexivity|]. rewrite Z.eqb_refl. exact IH. Qed.

Theorem sc_equals_is_eqb : forall a b : sc_sample A F,
  theta_equals A F aeqb feqb (fun _ _ => true) (fun t => Ok (sc_private t)) (fun _ => Ok (no_shared A F)) a b
  = Ok (sc_eqb A F aeqb feqb a b).
Proof.
  intros [w w0 v2 v1 v0 al pr] [w' w0' v2' v1' v0' al' pr']. unfold theta_equals, sc_eqb, sc_private, no_shared.
  cbn [negb res_bind sc_W sc_W0 sc_V2 sc_V1 sc_V0 sc_alpha sc_precision].
  cbn [dict_included sdict_get str_eqb key]. cbn.
  destruct (aeqb w w'); [|reflexivity]. destruct (aeqb w0 w0'); [|reflexivity]. destruct (aeqb v2 v2'); [|reflexivity].
  destruct (aeqb v1 v1'); [|reflexivity]. destruct (aeqb v0 v0'); [|reflexivity]. destruct (feqb al al'); [|reflexivity].
  destruct (feqb pr pr'); reflexivity.
Qed.

Theorem in_equals_is_eqb : forall a b : in_sample A F,
  theta_equals A F aeqb feqb (fun _ _ => true) (fun t => Ok (in_private t)) (fun t => Ok (in_shared t)) a b
  = Ok (in_eqb A F aeqb feqb a b).
Proof.
  intros [w v2 pr l] [w' v2' pr' l']. unfold theta_equals, in_eqb, table_eqb, in_private, in_shared.
  cbn [negb res_bind in_W in_V2 in_precision in_lookup].
  cbn [dict_included sdict_get str_eqb key]. cbn.
  destruct (aeqb w w'); [|reflexivity]. destruct (aeqb v2 v2'); [|reflexivity]. destruct (feqb pr pr'); [|reflexivity].
  cbn [andb res_bind].
  destruct (list_eqb Z.eqb (map (fun x => fst (fst x)) l) (map (fun x => fst (fst x)) l')); [|reflexivity].
  destruct (list_eqb Z.eqb (map (fun x => snd (fst x)) l) (map (fun x => snd (fst x)) l')); [|reflexivity].
  destruct (list_eqb feqb (map (fun x => snd x) l) (map (fun x => snd x) l')); reflexivity.
Qed.

(* the whole picture: Theta.equals as translated, on any two shipped samples, dispatching to the TRANSLATED dict methods
   of each sample's class, is the model equality (false across classes) *)
Theorem src_equals_is_sample_eqb : forall a b : sample A F,
  src_theta_equals A F aeqb feqb (sample A F) (same_class A F) src_private_of src_shared_of a b
  = Ok (sample_eqb A F aeqb feqb a b).
Proof.
  intros a b. rewrite src_theta_equals_is_model.
  destruct a as [x|x], b as [y|y]; cbn [sample_eqb]; try reflexivity.
  - rewrite <- (sc_equals_is_eqb x y). reflexivity.
  - rewrite <- (in_equals_is_eqb x y). reflexivity.
Qed.

(* ---- equals is true exactly when the dict representations agree ---- *)
Lemma list_eqb_forall2 {X : Type} (e : X -> X -> bool) (l l' : list X) :
  list_eqb e l l' = true <-> Forall2 (fun x y => e x y = true) l l'.
Proof.
  revert l'. induction l as [|x l IH]; intros [|y l']; cbn [list_eqb]; split; intros H; try discriminate; try constructor;
    try (inversion H; fail).
  - now apply andb_true_iff in H.
  - apply IH. now apply andb_true_iff in H.
  - inversion H; subst. apply andb_true_iff. split; [assumption | now apply IH].
Qed.

Lemma list_eqb_z_eq (l l' : list Z) : list_eqb Z.eqb l l' = true <-> l = l'.
Proof.
  rewrite list_eqb_forall2. split; intros H.
  - induction H as [|x y l l' Hxy _ IH]; [reflexivity|]. f_equal; [lia | exact IH].
  - subst. induction l' as [|x l IH]; constructor; [apply Z.eqb_refl | exact IH].
Qed.

Theorem sc_eqb_iff_agree : forall a b : sc_sample A F,
  sc_eqb A F aeqb feqb a b = true <-> pdict_agree A F aeqb feqb (sc_private a) (sc_private b).
Proof.
  intros [w w0 v2 v1 v0 al pr] [w' w0' v2' v1' v0' al' pr']. unfold sc_eqb, sc_private, pdict_agree.
  cbn [sc_W sc_W0 sc_V2 sc_V1 sc_V0 sc_alpha sc_precision]. split.
  - intros H. repeat (apply andb_true_iff in H; destruct H as [H ?]).
    repeat (constructor; [split; [reflexivity | now constructor]|]). constructor.
  - intros H.
    repeat match goal with H : Forall2 _ (_ :: _) (_ :: _) |- _ => inversion H; subst; clear H end.
    repeat match goal with H : _ /\ _ |- _ => destruct H end. cbn [snd] in *.
    repeat match goal with H : pval_agree _ _ _ _ _ _ |- _ => inversion H; subst; clear H end.
    repeat (apply andb_true_iff; split); assumption.
Qed.

Theorem in_eqb_iff_agree : forall a b : in_sample A F,
  in_eqb A F aeqb feqb a b = true
  <-> pdict_agree A F aeqb feqb (in_private a) (in_private b) /\ pdict_agree A F aeqb feqb (in_shared a) (in_shared b).
Proof.
  intros [w v2 pr l] [w' v2' pr' l']. unfold in_eqb, table_eqb, in_private, in_shared, pdict_agree.
  cbn [in_W in_V2 in_precision in_lookup]. split.
  - intros H. apply andb_true_iff in H. destruct H as [H Ht].
    apply andb_true_iff in H. destruct H as [H Hpr]. apply andb_true_iff in H. destruct H as [Hw Hv2].
    apply andb_true_iff in Ht. destruct Ht as [Ht H3]. apply andb_true_iff in Ht. destruct Ht as [H1 H2].
    apply list_eqb_z_eq in H1. apply list_eqb_z_eq in H2. apply list_eqb_forall2 in H3.
    split.
    + repeat (constructor; [split; [reflexivity | now constructor]|]). constructor.
    + rewrite H1, H2. repeat (constructor; [split; [reflexivity | now constructor]|]). constructor.
  - intros [H1 H2].
    repeat match goal with H : Forall2 _ (_ :: _) (_ :: _) |- _ => inversion H; subst; clear H end.
    repeat match goal with H : _ /\ _ |- _ => destruct H end. cbn [snd] in *.
    repeat match goal with H : pval_agree _ _ _ _ _ _ |- _ => inversion H; subst; clear H end.
    repeat (apply andb_true_iff; split); try assumption; try (apply list_eqb_z_eq; congruence).
    now apply list_eqb_forall2.
Qed.

Theorem src_equals_true_iff_agree : forall a b : sample A F,
  src_theta_equals A F aeqb feqb (sample A F) (same_class A F) src_private_of src_shared_of a b = Ok true
  <-> same_class A F a b = true
      /\ pdict_agree A F aeqb feqb (sample_private A F a) (sample_private A F b)
      /\ pdict_agree A F aeqb feqb (sample_shared A F a) (sample_shared A F b).
Proof.
  intros a b. rewrite src_equals_is_sample_eqb.
  destruct a as [x|x], b as [y|y]; cbn [sample_eqb same_class sample_private sample_shared].
  - rewrite <- sc_eqb_iff_agree. split.
    + intros H. inversion H as [H']. rewrite H'. repeat split; constructor.
    + intros [_ [H _]]. now rewrite H.
  - split; [discriminate | intros [H _]; discriminate].
  - split; [discriminate | intros [H _]; discriminate].
  - pose proof (in_eqb_iff_agree x y) as E. split.
    + intros H. inversion H as [H']. split; [reflexivity | now apply E].
    + intros [_ H]. apply E in H. now rewrite H.
Qed.

(* when == on floats and np.array_equal on arrays decide equality of the VALUES (no NaN; -0.0 and 0.0 taken as one value):
   equals is true exactly when the two samples have the same dict representation, i.e. are the same sample *)
Section Reflecting.
Hypothesis aeqb_eq : forall x y, aeqb x y = true <-> x = y.
Hypothesis feqb_eq : forall x y, feqb x y = true <-> x = y.

Lemma list_eqb_f_eq (l l' : list F) : list_eqb feqb l l' = true <-> l = l'.
Proof.
  rewrite list_eqb_forall2. split; intros H.
  - induction H as [|x y l l' Hxy _ IH]; [reflexivity|]. f_equal; [now apply feqb_eq | exact IH].
  - subst. induction l' as [|x l IH]; constructor; [now apply feqb_eq | exact IH].
Qed.

Lemma columns_eq (l l' : table F) :
  map (fun x => fst (fst x)) l = map (fun x => fst (fst x)) l' ->
  map (fun x => snd (fst x)) l = map (fun x => snd (fst x)) l' ->
  map (fun x => snd x) l = map (fun x => snd x) l' -> l = l'.
Proof.
  revert l'. induction l as [|[[a b] v] l IH]; intros [|[[a' b'] v'] l']; cbn [map fst snd]; intros H1 H2 H3;
    try discriminate; [reflexivity|].
  inversion H1; inversion H2; inversion H3; subst. f_equal. now apply IH.
Qed.

Theorem sample_eqb_eq : forall a b : sample A F, sample_eqb A F aeqb feqb a b = true <-> a = b.
Proof.
  intros [[w w0 v2 v1 v0 al pr]|[w v2 pr l]] [[w' w0' v2' v1' v0' al' pr']|[w' v2' pr' l']]; cbn [sample_eqb]; split; intros H;
    try discriminate.
  - unfold sc_eqb in H. cbn [sc_W sc_W0 sc_V2 sc_V1 sc_V0 sc_alpha sc_precision] in H.
    repeat (apply andb_true_iff in H; destruct H as [H ?]).
    repeat match goal with H : aeqb _ _ = true |- _ => apply aeqb_eq in H end.
    repeat match goal with H : feqb _ _ = true |- _ => apply feqb_eq in H end. now subst.
  - inversion H; subst. unfold sc_eqb. cbn [sc_W sc_W0 sc_V2 sc_V1 sc_V0 sc_alpha sc_precision].
    repeat (apply andb_true_iff; split); try (now apply aeqb_eq); now apply feqb_eq.
  - unfold in_eqb, table_eqb in H. cbn [in_W in_V2 in_precision in_lookup] in H.
    apply andb_true_iff in H. destruct H as [H Ht].
    apply andb_true_iff in H. destruct H as [H Hpr]. apply andb_true_iff in H. destruct H as [Hw Hv2].
    apply andb_true_iff in Ht. destruct Ht as [Ht H3]. apply andb_true_iff in Ht. destruct Ht as [H1 H2].
    apply aeqb_eq in Hw. apply aeqb_eq in Hv2. apply feqb_eq in Hpr.
    apply list_eqb_z_eq in H1. apply list_eqb_z_eq in H2. apply list_eqb_f_eq in H3.
    subst. f_equal. f_equal. now apply columns_eq.
  - inversion H; subst. unfold in_eqb, table_eqb. cbn [in_W in_V2 in_precision in_lookup].
    repeat (apply andb_true_iff; split); try (now apply aeqb_eq); try (now apply feqb_eq); try (now apply list_eqb_z_eq).
    now apply list_eqb_f_eq.
Qed.

Lemma sample_theta_eq_class (a b : sample A F) : sample_theta A F a = sample_theta A F b -> same_class A F a b = true.
Proof. destruct a, b; cbn [same_class]; intros H; try reflexivity; inversion H. Qed.

Lemma sample_theta_eq (a b : sample A F) : sample_theta A F a = sample_theta A F b -> a = b.
Proof.
  destruct a as [[w w0 v2 v1 v0 al pr]|[w v2 pr l]], b as [[w' w0' v2' v1' v0' al' pr']|[w' v2' pr' l']]; intros H;
    inversion H; subst; try reflexivity.
  f_equal. f_equal. apply columns_eq; assumption.
Qed.

Theorem src_equals_true_iff_same_representation : forall a b : sample A F,
  src_theta_equals A F aeqb feqb (sample A F) (same_class A F) src_private_of src_shared_of a b = Ok true
  <-> sample_theta A F a = sample_theta A F b.
Proof.
  intros a b. rewrite src_equals_is_sample_eqb. split.
  - intros H. inversion H as [H']. apply sample_eqb_eq in H'. now subst.
  - intros H. apply sample_theta_eq in H. subst. f_equal. now apply sample_eqb_eq.
Qed.
End Reflecting.

End Dicts.
