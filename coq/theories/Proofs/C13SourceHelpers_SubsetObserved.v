(* C13 / C11, one piece of Proofs/C13SourceHelpers.v (representation and side conditions: see there): Screen.subset_unobserved / subset_observed *)
From Coq Require Import ZArith List Bool Arith Lia ZifyBool.
From Batchie Require Import Lib.Sexp Lib.PyRt Generated.Consts Model.Encode Model.Screen Model.Views Model.Retro Model.RetroHoldout
  Generated.SrcEncode Generated.SrcViews Generated.SrcPlates
  Proofs.PyRtLemmas Proofs.C01Sort Proofs.C01Encode Proofs.C14Defs Proofs.C14Lists Proofs.C14Unique Proofs.C14Views
  Proofs.C14ToScreen
  Proofs.C14Source_SubsetObserved Proofs.C13SourceHelpers_Base.
Import ListNotations.
Open Scope nat_scope.

(* ---------------- subset_unobserved / subset_observed ---------------- *)

Theorem src_subset_unobserved_is_retro : forall (t : Z) (p : screen), screen_wf p ->
  exists o, src_subset_unobserved (t, p) = Ok o /\ option_map view_rows o = Retro.subset_unobserved (s_rows p) /\
            (forall w, o = Some w -> v_tag w = t /\ v_parent w = p /\ view_ok w).
Proof.
  intros t p (_ & _ & HR & _). rewrite src_subset_unobserved_is_model. cbn [fst snd].
  unfold Views.subset_unobserved, Retro.subset_unobserved, unobserved, screen_mask. rewrite map_map, existsb_id_map_filter.
  destruct (filter (fun r => negb (r_mask r)) (s_rows p)) as [|r0 rest] eqn:E; cbn [PyRt.is_nil Retro.is_nil negb opt_result].
  - exists None. repeat split; discriminate.
  - rewrite screen_subset_ok by (now rewrite map_length). cbn [res_bind]. eexists. split; [reflexivity|].
    cbn [option_map]. unfold view_rows. cbn [v_sel v_parent]. rewrite select_mask_filter, E. split; [reflexivity|].
    intros w [= <-]. unfold view_ok. cbn [v_sel v_parent v_tag]. now rewrite map_length.
Qed.

Theorem src_subset_observed_is_retro : forall (t : Z) (p : screen), screen_wf p ->
  exists o, src_subset_observed (t, p) = Ok o /\ option_map view_rows o = Retro.subset_observed (s_rows p) /\
            (forall w, o = Some w -> v_tag w = t /\ v_parent w = p /\ view_ok w).
Proof.
  intros t p (_ & _ & HR & _). rewrite src_subset_observed_is_model. cbn [fst snd].
  unfold Views.subset_observed, Retro.subset_observed, observed, screen_mask. rewrite existsb_id_map_filter.
  destruct (filter r_mask (s_rows p)) as [|r0 rest] eqn:E; cbn [PyRt.is_nil Retro.is_nil negb opt_result].
  - exists None. repeat split; discriminate.
  - rewrite screen_subset_ok by (now rewrite map_length). cbn [res_bind]. eexists. split; [reflexivity|].
    cbn [option_map]. unfold view_rows. cbn [v_sel v_parent]. rewrite select_mask_filter, E. split; [reflexivity|].
    intros w [= <-]. unfold view_ok. cbn [v_sel v_parent v_tag]. now rewrite map_length.
Qed.
