(* C14, one piece of Proofs/C14Source.v (conventions and objects: see there): ScreenBase.size on a ScreenSubset object *)
From Coq Require Import ZArith List Bool Arith Lia ZifyBool.
From Batchie Require Import Lib.Sexp Lib.PyRt Model.Encode Model.Screen Model.Views Generated.SrcViews
  Proofs.PyRtLemmas Proofs.C14Lists.
Import ListNotations.
Open Scope Z_scope.

(* ScreenBase.size on a ScreenSubset object *)
Theorem src_view_size_is_model : forall v : view, src_view_size v = Ok (Z.of_nat (view_size v)).
Proof. reflexivity. Qed.
