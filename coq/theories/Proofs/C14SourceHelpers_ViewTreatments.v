(* C14, one piece of Proofs/C14SourceHelpers.v (which see): ScreenBase.unique_treatments / n_unique_treatments on a ScreenSubset / Plate object *)
From Coq Require Import ZArith List Bool Arith Lia ZifyBool.
From Batchie Require Import Lib.Sexp Lib.PyRt Generated.Consts Model.Encode Model.Screen Model.Views
  Generated.SrcEncode Generated.SrcViews Generated.SrcPlates
  Proofs.PyRtLemmas Proofs.C01Sort Proofs.C14Defs Proofs.C14Lists Proofs.C14Unique
  Proofs.C14SourceHelpers_Base.
Import ListNotations.
Open Scope Z_scope.

Theorem src_view_unique_treatments_is_model : forall v : view, src_view_unique_treatments v = Ok (view_unique_treatments v).
Proof.
  intros v. unfold src_view_unique_treatments, view_unique_treatments, unique_treatments_of, np_unique2.
  change (src_view_treatment_ids v) with (Ok (view_tids v)). cbn [res_bind snd]. now rewrite setdiff_sentinel.
Qed.

Theorem src_view_n_unique_treatments_is_model : forall v : view,
  src_view_n_unique_treatments v = Ok (Z.of_nat (length (view_unique_treatments v))).
Proof. intros v. unfold src_view_n_unique_treatments. now rewrite src_view_unique_treatments_is_model. Qed.
