(* C05 proofs, part 8: COMPOSITION.  The premise of the property, "all triples of posterior samples are enumerated", is
   discharged from what the source link provides - a recorded rng.choice answer obeying numpy's contract for
   rng.choice(C(T,3), size=C(T,3), replace=False) (the budget covers C(T,3)) - through property C15's bijection:
     full draw  =>  the unranked triples are every a > b > c below T exactly once (complete) and valid
                =>  translated scorer / wrappers / checked kernel return, without error, the direct estimator of each
                    plate alone on ONE reference enumeration, whatever max_chunk, the other plates, their order, the draws. *)
From Coq Require Import ZArith List QArith Qcanon Lia Arith Permutation.
From Batchie Require Import Lib.Sexp Lib.Num Lib.PyRt Lib.ListX Model.Unrank Model.Binom Model.Dbal Generated.SrcDbal
  Proofs.C05Pad Proofs.C05Lse Proofs.C05Kernel Proofs.C05Scorer Proofs.C05Inv Proofs.C05Relabel Proofs.C05Checked
  Proofs.C05Source Proofs.C15Enum Proofs.C15UseSite.
Import ListNotations.

(* a full draw unranks, without error, to a complete enumeration of valid triples *)
Theorem full_draw_complete (T : nat) (d : list Z) :
  (3 <= T)%nat -> choice_ok (comb3 (Z.of_nat T)) (comb3 (Z.of_nat T)) d = true ->
  exists ts, triples_of_draw T d = Ok ts /\ complete T ts /\ Forall (triple_valid T) ts.
Proof.
  intros HT Hok.
  destruct (triples_of_draw_distinct_complete T _ d Hok) as (ts & E & _ & Hnd & Hin & Hall).
  assert (Hc : complete T ts).
  { split; [exact Hnd|]. intros a b c. split; [apply Hin|apply (Hall eq_refl)]. }
  exists ts. split; [exact E|]. split; [exact Hc|]. now apply (complete_valid T).
Qed.

(* a sub-sampled draw (budget below C(T,3)) still unranks without error to distinct valid triples *)
Theorem sub_draw_valid (T : nat) (k : Z) (d : list Z) :
  choice_ok (comb3 (Z.of_nat T)) k d = true ->
  exists ts, triples_of_draw T d = Ok ts /\ Z.of_nat (length ts) = k /\ NoDup ts /\ Forall (triple_valid T) ts.
Proof.
  intros Hok.
  destruct (triples_of_draw_distinct_complete T k d Hok) as (ts & E & Hl & Hnd & Hin & _).
  exists ts. repeat split; try assumption.
  apply Forall_forall. intros [[a b] c] Ht. apply Hin in Ht. cbn. lia.
Qed.

Lemma full_draws_all T draws : (3 <= T)%nat ->
  Forall (fun d => choice_ok (comb3 (Z.of_nat T)) (comb3 (Z.of_nat T)) d = true) draws ->
  exists dts, Forall2 (fun idxs ts => triples_of_draw T idxs = Ok ts) draws dts /\ Forall (complete T) dts.
Proof.
  intros HT. induction draws as [|d draws IH]; intros H.
  - exists []. split; constructor.
  - inversion H as [|? ? Hd Hr]; subst. destruct (IH Hr) as (dts & F & C).
    destruct (full_draw_complete T d HT Hd) as (ts & E & Hc & _).
    exists (ts :: dts). split; constructor; assumption.
Qed.

Lemma combine_firstn_len {A B} (l : list A) : forall (l' : list B), combine l l' = combine l (firstn (length l) l').
Proof.
  induction l as [|a l IH]; intros l'; [reflexivity|]. destruct l' as [|b l']; [reflexivity|].
  cbn [combine length firstn]. now rewrite <- IH.
Qed.

Lemma in_firstn {A} (x : A) n : forall l, In x (firstn n l) -> In x l.
Proof.
  induction n as [|n IH]; intros l H; [contradiction|]. destruct l as [|a l]; [contradiction|].
  cbn [firstn] in H. destruct H as [->|H]; [now left|right; now apply IH].
Qed.

Lemma scorer_firstn orc mc (plates : list (Z * plate)) D dts :
  scorer orc mc plates D dts = scorer orc mc plates D (firstn (length (array_split plates (ceil_div (length plates) mc))) dts).
Proof. unfold scorer. now rewrite <- combine_firstn_len. Qed.

Lemma forget_sel_wf T (plates : list (Z * pyplate)) :
  Forall (fun kp => plate_wf T (snd (snd kp))) plates -> Forall (fun kp => plate_wf T (snd kp)) (forget_sel plates).
Proof.
  intros H. unfold forget_sel. apply Forall_forall. intros kp Hk. apply in_map_iff in Hk as (x & <- & Hx).
  rewrite Forall_forall in H. exact (H x Hx).
Qed.

(* GaussianDBALScorer.score AS TRANSLATED, every recorded answer a full draw: each key gets the direct estimator of its own
   plate on any one complete enumeration ts0 - no error, independent of max_chunk, of the other plates and of the draws *)
Theorem src_score_full_enumeration orc (T mc : nat) (plates : list (Z * pyplate)) (D : arr2) (draws : list (list Z)) ts0 :
  (3 <= T)%nat -> rect T T D -> (0 < mc)%nat ->
  NoDup (map fst plates) -> sel_uniform plates ->
  Forall (fun kp => plate_wf T (snd (snd kp))) plates ->
  (ceil_div (length plates) mc <= length draws)%nat ->
  Forall (fun d => choice_ok (comb3 (Z.of_nat T)) (comb3 (Z.of_nat T)) d = true) draws ->
  complete T ts0 ->
  src_score orc (Z.of_nat mc) plates D draws
  = Ok (map (fun kp => (fst kp, direct orc D 1%Qc ts0 (snd (snd kp)))) plates).
Proof.
  intros HT HD Hmc Hnd Hsel Hwf Hlen Hdraws Hc0.
  rewrite (src_score_is_scorer_checked orc mc plates D draws Hmc Hnd Hsel Hlen).
  destruct plates as [|kp0 rest] eqn:Epl; [reflexivity|]. rewrite <- Epl in *.
  assert (Hne : forget_sel plates <> []).
  { rewrite Epl. unfold forget_sel. cbn [map]. discriminate. }
  destruct (full_draws_all T draws HT Hdraws) as (dts & F & C).
  rewrite (scorer_checked_ok orc T D HT HD mc (forget_sel plates) draws dts Hmc Hne (forget_sel_wf T plates Hwf) F).
  f_equal. rewrite scorer_firstn.
  assert (Hfl : length (forget_sel plates) = length plates) by (unfold forget_sel; apply map_length).
  assert (Hn : (0 < length plates)%nat) by (rewrite Epl; cbn [length]; lia).
  assert (Hk : (0 < ceil_div (length plates) mc)%nat) by (now apply ceil_div_pos).
  rewrite (scorer_eq_direct orc T mc (forget_sel plates) D _ ts0).
  - unfold forget_sel. rewrite map_map. reflexivity.
  - lia.
  - exact Hmc.
  - exact (forget_sel_wf T plates Hwf).
  - now apply (complete_valid T).
  - rewrite length_array_split by (left; rewrite Hfl; exact Hk).
    rewrite firstn_length, Hfl. rewrite <- (C15Enum.Forall2_len _ _ _ _ _ F). lia.
  - apply Forall_forall. intros ts Hts. apply in_firstn in Hts. rewrite Forall_forall in C.
    apply (complete_perm T); [exact Hc0|now apply C].
Qed.

(* the heteroscedastic wrapper AS TRANSLATED on a full draw *)
Theorem src_hetero_full_enumeration orc (T : nat) (plates : list plate) (D : arr2) df idxs ts0 :
  (3 <= T)%nat -> rect T T D -> plates <> [] -> Forall (plate_wf T) plates ->
  choice_ok (comb3 (Z.of_nat T)) (comb3 (Z.of_nat T)) idxs = true -> complete T ts0 ->
  src_hetero orc (map fst plates) (map snd plates) D df idxs = Ok (map (direct orc D df ts0) plates).
Proof.
  intros HT HD Hne Hwf Hok Hc0. rewrite src_hetero_is_model.
  destruct plates as [|p0 rest] eqn:Epl; [congruence|]. rewrite <- Epl in *.
  rewrite (hetero_checked_ok orc T plates D df idxs HT Hne Hwf HD).
  destruct (full_draw_complete T idxs HT Hok) as (ts & E & Hc & Hv). rewrite E. cbn [res_bind]. f_equal.
  rewrite (hetero_eq_direct orc T plates D df ts ltac:(lia) Hwf Hv).
  apply map_ext. intros pl. apply direct_perm_triples. now apply (complete_perm T).
Qed.

(* the vectorised kernel through its TRANSLATED checks and TRANSLATED index run, budget max_combos >= C(T,3), on the padded
   arrays of any plate list: the direct estimator per plate *)
Theorem src_kernel_full_enumeration orc (T : nat) (plates : list plate) (D : arr2) df (mc : Z) (d : list Z) rest ts0 :
  (3 <= T)%nat -> rect T T D -> plates <> [] -> Forall (plate_wf T) plates ->
  (comb3 (Z.of_nat T) <= mc)%Z ->
  choice_ok (comb3 (Z.of_nat T)) (comb3 (Z.of_nat T)) d = true -> complete T ts0 ->
  (dor _ <- src_kernel_checks (pad_means (map fst plates)) (pad_vars (map snd plates)) D;
   dor r <- src_kernel_triples (pad_means (map fst plates)) mc (d :: rest);
   Ok (kernel orc (pad_means (map fst plates)) (pad_vars (map snd plates)) D df (nat_triples (fst r))))
  = Ok (map (direct orc D df ts0) plates).
Proof.
  intros HT HD Hne Hwf Hmc Hok Hc0.
  pose proof (src_hetero_full_enumeration orc T plates D df d ts0 HT HD Hne Hwf Hok Hc0) as H.
  rewrite src_hetero_is_model in H.
  destruct plates as [|p0 rest'] eqn:Epl; [congruence|]. rewrite <- Epl in *.
  unfold hetero_checked in H.
  match type of H with (if ?b then _ else _) = _ => destruct b eqn:Esh end.
  - discriminate.
  - rewrite <- H. symmetry. apply (kernel_checked_is_source orc _ _ D df mc d rest).
    + pose proof (comb3_pos T HT). lia.
    + cbv zeta.
      assert (ET : snd (fst (shape3 (pad_means (map fst plates)))) = T).
      { pose proof (hetero_checked_ok orc T plates D df d HT Hne Hwf HD) as Hck.
        destruct (full_draw_complete T d HT Hok) as (ts & E & _ & _). rewrite E in Hck. cbn [res_bind] in Hck.
        unfold hetero_checked in Hck. rewrite Esh in Hck. unfold kernel_checked in Hck.
        destruct (shape3 (pad_means (map fst plates))) as [[np T'] E'] eqn:Es.
        destruct (shape3 (pad_vars (map snd plates))) as [[np2 T2] E2].
        cbn [fst snd].
        destruct (negb (_ && _ && _)); [discriminate|].
        destruct (negb (Nat.eqb (fst (shape2 D)) (snd (shape2 D)))); [discriminate|].
        destruct (Nat.eqb_spec (fst (shape2 D)) T') as [Eq|Ne]; cbn [negb] in Hck; [|discriminate].
        destruct HD as [HDl _]. unfold shape2 in Eq. cbn [fst] in Eq. lia. }
      rewrite ET. rewrite Z.min_l by lia. exact Hok.
Qed.
