(* Lemmas about the translator's run-time library Lib/PyRt.v, shared by the linking proofs. *)
From Coq Require Import ZArith List Bool Lia.
From Batchie Require Import Lib.Sexp Lib.PyRt.
Import ListNotations.
Open Scope Z_scope.

(* a loop whose body never raises is a fold_left *)
Lemma res_fold_pure {S A : Type} (f : S -> A -> result S) (g : S -> A -> S) :
  (forall s a, f s a = Ok (g s a)) -> forall l s, res_fold f l s = Ok (fold_left g l s).
Proof.
  intros H l; induction l as [|a l IH]; intros s; cbn [res_fold fold_left]; [reflexivity|].
  rewrite H. cbn [res_bind]. apply IH.
Qed.

(* a loop with no state that raises [t] on the first element failing [p] *)
Lemma res_fold_check {A : Type} (p : A -> bool) (t : Z) (f : unit -> A -> result unit) :
  (forall u a, f u a = if p a then Ok tt else Err t) ->
  forall l u, res_fold f l u = if forallb p l then Ok tt else Err t.
Proof.
  intros H l; induction l as [|a l IH]; intros u; cbn [res_fold forallb]; [destruct u; reflexivity|].
  rewrite H. destruct (p a); cbn [res_bind andb]; [apply IH | reflexivity].
Qed.

(* a loop that appends the elements satisfying [p] *)
Lemma fold_append_filter {A : Type} (p : A -> bool) :
  forall l acc, fold_left (fun r a => if p a then r ++ [a] else r) l acc = acc ++ filter p l.
Proof.
  induction l as [|a l IH]; intros acc; cbn [fold_left filter]; [now rewrite app_nil_r|].
  rewrite IH. destruct (p a); [rewrite <- app_assoc; reflexivity | reflexivity].
Qed.

Lemma zmem_app x l1 l2 : zmem x (l1 ++ l2) = zmem x l1 || zmem x l2.
Proof. unfold zmem. apply existsb_app. Qed.

Lemma zmem_set_add x s y : zmem x (set_add s y) = zmem x s || (x =? y).
Proof.
  unfold set_add. destruct (zmem y s) eqn:E.
  - destruct (Z.eqb_spec x y) as [->|]; [rewrite E; reflexivity | now rewrite orb_false_r].
  - rewrite zmem_app. cbn. now rewrite orb_false_r.
Qed.

(* ---- additions for scoring/main.py ---- *)
(* a comprehension whose condition never raises is a filter *)
Lemma res_filter_pure {A : Type} (p : A -> result bool) (q : A -> bool) :
  (forall a, p a = Ok (q a)) -> forall l, res_filter p l = Ok (filter q l).
Proof.
  intros H l; induction l as [|a l IH]; cbn [res_filter filter]; [reflexivity|].
  rewrite H, IH. cbn [res_bind]. destruct (q a); reflexivity.
Qed.

Lemma dict_set_fresh {V : Type} (d : list (Z * V)) k v :
  ~ In k (map fst d) -> dict_set d k v = d ++ [(k, v)].
Proof.
  induction d as [|[k' v'] d IH]; intros H; cbn [dict_set app]; [reflexivity|].
  cbn [map fst In] in H. destruct (Z.eqb_spec k' k) as [->|_]; [exfalso; apply H; now left|].
  rewrite IH by (intros X; apply H; now right). reflexivity.
Qed.

(* a dict built key by key from distinct keys lists them in order *)
Lemma fold_dict_set_distinct {A V : Type} (key : A -> Z) (val : A -> V) :
  forall l d, NoDup (map fst d ++ map key l) ->
  fold_left (fun d x => dict_set d (key x) (val x)) l d = d ++ map (fun x => (key x, val x)) l.
Proof.
  induction l as [|a l IH]; intros d H; cbn [fold_left map]; [now rewrite app_nil_r|].
  cbn [map] in H. rewrite dict_set_fresh.
  - rewrite IH.
    + rewrite <- app_assoc. reflexivity.
    + rewrite map_app. cbn [map fst]. rewrite <- app_assoc. exact H.
  - apply NoDup_remove_2 in H. intros X. apply H. apply in_or_app. now left.
Qed.
(* ---- additions for the command-line wrappers ---- *)
Lemma res_bind_ret {A : Type} (e : result A) : (dor x <- e; Ok x) = e.
Proof. destruct e; reflexivity. Qed.

(* a comprehension whose element is one call that may raise *)
Lemma res_map_all_ret {A B : Type} (f : A -> result B) (l : list A) :
  res_map_all (fun x => dor r <- f x; Ok r) l = res_map_all f l.
Proof.
  induction l as [|a l IH]; cbn [res_map_all]; [reflexivity|].
  rewrite res_bind_ret, IH. reflexivity.
Qed.

(* one step of a linking proof: case analysis on what both sides evaluate next - the optional value a branch
   tests, or the library call *)
Ltac cli_case e :=
  lazymatch e with
  | res_bind ?e' _ => cli_case e'
  | Ok _ => cbn [res_bind]
  | Err _ => cbn [res_bind]
  | (if is_some ?o then _ else _) => destruct o; cbn [is_some is_none unwrap res_bind]
  | (if is_none ?o then _ else _) => destruct o; cbn [is_some is_none unwrap res_bind]
  | (match ?o with Some _ => _ | None => _ end) => destruct o; cbn [is_some is_none unwrap res_bind]
  | _ => destruct e; cbn [res_bind]; try reflexivity
  end.
Ltac cli_step := match goal with |- context [res_bind ?e _] => cli_case e end.
