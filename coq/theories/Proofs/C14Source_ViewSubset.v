(* C14, one piece of Proofs/C14Source.v (conventions and objects: see there): ScreenSubset.subset *)
From Coq Require Import ZArith List Bool Arith Lia ZifyBool.
From Batchie Require Import Lib.Sexp Lib.PyRt Model.Encode Model.Screen Model.Views Generated.SrcViews
  Proofs.PyRtLemmas Proofs.C14Lists Proofs.C14Source_Base Proofs.C14Source_ViewInit Proofs.C14Source_ViewSize.
Import ListNotations.
Open Scope Z_scope.

Theorem src_view_subset_is_model : forall (v : view) (sv : anyarray),
  src_view_subset v sv = view_subset v (fst sv) (snd sv).
Proof.
  intros v sv. unfold src_view_subset, view_subset. destruct (negb (fst sv)); [reflexivity|].
  rewrite src_view_size_is_model. cbn [res_bind]. rewrite of_nat_eqb.
  destruct (negb (Nat.eqb (length (snd sv)) (view_size v))); [reflexivity|].
  rewrite src_view_init_is_model, res_bind_ok. reflexivity.
Qed.
