(* C15: facts about the binomial coefficient (Pascal recursion on nat, lifted to Z):
   vanishing, positivity, monotonicity, and the two absorption identities
     (k+1) C(n+1,k+1) = (n+1) C(n,k)            [mathcomp: mul_bin_diag]
     (n-k) C(n,k)     = (k+1) C(n,k+1)          [mathcomp: mul_bin_down]
   that make every // of the implementation exact. *)
From Coq Require Import ZArith List Lia Arith.
From Batchie Require Import Lib.Sexp Model.Unrank Model.Binom.
Import ListNotations.

(* ---------------------------------------------------------------- nat level *)

Lemma binom_0_r : forall n, binom n 0 = 1%nat.
Proof. destruct n; reflexivity. Qed.

Lemma binom_0_l : forall k, binom 0 (S k) = 0%nat.
Proof. reflexivity. Qed.

Lemma binom_SS : forall n k, binom (S n) (S k) = (binom n k + binom n (S k))%nat.
Proof. reflexivity. Qed.

Lemma binom_lt : forall n k, (n < k)%nat -> binom n k = 0%nat.
Proof.
  induction n as [|n IH]; intros k Hk.
  - destruct k; [lia | reflexivity].
  - destruct k as [|k]; [lia|]. rewrite binom_SS, !IH by lia. reflexivity.
Qed.

Lemma binom_pos : forall n k, (k <= n)%nat -> (0 < binom n k)%nat.
Proof.
  induction n as [|n IH]; intros k Hk.
  - assert (k = 0)%nat as -> by lia. cbn. lia.
  - destruct k as [|k]; [rewrite binom_0_r; lia|].
    rewrite binom_SS. specialize (IH k ltac:(lia)). lia.
Qed.

Lemma binom_diag : forall n, binom n n = 1%nat.
Proof.
  induction n as [|n IH]; [reflexivity|].
  rewrite binom_SS, IH, binom_lt by lia. reflexivity.
Qed.

Lemma binom_mono : forall n k, (binom n k <= binom (S n) k)%nat.
Proof.
  intros n [|k]; [rewrite !binom_0_r; lia|]. rewrite binom_SS. lia.
Qed.

Lemma binom_mono_le : forall a b k, (a <= b)%nat -> (binom a k <= binom b k)%nat.
Proof.
  intros a b k H. induction H as [|b H IH]; [lia|].
  pose proof (binom_mono b k). lia.
Qed.

(* (k+1) C(n+1,k+1) = (n+1) C(n,k) *)
Lemma binom_absorb : forall n k, (S k * binom (S n) (S k) = S n * binom n k)%nat.
Proof.
  induction n as [|n IH]; intros k.
  - destruct k as [|k]; cbn; lia.
  - rewrite (binom_SS (S n) k). destruct k as [|k].
    + rewrite !binom_0_r. specialize (IH 0%nat). rewrite binom_0_r in IH. lia.
    + pose proof (IH k) as H1. pose proof (IH (S k)) as H2.
      rewrite (binom_SS n k). rewrite (binom_SS n (S k)) in H2 |- *.
      rewrite (binom_SS n k) in H1.
      nia.
Qed.

(* n C(n,k) = k C(n,k) + (k+1) C(n,k+1) *)
Lemma binom_down : forall n k, (n * binom n k = k * binom n k + S k * binom n (S k))%nat.
Proof.
  intros n k. pose proof (binom_absorb n k) as H. rewrite binom_SS in H.
  generalize dependent (binom n (S k)). generalize dependent (binom n k). intros a b H. nia.
Qed.

(* the Pascal-recursion binomial is the factorial quotient n! / (k! (n-k)!) *)
Lemma binom_fact : forall n k, (k <= n)%nat -> (binom n k * (fact k * fact (n - k)) = fact n)%nat.
Proof.
  intros n. induction k as [|k IH]; intros Hk.
  - rewrite binom_0_r, Nat.sub_0_r. cbn [fact]. lia.
  - specialize (IH ltac:(lia)).
    pose proof (binom_down n k) as D.
    replace (n - k)%nat with (S (n - S k)) in IH by lia.
    change (fact (S (n - S k))) with (S (n - S k) * fact (n - S k))%nat in IH.
    change (fact (S k)) with (S k * fact k)%nat.
    assert (E : (S k * binom n (S k) = S (n - S k) * binom n k)%nat).
    { replace (S (n - S k)) with (n - k)%nat by lia.
      generalize dependent (binom n (S k)). generalize dependent (binom n k). intros a _ b D. nia. }
    rewrite <- IH.
    transitivity ((S k * binom n (S k)) * (fact k * fact (n - S k)))%nat; [ring|].
    rewrite E. ring.
Qed.

(* ---------------------------------------------------------------- Z level *)
Open Scope Z_scope.

Lemma Cz_0_r : forall n, Cz n 0 = 1.
Proof. intros n. unfold Cz. rewrite binom_0_r. reflexivity. Qed.

Lemma Cz_nonneg : forall n k, 0 <= Cz n k.
Proof. intros. unfold Cz. lia. Qed.

Lemma Cz_small : forall n k, 0 <= n -> n < Z.of_nat k -> Cz n k = 0.
Proof. intros n k Hn H. unfold Cz. rewrite binom_lt by lia. reflexivity. Qed.

Lemma Cz_pos : forall n k, Z.of_nat k <= n -> 0 < Cz n k.
Proof. intros n k H. unfold Cz. pose proof (binom_pos (Z.to_nat n) k ltac:(lia)). lia. Qed.

Lemma Cz_pos_inv : forall n k, 0 <= n -> 0 < Cz n k -> Z.of_nat k <= n.
Proof.
  intros n k Hn H. destruct (Z_lt_le_dec n (Z.of_nat k)) as [Hlt|Hle]; [|exact Hle].
  rewrite Cz_small in H by assumption. lia.
Qed.

Lemma Cz_diag : forall k, Cz (Z.of_nat k) k = 1.
Proof. intros k. unfold Cz. rewrite Nat2Z.id, binom_diag. reflexivity. Qed.

Lemma Cz_pascal : forall n k, 1 <= n -> Cz n (S k) = Cz (n - 1) k + Cz (n - 1) (S k).
Proof.
  intros n k Hn. unfold Cz.
  replace (Z.to_nat n) with (S (Z.to_nat (n - 1))) by lia.
  rewrite binom_SS. lia.
Qed.

Lemma Cz_mono : forall a b k, a <= b -> Cz a k <= Cz b k.
Proof.
  intros a b k H. unfold Cz.
  pose proof (binom_mono_le (Z.to_nat a) (Z.to_nat b) k ltac:(lia)). lia.
Qed.

(* (k+1) C(n,k+1) = n C(n-1,k)   for n >= 1 *)
Lemma Cz_absorb : forall n k, 1 <= n -> Z.of_nat (S k) * Cz n (S k) = n * Cz (n - 1) k.
Proof.
  intros n k Hn. unfold Cz.
  replace (Z.to_nat n) with (S (Z.to_nat (n - 1))) by lia.
  pose proof (binom_absorb (Z.to_nat (n - 1)) k) as H.
  apply (f_equal Z.of_nat) in H. rewrite !Nat2Z.inj_mul in H.
  rewrite H. f_equal. lia.
Qed.

(* (n-k) C(n,k) = (k+1) C(n,k+1)   for n >= 0 *)
Lemma Cz_down : forall n k, 0 <= n -> (n - Z.of_nat k) * Cz n k = Z.of_nat (S k) * Cz n (S k).
Proof.
  intros n k Hn. unfold Cz.
  pose proof (binom_down (Z.to_nat n) k) as H.
  apply (f_equal Z.of_nat) in H. rewrite Nat2Z.inj_add, !Nat2Z.inj_mul in H.
  rewrite Z2Nat.id in H by exact Hn. lia.
Qed.

(* the multiplicative product loop of the implementation computes C(n,k) *)
Lemma init_nck_from : forall n m j, 0 <= n ->
  fold_left (fun acc i => (acc * (n - Z.of_nat i + 1)) / Z.of_nat i) (seq (S j) m) (Cz n j)
  = Cz n (j + m).
Proof.
  intros n m. induction m as [|m IH]; intros j Hn.
  - cbn [seq fold_left]. f_equal. lia.
  - cbn [seq fold_left].
    replace (Cz n j * (n - Z.of_nat (S j) + 1)) with (Cz n (S j) * Z.of_nat (S j)).
    + rewrite Z.div_mul by lia. rewrite IH by exact Hn. f_equal. lia.
    + pose proof (Cz_down n j Hn) as H. rewrite Z.mul_comm. rewrite <- H. rewrite Z.mul_comm. f_equal. lia.
Qed.

Lemma init_nck_Cz : forall n k, 0 <= n -> init_nck n k = Cz n k.
Proof.
  intros n k Hn. unfold init_nck.
  pose proof (init_nck_from n k 0 Hn) as H. rewrite Cz_0_r in H. exact H.
Qed.
