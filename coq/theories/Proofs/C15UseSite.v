(* C15 / C05: the use site of the unranking READ ON THE TRANSLATED SOURCE.  The run of statements
   `n_plates, n_thetas, ... = predictions.shape` .. `idx3 = np.array(idx3)` of dbal_fast_gauss_scoring_vectorized is re-translated on
   every run (Generated/SrcDbal.v: src_kernel_triples, linked by Proofs/C05Source_KernelTriples.v).  Here: for every recorded
   rng.choice answer obeying numpy's contract, the three index arrays that run delivers are pairwise distinct triples
   a > b > c inside range(n_thetas), min(C(n,3), max_combos) of them, and ALL triples when the budget covers C(n,3).
   (Binom.dbal_triples, the hand-written twin the round-1 theorem C15_dbal_triples is about, is related to it at the end.) *)
From Coq Require Import ZArith List Bool Lia Arith.
From Batchie Require Import Lib.Sexp Lib.PyRt Model.Unrank Model.Binom Model.Dbal Generated.SrcDbal
  Proofs.C15Binom Proofs.C15Unrank Proofs.C15Enum Proofs.C05Source_KernelTriples.
Import ListNotations.
Open Scope Z_scope.

(* scipy's comb(n, 3, exact=True) as the C05 link renders it (n(n-1)(n-2)/6, 0 below 3) is the binomial coefficient *)
Lemma comb3_is_Cz n : 0 <= n -> comb3 n = Cz n 3.
Proof.
  intros Hn. unfold comb3. destruct (Z.ltb_spec n 3) as [Hlt|Hge].
  - symmetry. apply Cz_small; [exact Hn|]. cbn. lia.
  - pose proof (Cz_absorb n 2 ltac:(lia)) as H3.
    pose proof (Cz_absorb (n - 1) 1 ltac:(lia)) as H2.
    pose proof (Cz_absorb (n - 1 - 1) 0 ltac:(lia)) as H1.
    rewrite Cz_0_r in H1.
    change (Z.of_nat 3) with 3 in H3. change (Z.of_nat 2) with 2 in H2. change (Z.of_nat 1) with 1 in H1.
    symmetry. apply Z.div_unique_exact; [lia|]. nia.
Qed.

(* numpy's contract as the boolean the C05 link checks on every recorded answer *)
Lemma zdistinct_NoDup d : zdistinct d = true -> NoDup d.
Proof.
  induction d as [|x r IH]; intros H; [constructor|].
  cbn [zdistinct] in H. apply andb_prop in H as [Hx Hr]. constructor; [|now apply IH].
  intros Hin. apply negb_true_iff in Hx.
  assert (E : existsb (Z.eqb x) r = true) by (apply existsb_exists; exists x; split; [exact Hin|apply Z.eqb_refl]).
  congruence.
Qed.

Lemma choice_ok_spec n k d : choice_ok n k d = true ->
  Z.of_nat (length d) = k /\ NoDup d /\ forall i, In i d -> 0 <= i < n.
Proof.
  unfold choice_ok. intros H. apply andb_prop in H as [H Hd]. apply andb_prop in H as [Hl Hr].
  split; [now apply Z.eqb_eq|]. split; [now apply zdistinct_NoDup|].
  intros i Hi. rewrite forallb_forall in Hr. specialize (Hr i Hi). apply andb_prop in Hr as [Ha Hb].
  apply Z.leb_le in Ha. apply Z.ltb_lt in Hb. lia.
Qed.

Lemma res_map_all_Forall2 {A B} (f : A -> result B) l : forall bs,
  res_map_all f l = Ok bs -> Forall2 (fun a b => f a = Ok b) l bs.
Proof.
  induction l as [|a l IH]; intros bs H; cbn [res_map_all] in H.
  - inversion H. constructor.
  - destruct (f a) as [b|] eqn:Ea; cbn [res_bind] in H; [|discriminate].
    destruct (res_map_all f l) as [bs'|]; cbn [res_bind] in H; [|discriminate].
    inversion H. constructor; [exact Ea|]. now apply IH.
Qed.

Definition tup3 (l : list Z) : Z * Z * Z :=
  match l with [a; b; c] => (a, b, c) | _ => (0, 0, 0) end.

Lemma unrank3_map n d : forall zts,
  triples n d = Ok zts -> (forall t, In t zts -> length t = 3%nat) ->
  res_map_all (fun i => unrank3 i n) d = Ok (map tup3 zts).
Proof.
  unfold triples. induction d as [|i d IH]; intros zts H Hl; cbn [res_map_all] in H |- *.
  - inversion H. reflexivity.
  - unfold unrank3 at 1. destruct (unrank i n 3) as [t|] eqn:Et; cbn [res_bind] in H |- *; [|discriminate].
    destruct (res_map_all (fun i0 => unrank i0 n 3) d) as [zts'|] eqn:Er; cbn [res_bind] in H; [|discriminate].
    inversion H; subst zts. clear H.
    assert (H3 : length t = 3%nat) by (apply Hl; left; reflexivity).
    destruct t as [|a [|b [|c [|x t]]]]; try discriminate.
    rewrite (IH zts' eq_refl) by (intros t Ht; apply Hl; right; exact Ht).
    reflexivity.
Qed.

(* the triples as the model's nat triples: distinct, descending below T, complete on a full draw *)
Definition desc3 (T : nat) (t : triple) : Prop :=
  let '(a, b, c) := t in (c < b /\ b < a /\ a < T)%nat.

Lemma nat3_tup3_inj n s t :
  (exists a b c, s = [a; b; c] /\ 0 <= c < b /\ b < a < n) ->
  (exists a b c, t = [a; b; c] /\ 0 <= c < b /\ b < a < n) ->
  nat3 (tup3 s) = nat3 (tup3 t) -> s = t.
Proof.
  intros (a & b & c & -> & H1 & H2) (a' & b' & c' & -> & H1' & H2').
  unfold nat3, tup3. cbn [fst snd]. intros E. inversion E as [[Ea Eb Ec]].
  apply Z2Nat.inj in Ea; [|lia|lia]. apply Z2Nat.inj in Eb; [|lia|lia]. apply Z2Nat.inj in Ec; [|lia|lia].
  now subst.
Qed.

Theorem unrank3_all_spec (T : nat) d :
  NoDup d -> (forall i, In i d -> 0 <= i < Cz (Z.of_nat T) 3) ->
  exists zs, res_map_all (fun i => unrank3 i (Z.of_nat T)) d = Ok zs /\ length zs = length d /\
    NoDup (map nat3 zs) /\
    (forall t, In t (map nat3 zs) -> desc3 T t) /\
    (Z.of_nat (length d) = Cz (Z.of_nat T) 3 -> forall t, desc3 T t -> In t (map nat3 zs)).
Proof.
  intros Hnd Hr.
  destruct (triples_distinct_complete (Z.of_nat T) d ltac:(lia) Hnd Hr) as (zts & E & Hl & Hnd' & Hin & Hall).
  assert (Hl3 : forall t, In t zts -> length t = 3%nat).
  { intros t Ht. destruct (Hin t Ht) as (a & b & c & -> & _). reflexivity. }
  exists (map tup3 zts). split; [exact (unrank3_map _ d zts E Hl3)|]. split; [now rewrite map_length|].
  rewrite map_map. split; [|split].
  - clear E Hl Hall Hl3. induction zts as [|t zts IH]; cbn [map]; constructor.
    + intros Hi. apply in_map_iff in Hi as (s & Es & Hs).
      assert (s = t).
      { apply (nat3_tup3_inj (Z.of_nat T)); [apply Hin; right; exact Hs|apply Hin; left; reflexivity|exact Es]. }
      subst s. inversion Hnd'; contradiction.
    + inversion Hnd'; subst. apply IH; [assumption|]. intros s Hs. apply Hin. right. exact Hs.
  - intros t Ht. apply in_map_iff in Ht as (s & <- & Hs).
    destruct (Hin s Hs) as (a & b & c & -> & H1 & H2). unfold desc3, nat3, tup3. cbn [fst snd]. lia.
  - intros Hfull [[a b] c] (H1 & H2 & H3).
    apply in_map_iff. exists [Z.of_nat a; Z.of_nat b; Z.of_nat c]. split.
    + unfold nat3, tup3. cbn [fst snd]. now rewrite !Nat2Z.id.
    + apply Hall; [exact Hfull|lia|lia].
Qed.

(* ---- C15_source_dbal_triples: the translated run itself ---- *)
Theorem src_kernel_triples_distinct_complete (pred : arr3) (mc : Z) (d : list Z) (rest : list (list Z)) np T E :
  shape3 pred = (np, T, E) -> (3 <= T)%nat -> 1 <= mc ->
  choice_ok (comb3 (Z.of_nat T)) (Z.min (comb3 (Z.of_nat T)) mc) d = true ->
  exists t3, src_kernel_triples pred mc (d :: rest) = Ok (t3, rest) /\
    Z.of_nat (length (nat_triples t3)) = Z.min (Cz (Z.of_nat T) 3) mc /\
    NoDup (nat_triples t3) /\
    (forall a b c, In (a, b, c) (nat_triples t3) -> (c < b /\ b < a /\ a < T)%nat) /\
    (Cz (Z.of_nat T) 3 <= mc -> forall a b c, (c < b /\ b < a /\ a < T)%nat -> In (a, b, c) (nat_triples t3)).
Proof.
  intros Es HT Hmc Hok.
  rewrite (src_kernel_triples_spec pred mc d rest np T E Es Hmc Hok).
  destruct (Nat.ltb_spec T 3) as [Hlt|_]; [lia|].
  apply choice_ok_spec in Hok as (Hlen & Hnd & Hr).
  rewrite comb3_is_Cz in Hlen, Hr by lia.
  pose proof (Cz_pos (Z.of_nat T) 3 ltac:(cbn; lia)) as Hpos.
  destruct (unrank3_all_spec T d Hnd Hr) as (zs & Ez & Hl & Hnd' & Hin & Hall).
  rewrite Ez. cbn [res_bind].
  destruct (unzip3 zs) as [t3|tag] eqn:Eu.
  - cbn [res_bind]. exists t3. split; [reflexivity|]. rewrite (nat_triples_unzip3 zs t3 Eu).
    split; [rewrite map_length, Hl; exact Hlen|]. split; [exact Hnd'|]. split.
    + intros a b c Hi. exact (Hin (a, b, c) Hi).
    + intros Hb a b c Hd. apply (Hall ltac:(lia) (a, b, c)). exact Hd.
  - exfalso. unfold unzip3 in Eu. destruct zs; [cbn [length] in Hl; lia|discriminate].
Qed.

(* ---- the same for the model's own draw-to-triples function (what kernel_checked runs): G5.3's first half ---- *)
Theorem triples_of_draw_distinct_complete (T : nat) (k : Z) d :
  choice_ok (comb3 (Z.of_nat T)) k d = true ->
  exists ts, triples_of_draw T d = Ok ts /\ Z.of_nat (length ts) = k /\ NoDup ts /\
    (forall a b c, In (a, b, c) ts -> (c < b /\ b < a /\ a < T)%nat) /\
    (k = comb3 (Z.of_nat T) -> forall a b c, (c < b /\ b < a /\ a < T)%nat -> In (a, b, c) ts).
Proof.
  intros Hok. apply choice_ok_spec in Hok as (Hlen & Hnd & Hr).
  rewrite comb3_is_Cz in * by lia.
  destruct (unrank3_all_spec T d Hnd Hr) as (zs & Ez & Hl & Hnd' & Hin & Hall).
  exists (map nat3 zs). rewrite triples_via_unrank3, Ez. cbn [res_bind].
  split; [reflexivity|]. split; [rewrite map_length, Hl; exact Hlen|]. split; [exact Hnd'|]. split.
  - intros a b c Hi. exact (Hin (a, b, c) Hi).
  - intros Hk a b c Hd. apply (Hall ltac:(lia) (a, b, c)). exact Hd.
Qed.

(* ---- the round-1 twin Binom.dbal_triples agrees with the translated run: same triples, for the same answer ---- *)
Theorem dbal_triples_is_source (pred : arr3) (mc : Z) (d : list Z) (rest : list (list Z)) np T E :
  shape3 pred = (np, T, E) -> (3 <= T)%nat -> 1 <= mc ->
  choice_ok (comb3 (Z.of_nat T)) (Z.min (comb3 (Z.of_nat T)) mc) d = true ->
  exists zts t3,
    dbal_triples (Z.of_nat T) mc (fun _ _ => d) = Ok (Cz (Z.of_nat T) 3, Z.min (Cz (Z.of_nat T) 3) mc, zts) /\
    src_kernel_triples pred mc (d :: rest) = Ok (t3, rest) /\
    nat_triples t3 = map (fun t => nat3 (tup3 t)) zts /\
    (forall t, In t zts -> exists a b c, t = [a; b; c] /\ 0 <= c < b /\ b < a < Z.of_nat T).
Proof.
  intros Es HT Hmc Hok.
  rewrite (src_kernel_triples_spec pred mc d rest np T E Es Hmc Hok).
  destruct (Nat.ltb_spec T 3) as [Hlt|_]; [lia|].
  apply choice_ok_spec in Hok as (Hlen & Hnd & Hr).
  rewrite comb3_is_Cz in Hlen, Hr by lia.
  pose proof (Cz_pos (Z.of_nat T) 3 ltac:(cbn; lia)) as Hpos.
  destruct (triples_distinct_complete (Z.of_nat T) d ltac:(lia) Hnd Hr) as (zts & Etr & Hl & _ & Hin & _).
  assert (Hl3 : forall t, In t zts -> length t = 3%nat).
  { intros t Ht. destruct (Hin t Ht) as (a & b & c & -> & _). reflexivity. }
  rewrite (unrank3_map _ d zts Etr Hl3). cbn [res_bind].
  unfold dbal_triples. rewrite init_nck_Cz by lia.
  destruct (Z.eqb_spec (Cz (Z.of_nat T) 3) 0) as [|_]; [lia|].
  destruct d as [|i0 d0]; [cbn [length] in Hlen; lia|].
  rewrite Etr. cbn [res_bind].
  destruct (unzip3 (map tup3 zts)) as [t3|tag] eqn:Eu.
  - cbn [res_bind]. exists zts, t3. split; [reflexivity|]. split; [reflexivity|].
    split; [|exact Hin]. rewrite (nat_triples_unzip3 _ t3 Eu). now rewrite map_map.
  - exfalso. unfold unzip3 in Eu. destruct zts; [|discriminate].
    cbn [length] in Hl. discriminate.
Qed.
