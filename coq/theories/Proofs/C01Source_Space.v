(* C01, one piece of Proofs/C01Source.v (which see): ExperimentSpace.n_unique_samples / n_unique_treatments *)
From Coq Require Import ZArith List Bool Lia ZifyBool Arith Sorted.
From Batchie Require Import Lib.Sexp Lib.PyRt Generated.Consts Generated.SrcArithC01 Model.Encode Model.Screen Generated.SrcEncode
  Generated.SrcScreenIds Proofs.PyRtLemmas Proofs.C01Sort Proofs.C01Encode Proofs.C03Screen.
Import ListNotations.
Open Scope Z_scope.

(* ---------- ExperimentSpace.n_unique_samples / n_unique_treatments on the tuples a constructed screen stores ---------- *)
Theorem src_space_n_samples_is_model : forall s : screen,
  src_space_n_unique_samples (nmap_cols2 (s_smap s)) = Ok (space_n_samples s).
Proof. reflexivity. Qed.

Theorem src_space_n_treatments_is_model : forall s : screen,
  src_space_n_unique_treatments (tmap_cols3 (s_tmap s)) = Ok (space_n_treatments s).
Proof.
  intros s. unfold src_space_n_unique_treatments, space_n_treatments, tmap_cols3, np_setdiff1d. cbn [snd].
  rewrite (sort_uniq_of_sorted Z.compare Zcmp_spec) by apply (sort_uniq_sorted Z.compare Zcmp_spec).
  do 4 f_equal. apply filter_ext. intros x. cbn [existsb]. now rewrite orb_false_r.
Qed.
