(* One piece of Proofs/C18SourceParser.v (which see): the option table of train_model.get_parser(), read from /repo on every run
   (Generated/SrcParser_train_model.v), provides what the argument record of that command assumes. *)
From Coq Require Import ZArith List Bool.
From Batchie Require Import Lib.Sexp Lib.PyRt Model.Cli Proofs.C18Parser Generated.SrcParser_train_model.
Import ListNotations.
Open Scope Z_scope.

Theorem parser_train_model_fields : forall f, In f (tm_fields ++ logging_fields) -> declares src_parser_train_model f.
Proof. apply declares_all. vm_compute. reflexivity. Qed.

Theorem parser_train_model_dests_derived : dests_derived src_parser_train_model.
Proof. apply dests_derived_sound. vm_compute. reflexivity. Qed.

Theorem parser_train_model_dests_distinct : dests_distinct src_parser_train_model.
Proof. apply dests_distinct_sound. vm_compute. reflexivity. Qed.

Theorem parser_train_model_seed : seed_declared src_parser_train_model.
Proof. apply seed_declaredb_sound. vm_compute. reflexivity. Qed.

Theorem parser_train_model_coordinates : coordinates_int src_parser_train_model.
Proof. apply coordinates_intb_sound. vm_compute. reflexivity. Qed.

Theorem parser_train_model_params : params_kv src_parser_train_model.
Proof. apply params_kvb_sound. vm_compute. reflexivity. Qed.
