(* C13: FixedSizeSmoother.__init__ (Generated/SrcInits.v) stores its argument: the attribute the translated methods of the class read
   (`self.<attr>` = the model parameter of their links) is the value the object was constructed with - plate_size *)
From Coq Require Import ZArith List Bool.
From Batchie Require Import Lib.Sexp Lib.PyRt Model.Encode Generated.SrcInits.
Import ListNotations.
Open Scope Z_scope.

Theorem src_fixed_size_init_stores : forall plate_size : Z, src_fixed_size_init plate_size = Ok plate_size.
Proof. reflexivity. Qed.
