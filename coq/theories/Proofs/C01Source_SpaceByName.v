(* C01, one piece of Proofs/C01Source.v (which see): ExperimentSpace.doses_for_treatment / treatment_ids_from_treatment_name *)
From Coq Require Import ZArith List Bool Lia ZifyBool Arith.
From Batchie Require Import Lib.Sexp Lib.PyRt Generated.Consts Model.Encode Model.Screen Model.Persist Generated.SrcSpaceMethods
  Proofs.C01Sort Proofs.C01Encode Proofs.C01Props Proofs.C01Screen Proofs.C01Source_SpaceBase.
Import ListNotations.
Open Scope Z_scope.

Lemma arr_eq_name_col {A} (f : A -> name) (l : list A) nm : arr_eq_name (map f l) nm = map (fun e => name_eqb (f e) nm) l.
Proof. unfold arr_eq_name. now rewrite map_map. Qed.

Theorem src_space_doses_for_treatment_is_model : forall (sp : space) (nm : name),
  src_space_doses_for_treatment (pyspace_of sp) nm = Ok (space_doses_for_treatment sp nm).
Proof.
  intros sp nm. unfold src_space_doses_for_treatment, space_doses_for_treatment, space_rows_named, pyspace_of, pysp_tmap, tmap_cols.
  cbn [fst snd]. rewrite arr_eq_name_col, arr_mask_columns. cbn [res_bind].
  now rewrite setdiff1d_one, sort_uniq_idem_Z, np_sort_sort_uniq.
Qed.

Theorem src_space_treatment_ids_from_name_is_model : forall (sp : space) (nm : name),
  src_space_treatment_ids_from_treatment_name (pyspace_of sp) nm = Ok (space_treatment_ids_of_name sp nm).
Proof.
  intros sp nm. unfold src_space_treatment_ids_from_treatment_name, space_treatment_ids_of_name, space_rows_named, pyspace_of,
    pysp_tmap, tmap_cols.
  cbn [fst snd]. rewrite arr_eq_name_col, arr_mask_columns. cbn [res_bind]. now rewrite np_sort_sort_uniq.
Qed.

(* ---- what the answers are, on the space of a constructed screen ---- *)
(* every id the method returns for a name is the sentinel or lies below n_unique_treatments (the mapping built by the constructor, or a
   supplied one with an integer id array) *)
Theorem space_treatment_ids_of_name_bounded : forall rows a ctrl tm sm og mg s nm i,
  mk_screen rows a ctrl tm sm og mg = Ok s ->
  match tm with Some (_, b) => b = true | None => True end ->
  In i (space_treatment_ids_of_name (space_of_screen s) nm) ->
  i = CONTROL_SENTINEL_VALUE \/ 0 <= i < space_n_treatments s.
Proof.
  intros rows a ctrl tm sm og mg s nm i H Hb Hin. pose proof (mk_screen_inv _ _ _ _ _ _ _ _ H) as S.
  unfold space_treatment_ids_of_name, space_rows_named, space_of_screen in Hin. cbn [sp_tmap] in Hin.
  rewrite (sort_uniq_In _ Zcmp_spec) in Hin. apply in_map_iff in Hin as (e & <- & He). apply filter_In in He as [He _].
  assert (V : zero_indexed true (map snd (s_tmap s)) = true).
  { rewrite (ms_tmap _ _ _ _ _ _ _ _ S). destruct tm as [[m b]|].
    - subst b. exact (ms_tvalid _ _ _ _ _ _ _ _ S).
    - apply built_tmapping_valid. }
  assert (Hi : In (snd e) (map snd (s_tmap s))) by now apply in_map.
  pose proof (valid_ids_bound (s_tmap s) (snd e) V Hi) as Hlt. fold (space_n_treatments s) in Hlt.
  apply zero_indexed_spec in V as (u & Hu). apply Hu in Hi. rewrite sentinel_is_minus_one. lia.
Qed.

(* the doses the method returns for a name are doses of mapping rows of that name, none of them 0.0 *)
Theorem space_doses_for_treatment_spec : forall (sp : space) (nm : name) (d : Z),
  In d (space_doses_for_treatment sp nm) <-> (d <> 0 /\ In (nm, d) (map fst (sp_tmap sp))).
Proof.
  intros sp nm d. unfold space_doses_for_treatment, space_rows_named.
  rewrite (sort_uniq_In _ Zcmp_spec), filter_In, in_map_iff, negb_true_iff, Z.eqb_neq. split.
  - intros [(e & <- & He) Hd]. apply filter_In in He as [He En]. apply name_eqb_eq in En. split; [exact Hd|].
    apply in_map_iff. exists e. split; [|exact He]. destruct e as [[n x] i]. cbn [fst snd] in *. now subst.
  - intros [Hd Hin]. apply in_map_iff in Hin as ([[n x] i] & Ee & He). cbn [fst] in Ee. inversion Ee; subst n x.
    split; [|exact Hd]. exists (nm, d, i). split; [reflexivity|]. apply filter_In. split; [exact He|]. now apply name_eqb_eq.
Qed.
