(* C03: the faithful model of today's code (no mappings passed by reveal / mask / unmask) refutes ids_frozen.
   The witness is the prepared simulation of DESIGN section 6 row 1 (harness/c03.py WITNESS):
     parent: samples a a b b c c on plates p0 p0 p1 p1 p2 p2, treatments x x y y z z, plate p0 unobserved;
     fraction 1.0 holds out the whole of plate p0, so sample 'a' and treatment ('x', 1.0) occur only in the
     test half; the training half keeps b b c c with sample ids 1 1 2 2 (the parent's);
     one reveal_plates(train, [0]) / mask_screen / unmask_screen renumbers them 0 0 1 1. *)
From Coq Require Import ZArith List Bool Lia.
From Batchie Require Import Lib.Sexp Generated.Consts Model.Encode Model.Screen Model.Reveal Model.Holdout
  Proofs.C03Base Proofs.C03Screen Proofs.C12Reveal Proofs.C03Frozen.
Import ListNotations.
Open Scope Z_scope.

Definition w_row (s p t : Z) (dose obs : Z) (m : bool) : row :=
  {| r_sample := [s]; r_plate := [112; p]; r_treats := [([t], dose)]; r_obs := obs; r_mask := m |}.

(* names: a=97 b=98 c=99, plates "p0" "p1" "p2", treatments x=120 y=121 z=122;
   doses are order keys of 1.0 and 2.0; observations are the bit patterns of 0.5, 0.25, 0.75 *)
Definition w_rows : list row :=
  [ w_row 97 48 120 4607182418800017408 4602678819172646912 false;
    w_row 97 48 120 4607182418800017408 4598175219545276416 false;
    w_row 98 49 121 4607182418800017408 4602678819172646912 true;
    w_row 98 49 121 4607182418800017408 4604930618986332160 true;
    w_row 99 50 122 4611686018427387904 4602678819172646912 true;
    w_row 99 50 122 4611686018427387904 4604930618986332160 true ].

Definition w_sel : list bool := [true; true; false; false; false; false].

Definition dummy_screen : screen :=
  {| s_rows := []; s_arity := 0; s_ctrl := []; s_tmap := []; s_smap := []; s_pmap := [];
     s_tids := []; s_sids := []; s_pids := [] |}.
Definition get (r : result screen) : screen := match r with Ok s => s | Err _ => dummy_screen end.

Definition w_parent : screen := Eval vm_compute in get (mk_screen w_rows 1 [] None None true true).
Definition w_train : screen :=
  Eval vm_compute in match holdout_split w_parent w_sel with Ok pr => fst pr | Err _ => dummy_screen end.
Definition w_test : screen :=
  Eval vm_compute in match holdout_split w_parent w_sel with Ok pr => snd pr | Err _ => dummy_screen end.
Definition w_after (o : op) : screen := get (history (carry_mappings false) [o] w_train).

Lemma w_parent_ok : mk_screen w_rows 1 [] None None true true = Ok w_parent.
Proof. vm_compute. reflexivity. Qed.
Lemma w_split_ok : holdout_split w_parent w_sel = Ok (w_train, w_test).
Proof. vm_compute. reflexivity. Qed.

(* what "refuted" means for one operation [o] of today's code *)
Definition refutes (o : op) : Prop :=
  exists rows sel p tr te s',
    mk_screen rows 1 [] None None true true = Ok p /\
    holdout_split p sel = Ok (tr, te) /\
    history (carry_mappings false) [o] tr = Ok s' /\
    map r_sample (s_rows s') = map r_sample (s_rows tr) /\      (* the same experiments ...           *)
    s_sids tr = [1; 1; 2; 2] /\ s_sids s' = [0; 0; 1; 1] /\      (* ... get other sample ids           *)
    s_tids tr = [[1]; [1]; [2]; [2]] /\ s_tids s' = [[0]; [0]; [1]; [1]] /\
    s_smap s' <> s_smap p /\ s_tmap s' <> s_tmap p /\            (* the mappings are not the parent's  *)
    ~ frozen_to p s' /\
    (space_n_samples s' < space_n_samples p) /\ (space_n_treatments s' < space_n_treatments p).

Ltac refute o :=
  exists w_rows, w_sel, w_parent, w_train, w_test, (w_after o);
  split; [exact w_parent_ok|]; split; [exact w_split_ok|];
  split; [vm_compute; reflexivity|];
  split; [vm_compute; reflexivity|];
  split; [vm_compute; reflexivity|];
  split; [vm_compute; reflexivity|];
  split; [vm_compute; reflexivity|];
  split; [vm_compute; reflexivity|];
  split; [vm_compute; discriminate|];
  split; [vm_compute; discriminate|];
  split; [intros (_ & H & _); vm_compute in H; discriminate|];
  split; vm_compute; reflexivity.

Theorem reveal_refuted : refutes (Reveal [0]).
Proof. refute (Reveal [0]). Qed.
Theorem mask_refuted : refutes Mask.
Proof. refute Mask. Qed.
Theorem unmask_refuted : refutes Unmask.
Proof. refute Unmask. Qed.

(* the same simulation under the repaired construction keeps the ids *)
Example repaired_keeps_ids :
  option_map s_sids (match history (carry_mappings true) [Reveal [0]; Mask; Unmask; SaveLoad; Reveal [1; 0]] w_train with
                     | Ok s => Some s | Err _ => None end) = Some [1; 1; 2; 2].
Proof. vm_compute. reflexivity. Qed.
