(* C13: merge-smoother clauses on the unobserved plates of what smooth_plates returns, and the
   end-to-end count of MergeTopBottom. *)
From Coq Require Import ZArith List Bool Arith Lia Permutation.
From Batchie Require Import Lib.Sexp Model.Encode Model.Screen Model.Retro
  Proofs.C11Lib Proofs.C11Gen Proofs.C11Smooth Proofs.C11Select Proofs.C11Holdout
  Proofs.C13Wrap Proofs.C13NPlate Proofs.C13MergeLib Proofs.C13TopBottom Proofs.C13MergeMin.
Import ListNotations.
Open Scope nat_scope.

Definition halve (k : nat) : nat := (k + 1) / 2.

Lemma halve_small : forall k, k <= 1 -> halve k = k.
Proof. intros [|[|k]] H; try lia; reflexivity. Qed.
(* n iterations of k -> ceil(k/2) *)
Fixpoint halve_n (n k : nat) : nat := match n with O => k | S n' => halve_n n' (halve k) end.
Lemma iter_halve_small : forall n k, k <= 1 -> halve_n n k = k.
Proof. induction n as [|n IH]; intros k H; cbn [halve_n]; [reflexivity|]. rewrite halve_small by exact H. now apply IH. Qed.

Lemma tb_iters_counts : forall n s rows out, tb_iters n s rows = Ok out ->
  length (sample_plates s out) = halve_n n (length (sample_plates s rows)) /\
  forall s', s' <> s -> sample_plates s' out = sample_plates s' rows.
Proof.
  induction n as [|n IH]; intros s rows out H; cbn [tb_iters] in H.
  - inversion H; subst. split; reflexivity.
  - pose proof (tb_iter_halves s rows) as Hh.
    destruct (tb_iter s rows) as [[rows1|]|t]; cbn [res_bind] in H; try discriminate.
    + destruct Hh as (_ & H1 & H2). destruct (IH _ _ _ H) as [I1 I2]. split.
      * rewrite I1, H1. reflexivity.
      * intros s' Hs'. rewrite (I2 s' Hs'). now apply H2.
    + inversion H; subst. destruct Hh as [_ Hle]. split; [|reflexivity]. now rewrite iter_halve_small.
Qed.

Lemma tb_samples_counts : forall n samples rows out, tb_samples n samples rows = Ok out -> NoDup samples ->
  (forall s, In s samples -> length (sample_plates s out) = halve_n n (length (sample_plates s rows))) /\
  (forall s, ~ In s samples -> sample_plates s out = sample_plates s rows).
Proof.
  induction samples as [|s samples IH]; intros rows out H Hnd; cbn [tb_samples] in H.
  - inversion H; subst. split; [intros s []|reflexivity].
  - inversion Hnd as [|? ? Hn Hd]; subst.
    destruct (tb_iters n s rows) as [rows1|t] eqn:E; cbn [res_bind] in H; [|discriminate].
    destruct (tb_iters_counts _ _ _ _ E) as [T1 T2]. destruct (IH _ _ H Hd) as [I1 I2]. split.
    + intros s0 [<-|Hs0].
      * now rewrite (I2 s Hn).
      * rewrite (I1 s0 Hs0), T2; [reflexivity|]. intros ->. contradiction.
    + intros s0 Hs0. rewrite I2 by (intros Hin; apply Hs0; now right). apply T2. intros ->. apply Hs0. now left.
Qed.

Theorem merge_tb_counts : forall n rows out, merge_tb n rows = Ok out ->
  forall s, length (sample_plates s out) = halve_n (Z.to_nat n) (length (sample_plates s rows)).
Proof.
  intros n rows out H s. unfold merge_tb in H.
  destruct (tb_samples_counts _ _ _ _ H (NoDup_sort_uniq _)) as [T1 T2].
  destruct (in_dec (list_eq_dec Z.eq_dec) s (sample_names rows)) as [Hin|Hnot]; [now apply T1|].
  rewrite (T2 s Hnot).
  assert (E : sample_plates s rows = []).
  { destruct (sample_plates s rows) as [|p l] eqn:Ep; [reflexivity|]. exfalso. apply Hnot.
    assert (Hp : In p (sample_plates s rows)) by (rewrite Ep; now left).
    apply In_sample_plates in Hp as (r & Hr & Hs & _). apply In_sample_names. eauto. }
  rewrite E. cbn [length]. now rewrite iter_halve_small by lia.
Qed.

(* ---------- through smooth_plates ---------- *)
Lemma one_sample_nil : one_sample [].
Proof. intros r1 r2 []. Qed.

Theorem merge_same_sample_w : forall rows ds out ds',
  (forall ms, smooth_plates (SMergeMin ms) rows ds = Ok (out, ds') -> one_sample (unobserved out)) /\
  (forall n, smooth_plates (SMergeTB n) rows ds = Ok (out, ds') ->
     one_sample (unobserved out) \/ ((n <= 0)%Z /\ unobserved out = unobserved rows)).
Proof.
  intros rows ds out ds'. split.
  - intros ms H. apply smooth_wrap_unobs in H as [[_ E]|H]; [rewrite E; apply one_sample_nil|].
    cbn [smooth_inner] in H. now apply merge_min_stop in H.
  - intros n H. apply smooth_wrap_unobs in H as [[_ E]|H]; [left; rewrite E; apply one_sample_nil|].
    cbn [smooth_inner] in H. apply pure_sm_ok in H. now apply merge_tb_same_sample in H.
Qed.

Lemma stop_rule_nil : forall s ms, stop_rule s ms [].
Proof. intros s ms p q Hp. apply In_sample_plates in Hp as (r & [] & _). Qed.

Theorem mergemin_stop_w : forall ms rows ds out ds',
  smooth_plates (SMergeMin ms) rows ds = Ok (out, ds') ->
  (forall s, stop_rule s ms (unobserved out)) /\
  ((forall s, stop_rule s ms (unobserved rows)) -> unobserved out = unobserved rows).
Proof.
  intros ms rows ds out ds' H. apply smooth_wrap_unobs in H as [[E1 E2]|H].
  - rewrite E1, E2. split; [intros s; apply stop_rule_nil|reflexivity].
  - cbn [smooth_inner] in H. apply merge_min_stop in H. tauto.
Qed.

Theorem topbottom_counts_w : forall n rows ds out ds',
  smooth_plates (SMergeTB n) rows ds = Ok (out, ds') ->
  forall s, length (sample_plates s (unobserved out))
            = halve_n (Z.to_nat n) (length (sample_plates s (unobserved rows))).
Proof.
  intros n rows ds out ds' H s. apply smooth_wrap_unobs in H as [[E1 E2]|H].
  - rewrite E1, E2. cbn. now rewrite iter_halve_small by lia.
  - cbn [smooth_inner] in H. apply pure_sm_ok in H. now apply merge_tb_counts.
Qed.
