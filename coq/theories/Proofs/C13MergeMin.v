(* C13: MergeMin - merges stay within a sample and the loop stops exactly when the two smallest
   plates of the sample together exceed min_size. *)
From Coq Require Import ZArith List Bool Arith Lia Permutation.
From Batchie Require Import Lib.Sexp Model.Encode Model.Screen Model.Retro
  Proofs.C11Lib Proofs.C11Gen Proofs.C11Smooth Proofs.C11Select Proofs.C11Holdout
  Proofs.C13NPlate Proofs.C13MergeLib.
Import ListNotations.
Open Scope nat_scope.

(* the stop condition for sample s: any two distinct plates of s together exceed min_size
   (equivalently: the two smallest do) *)
Definition stop_rule (s : name) (ms : Z) (rows : list row) : Prop :=
  forall p q, In p (sample_plates s rows) -> In q (sample_plates s rows) -> p <> q ->
    (ms < Z.of_nat (plate_count p rows + plate_count q rows))%Z.

(* the plates of sample s are untouched between rows and rows' *)
Definition keeps_sample (s : name) (rows rows' : list row) : Prop :=
  sample_plates s rows' = sample_plates s rows /\
  forall c, In c (sample_plates s rows) -> plate_vec c rows' = plate_vec c rows.

Lemma vcount_plate_vec : forall p rows, vcount (plate_vec p rows) = plate_count p rows.
Proof. intros. unfold plate_vec, plate_count. apply vcount_map. Qed.

Lemma keeps_refl : forall s rows, keeps_sample s rows rows.
Proof. intros. split; auto. Qed.
Lemma keeps_trans : forall s r1 r2 r3, keeps_sample s r1 r2 -> keeps_sample s r2 r3 -> keeps_sample s r1 r3.
Proof.
  intros s r1 r2 r3 [A1 A2] [B1 B2]. split; [congruence|].
  intros c Hc. rewrite B2 by (rewrite A1; exact Hc). now apply A2.
Qed.
Lemma keeps_stop : forall s ms rows rows', keeps_sample s rows rows' -> stop_rule s ms rows -> stop_rule s ms rows'.
Proof.
  intros s ms rows rows' [K1 K2] H p q Hp Hq Hne. rewrite K1 in Hp, Hq.
  rewrite <- !vcount_plate_vec, (K2 p Hp), (K2 q Hq), !vcount_plate_vec. now apply H.
Qed.

Lemma plates_disjoint : forall rows s s' c, one_sample rows -> s' <> s ->
  In c (sample_plates s' rows) -> ~ In c (sample_plates s rows).
Proof.
  intros rows s s' c Hone Hne H1 H2. apply In_sample_plates in H1 as (r1 & Hr1 & Hs1 & Hp1).
  apply In_sample_plates in H2 as (r2 & Hr2 & Hs2 & Hp2). apply Hne.
  rewrite <- Hs1, <- Hs2. apply Hone; congruence.
Qed.

(* ---------- list surgery ---------- *)
Lemma remove_nth_map {A B} (f : A -> B) : forall i l, remove_nth i (map f l) = map f (remove_nth i l).
Proof.
  intros i l. revert i. induction l as [|x l IH]; intros [|i]; cbn [map remove_nth]; try reflexivity. now rewrite IH.
Qed.
Lemma remove_nth_length {A} : forall i (l : list A) x, nth_error l i = Some x -> length l = S (length (remove_nth i l)).
Proof.
  intros i l. revert i. induction l as [|y l IH]; intros [|i] x H; cbn in H; try discriminate; cbn [remove_nth length].
  - reflexivity.
  - f_equal. eapply IH; exact H.
Qed.
Lemma remove_nth_NoDup : forall i (l : list name) x, NoDup l -> nth_error l i = Some x ->
  NoDup (remove_nth i l) /\ forall q, In q (remove_nth i l) <-> In q l /\ q <> x.
Proof.
  intros i l. revert i. induction l as [|y l IH]; intros [|i] x Hnd H; cbn in H; try discriminate;
    inversion Hnd as [|? ? Hn Hd]; subst; cbn [remove_nth].
  - inversion H; subst. split; [exact Hd|]. intros q. cbn [In]. split.
    + intros Hq. split; [now right|]. intros ->. contradiction.
    + intros [[->|Hq] Hne]; [congruence|exact Hq].
  - destruct (IH i x Hd H) as [I1 I2]. split.
    + constructor; [|exact I1]. intros Hin. apply I2 in Hin. tauto.
    + intros q. cbn [In]. rewrite I2. split.
      * intros [->|[Hq Hne]]; [|tauto]. split; [now left|]. intros ->. apply Hn. eapply nth_error_In; exact H.
      * intros [[->|Hq] Hne]; tauto.
Qed.

Lemma pop_names (f : name -> bvec) : forall names ds v h ds',
  pop (map f names) ds = Ok (v, h, ds') ->
  exists i p, nth_error names i = Some p /\ v = f p /\ h = map f (remove_nth i names) /\
              forall q, In q names -> vcount (f p) <= vcount (f q).
Proof.
  intros names ds v h ds' H. apply pop_ok in H as (i & _ & Hn & -> & Hall).
  rewrite nth_error_map in Hn. destruct (nth_error names i) as [p|] eqn:E; [|discriminate].
  cbn in Hn. inversion Hn; subst v. exists i, p. repeat split; auto using remove_nth_map.
  intros q Hq. rewrite forallb_forall in Hall. apply Nat.leb_le. apply Hall. now apply in_map.
Qed.

(* ---------- the loop for one sample ---------- *)
Section Loop.
Variables (s : name) (ms : Z).

Definition heap_inv (names : list name) (heap : list bvec) (rows : list row) : Prop :=
  heap = map (fun p => plate_vec p rows) names /\ NoDup names /\
  (forall p, In p names <-> In p (sample_plates s rows)) /\ one_sample rows.

Lemma mm_loop_spec : forall fuel names heap rows ds rows' ds',
  mm_loop fuel ms heap rows ds = Ok (rows', ds') ->
  heap_inv names heap rows -> length heap <= fuel ->
  stop_rule s ms rows' /\ one_sample rows' /\
  (forall s', s' <> s -> keeps_sample s' rows rows') /\
  (stop_rule s ms rows -> rows' = rows).
Proof.
  induction fuel as [|f IH]; intros names heap rows ds rows' ds' H (Hh & Hnd & Hmem & Hone) Hlen;
    cbn [mm_loop] in H.
  - inversion H; subst rows' ds'. destruct heap; [|cbn in Hlen; lia].
    destruct names; [|discriminate]. repeat split; auto using keeps_refl.
    intros p q Hp. apply Hmem in Hp. contradiction.
  - destruct (length heap <=? 1) eqn:El.
    + apply Nat.leb_le in El. inversion H; subst rows' ds'. repeat split; auto using keeps_refl.
      intros p q Hp Hq Hne. apply Hmem in Hp. apply Hmem in Hq. exfalso.
      rewrite Hh, map_length in El. destruct names as [|x [|y l]]; cbn in El; try lia.
      * contradiction.
      * destruct Hp as [<-|[]]. destruct Hq as [<-|[]]. congruence.
    + subst heap. set (fr := fun p => plate_vec p rows) in *.
      destruct (pop (map fr names) ds) as [[[a h1] ds1]|t] eqn:P1; cbn [res_bind] in H; [|discriminate].
      apply pop_names in P1 as (i & pa & Hi & -> & -> & Hmin1).
      destruct (pop (map fr (remove_nth i names)) ds1) as [[[b h2] ds2]|t] eqn:P2; cbn [res_bind] in H; [|discriminate].
      apply pop_names in P2 as (j & pb & Hj & -> & -> & Hmin2).
      destruct (remove_nth_NoDup i names pa Hnd Hi) as [Hnd1 Hmem1].
      destruct (remove_nth_NoDup j _ pb Hnd1 Hj) as [Hnd2 Hmem2].
      assert (Hpb : In pb names /\ pb <> pa) by (apply Hmem1; eapply nth_error_In; exact Hj).
      destruct Hpb as [Hpb Hne]. assert (Hpa : In pa names) by (eapply nth_error_In; exact Hi).
      unfold fr in H at 1 2. rewrite !vcount_plate_vec in H.
      destruct (Z.of_nat (plate_count pa rows + plate_count pb rows) >? ms)%Z eqn:Eg.
      * apply Z.gtb_lt in Eg. inversion H; subst rows' ds'. repeat split; auto using keeps_refl.
        intros p q Hp Hq Hpq. apply Hmem in Hp. apply Hmem in Hq.
        assert (Ha : forall x, In x names -> plate_count pa rows <= plate_count x rows).
        { intros x Hx. specialize (Hmin1 x Hx). unfold fr in Hmin1. now rewrite !vcount_plate_vec in Hmin1. }
        assert (Hb : forall x, In x names -> x <> pa -> plate_count pb rows <= plate_count x rows).
        { intros x Hx Hxa. assert (Hx1 : In x (remove_nth i names)) by (apply Hmem1; auto).
          specialize (Hmin2 x Hx1). unfold fr in Hmin2. now rewrite !vcount_plate_vec in Hmin2. }
        destruct (list_eq_dec Z.eq_dec q pa) as [->|Hq'].
        -- pose proof (Hb p Hp Hpq). pose proof (Ha pa Hpa). lia.
        -- pose proof (Hb q Hq Hq'). pose proof (Ha p Hp). lia.
      * unfold fr in H at 1 2. rewrite merge_exact in H.
        assert (Sa : In pa (sample_plates s rows)) by now apply Hmem.
        assert (Sb : In pb (sample_plates s rows)) by now apply Hmem.
        set (rows1 := merge_names pb pa rows) in *. set (nm := first_plate pb pa rows).
        pose proof (eff_one_sample s pb pa rows Hone Sb Sa) as Hone1.
        destruct (eff_plates s pb pa rows Hone Sb Sa Hne) as (other & Ho1 & Ho2 & Ho3 & Ho4).
        pose proof (eff_other_samples s pb pa rows Hone Sb Sa) as Hos.
        pose proof (eff_other_vec s pb pa rows Sb) as Hov.
        pose proof (eff_merged_vec s pb pa rows Sb) as Hmv.
        pose proof (eff_nm s pb pa rows Sb) as Hnm.
        fold rows1 nm in Hone1, Ho2, Ho4, Hos, Hov, Hmv, Hnm.
        set (names2 := remove_nth j (remove_nth i names)) in *.
        assert (Hn2 : forall c, In c names2 <-> In c names /\ c <> pa /\ c <> pb).
        { intros c. rewrite Hmem2, Hmem1. tauto. }
        assert (Hinv : heap_inv (names2 ++ [nm]) (map fr names2 ++ [map (in_ab pb pa) rows]) rows1).
        { split; [|split; [|split; [|exact Hone1]]].
          - rewrite map_app. cbn [map]. rewrite Hmv. f_equal. apply map_ext_in. intros c Hc.
            apply Hn2 in Hc. unfold fr. symmetry. apply Hov; tauto.
          - eapply Permutation_NoDup; [apply Permutation_cons_append|]. constructor; [|exact Hnd2].
            intros Hin. apply Hn2 in Hin. destruct Hnm as [E|E]; rewrite E in Hin; tauto.
          - intros p. rewrite in_app_iff, Hn2, Ho4, <- Hmem. cbn [In].
            destruct (list_eq_dec Z.eq_dec p nm) as [->|Hpn].
            + split; [intros _|tauto]. split; [destruct Hnm as [->| ->]; assumption|congruence].
            + split.
              * intros [(H1 & H2 & H3)|[E|[]]]; [|congruence]. split; [exact H1|]. destruct Ho1 as [->| ->]; congruence.
              * intros [H1 H2]. left. split; [exact H1|].
                destruct Hnm as [E|E]; destruct Ho1 as [E'|E']; rewrite E in *; rewrite E' in *;
                  split; congruence. }
        apply (IH (names2 ++ [nm])) in H; [|exact Hinv|].
        -- destruct H as (R1 & R2 & R3 & R4). split; [exact R1|]. split; [exact R2|]. split.
           ++ intros s' Hs'. eapply keeps_trans; [|apply R3; exact Hs'].
              split; [now apply Hos|]. intros c Hc. apply Hov; intros ->;
                eapply (plates_disjoint rows s s'); eauto.
           ++ intros Hstop. exfalso. specialize (Hstop pa pb Sa Sb ltac:(congruence)).
              rewrite Z.gtb_ltb in Eg. apply Z.ltb_ge in Eg. lia.
        -- rewrite app_length, map_length. cbn [length]. rewrite map_length in Hlen.
           rewrite (remove_nth_length i names pa Hi), (remove_nth_length j _ pb Hj) in Hlen.
           fold names2 in Hlen. lia.
Qed.
End Loop.

(* ---------- all samples ---------- *)
Lemma mm_samples_spec : forall ms samples rows ds out ds',
  mm_samples ms samples rows ds = Ok (out, ds') -> NoDup samples ->
  (forall s, In s samples -> stop_rule s ms out) /\
  (forall s', ~ In s' samples -> keeps_sample s' rows out) /\
  ((forall s, In s samples -> stop_rule s ms rows) -> out = rows) /\
  (samples <> [] -> one_sample out).
Proof.
  intros ms samples. induction samples as [|s samples IH]; intros rows ds out ds' H Hnd; cbn [mm_samples] in H.
  - inversion H; subst. split; [intros s []|]. split; [intros; apply keeps_refl|]. split; [reflexivity|congruence].
  - inversion Hnd as [|? ? Hn Hd]; subst.
    destruct (plates_of_sample s rows) as [ps|t] eqn:Ep; cbn [res_bind] in H; [|discriminate].
    destruct (plates_of_sample_spec _ _ _ Ep) as (Hone & Hndp & Hmem).
    destruct (mm_loop _ ms _ rows ds) as [[rows1 ds1]|t] eqn:El; cbn [res_bind] in H; [|discriminate].
    apply (mm_loop_spec s ms _ ps) in El as (L1 & L2 & L3 & L4); [|repeat split; auto; apply Hmem|lia].
    destruct (IH _ _ _ _ H Hd) as (I1 & I2 & I3 & I4). split; [|split; [|split]].
    + intros s0 [<-|Hs0]; [|now apply I1]. eapply keeps_stop; [apply I2; exact Hn|exact L1].
    + intros s' Hs'. eapply keeps_trans; [apply L3|apply I2]; intros E; apply Hs'; [left; congruence|now right].
    + intros Hall. assert (rows1 = rows) by (apply L4, Hall; now left). subst rows1.
      apply I3. intros s0 Hs0. apply Hall. now right.
    + intros _. destruct samples as [|s2 l]; [|apply I4; discriminate].
      cbn [mm_samples] in H. inversion H; subst. exact L2.
Qed.

Lemma sample_names_of_strip : forall a b, map strip a = map strip b -> sample_names a = sample_names b.
Proof.
  intros a b H. unfold sample_names. f_equal.
  transitivity (map (fun x => fst (fst (fst x))) (map strip a)); [now rewrite map_map|].
  rewrite H. now rewrite map_map.
Qed.

Theorem merge_min_stop : forall ms rows ds out ds',
  merge_min ms rows ds = Ok (out, ds') ->
  one_sample out /\ (forall s, stop_rule s ms out) /\ ((forall s, stop_rule s ms rows) -> out = rows).
Proof.
  intros ms rows ds out ds' H. pose proof (merge_min_strip _ _ _ _ _ H) as Hstrip.
  unfold merge_min in H. destruct (mm_samples_spec _ _ _ _ _ _ H (NoDup_sort_uniq _)) as (S1 & S2 & S3 & S4).
  split; [|split].
  - destruct (sample_names rows) as [|s l] eqn:Es; [|apply S4; discriminate].
    cbn in H. inversion H; subst. intros r1 r2 H1. exfalso.
    assert (Hin : In (r_sample r1) (sample_names out)) by (apply In_sample_names; eauto).
    rewrite Es in Hin. contradiction.
  - intros s. destruct (in_dec (list_eq_dec Z.eq_dec) s (sample_names rows)) as [Hin|Hnot]; [now apply S1|].
    intros p q Hp. exfalso. apply Hnot. rewrite <- (sample_names_of_strip _ _ Hstrip).
    apply In_sample_plates in Hp as (r & Hr & Hs & _). apply In_sample_names. eauto.
  - intros Hall. apply S3. intros s _. apply Hall.
Qed.
