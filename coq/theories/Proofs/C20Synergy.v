(* C20 proofs, part 2: the single-effect dict / array and calculate_synergy equal their
   row-by-row definitions (Proofs/C20Spec.v). *)
From Coq Require Import ZArith List QArith Qcanon Lia Arith Bool ZifyBool.
From Batchie Require Import Lib.Sexp Lib.Num Lib.NumP Model.Metrics Model.Synergy
  Proofs.C20Spec Proofs.C20Base.
Import ListNotations.
Open Scope Qc_scope.

Definition valid_id (t : Z) : Prop := (-1 <= t)%Z.

(* ---- one row: the count / max test is "t in one column, control elsewhere" ---- *)

Lemma is_control_spec t : is_control t = true <-> t = CONTROL.
Proof. unfold is_control. apply Z.eqb_eq. Qed.

Lemma n_control_cons x r : n_control (x :: r) = if is_control x then S (n_control r) else n_control r.
Proof. unfold n_control. cbn [filter]. now destruct (is_control x). Qed.

Lemma n_control_le r : (n_control r <= length r)%nat.
Proof.
  induction r as [|x r IH]; [cbn; lia|]. rewrite n_control_cons. cbn [length]. destruct (is_control x); lia.
Qed.

Lemma all_control_count r : forallb is_control r = Nat.eqb (n_control r) (length r).
Proof.
  induction r as [|x r IH]; [reflexivity|].
  cbn [forallb length]. rewrite n_control_cons, IH. pose proof (n_control_le r).
  destruct (is_control x); cbn [andb].
  - reflexivity.
  - symmetry. apply Nat.eqb_neq. lia.
Qed.

Lemma fold_max_assoc l a b : fold_left Z.max l (Z.max a b) = Z.max a (fold_left Z.max l b).
Proof.
  revert b; induction l as [|c l IH]; intros b; [reflexivity|].
  cbn [fold_left]. rewrite <- Z.max_assoc. apply IH.
Qed.

Lemma row_max_ge r : Forall valid_id r -> (-1 <= row_max r)%Z.
Proof.
  destruct r as [|x r]; [unfold row_max, CONTROL; lia|]. cbn [row_max]. intros H. inversion H as [|? ? Hx Hr]; subst.
  clear H. revert x Hx. induction Hr as [|y r Hy Hr IH]; intros x Hx; [exact Hx|].
  cbn [fold_left]. apply IH. unfold valid_id in *. lia.
Qed.

Lemma row_max_cons x r : Forall valid_id (x :: r) -> row_max (x :: r) = Z.max x (row_max r).
Proof.
  intros H. inversion H as [|? ? Hx Hr]; subst. destruct r as [|y r].
  - cbn. unfold valid_id, CONTROL in *. lia.
  - cbn [row_max fold_left]. apply fold_max_assoc.
Qed.

Lemma all_control_max r : forallb is_control r = true -> row_max r = CONTROL.
Proof.
  destruct r as [|x r]; [reflexivity|]. cbn [forallb row_max]. intros H. apply andb_true_iff in H as [Hx Hr].
  apply is_control_spec in Hx. subst x. induction r as [|y r IH]; [reflexivity|].
  cbn [forallb] in Hr. apply andb_true_iff in Hr as [Hy Hr]. apply is_control_spec in Hy. subst y.
  cbn [fold_left]. rewrite Z.max_id. now apply IH.
Qed.

Lemma len_cons_pred {A} (x : A) r : (length (x :: r) - 1)%nat = length r.
Proof. cbn [length]. lia. Qed.
Lemma mask_single_of t row :
  t <> CONTROL -> Forall valid_id row ->
  Nat.eqb (n_control row) (length row - 1) && (row_max row =? t)%Z = single_of t row.
Proof.
  intros Ht. induction row as [|x r IH]; intros Hv.
  - change (row_max []) with CONTROL. cbn [single_of]. destruct (Z.eqb_spec CONTROL t); [congruence|]. now rewrite andb_false_r.
  - pose proof (row_max_cons x r Hv) as Hmax. inversion Hv as [|? ? Hx Hr]; subst.
    specialize (IH Hr). pose proof (row_max_ge r Hr) as Hge. pose proof (n_control_le r) as Hle.
    rewrite Hmax, n_control_cons, len_cons_pred. cbn [single_of].
    rewrite all_control_count. rewrite <- IH.
    unfold valid_id in *.
    destruct (is_control x) eqn:Ex.
    + apply is_control_spec in Ex. subst x. unfold CONTROL at 1 2.
      destruct (Z.eqb_spec (-1) t) as [E|E]; [unfold CONTROL in Ht; congruence|].
      cbn [andb orb]. rewrite Z.max_r by lia.
      destruct r as [|y r']; [change (row_max []) with (-1)%Z; destruct (Z.eqb_spec (-1) t); [congruence|reflexivity]|].
      rewrite len_cons_pred. reflexivity.
    + cbn [andb orb]. rewrite orb_false_r.
      destruct (Nat.eqb_spec (n_control r) (length r)) as [Ec|Ec]; cbn [andb]; [|now rewrite andb_false_r].
      assert (Hall : forallb is_control r = true) by (rewrite all_control_count; now apply Nat.eqb_eq).
      rewrite (all_control_max r Hall). unfold CONTROL. rewrite Z.max_l by lia. now rewrite andb_true_r.
Qed.
Lemma mask_one_noncontrol row :
  row <> [] -> Nat.eqb (n_control row) (length row - 1) = one_noncontrol row.
Proof.
  induction row as [|x r IH]; intros Hne; [congruence|].
  rewrite n_control_cons, len_cons_pred. cbn [one_noncontrol].
  pose proof (n_control_le r) as Hle.
  destruct (is_control x).
  - destruct r as [|y r']; [reflexivity|]. rewrite <- IH by congruence. now rewrite len_cons_pred.
  - symmetry. apply all_control_count.
Qed.

(* ---- lookups in the dict ---- *)

Lemma find_app {A} (p : A -> bool) a b :
  find p (a ++ b) = match find p a with Some x => Some x | None => find p b end.
Proof. induction a as [|x a IH]; [reflexivity|]. cbn [app find]. now destruct (p x). Qed.

Lemma map_lookup_app a b s t :
  map_lookup (a ++ b) s t = match map_lookup a s t with Some v => Some v | None => map_lookup b s t end.
Proof. unfold map_lookup. rewrite find_app. now destruct (find _ a). Qed.

Definition entries (ent : Z -> Z -> option Qc) (s : Z) (T : list Z) : effect_map_t :=
  flat_map (fun t => match ent s t with Some v => [((s, t), v)] | None => [] end) T.

Lemma lookup_entries ent s' T s t :
  map_lookup (entries ent s' T) s t
  = if (s' =? s)%Z && existsb (Z.eqb t) T then ent s t else None.
Proof.
  induction T as [|t' T IH].
  - cbn. now rewrite andb_false_r.
  - unfold entries in *. cbn [flat_map existsb]. rewrite map_lookup_app, IH.
    destruct (Z.eqb_spec s' s) as [Es|Es]; cbn [andb].
    + subst s'. destruct (Z.eqb_spec t t') as [Et|Et]; cbn [orb].
      * subst t'. destruct (ent s t) as [v|] eqn:E.
        -- unfold map_lookup. cbn [find fst snd]. now rewrite !Z.eqb_refl.
        -- cbn. now destruct (existsb (Z.eqb t) T).
      * destruct (ent s t') as [v|]; [|reflexivity].
        unfold map_lookup at 1. cbn [find fst snd]. rewrite Z.eqb_refl. cbn [andb].
        destruct (Z.eqb_spec t' t); [congruence|reflexivity].
    + destruct (ent s' t') as [v|]; [|reflexivity].
      unfold map_lookup at 1. cbn [find fst snd]. destruct (Z.eqb_spec s' s); [congruence|reflexivity].
Qed.

Lemma lookup_all_entries ent S T s t :
  map_lookup (flat_map (fun s' => entries ent s' T) S) s t
  = if existsb (Z.eqb s) S && existsb (Z.eqb t) T then ent s t else None.
Proof.
  induction S as [|s' S IH]; [reflexivity|].
  cbn [flat_map existsb]. rewrite map_lookup_app, lookup_entries, IH.
  rewrite (Z.eqb_sym s s').
  destruct (Z.eqb_spec s' s) as [Es|Es]; cbn [andb orb]; [|reflexivity].
  destruct (existsb (Z.eqb t) T); cbn [andb]; [|now rewrite andb_false_r].
  destruct (ent s t); [reflexivity|]. now destruct (existsb (Z.eqb s) S).
Qed.

Lemma existsb_sorted_unique x l : existsb (Z.eqb x) (sorted_unique l) = existsb (Z.eqb x) l.
Proof.
  apply eq_iff_eq_true. rewrite !existsb_exists. split; intros (y & Hy & E); exists y; split; try assumption.
  - now apply sorted_unique_In.
  - now apply sorted_unique_In.
Qed.

Lemma existsb_eqb_In x l : In x l -> existsb (Z.eqb x) l = true.
Proof. intros H. apply existsb_exists. exists x. split; [exact H|apply Z.eqb_refl]. Qed.

(* ---- the selections of the single-agent rows ---- *)

Lemma flat_map_ext_in {A B} (f g : A -> list B) l :
  (forall a, In a l -> f a = g a) -> flat_map f l = flat_map g l.
Proof.
  induction l as [|a l IH]; intros H; [reflexivity|]. cbn [flat_map].
  rewrite (H a) by now left. rewrite IH; [reflexivity|]. intros b Hb. apply H. now right.
Qed.

Lemma existsb_select (m : list bool) (l : list Qc) :
  length m = length l ->
  existsb (fun b => b) m = match select m l with [] => false | _ => true end.
Proof.
  revert l; induction m as [|b m IH]; intros [|x l] H; try discriminate; [reflexivity|].
  rewrite select_cons. cbn [existsb]. injection H as H. destruct b; [reflexivity|]. cbn [orb]. now apply IH.
Qed.

Section Sel.
Variable pm : list Z -> bool.
Variables s t : Z.

Definition inner_mask (tids : list (list Z)) (sids : list Z) : list bool :=
  let mask := map pm tids in
  map (fun ts : Z * Z => (fst ts =? t)%Z && (snd ts =? s)%Z)
      (combine (map row_max (select mask tids)) (select mask sids)).

Lemma sel_sel tids : forall sids obs,
  length sids = length tids -> length obs = length tids ->
  select (inner_mask tids sids) (select (map pm tids) obs)
  = flat_map (fun r : Z * list Z * Qc =>
                if pm (snd (fst r)) && (row_max (snd (fst r)) =? t)%Z && (fst (fst r) =? s)%Z
                then [snd r] else [])
             (rows3 sids tids obs)
  /\ length (inner_mask tids sids) = length (select (map pm tids) obs).
Proof.
  unfold inner_mask, rows3.
  induction tids as [|row tids IH]; intros [|sid sids] [|ob obs] Hs Ho; try discriminate.
  - split; reflexivity.
  - injection Hs as Hs. injection Ho as Ho. destruct (IH sids obs Hs Ho) as [IH1 IH2].
    cbn [map combine flat_map fst snd]. rewrite !select_cons.
    destruct (pm row); cbn [andb map combine fst snd].
    + rewrite select_cons. cbn [length]. rewrite IH2. split; [|reflexivity].
      destruct ((row_max row =? t)%Z && (sid =? s)%Z); cbn [app]; now rewrite IH1.
    + split; assumption.
Qed.
End Sel.

(* ---- the dict ---- *)

Section Map.
Variable arity : nat.
Variable sids : list Z.
Variable tids : list (list Z).
Variable obs : list Qc.
Hypothesis Har : (2 <= arity)%nat.
Hypothesis Hs : length sids = length tids.
Hypothesis Ho : length obs = length tids.
Hypothesis Hrect : Forall (fun r => length r = arity) tids.
Hypothesis Hvalid : Forall (Forall valid_id) tids.

Let pm (row : list Z) : bool := Nat.eqb (n_control row) (arity - 1).

Definition code_entry (s t : Z) : option Qc :=
  if is_control t then Some 1
  else
    let m := inner_mask pm s t tids sids in
    if existsb (fun b => b) m then Some (qmean (select m (select (map pm tids) obs))) else None.

Lemma effect_map_entries :
  effect_map arity sids tids obs
  = Ok (flat_map (fun s => entries code_entry s (sorted_unique (concat tids))) (sorted_unique sids)).
Proof.
  unfold effect_map. destruct (Nat.ltb_spec arity 2); [lia|].
  rewrite Hs, Ho, !Nat.eqb_refl. cbn [negb orb]. f_equal.
  apply flat_map_ext_in. intros s _. unfold entries. apply flat_map_ext_in. intros t _.
  unfold code_entry, inner_mask, single_mask. fold pm.
  destruct (is_control t); [reflexivity|].
  now destruct (existsb _ _).
Qed.

Lemma row_in_rows3 r : In r (rows3 sids tids obs) -> In (snd (fst r)) tids /\ In (fst (fst r)) sids.
Proof.
  unfold rows3. destruct r as [[s row] ob]. intros H. apply in_combine_l in H.
  split; [eapply in_combine_r|eapply in_combine_l]; exact H.
Qed.

Lemma code_entry_def s t : code_entry s t = single_effect_def sids tids obs s t.
Proof.
  unfold code_entry, single_effect_def. destruct (is_control t) eqn:Et; [reflexivity|].
  assert (Ht : t <> CONTROL) by (intros E; apply is_control_spec in E; congruence).
  destruct (sel_sel pm s t tids sids obs Hs Ho) as [H1 H2].
  rewrite (existsb_select _ _ H2), H1.
  replace (flat_map _ (rows3 sids tids obs)) with (single_obs sids tids obs s t).
  - unfold qmean. rewrite qlen_qnat. now destruct (single_obs sids tids obs s t).
  - unfold single_obs. apply flat_map_ext_in. intros r Hr. apply row_in_rows3 in Hr as [Hr _].
    rewrite Forall_forall in Hrect, Hvalid. unfold pm. rewrite <- (Hrect _ Hr).
    rewrite (mask_single_of t _ Ht (Hvalid _ Hr)). now rewrite andb_comm.
Qed.

Theorem effect_map_eq :
  exists m, effect_map arity sids tids obs = Ok m /\
    forall s t, map_lookup m s t
                = if existsb (Z.eqb s) sids && existsb (Z.eqb t) (concat tids)
                  then single_effect_def sids tids obs s t else None.
Proof.
  eexists. split; [apply effect_map_entries|]. intros s t.
  rewrite lookup_all_entries, !existsb_sorted_unique, code_entry_def. reflexivity.
Qed.

Theorem effect_array_eq :
  effect_array arity sids tids obs = effect_array_def sids tids obs.
Proof.
  unfold effect_array, effect_array_def. destruct effect_map_eq as (m & -> & Hm). cbn [res_bind].
  apply res_map_all_ext_in. intros [s row] Hin. cbn [fst snd].
  apply res_map_all_ext_in. intros t Ht. rewrite Hm.
  rewrite (existsb_eqb_In s sids) by (eapply in_combine_l; exact Hin).
  rewrite (existsb_eqb_In t (concat tids)); [reflexivity|].
  apply in_concat. exists row. split; [eapply in_combine_r; exact Hin|exact Ht].
Qed.

(* ---- synergy ---- *)

Lemma rows_select (p : list Z -> bool) : forall (ss : list Z) (tt : list (list Z)) (oo : list Qc),
  length ss = length tt -> length oo = length tt ->
  combine (combine (select (map p tt) ss) (select (map p tt) tt)) (select (map p tt) oo)
  = filter (fun r => p (snd (fst r))) (rows3 ss tt oo).
Proof.
  unfold rows3. intros ss tt; revert ss; induction tt as [|row tt IH]; intros [|s ss] [|ob oo] H1 H2; try discriminate; [reflexivity|].
  injection H1 as H1. injection H2 as H2. cbn [map combine filter fst snd]. rewrite !select_cons.
  destruct (p row); cbn [combine]; now rewrite IH.
Qed.

Lemma control_effect s t : is_control t = true -> single_effect_def sids tids obs s t = Some 1.
Proof. intros H. unfold single_effect_def. now rewrite H. Qed.

Lemma noncontrol_effects (g : Z -> option Qc) row :
  (forall t, is_control t = true -> g t = Some 1) ->
  forallb is_some (map g (filter (fun t => negb (is_control t)) row)) = forallb is_some (map g row)
  /\ qprod (somes (map g (filter (fun t => negb (is_control t)) row))) = qprod (somes (map g row)).
Proof.
  intros Hg. induction row as [|x r [IH1 IH2]]; [split; reflexivity|].
  cbn [filter map]. destruct (is_control x) eqn:Ex; cbn [negb].
  - rewrite (Hg x Ex). cbn [forallb is_some andb somes flat_map app]. fold (somes (map g r)).
    split; [exact IH1|]. cbn [qprod fold_right]. fold (qprod (somes (map g r))). rewrite IH2. ring.
  - cbn [map forallb]. rewrite IH1. split; [reflexivity|].
    cbn [somes flat_map]. fold (somes (map g r)). fold (somes (map g (filter (fun t => negb (is_control t)) r))).
    destruct (g x); cbn [app]; [|exact IH2].
    cbn [qprod fold_right]. fold (qprod (somes (map g r))).
    fold (qprod (somes (map g (filter (fun t => negb (is_control t)) r)))). now rewrite IH2.
Qed.

Lemma synergy_loop_def strict m rows :
  (forall r, In r rows -> snd (fst r) <> [] /\
     forall t, In t (snd (fst r)) -> map_lookup m (fst (fst r)) t = single_effect_def sids tids obs (fst (fst r)) t) ->
  synergy_loop strict m (filter (fun r => negb (Nat.eqb (n_control (snd (fst r))) (length (snd (fst r)) - 1))) rows)
  = synergy_rows_def sids tids obs strict rows.
Proof.
  induction rows as [|[[s row] ob] rows IH]; intros H; [reflexivity|].
  assert (IH' := IH (fun r Hr => H r (or_intror Hr))). clear IH.
  destruct (H _ (or_introl eq_refl)) as [Hne Hl]. cbn [fst snd] in Hne, Hl.
  cbn [filter fst snd synergy_rows_def]. rewrite (mask_one_noncontrol row Hne).
  destruct (one_noncontrol row); cbn [negb]; [exact IH'|].
  cbn [synergy_loop].
  rewrite (map_ext_in (map_lookup m s) (single_effect_def sids tids obs s)).
  2:{ intros t Ht. apply Hl. apply filter_In in Ht. tauto. }
  destruct (noncontrol_effects (single_effect_def sids tids obs s) row (control_effect s)) as [E1 E2].
  rewrite E1, E2, IH'. reflexivity.
Qed.

Theorem synergy_eq strict :
  calculate_synergy strict arity sids tids obs = synergy_def sids tids obs strict.
Proof.
  unfold calculate_synergy, synergy_def. destruct (Nat.ltb_spec arity 2); [lia|].
  rewrite Hs, Ho, !Nat.eqb_refl. cbn [negb].
  destruct effect_map_eq as (m & -> & Hm). cbn [res_bind].
  unfold single_mask. rewrite map_map.
  rewrite (rows_select (fun row => negb (Nat.eqb (n_control row) (arity - 1))) sids tids obs Hs Ho).
  rewrite (filter_ext_in _ (fun r => negb (Nat.eqb (n_control (snd (fst r))) (length (snd (fst r)) - 1)))).
  2:{ intros r Hr. apply row_in_rows3 in Hr as [Hr _]. rewrite Forall_forall in Hrect. now rewrite (Hrect _ Hr). }
  rewrite synergy_loop_def; [reflexivity|].
  intros r Hr. apply row_in_rows3 in Hr as [Hr1 Hr2]. split.
  - rewrite Forall_forall in Hrect. specialize (Hrect _ Hr1). intros E. rewrite E in Hrect. cbn in Hrect. lia.
  - intros t Ht. rewrite Hm, (existsb_eqb_In _ _ Hr2).
    rewrite (existsb_eqb_In t (concat tids)); [reflexivity|]. apply in_concat. now exists (snd (fst r)).
Qed.
End Map.

Theorem effect_map_rejects arity sids tids obs :
  ((arity < 2)%nat -> effect_map arity sids tids obs = Err E_VALUE) /\
  ((2 <= arity)%nat -> (length obs <> length tids \/ length sids <> length tids) ->
   effect_map arity sids tids obs = Err E_INDEX).
Proof.
  unfold effect_map. split.
  - intros H. destruct (Nat.ltb_spec arity 2); [reflexivity|lia].
  - intros H Hl. destruct (Nat.ltb_spec arity 2); [lia|].
    destruct (Nat.eqb_spec (length obs) (length tids)), (Nat.eqb_spec (length sids) (length tids)); cbn [negb orb]; try reflexivity.
    tauto.
Qed.
