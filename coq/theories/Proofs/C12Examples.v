(* C12: small definitions used only by the vm_compute Examples of Props/C12.v. *)
From Coq Require Import ZArith List Bool.
From Batchie Require Import Lib.Sexp Model.Encode Model.Screen Model.Reveal.
Import ListNotations.
Open Scope Z_scope.

(* (masks, n_unobserved_plates) of an Ok result *)
Definition view (r : result screen) : option (list bool * nat) :=
  match r with Ok s => Some (map r_mask (s_rows s), n_unobserved_plates s) | Err _ => None end.

(* an unobserved row of sample "a", treatment ("x", dose key 1), on the plate named by code point p, with stored bits obs *)
Definition zrow (p obs : Z) : row :=
  {| r_sample := [97]; r_plate := [p]; r_treats := [([120], 1)]; r_obs := obs; r_mask := false |}.
