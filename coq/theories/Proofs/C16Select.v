(* C16 proofs, part 3: select_next_plate performs steps of the history relation. *)
From Coq Require Import ZArith List Bool Lia Permutation.
From Batchie Require Import Lib.Sexp Model.Policy Proofs.C16Policy Proofs.C16Hist.
Import ListNotations.
Open Scope Z_scope.

Definition id_of (sp : splate) : Z := plate_id (fst sp).

Lemma insert_perm p l : Permutation (insert_by_id p l) (p :: l).
Proof.
  induction l as [|q l IH]; cbn [insert_by_id]; [apply Permutation_refl|].
  destruct (plate_id q <=? plate_id p); [|apply Permutation_refl].
  eapply perm_trans; [apply perm_skip, IH|apply perm_swap].
Qed.

Lemma sort_perm l : Permutation (sort_by_id l) l.
Proof.
  induction l as [|p l IH]; cbn [sort_by_id fold_right]; [constructor|].
  eapply perm_trans; [apply insert_perm|]. apply perm_skip, IH.
Qed.

(* two filters that differ exactly on the one element carrying id i *)
Lemma filter_split_one (screen : list splate) (sp0 : splate) (f f' : splate -> bool) :
  NoDup (map id_of screen) -> In sp0 screen ->
  (forall x, In x screen -> id_of x <> id_of sp0 -> f' x = f x) ->
  f' sp0 = true -> f sp0 = false ->
  Permutation (filter f' screen) (sp0 :: filter f screen).
Proof.
  induction screen as [|sp rest IH]; intros Hnd Hin Hext Ht Hf; [destruct Hin|].
  cbn [map] in Hnd. inversion Hnd as [|? ? Hn Hd]; subst. destruct Hin as [->|Hin].
  - cbn [filter]. rewrite Ht, Hf. apply perm_skip.
    rewrite (filter_ext_in f' f rest); [apply Permutation_refl|].
    intros x Hx. apply Hext; [now right|]. intros E. apply Hn. rewrite <- E. now apply in_map.
  - assert (Hne : id_of sp <> id_of sp0).
    { intros E. apply Hn. rewrite E. now apply in_map. }
    cbn [filter]. rewrite (Hext sp (or_introl eq_refl) Hne).
    assert (IH' : Permutation (filter f' rest) (sp0 :: filter f rest)).
    { apply IH; try assumption. intros x Hx. apply Hext. now right. }
    destruct (f sp); [|exact IH'].
    eapply perm_trans; [apply perm_skip, IH'|apply perm_swap].
Qed.

Lemma argmin_first_In l x : argmin_first l = Some x -> In x l.
Proof.
  revert x; induction l as [|y l IH]; intros x; cbn [argmin_first]; [discriminate|].
  destruct (argmin_first l) as [z|].
  - destruct (snd z <? snd y); intros E; injection E as <-; [right; now apply IH|now left].
  - intros E; injection E as <-. now left.
Qed.

Lemma min_score_id_In scores ids i : min_score_id scores ids = Ok i -> In i ids.
Proof.
  unfold min_score_id. destruct (argmin_first _) as [iv|] eqn:E; [|discriminate].
  intros H. injection H as <-. apply argmin_first_In in E. apply filter_In in E as [_ E]. now apply mem_In.
Qed.

Lemma mem_snoc x l i : mem x (l ++ [i]) = mem x l || (x =? i).
Proof. rewrite mem_app. unfold mem at 2. cbn [existsb]. now rewrite orb_false_r. Qed.

Lemma filter_none {A} (f : A -> bool) l : (forall x, In x l -> f x = false) -> filter f l = [].
Proof.
  induction l as [|a l IH]; intros H; cbn [filter]; [reflexivity|].
  rewrite (H a (or_introl eq_refl)). apply IH. intros x Hx. apply H. now right.
Qed.

Lemma select_args_nil screen : select_args screen [] = ([], snd (select_args screen [])).
Proof.
  unfold select_args. cbn [snd]. f_equal. rewrite filter_none; [reflexivity|]. intros x _. reflexivity.
Qed.

Definition in_batch (ids : list Z) (sp : splate) : bool := mem (id_of sp) ids.
Definition is_left (ids : list Z) (sp : splate) : bool := negb (snd sp) && negb (mem (id_of sp) ids).

Lemma select_args_eq screen ids :
  select_args screen ids
  = (map fst (filter (in_batch ids) screen), sort_by_id (map fst (filter (is_left ids) screen))).
Proof. reflexivity. Qed.

Lemma c16_select_step k screen scores ids elids i :
  NoDup (map id_of screen) ->
  select_next k screen scores ids = Ok (elids, Some i) ->
  step k (select_args screen ids) (select_args screen (ids ++ [i])) /\
  In i elids /\ ~ In i ids /\ exists p, In (p, false) screen /\ plate_id p = i.
Proof.
  intros Hnd. unfold select_next. rewrite !select_args_eq.
  set (B := map fst (filter (in_batch ids) screen)).
  set (R := sort_by_id (map fst (filter (is_left ids) screen))).
  destruct (filter_eligible k B R) as [el|e] eqn:Hfe; cbn [res_bind]; [|discriminate].
  destruct el as [|p0 el']; [discriminate|].
  destruct (min_score_id scores (map plate_id (p0 :: el'))) as [best|e] eqn:Hmin; cbn [res_bind]; [|discriminate].
  intros H. injection H as <- ->.
  apply min_score_id_In in Hmin. pose proof Hmin as Hmin'.
  apply in_map_iff in Hmin as (p & Hpi & Hpel).
  pose proof (proj2 (c16_eligible_subset _ _ _ _ Hfe) p Hpel) as HpR.
  unfold R in HpR. apply (Permutation_in _ (sort_perm _)) in HpR.
  apply in_map_iff in HpR as (sp0 & Hfst & Hsp0). apply filter_In in Hsp0 as [Hsp0 Hleft].
  unfold is_left in Hleft. apply andb_prop in Hleft as [Hobs Hnb].
  apply negb_true_iff in Hobs. apply negb_true_iff in Hnb.
  assert (Hid : id_of sp0 = i) by (unfold id_of; now rewrite Hfst).
  split; [|split; [exact Hmin'|split]].
  - apply (step_intro k B R (p0 :: el') p); [exact Hfe|exact Hpel| |].
    + replace (p :: B) with (map fst (sp0 :: filter (in_batch ids) screen)) by (cbn [map]; now rewrite Hfst).
      apply Permutation_map. apply filter_split_one; try assumption.
      * intros x _ Hx. unfold in_batch. rewrite mem_snoc. rewrite Hid in Hx.
        apply Z.eqb_neq in Hx. rewrite Hx. apply orb_false_r.
      * unfold in_batch. rewrite mem_snoc, Hid, Z.eqb_refl. apply orb_true_r.
    + unfold R. eapply perm_trans; [apply sort_perm|].
      eapply perm_trans; [|apply perm_skip, Permutation_sym, sort_perm].
      replace (p :: map fst (filter (is_left (ids ++ [i])) screen))
        with (map fst (sp0 :: filter (is_left (ids ++ [i])) screen)) by (cbn [map]; now rewrite Hfst).
      apply Permutation_map. apply filter_split_one; try assumption.
      * intros x _ Hx. unfold is_left. rewrite mem_snoc. rewrite Hid in Hx.
        apply Z.eqb_neq in Hx. rewrite Hx. now rewrite orb_false_r.
      * unfold is_left. now rewrite Hobs, Hnb.
      * unfold is_left. rewrite mem_snoc, Hid, Z.eqb_refl, orb_true_r. apply andb_false_r.
  - intros Hin. apply mem_In in Hin. rewrite <- Hid in Hin. congruence.
  - exists p. split; [|exact Hpi]. destruct sp0 as [p' o]. cbn [fst snd] in *. now subst p' o.
Qed.

Lemma c16_select_reachable k screen ids :
  NoDup (map id_of screen) -> sel_hist k screen ids ->
  reachable k (snd (select_args screen [])) (select_args screen ids).
Proof.
  intros Hnd H. induction H as [|ids scores el i _ IH Hsel].
  - rewrite select_args_nil at 2. constructor.
  - eapply reach_step; [exact IH|]. now apply (c16_select_step k screen scores ids el i Hnd).
Qed.

(* what select_next_plate hands to the policy *)
Lemma c16_select_args_spec screen ids p :
  (In p (fst (select_args screen ids)) <-> exists o, In (p, o) screen /\ In (plate_id p) ids) /\
  (In p (snd (select_args screen ids)) <-> In (p, false) screen /\ ~ In (plate_id p) ids).
Proof.
  rewrite select_args_eq. cbn [fst snd]. split.
  - rewrite in_map_iff. split.
    + intros ([p' o] & E & Hin). cbn [fst] in E. subst p'. apply filter_In in Hin as [Hin Hb].
      exists o. split; [exact Hin|]. now apply mem_In.
    + intros (o & Hin & Hids). exists (p, o). split; [reflexivity|]. apply filter_In. split; [exact Hin|].
      now apply mem_In.
  - split.
    + intros Hin. apply (Permutation_in _ (sort_perm _)) in Hin. apply in_map_iff in Hin as ([p' o] & E & Hin).
      cbn [fst] in E. subst p'. apply filter_In in Hin as [Hin Hl]. unfold is_left, id_of in Hl. cbn [fst snd] in Hl.
      apply andb_prop in Hl as [Ho Hm]. apply negb_true_iff in Ho. apply negb_true_iff in Hm. subst o.
      split; [exact Hin|]. intros Hc. apply mem_In in Hc. congruence.
    + intros [Hin Hn]. apply (Permutation_in _ (Permutation_sym (sort_perm _))). apply in_map_iff.
      exists (p, false). split; [reflexivity|]. apply filter_In. split; [exact Hin|].
      unfold is_left, id_of. cbn [fst snd negb andb]. apply negb_true_iff.
      destruct (mem (plate_id p) ids) eqn:E; [|reflexivity]. apply mem_In in E. contradiction.
Qed.
