(* The command-line wrapper prepare_retrospective_simulation.main: the hand-written model Cli.cli_prepare (the ORDER
   of the steps, each drawing step on the generator state its predecessor left) equals the translation of the WHOLE
   function of /repo, regenerated on every run (Generated/SrcCli.v, configuration CLI_PREPARE of
   harness/src_functions.py), for every record of library functions and all parsed arguments. *)
From Coq Require Import ZArith List Bool.
From Batchie Require Import Lib.Sexp Lib.PyRt Model.Cli Generated.SrcCli Proofs.PyRtLemmas Proofs.C06SourceCli_Prng.
Import ListNotations.
Open Scope Z_scope.

Ltac split_pairs := repeat match goal with p : (_ * _)%type |- _ => destruct p end; cbn [fst snd].

Theorem src_cli_prepare_is_model :
  forall (Scr Pl Ig Pg Ps : Type) (L : pr_lib Scr Pl Ig Pg Ps) (mix : Z -> Z) (a : pr_args),
  src_cli_prepare Scr Pl Ig Pg Ps L mix a = cli_prepare L mix a.
Proof.
  intros. unfold src_cli_prepare, cli_prepare. cbv zeta.
  rewrite src_get_prng_is_model.
  repeat (cli_step; split_pairs).
  all: reflexivity.
Qed.
