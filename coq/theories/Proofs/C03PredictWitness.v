(* C03 prediction clause: non-vacuity of predict_stable, and its refutation for the construction WITHOUT the mappings
   (the code before the repair): on the witness simulation of Proofs/C03Witness.v a posterior sample whose sample
   intercepts are W0 = [10; 20; 30] predicts 20 for experiment (b, y) at the training stage and 10 for the same
   experiment after one reveal_plates. *)
From Coq Require Import ZArith List Bool Lia QArith Qcanon.
From Batchie Require Import Lib.Sexp Lib.Num Generated.Consts Model.Encode Model.Screen Model.Reveal Model.Holdout
  Proofs.C03Base Proofs.C03Screen Proofs.C12Reveal Proofs.C03Frozen Proofs.C03Witness Proofs.C03Predict.
From Batchie Require Model.Predict.
Import ListNotations.
Open Scope Z_scope.

Definition qz (z : Z) : Qc := Q2Qc (inject_Z z).
Definition w_theta : Predict.theta :=
  Predict.TS {| Predict.sW := [[]; []; []]; Predict.sW0 := [qz 10; qz 20; qz 30];
                Predict.sV2 := [[]; []; []]; Predict.sV1 := [[]; []; []]; Predict.sV0 := [qz 1; qz 2; qz 4];
                Predict.salpha := qz 0; Predict.sprec := qz 1 |}.

Definition w_repaired : screen := get (history (carry_mappings true) [Reveal [0]] w_train).

(* the repaired construction: the views of the two stages are the same id rows, the predictions agree *)
Example predict_stable_example : forall orc : oracle,
  pred_view w_train = Predict.Scr1 [(1, 1); (1, 1); (2, 2); (2, 2)] /\
  pred_view w_repaired = Predict.Scr1 [(1, 1); (1, 1); (2, 2); (2, 2)] /\
  Predict.theta_predict orc Predict.KMean w_theta (pred_view w_train) = Ok [qz 22; qz 22; qz 34; qz 34] /\
  Predict.theta_predict orc Predict.KMean w_theta (pred_view w_repaired) = Ok [qz 22; qz 22; qz 34; qz 34].
Proof. intros orc. repeat split; vm_compute; reflexivity. Qed.

Theorem predict_stable_refuted_without_mappings : forall orc : oracle,
  exists rows sel p tr te s' th v1 v2,
    mk_screen rows 1 [] None None true true = Ok p /\
    holdout_split p sel = Ok (tr, te) /\
    history (carry_mappings false) [Reveal [0]] tr = Ok s' /\
    sample_at tr 0 = sample_at s' 0 /\ treat_at tr 0 0 = treat_at s' 0 0 /\        (* the same experiment *)
    Predict.theta_predict orc Predict.KMean th (pred_view tr) = Ok v1 /\
    Predict.theta_predict orc Predict.KMean th (pred_view s') = Ok v2 /\
    nth 0 v1 0%Qc <> nth 0 v2 0%Qc.
Proof.
  intros orc.
  exists w_rows, w_sel, w_parent, w_train, w_test, (w_after (Reveal [0])), w_theta, [qz 22; qz 22; qz 34; qz 34], [qz 11; qz 11; qz 22; qz 22].
  split; [exact w_parent_ok|]. split; [exact w_split_ok|].
  split; [vm_compute; reflexivity|]. split; [vm_compute; reflexivity|]. split; [vm_compute; reflexivity|].
  split; [vm_compute; reflexivity|]. split; [vm_compute; reflexivity|].
  vm_compute. discriminate.
Qed.
