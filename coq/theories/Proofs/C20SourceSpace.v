(* C20: the model full_space of Model/Corr.v equals the translation of
     batchie.models.main.generate_full_combinatoric_space (and combination_count, which it calls)
   regenerated from /repo on every run (Generated/SrcSpace.v, configurations C20_COMBINATION_COUNT / C20_SPACE of
   harness/src_functions.py), for all inputs, composed with an explicit representation map: the translation works on
   mapping rows ((name, dose), id), the model on rows (key, id) where [key] is ANY numbering of the (name, dose) pairs
   that is injective on the pairs of the mapping's rows (key_rows, end of Model/Corr.v). *)
From Coq Require Import ZArith List Bool Lia Arith.
From Batchie Require Import Lib.Sexp Lib.PyRt Model.Metrics Model.Synergy Model.Corr Generated.SrcSpace Proofs.PyRtLemmas Proofs.C20Base.
Import ListNotations.
Open Scope Z_scope.

Lemma sp_bind_ok_r {A} (x : result A) : (dor r <- x; Ok r) = x.
Proof. destruct x; reflexivity. Qed.

(* ---------- combination_count ---------- *)
Theorem src_combination_count_is_model : forall n k : nat,
  src_combination_count (Z.of_nat n) (Z.of_nat k) = combination_count n k.
Proof.
  intros n k. unfold src_combination_count, combination_count, py_factorial.
  destruct (Z.ltb_spec (Z.of_nat n) 0) as [|_]; [lia|]. destruct (Z.ltb_spec (Z.of_nat k) 0) as [|_]; [lia|].
  cbn [res_bind]. rewrite !Nat2Z.id.
  destruct (Nat.ltb_spec n k) as [L|L].
  - destruct (Z.ltb_spec (Z.of_nat n - Z.of_nat k) 0) as [_|]; [reflexivity | lia].
  - destruct (Z.ltb_spec (Z.of_nat n - Z.of_nat k) 0) as [|_]; [lia|]. cbn [res_bind].
    replace (Z.to_nat (Z.of_nat n - Z.of_nat k)) with (n - k)%nat by lia. reflexivity.
Qed.

(* ---------- lists ---------- *)
Lemma combs_map {A B} (f : A -> B) : forall (l : list A) k, combs (map f l) k = map (map f) (combs l k).
Proof.
  induction l as [|x l IH]; intros [|k]; cbn [combs map]; try reflexivity.
  rewrite map_app, !IH, !map_map. reflexivity.
Qed.

Lemma combs_nonempty {A} : forall (l : list A) k, (k <= length l)%nat -> combs l k <> [].
Proof.
  induction l as [|x l IH]; intros [|k] H; cbn [combs]; try discriminate.
  - cbn [length] in H. lia.
  - cbn [length] in H. intros E. apply app_eq_nil in E as [E _]. apply map_eq_nil in E. revert E. apply IH. lia.
Qed.

Lemma res_map_all_map {A B C} (f : B -> result C) (h : A -> B) l : res_map_all f (map h l) = res_map_all (fun a => f (h a)) l.
Proof. induction l as [|a l IH]; cbn [map res_map_all]; [reflexivity | now rewrite IH]. Qed.

Lemma res_map_all_ext' {A B} (f g : A -> result B) : (forall a, f a = g a) -> forall l, res_map_all f l = res_map_all g l.
Proof. intros H l. induction l as [|a l IH]; cbn [res_map_all]; [reflexivity | now rewrite H, IH]. Qed.

Lemma res_map_all_repeat_ok {A B} (f : A -> result B) x y n : f x = Ok y -> res_map_all f (repeat x n) = Ok (repeat y n).
Proof. intros H. induction n as [|n IH]; cbn [repeat res_map_all]; [reflexivity | now rewrite H, IH]. Qed.

Lemma map_const_repeat {A B} (y : B) (l : list A) : map (fun _ => y) l = repeat y (length l).
Proof. induction l as [|a l IH]; cbn [map length repeat]; [reflexivity | now rewrite IH]. Qed.

Lemma combine_fst_snd' {A B} (l : list (A * B)) : combine (map fst l) (map snd l) = l.
Proof. induction l as [|[a b] l IH]; cbn [map combine fst snd]; [reflexivity | now rewrite IH]. Qed.

Lemma combine_cols (tm : tmap3) : combine (tm_names tm) (tm_doses tm) = map fst tm.
Proof. unfold tm_names, tm_doses. induction tm as [|[[a b] i] tm IH]; cbn [map combine fst snd]; [reflexivity | now rewrite IH]. Qed.

Lemma combine_swapped (sm : list (Z * Z)) : combine (sm_ids sm) (sm_names sm) = map swap_pair sm.
Proof. unfold sm_ids, sm_names, swap_pair. induction sm as [|[a b] sm IH]; cbn [map combine fst snd]; [reflexivity | now rewrite IH]. Qed.

(* the Screen constructor is handed the two projections of the combination array: together they are the combinations *)
Lemma encode_projections (f : Z * Z -> result Z) (C : list (list (Z * Z))) :
  res_map_all (fun nd : list Z * list Z => res_map_all f (combine (fst nd) (snd nd))) (combine (map (map fst) C) (map (map snd) C))
  = res_map_all (res_map_all f) C.
Proof. induction C as [|c C IH]; cbn [map combine res_map_all fst snd]; [reflexivity|]. now rewrite combine_fst_snd', IH. Qed.

(* ---------- dict(zip(ids, names))[sample_id]: the LAST row with that id ---------- *)
Lemma zlookup_cons k a v (d : list (Z * Z)) : zlookup k ((a, v) :: d) = if a =? k then Some v else zlookup k d.
Proof. unfold zlookup. cbn [find fst snd]. destruct (a =? k); reflexivity. Qed.

Lemma zlookup_zdict_set k d a v : zlookup k (zdict_set d a v) = if a =? k then Some v else zlookup k d.
Proof.
  induction d as [|[a' v'] d IH]; cbn [zdict_set]; [now rewrite zlookup_cons|].
  destruct (Z.eqb_spec a' a) as [->|N]; rewrite !zlookup_cons.
  - destruct (a =? k); reflexivity.
  - rewrite IH. destruct (Z.eqb_spec a' k) as [->|]; [|reflexivity]. destruct (Z.eqb_spec a k) as [->|]; [now elim N | reflexivity].
Qed.

Lemma zlookup_app k (a b : list (Z * Z)) : zlookup k (a ++ b) = match zlookup k a with Some v => Some v | None => zlookup k b end.
Proof.
  induction a as [|[x v] a IH]; [reflexivity|]. cbn [app]. rewrite !zlookup_cons. destruct (x =? k); [reflexivity | exact IH].
Qed.

Lemma zlookup_fold_set k : forall p d,
  zlookup k (fold_left (fun d kv => zdict_set d (fst kv) (snd kv)) p d)
  = match zlookup k (rev p) with Some v => Some v | None => zlookup k d end.
Proof.
  induction p as [|[a v] p IH]; intros d; cbn [fold_left rev fst snd]; [reflexivity|].
  rewrite IH, zlookup_app, zlookup_zdict_set. destruct (zlookup k (rev p)); [reflexivity|].
  rewrite zlookup_cons. destruct (a =? k); reflexivity.
Qed.

Lemma dict_read_last k p : dict_read (dict_of_pairs p) k = match zlookup k (rev p) with Some v => Ok v | None => Err E_KEY end.
Proof. unfold dict_read, dict_of_pairs. rewrite zlookup_fold_set. destruct (zlookup k (rev p)); reflexivity. Qed.

Lemma combs_In {A} : forall (l : list A) k c, In c (combs l k) -> forall x, In x c -> In x l.
Proof.
  induction l as [|y l IH]; intros [|k] c Hc x Hx; cbn [combs] in Hc.
  - destruct Hc as [<-|[]]. elim Hx.
  - elim Hc.
  - destruct Hc as [<-|[]]. elim Hx.
  - apply in_app_or in Hc as [Hc|Hc].
    + apply in_map_iff in Hc as (c' & <- & Hc'). destruct Hx as [<-|Hx]; [now left | right; eapply IH; eauto].
    + right. eapply IH; eauto.
Qed.

(* ---------- the keyed lookup through a numbering of the (name, dose) pairs, injective on the mapping's pairs ---------- *)
Section Key.
Variable key : Z * Z -> Z.
Variable tm : tmap3.
Hypothesis key_inj : forall a b, In a (map fst tm) -> In b (map fst tm) -> key a = key b -> a = b.

Lemma encode_key_rows_sub nd : In nd (map fst tm) ->
  forall l : tmap3, (forall r, In r l -> In (fst r) (map fst tm)) -> encode (key_rows key l) (key nd) = lookup3 l nd.
Proof.
  intros Hnd. unfold encode, zlookup, lookup3, key_rows. induction l as [|[p i] l IH]; intros Hl; [reflexivity|]. cbn [map find fst snd].
  assert (E : (key p =? key nd) = pair_eqb p nd).
  { unfold pair_eqb. destruct (Z.eqb_spec (key p) (key nd)) as [K|K].
    - apply key_inj in K; [subst; now rewrite !Z.eqb_refl | apply (Hl (p, i)); now left | exact Hnd].
    - destruct (Z.eqb_spec (fst p) (fst nd)) as [E1|]; [|reflexivity]. destruct (Z.eqb_spec (snd p) (snd nd)) as [E2|]; [|reflexivity].
      elim K. f_equal. destruct p, nd; cbn [fst snd] in *; congruence. }
  rewrite E. destruct (pair_eqb p nd); [reflexivity|]. apply IH. intros r Hr. apply Hl. now right.
Qed.

Lemma encode_key_rows nd : In nd (map fst tm) -> encode (key_rows key tm) (key nd) = lookup3 tm nd.
Proof. intros H. apply encode_key_rows_sub; [exact H|]. intros r Hr. now apply in_map. Qed.

Theorem src_full_space_is_model : forall (sm : list (Z * Z)) (arity : nat) (sample_id : Z),
  src_generate_full_combinatoric_space tm sm arity sample_id = full_space (key_rows key tm) sm arity sample_id.
Proof.
  intros sm arity sid. unfold src_generate_full_combinatoric_space, full_space.
  assert (Lk : length (key_rows key tm) = length tm) by (unfold key_rows; apply map_length). rewrite Lk.
  rewrite src_combination_count_is_model. unfold combination_count.
  destruct (Nat.ltb_spec (length tm) arity) as [|Le]; [reflexivity|]. cbn [res_bind].
  rewrite Z.gtb_ltb. destruct (10000000 <? _); [reflexivity|].
  unfold py_combinations. destruct (Z.ltb_spec (Z.of_nat arity) 0) as [|_]; [lia|]. cbn [res_bind]. rewrite Nat2Z.id.
  rewrite combine_cols. unfold cube_proj.
  destruct (Nat.eqb arity 0); cbn [orb res_bind]; [reflexivity|].
  set (C := combs (map fst tm) arity).
  assert (NE : C <> []) by (apply combs_nonempty; now rewrite map_length).
  destruct C as [|c0 C'] eqn:EC; [now elim NE|]. rewrite <- EC. cbn [res_bind]. clear NE.
  rewrite combine_swapped, dict_read_last.
  destruct (zlookup sid (rev (map swap_pair sm))) as [name|]; cbn [res_bind]; [|reflexivity].
  rewrite sp_bind_ok_r. unfold space_screen. rewrite Nat2Z.id.
  assert (EM : combs (key_rows key tm) arity = map (map (fun r : Z * Z * Z => (key (fst r), snd r))) (combs tm arity))
    by (unfold key_rows; apply combs_map).
  assert (ECt : C = map (map fst) (combs tm arity)) by (unfold C; apply combs_map).
  destruct (zlookup name sm) as [i|] eqn:En.
  - rewrite (res_map_all_repeat_ok _ name i) by (now rewrite En). cbn [res_bind].
    rewrite encode_projections, EM, ECt, !res_map_all_map, map_const_repeat, !map_length.
    f_equal. apply res_map_all_ext_in. intros combo Hcombo. rewrite !res_map_all_map. apply res_map_all_ext_in. intros r Hr. cbn [fst].
    symmetry. apply encode_key_rows. apply in_map. eapply combs_In; eauto.
  - rewrite EC. cbn [length repeat res_map_all]. rewrite En. reflexivity.
Qed.
End Key.
