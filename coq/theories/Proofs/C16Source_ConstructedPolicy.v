(* C16: a policy object constructed with k filters with that k - the translated __init__ composed with the translated method *)
From Coq Require Import ZArith List Bool.
From Batchie Require Import Lib.Sexp Lib.PyRt Model.Encode Model.Policy Generated.SrcInits Generated.SrcPolicy
  Proofs.C16Source Proofs.C16Source_Init_Policy.
Import ListNotations.
Open Scope Z_scope.

Theorem constructed_policy_filters_with_its_k : forall k batch remaining,
  (dor k' <- src_k_per_sample_init k; src_filter_eligible_plates k' batch remaining) = filter_eligible k batch remaining.
Proof. intros. rewrite src_k_per_sample_init_stores. cbn [res_bind]. apply src_filter_eligible_is_model. Qed.
