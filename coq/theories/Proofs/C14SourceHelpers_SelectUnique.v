(* C14, one piece of Proofs/C14SourceHelpers.v (which see): common.select_unique_zipped_numpy_arrays *)
From Coq Require Import ZArith List Bool Arith Lia ZifyBool.
From Batchie Require Import Lib.Sexp Lib.PyRt Generated.Consts Model.Encode Model.Screen Model.Views
  Generated.SrcEncode Generated.SrcViews Generated.SrcPlates
  Proofs.PyRtLemmas Proofs.C01Sort Proofs.C14Defs Proofs.C14Lists Proofs.C14Unique
  Proofs.C14Source_Base Proofs.C14SourceHelpers_Base.
Import ListNotations.
Open Scope Z_scope.

(* `len(set(lengths)) > 1` says that some length differs from the first *)
Lemma distinct_count_gt1 (l : list Z) :
  (Z.of_nat (length (sort_uniq Z.compare l)) >? 1) = negb (forallb (fun x => x =? hd 0 l) l).
Proof.
  destruct l as [|h l]; [reflexivity|]. cbn [hd].
  destruct (forallb (fun x => x =? h) (h :: l)) eqn:E; cbn [negb].
  - rewrite forallb_forall in E.
    rewrite (sort_uniq_ext Z.compare Zcmp_spec (h :: l) [h]); [reflexivity|].
    intros x. cbn [In]. split; [intros H; left; specialize (E x H); lia | intros [->|[]]; now left].
  - assert (H : exists y, In y (h :: l) /\ y <> h).
    { apply Bool.not_true_iff_false in E. rewrite forallb_forall in E.
      destruct (existsb (fun x => negb (x =? h)) (h :: l)) eqn:X.
      - apply existsb_exists in X. destruct X as (y & Hy & Hn). exists y. split; [exact Hy | lia].
      - exfalso. apply E. intros x Hx. destruct (x =? h) eqn:Q; [reflexivity|]. exfalso.
        assert (existsb (fun x => negb (x =? h)) (h :: l) = true) by (apply existsb_exists; exists x; split; [exact Hx | now rewrite Q]).
        congruence. }
    destruct H as (y & Hy & Hn).
    pose proof (sort_uniq_NoDup Z.compare Zcmp_spec (h :: l)) as ND.
    assert (Ih : In h (sort_uniq Z.compare (h :: l))) by (apply (sort_uniq_In Z.compare Zcmp_spec); now left).
    assert (Iy : In y (sort_uniq Z.compare (h :: l))) by (now apply (sort_uniq_In Z.compare Zcmp_spec)).
    destruct (sort_uniq Z.compare (h :: l)) as [|u [|w r]]; [destruct Ih | | cbn [length]; lia].
    cbn [In] in Ih, Iy. exfalso. destruct Ih as [<-|[]]. destruct Iy as [<-|[]]. now apply Hn.
Qed.

Lemma zip_cols_length cols : length (zip_cols cols) = length (hd [] cols).
Proof. unfold zip_cols. now rewrite map_length, seq_length. Qed.

Lemma first_indices_in_range keys :
  forallb (fun i => Nat.ltb i (length keys)) (map (fun k => first_index k keys) (sort_uniq name_cmp keys)) = true.
Proof.
  rewrite forallb_map. apply forallb_forall. intros k Hk. apply Nat.ltb_lt. apply first_index_lt.
  now apply (sort_uniq_In name_cmp name_cmp_spec).
Qed.

(* the translation is the model on one or more arrays; on NO array numpy's vstack raises (tag 17), where the model - never
   called that way: the caller always passes the sample ids - answers the empty mask *)
Theorem src_select_unique_is_model : forall cols : list (list Z),
  src_select_unique cols = match cols with [] => Err 17 | _ => select_unique cols end.
Proof.
  intros [|r rest]; [reflexivity|]. unfold src_select_unique, select_unique.
  rewrite distinct_count_gt1.
  replace (forallb (fun x : Z => x =? hd 0 (map (fun x' : list Z => Z.of_nat (length x')) (r :: rest)))
                   (map (fun x' : list Z => Z.of_nat (length x')) (r :: rest)))
    with (forallb (fun c => Nat.eqb (length c) (length (hd [] (r :: rest)))) (r :: rest)).
  2:{ rewrite forallb_map. apply forallb_eq. intros c. cbn [hd map]. apply eq_sym, of_nat_eqb. }
  destruct (forallb (fun c => Nat.eqb (length c) (length (hd [] (r :: rest)))) (r :: rest)) eqn:E; cbn [negb]; [|reflexivity].
  cbn [hd forallb] in E. apply andb_prop in E. destruct E as [_ E].
  unfold np_vstack. rewrite E. cbn [res_bind].
  unfold first_indices, unique_rows2, arr2_T. cbn [fst snd].
  change (map (fun j => column 0 j (r :: rest)) (seq 0 (length r))) with (zip_cols (r :: rest)).
  change (list_get (r :: rest) 0) with (Ok r). cbn [res_bind]. rewrite Nat2Z.id.
  unfold set_true_at, unique_mask. rewrite repeat_length.
  pose proof (zip_cols_length (r :: rest)) as HL. cbn [hd] in HL. rewrite <- HL.
  rewrite first_indices_in_range. reflexivity.
Qed.
