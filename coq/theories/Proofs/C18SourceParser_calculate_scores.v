(* One piece of Proofs/C18SourceParser.v (which see): the option table of calculate_scores.get_parser(), read from /repo on every run
   (Generated/SrcParser_calculate_scores.v), provides what the argument record of that command assumes. *)
From Coq Require Import ZArith List Bool.
From Batchie Require Import Lib.Sexp Lib.PyRt Model.Cli Proofs.C18Parser Generated.SrcParser_calculate_scores.
Import ListNotations.
Open Scope Z_scope.

Theorem parser_calculate_scores_fields : forall f, In f (cs_fields ++ logging_fields) -> declares src_parser_calculate_scores f.
Proof. apply declares_all. vm_compute. reflexivity. Qed.

Theorem parser_calculate_scores_dests_derived : dests_derived src_parser_calculate_scores.
Proof. apply dests_derived_sound. vm_compute. reflexivity. Qed.

Theorem parser_calculate_scores_dests_distinct : dests_distinct src_parser_calculate_scores.
Proof. apply dests_distinct_sound. vm_compute. reflexivity. Qed.

Theorem parser_calculate_scores_seed : seed_declared src_parser_calculate_scores.
Proof. apply seed_declaredb_sound. vm_compute. reflexivity. Qed.

Theorem parser_calculate_scores_coordinates : coordinates_int src_parser_calculate_scores.
Proof. apply coordinates_intb_sound. vm_compute. reflexivity. Qed.

Theorem parser_calculate_scores_params : params_kv src_parser_calculate_scores.
Proof. apply params_kvb_sound. vm_compute. reflexivity. Qed.
