(* The command-line wrapper evaluate_model.main: the hand-written model Cli.cli_evaluate_model (chain ids from the
   declared sizes of the --thetas files in argument order) equals the translation of the WHOLE function of /repo,
   regenerated on every run (Generated/SrcCli.v, configuration CLI_EVALUATE_MODEL of harness/src_functions.py), for
   every record of library functions and all parsed arguments. *)
From Coq Require Import ZArith List Bool.
From Batchie Require Import Lib.Sexp Lib.PyRt Model.Cli Generated.SrcCli Proofs.PyRtLemmas.
Import ListNotations.
Open Scope Z_scope.

(* the chain-id loop, for an arbitrary body equal to the canonical one *)
Lemma chain_loop {Th : Type} (n : Th -> Z) (f : list Z -> Z * Th -> result (list Z)) :
  (forall acc it, f acc it = Ok (acc ++ zrepeat (fst it) (n (snd it)))) ->
  forall l acc, res_fold f l acc = Ok (acc ++ concat (map (fun ih => zrepeat (fst ih) (n (snd ih))) l)).
Proof.
  intros Hf l. induction l as [|x l IH]; intros acc; cbn [res_fold map concat].
  - now rewrite app_nil_r.
  - rewrite Hf. cbn [res_bind]. rewrite IH, <- app_assoc. reflexivity.
Qed.

Theorem src_cli_evaluate_model_is_model :
  forall (Scr Th Pr PrT Ob Nm Ev : Type) (L : ev_lib Scr Th Pr PrT Ob Nm Ev) (a : ev_args),
  src_cli_evaluate_model Scr Th Pr PrT Ob Nm Ev L a = cli_evaluate_model L a.
Proof.
  intros. unfold src_cli_evaluate_model, cli_evaluate_model, chain_ids_of. cbv zeta.
  rewrite !res_map_all_ret.
  cli_step. cli_step. cli_step.
  rewrite (chain_loop (ev_n_thetas L)) by (intros acc [i t]; reflexivity).
  cbn [res_bind app].
  repeat cli_step. all: reflexivity.
Qed.
