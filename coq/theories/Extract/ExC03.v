From Coq Require Import Extraction ExtrOcamlBasic ExtrOcamlZBigInt.
From Batchie Require Import Run.RunC03.
Extraction Language OCaml.
Extraction "../driver/gen/c03.ml" run_c03.
