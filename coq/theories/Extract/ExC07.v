From Coq Require Import Extraction ExtrOcamlBasic ExtrOcamlZBigInt.
From Batchie Require Import Run.RunC07.
Extraction Language OCaml.

Extraction "../driver/gen/c07.ml" run_c07.
