From Coq Require Import Extraction ExtrOcamlBasic ExtrOcamlZBigInt.
From Batchie Require Import Run.RunC04.
Extraction Language OCaml.

Extraction "../driver/gen/c04.ml" run_c04.
