From Coq Require Import Extraction ExtrOcamlBasic ExtrOcamlZBigInt.
From Batchie Require Import Run.RunC01.
Extraction Language OCaml.
Extraction "../driver/gen/c01.ml" run_c01.
