From Coq Require Import Extraction ExtrOcamlBasic ExtrOcamlZBigInt.
From Batchie Require Import Run.RunC09.
Extraction Language OCaml.

Extraction "../driver/gen/c09.ml" run_c09.
