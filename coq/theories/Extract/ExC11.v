From Coq Require Import Extraction ExtrOcamlBasic ExtrOcamlZBigInt.
From Batchie Require Import Run.RunC11.
Extraction Language OCaml.

Extraction "../driver/gen/c11.ml" run_c11.
