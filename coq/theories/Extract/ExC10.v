From Coq Require Import Extraction ExtrOcamlBasic ExtrOcamlZBigInt.
From Batchie Require Import Run.RunC10.
Extraction Language OCaml.

Extraction "../driver/gen/c10.ml" run_c10.
