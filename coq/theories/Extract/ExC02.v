From Coq Require Import Extraction ExtrOcamlBasic ExtrOcamlZBigInt.
From Batchie Require Import Run.RunC02.
Extraction Language OCaml.
Extraction "../driver/gen/c02.ml" run_c02.
