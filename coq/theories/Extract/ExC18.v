From Coq Require Import Extraction ExtrOcamlBasic ExtrOcamlZBigInt.
From Batchie Require Import Run.RunC18.
Extraction Language OCaml.

Extraction "../driver/gen/c18.ml" run_c18.
