From Coq Require Import Extraction ExtrOcamlBasic ExtrOcamlZBigInt.
From Batchie Require Import Run.RunC06.
Extraction Language OCaml.

Extraction "../driver/gen/c06.ml" run_c06.
