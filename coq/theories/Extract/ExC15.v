From Coq Require Import Extraction ExtrOcamlBasic ExtrOcamlZBigInt.
From Batchie Require Import Run.RunC15.
Extraction Language OCaml.

Extraction "../driver/gen/c15.ml" run_c15.
