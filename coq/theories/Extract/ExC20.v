From Coq Require Import Extraction ExtrOcamlBasic ExtrOcamlZBigInt.
From Batchie Require Import Run.RunC20.
Extraction Language OCaml.

Extraction "../driver/gen/c20.ml" run_c20.
