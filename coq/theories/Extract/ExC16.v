From Coq Require Import Extraction ExtrOcamlBasic ExtrOcamlZBigInt.
From Batchie Require Import Run.RunC16.
Extraction Language OCaml.

Extraction "../driver/gen/c16.ml" run_c16.
