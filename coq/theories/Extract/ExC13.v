From Coq Require Import Extraction ExtrOcamlBasic ExtrOcamlZBigInt.
From Batchie Require Import Run.RunC13.
Extraction Language OCaml.

Extraction "../driver/gen/c13.ml" run_c13.
