From Coq Require Import Extraction ExtrOcamlBasic ExtrOcamlZBigInt.
From Batchie Require Import Run.RunC17.
Extraction Language OCaml.

Extraction "../driver/gen/c17.ml" run_c17.
