From Coq Require Import Extraction ExtrOcamlBasic ExtrOcamlZBigInt.
From Batchie Require Import Run.RunC08.
Extraction Language OCaml.
Extraction "../driver/gen/c08.ml" run_c08.
