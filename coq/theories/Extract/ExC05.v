From Coq Require Import Extraction ExtrOcamlBasic ExtrOcamlZBigInt.
From Batchie Require Import Run.RunC05.
Extraction Language OCaml.
Extraction "../driver/gen/c05.ml" run_c05.
