From Coq Require Import Extraction ExtrOcamlBasic ExtrOcamlZBigInt.
From Batchie Require Import Run.RunC19.
Extraction Language OCaml.

Extraction "../driver/gen/c19.ml" run_c19.
