From Coq Require Import Extraction ExtrOcamlBasic ExtrOcamlZBigInt.
From Batchie Require Import Run.RunC12.
Extraction Language OCaml.
Extraction "../driver/gen/c12.ml" run_c12.
