From Coq Require Import Extraction ExtrOcamlBasic ExtrOcamlZBigInt.
From Batchie Require Import Run.RunC14.
Extraction Language OCaml.
Extraction "../driver/gen/c14.ml" run_c14.
