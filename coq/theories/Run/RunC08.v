(* Wire entry point for C08.  Ops:
     (0 cfg data state blocks vals) -> run the listed step functions (codes 0..12 = step_order
                                        positions) from [state], answering the draws with [vals];
                                        returns (draws (state) | ())
     (1 cfg data state)             -> (reconstruct cline_idxs dd1_idxs dd2_idxs predict_training precision)
                                        index lists for keys 0..ncl-1 resp. -1..ndd-1
     (2 D L z b)                    -> sample_mvn
     (9 w1 w2 ...)                  -> (r1 r2 ...)   batch of the above
   cfg   = (D ndd ncl a0 b0 minMu maxMu)       data = (y cl dd1 dd2)
   state = (W W0 V2 V1 V0 alpha prec tau tau0 phi2 phi1 phi0 eta2 eta1 eta0 gam Mu)
   val   = (0 q) | (1 v) | (2 m) | (3)         (3) = the MVN draw raised
   draw  = (0 mean var) | (1 vars) | (2 Q b) | (3 shape rate) | (4 shape rates) | (5 shape rates) *)
From Coq Require Import ZArith List QArith Qcanon.
From Batchie Require Import Lib.Sexp Lib.Num Model.Gibbs Model.Mvn.
Import ListNotations.
Open Scope Z_scope.

Definition as_Qv := as_listof as_Qc.
Definition as_Qm := as_listof as_Qv.
Definition of_Qv := of_list of_Qc.
Definition of_Qm := of_list of_Qv.

Definition as_cfg (s : sexp) : option cfg :=
  match s with
  | SL [D; ndd; ncl; a0; b0; lo; hi] =>
      do D <- as_nat D; do ndd <- as_nat ndd; do ncl <- as_nat ncl;
      do a0 <- as_Qc a0; do b0 <- as_Qc b0; do lo <- as_Qc lo; do hi <- as_Qc hi;
      Some {| c_D := D; c_ndd := ndd; c_ncl := ncl; c_a0 := a0; c_b0 := b0; c_minMu := lo; c_maxMu := hi |}
  | _ => None
  end.
Definition as_data (s : sexp) : option data :=
  match s with
  | SL [y; cl; d1; d2] =>
      do y <- as_Qv y; do cl <- as_Zs cl; do d1 <- as_Zs d1; do d2 <- as_Zs d2;
      Some {| d_y := y; d_cl := cl; d_dd1 := d1; d_dd2 := d2 |}
  | _ => None
  end.
Definition as_st (s : sexp) : option st :=
  match s with
  | SL [w; w0; v2; v1; v0; al; pr; ta; ta0; p2; p1; p0; e2; e1; e0; ga; mu] =>
      do w <- as_Qm w; do w0 <- as_Qv w0; do v2 <- as_Qm v2; do v1 <- as_Qm v1; do v0 <- as_Qv v0;
      do al <- as_Qc al; do pr <- as_Qc pr; do ta <- as_Qv ta; do ta0 <- as_Qc ta0;
      do p2 <- as_Qm p2; do p1 <- as_Qm p1; do p0 <- as_Qv p0;
      do e2 <- as_Qv e2; do e1 <- as_Qv e1; do e0 <- as_Qc e0; do ga <- as_Qv ga; do mu <- as_Qv mu;
      Some {| W := w; W0 := w0; V2 := v2; V1 := v1; V0 := v0; alpha := al; prec := pr; tau := ta; tau0 := ta0;
              phi2 := p2; phi1 := p1; phi0 := p0; eta2 := e2; eta1 := e1; eta0 := e0; gam := ga; Mu := mu |}
  | _ => None
  end.
Definition of_st (s : st) : sexp :=
  SL [of_Qm (W s); of_Qv (W0 s); of_Qm (V2 s); of_Qm (V1 s); of_Qv (V0 s); of_Qc (alpha s); of_Qc (prec s);
      of_Qv (tau s); of_Qc (tau0 s); of_Qm (phi2 s); of_Qm (phi1 s); of_Qv (phi0 s);
      of_Qv (eta2 s); of_Qv (eta1 s); of_Qc (eta0 s); of_Qv (gam s); of_Qv (Mu s)].
Definition as_val (s : sexp) : option val :=
  match s with
  | SL [SZ 0; q] => do q <- as_Qc q; Some (VQ q)
  | SL [SZ 1; v] => do v <- as_Qv v; Some (VV v)
  | SL [SZ 2; m] => do m <- as_Qm m; Some (VM m)
  | SL [SZ 3] => Some VFail
  | _ => None
  end.
Definition of_draw (d : draw) : sexp :=
  match d with
  | DNormal m v => SL [SZ 0; of_Qc m; of_Qc v]
  | DNormalVec vs => SL [SZ 1; of_Qv vs]
  | DMvn Q b => SL [SZ 2; of_Qm Q; of_Qv b]
  | DGamma a r => SL [SZ 3; of_Qc a; of_Qc r]
  | DGammaVec a rs => SL [SZ 4; of_Qc a; of_Qv rs]
  | DGammaMat a rs => SL [SZ 5; of_Qc a; of_Qm rs]
  end.
Definition as_blk (s : sexp) : option blk :=
  do n <- as_nat s; nth_error step_order n.

Definition of_nats (l : list nat) : sexp := of_list of_nat l.

Definition run_one (orc : oracle) (s : sexp) : sexp :=
  match s with
  | SL [SZ 0; g; d; s0; bs; vals] =>
      match as_cfg g, as_data d, as_st s0, as_listof as_blk bs, as_listof as_val vals with
      | Some g, Some d, Some s0, Some bs, Some vals =>
          let r := run_prog (run_blocks g d orc bs s0) vals in
          SL [of_list of_draw (fst r); of_option of_st (snd r)]
      | _, _, _, _, _ => bad_input
      end
  | SL [SZ 1; g; d; s0] =>
      match as_cfg g, as_data d, as_st s0 with
      | Some g, Some d, Some s0 =>
          SL [of_Qv (reconstruct g d s0);
              of_list (fun c => of_nats (positions (Z.of_nat c) (d_cl d))) (seq 0 (c_ncl g));
              of_list (fun m => of_nats (positions (Z.of_nat m - 1) (d_dd1 d))) (seq 0 (S (c_ndd g)));
              of_list (fun m => of_nats (positions (Z.of_nat m - 1) (d_dd2 d))) (seq 0 (S (c_ndd g)));
              of_Qv (predict_training g d (export s0));
              of_Qc (sm_precision (export s0))]
      | _, _, _ => bad_input
      end
  | SL [SZ 2; D; L; z; b] =>
      match as_nat D, as_Qm L, as_Qv z, as_Qv b with
      | Some D, Some L, Some z, Some b => of_Qv (sample_mvn D L z b)
      | _, _, _, _ => bad_input
      end
  | _ => bad_input
  end.

(* (9 w1 w2 ...) -> (r1 r2 ...): several requests in one case *)
Definition run_c08 (orc : oracle) (s : sexp) : sexp :=
  match s with
  | SL (SZ 9 :: ws) => SL (map (run_one orc) ws)
  | _ => run_one orc s
  end.
