(* Wire entry point for C16.  plate = (id (row sample ids)); splate = (plate observed).  Ops:
     (0 k batch remaining)            -> result: eligible plate ids, in order
     (1 k batch remaining picks)      -> result: eligible ids at every state of the direct history
     (2 k screen batch_ids tables)    -> result: per step (eligible ids, chosen option) through select_next
     (3 k screen scores batch_ids)    -> result: one select_next call *)
From Coq Require Import ZArith List.
From Batchie Require Import Lib.Sexp Lib.Num Model.Policy.
Import ListNotations.
Open Scope Z_scope.

Definition as_plate : sexp -> option plate := as_pair as_Z as_Zs.
Definition as_splate : sexp -> option splate := as_pair as_plate as_bool.
Definition as_scores : sexp -> option (list (Z * Z)) := as_listof (as_pair as_Z as_Z).
Definition of_sel (eo : list Z * option Z) : sexp := SL [of_Zs (fst eo); of_option SZ (snd eo)].

Definition run_c16 (orc : oracle) (s : sexp) : sexp :=
  match s with
  | SL [SZ 0; k; b; r] =>
      match as_Z k, as_listof as_plate b, as_listof as_plate r with
      | Some k, Some b, Some r => of_result (fun el => of_Zs (map plate_id el)) (filter_eligible k b r)
      | _, _, _ => bad_input
      end
  | SL [SZ 1; k; b; r; picks] =>
      match as_Z k, as_listof as_plate b, as_listof as_plate r, as_Zs picks with
      | Some k, Some b, Some r, Some picks => of_result (of_list of_Zs) (history_direct k b r picks)
      | _, _, _, _ => bad_input
      end
  | SL [SZ 2; k; screen; ids; tables] =>
      match as_Z k, as_listof as_splate screen, as_Zs ids, as_listof as_scores tables with
      | Some k, Some screen, Some ids, Some tables =>
          of_result (of_list of_sel) (history_select k screen ids tables)
      | _, _, _, _ => bad_input
      end
  | SL [SZ 3; k; screen; scores; ids] =>
      match as_Z k, as_listof as_splate screen, as_scores scores, as_Zs ids with
      | Some k, Some screen, Some scores, Some ids => of_result of_sel (select_next k screen scores ids)
      | _, _, _, _ => bad_input
      end
  | SL [SZ 4; k; screen; ids; tables; flags] =>
      (* as op 2, the chosen plate being revealed after the steps whose flag is 1 *)
      match as_Z k, as_listof as_splate screen, as_Zs ids, as_listof as_scores tables, as_listof as_bool flags with
      | Some k, Some screen, Some ids, Some tables, Some flags =>
          of_result (of_list of_sel) (history_select_reveal k screen ids tables flags)
      | _, _, _, _, _ => bad_input
      end
  | _ => bad_input
  end.
