(* Wire entry point for C03.  Input (variant mk_args sel test ops), see Model/RevealIO.v:
     variant = (carry_reveal carry_mask carry_unmask)  which of reveal_plates / mask_screen / unmask_screen
               pass the parent's mappings to the constructor (today's code: (0 0 0))
     mk_args = arguments of the parent Screen(...)
     sel     = hold-out selection vector (recorded from the real function)
     test    = 0: the history runs on the training half, 1: on the test half
     ops     = (0 ids) | (1) | (2) | (3) | (4 sel vals)
   Output: result (parent train test (result screen ...)), every screen in full (rows, ids, mappings,
   experiment-space sizes: Model/ScreenIO.of_screen). *)
From Coq Require Import ZArith List.
From Batchie Require Import Lib.Sexp Lib.Num Model.Encode Model.Screen Model.ScreenIO Model.Reveal Model.Holdout Model.RevealIO.
Import ListNotations.
Open Scope Z_scope.

Definition run_c03 (orc : oracle) (s : sexp) : sexp := run_with as_sim (run_sim of_screen) s.
