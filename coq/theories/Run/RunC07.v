(* Wire entry point for C07.  Ops:
     (0 n c)            -> list of chunks, each a list of (i j)
     (1 n c order D)    -> pipeline over chunk order [order] with d i j = D[i][j]
     (2 sigmoid a b)    -> mse distance
     (3 n c k)          -> one chunk *)
From Coq Require Import ZArith List QArith Qcanon.
From Batchie Require Import Lib.Sexp Lib.Num Model.Chunks Model.DistMat Model.Mse.
Import ListNotations.
Open Scope Z_scope.

Definition of_pairs (l : list (nat * nat)) : sexp := of_list (of_pair of_nat of_nat) l.

Definition tab_get (D : list (list Z)) (i j : nat) : Z := nth j (nth i D []) 0.

Definition run_c07 (orc : oracle) (s : sexp) : sexp :=
  match s with
  | SL [SZ 0; n; c] =>
      run_with (as_pair as_nat as_nat) (fun '(n, c) => of_list of_pairs (all_chunks n c)) (SL [n; c])
  | SL [SZ 1; n; c; order; D] =>
      match as_nat n, as_Z c, as_Zs order, as_listof as_Zs D with
      | Some n, Some c, Some order, Some D =>
          of_result (of_list of_Zs) (pipeline Z 0 (tab_get D) n c order)
      | _, _, _, _ => bad_input
      end
  | SL [SZ 2; sg; a; b] =>
      match as_bool sg, as_listof as_Qc a, as_listof as_Qc b with
      | Some sg, Some a, Some b => of_result of_Qc (mse_distance orc sg a b)
      | _, _, _ => bad_input
      end
  | SL [SZ 3; n; c; k] =>
      match as_nat n, as_Z c, as_Z k with
      | Some n, Some c, Some k => of_pairs (chunk n k c)
      | _, _, _ => bad_input
      end
  | _ => bad_input
  end.
