(* Wire entry point for C07.  Ops:
     (0 n c)            -> list of chunks, each a list of (i j)
     (1 n c order D)    -> pipeline over chunk order [order] with d i j = D[i][j]
     (2 sigmoid a b)    -> mse distance
     (3 n c k)          -> one chunk
   and, running the TRANSLATED source (Generated/Src*.v) instead of the hand-written model, so that the primitives the
   translation trusts are compared with numpy / itertools on every run:
     (4 n c order D)    -> the translated pipeline (calculate_pairwise, save, load per chunk; concat; to_dense)
     (5 script)         -> a script of ChunkedDistanceMatrix calls on a register file of stored objects (values are
                           integers): (0 size n_chunks chunk_index chunk_size?) new, (1 r i j v) add_value,
                           (2 ra rb) combine, (3 (r ...)) concat, (4 r) is_complete, (5 r) to_dense,
                           (6 n k c) get_lower_triangular_indices_chunk, (7 r) save then load;
                           answer: (per-command results, final registers) *)
From Coq Require Import ZArith List QArith Qcanon.
From Batchie Require Import Lib.Sexp Lib.Num Lib.PyRt Model.Chunks Model.DistMat Model.Mse
  Generated.SrcChunks Generated.SrcDistMat.
Import ListNotations.
Open Scope Z_scope.

Definition visz_Z (v : Z) : bool := v =? 0.
Definition of_cdm (o : cdm Z) : sexp :=
  SL [SZ (c_size o); SZ (c_chunk o); SZ (c_cur o); of_Zs (c_rows o); of_Zs (c_cols o); of_Zs (c_vals o)].
Definition reg (rs : list (cdm Z)) (r : Z) : option (cdm Z) := if r <? 0 then None else nth_error rs (Z.to_nat r).
Definition set_reg (rs : list (cdm Z)) (r : Z) (o : cdm Z) : list (cdm Z) :=
  firstn (Z.to_nat r) rs ++ o :: skipn (S (Z.to_nat r)) rs.
Definition unit_sexp (_ : unit) : sexp := SL [].
Definition as_unit {A} (r : result A) : result unit := match r with Ok _ => Ok tt | Err t => Err t end.
(* an object-producing call: the object is appended to the registers *)
Definition push_obj (rs : list (cdm Z)) (r : result (cdm Z)) : list (cdm Z) * sexp :=
  (match r with Ok o => rs ++ [o] | Err _ => rs end, of_result unit_sexp (as_unit r)).

Definition script_step (rs : list (cdm Z)) (cmd : sexp) : option (list (cdm Z) * sexp) :=
  match cmd with
  | SL [SZ 0; size; nch; ci; cs] =>
      do size <- as_Z size; do nch <- as_Z nch; do ci <- as_Z ci; do cs <- as_option as_Z cs;
      Some (push_obj rs (src_cdm_init Z 0 visz_Z (cdm_blank Z) size nch ci cs))
  | SL [SZ 1; r; i; j; v] =>
      do r <- as_Z r; do i <- as_Z i; do j <- as_Z j; do v <- as_Z v; do o <- reg rs r;
      let res := src_cdm_add_value Z 0 visz_Z o i j v in
      Some (match res with Ok o' => set_reg rs r o' | Err _ => rs end, of_result unit_sexp (as_unit res))
  | SL [SZ 2; ra; rb] =>
      do ra <- as_Z ra; do rb <- as_Z rb; do a <- reg rs ra; do b <- reg rs rb;
      Some (push_obj rs (src_cdm_combine Z 0 visz_Z a b))
  | SL [SZ 3; l] =>
      do l <- as_Zs l; do os <- opt_map_all (reg rs) l;
      Some (push_obj rs (src_cdm_concat Z 0 visz_Z os))
  | SL [SZ 4; r] =>
      do r <- as_Z r; do o <- reg rs r; Some (rs, of_result of_bool (src_cdm_is_complete Z 0 visz_Z o))
  | SL [SZ 5; r] =>
      do r <- as_Z r; do o <- reg rs r; Some (rs, of_result (of_list of_Zs) (src_cdm_to_dense Z 0 visz_Z o))
  | SL [SZ 7; r] =>
      do r <- as_Z r; do o <- reg rs r;
      Some (push_obj rs (dor f <- src_cdm_save Z 0 visz_Z o; src_cdm_load Z 0 visz_Z f))
  | SL [SZ 6; n; k; c] =>
      do n <- as_Z n; do k <- as_Z k; do c <- as_Z c;
      Some (rs, of_result (of_list (of_pair SZ SZ)) (src_get_lower_triangular_indices_chunk n k c))
  | _ => None
  end.

Fixpoint run_script (rs : list (cdm Z)) (cmds : list sexp) (outs : list sexp) : sexp :=
  match cmds with
  | [] => SL [SL (rev outs); SL (map of_cdm rs)]
  | cmd :: r => match script_step rs cmd with
                | Some (rs', o) => run_script rs' r (o :: outs)
                | None => bad_input
                end
  end.

(* the translated pipeline, as Proofs/C07SourcePipeline.src_pipeline composes it, on an integer metric table *)
Definition src_pipeline_Z (D : list (list Z)) (n : nat) (c : Z) (order : list Z) : result (list (list Z)) :=
  dor ms <- res_map_all (fun k => dor m <- src_calculate_pairwise Z 0 visz_Z Z Z (Z.of_nat n) (fun i => i) (fun t => t)
                                              (fun a b => nth (Z.to_nat b) (nth (Z.to_nat a) D []) 0) k c;
                                  dor f <- src_cdm_save Z 0 visz_Z m; src_cdm_load Z 0 visz_Z f) order;
  dor m <- src_cdm_concat Z 0 visz_Z ms;
  src_cdm_to_dense Z 0 visz_Z m.

Definition of_pairs (l : list (nat * nat)) : sexp := of_list (of_pair of_nat of_nat) l.

Definition tab_get (D : list (list Z)) (i j : nat) : Z := nth j (nth i D []) 0.

Definition run_c07 (orc : oracle) (s : sexp) : sexp :=
  match s with
  | SL [SZ 0; n; c] =>
      run_with (as_pair as_nat as_nat) (fun '(n, c) => of_list of_pairs (all_chunks n c)) (SL [n; c])
  | SL [SZ 1; n; c; order; D] =>
      match as_nat n, as_Z c, as_Zs order, as_listof as_Zs D with
      | Some n, Some c, Some order, Some D =>
          of_result (of_list of_Zs) (pipeline Z 0 (tab_get D) n c order)
      | _, _, _, _ => bad_input
      end
  | SL [SZ 2; sg; a; b] =>
      match as_bool sg, as_listof as_Qc a, as_listof as_Qc b with
      | Some sg, Some a, Some b => of_result of_Qc (mse_distance orc sg a b)
      | _, _, _ => bad_input
      end
  | SL [SZ 3; n; c; k] =>
      match as_nat n, as_Z c, as_Z k with
      | Some n, Some c, Some k => of_pairs (chunk n k c)
      | _, _, _ => bad_input
      end
  | SL [SZ 4; n; c; order; D] =>
      match as_nat n, as_Z c, as_Zs order, as_listof as_Zs D with
      | Some n, Some c, Some order, Some D => of_result (of_list of_Zs) (src_pipeline_Z D n c order)
      | _, _, _, _ => bad_input
      end
  | SL [SZ 5; SL script] => run_script [] script []
  | _ => bad_input
  end.
