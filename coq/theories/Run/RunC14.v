(* Wire entry point for C14.  [screens] = list of mk_args (Model/ScreenIO.v); parent k = k-th screen.
   Trees:  (0 k isbool sel) Base | (1 k) Observed | (2 k) Unobserved | (3 k pid) GetPlate | (4 k) UniqueS
           (5 e isbool inner) Subset | (6 a b) Combine | (7 e) Invert | (8 (e ...)) Concat | (9 e) Unique
   Ops:
     (0 screens tree)  -> (result view, ref)     view = (tag sel pids sids tids rows), ref = reference index list
     (1 screens tree)  -> result screen          eval, then to_screen
     (2 screens k)     -> result (list view)     screens[k].plates
     (3 cols)          -> result (list bool)     select_unique_zipped_numpy_arrays *)
From Coq Require Import ZArith List.
From Batchie Require Import Lib.Sexp Lib.Num Model.Encode Model.Screen Model.ScreenIO Model.Views.
Import ListNotations.
Open Scope Z_scope.

Fixpoint as_vexpr (s : sexp) : option vexpr :=
  match s with
  | SL [SZ 0; k; b; sel] => do k <- as_nat k; do b <- as_bool b; do sel <- as_listof as_bool sel; Some (Base k b sel)
  | SL [SZ 1; k] => do k <- as_nat k; Some (Observed k)
  | SL [SZ 2; k] => do k <- as_nat k; Some (Unobserved k)
  | SL [SZ 3; k; pid] => do k <- as_nat k; do pid <- as_Z pid; Some (GetPlate k pid)
  | SL [SZ 4; k] => do k <- as_nat k; Some (UniqueS k)
  | SL [SZ 5; e; b; inner] =>
      do e <- as_vexpr e; do b <- as_bool b; do inner <- as_listof as_bool inner; Some (Subset e b inner)
  | SL [SZ 6; a; b] => do a <- as_vexpr a; do b <- as_vexpr b; Some (Combine a b)
  | SL [SZ 7; e] => do e <- as_vexpr e; Some (Invert e)
  | SL [SZ 8; SL es] =>
      do es <- (fix go (l : list sexp) : option (list vexpr) :=
                  match l with
                  | [] => Some []
                  | x :: r => do a <- as_vexpr x; do b <- go r; Some (a :: b)
                  end) es;
      Some (Concat es)
  | SL [SZ 9; e] => do e <- as_vexpr e; Some (Unique e)
  | _ => None
  end.

Definition of_view (v : view) : sexp :=
  SL [SZ (v_tag v); of_list of_bool (v_sel v); of_Zs (view_pids v); of_Zs (view_sids v);
      of_list of_Zs (view_tids v); of_list of_row (view_rows v)].

Definition build_screens (l : list sexp) : option (result (list screen)) :=
  do args <- opt_map_all as_mk_args l; Some (res_map_all mk_screen_args args).

Definition run_c14 (orc : oracle) (s : sexp) : sexp :=
  match s with
  | SL [SZ 0; SL screens; tree] =>
      match build_screens screens, as_vexpr tree with
      | Some ps, Some e =>
          match ps with
          | Ok ps => SL [of_result of_view (eval ps e); of_list of_nat (ref ps e)]
          | Err t => SL [of_result of_view (Err t); SL []]
          end
      | _, _ => bad_input
      end
  | SL [SZ 1; SL screens; tree] =>
      match build_screens screens, as_vexpr tree with
      | Some ps, Some e => of_result of_screen (dor ps <- ps; dor v <- eval ps e; to_screen v)
      | _, _ => bad_input
      end
  | SL [SZ 2; SL screens; k] =>
      match build_screens screens, as_nat k with
      | Some ps, Some k =>
          of_result (of_list of_view) (dor ps <- ps; dor p <- get_parent ps k; plates (Z.of_nat k) p)
      | _, _ => bad_input
      end
  | SL [SZ 3; cols] =>
      match as_listof as_Zs cols with
      | Some cols => of_result (of_list of_bool) (select_unique cols)
      | None => bad_input
      end
  | _ => bad_input
  end.
