(* Wire entry point for C19.  Ops:
     (0 fixed bs fs)                  -> examine:  (0 (ni np meta? screen?)) | (1 why i j)
     (1 mode fixed bs n fs sched)     -> script_run from fs: (fs' log)
     (2 mode bs n)                    -> crash_free: list of ((i j) pdir)
     (3 fs)                           -> completed: list of ((i j) pdir)
     (4 mode fixed bs n fs sched)     -> script_session from fs: (fs' (invocation ...)),
                                         invocation = (screen (logitem ...) end), end = 0 returned |
                                         1 did not return | 2 schedule exhausted; inside an invocation
                                         record the operator's screen is written (0 r), r = the index of
                                         the screen file that invocation was given (in fs' it stays (0))
     (5 (i j) pdir)                   -> validate_initial of the job directory ((i j), pdir):
                                         (0 ()) None | (0 ((test training meta))) the dict | (1 why) raised | (2 why i j) named
     (6 (word ...))                   -> parse_known_args orch_options on the command line (a word = its code points):
                                         (0 ((dest value) ...) (remaining word ...)) with value = (0 str) | (1 int) | (2) None;
                                         (1 why) argparse error (64) / spelling the model does not represent (90)
     (7 (component ...))              -> the five path helpers for a script whose resolved file is /c1/c2/...: (script_location
                                         nextflow_dir base_config repository_root main_nf_file), each a list of components
     (8 tfix mode fixed bs n sched_t) -> script_session_t from the empty tree (entry_t = (k order torn)): (fs' (torn step ...) (invocation ...))
     (9 (file ...))                   -> valid_meta of the marker files a job directory's glob matches: () | (m)
     (10 tfix fixed bs fs (step ...)) -> examine_t on the world (fs, torn steps): (0 (ni np meta? screen?)) | (1 why i j) | (3 why)
   Encodings: kind = 0..6 (training test thetas dist selected advanced meta);
   spath = (0) | (1 i j kind); launch = (0 sp) | (1 sp sp) | (2 sp) | (3 sp (i j) excl);
   pdir = (training? test thetas dist selected? advanced? meta? by?);
   fs = list of (i (list of (j pdir))); entry = (k order);
   logitem = (0 why i j) | (1) | (2 k) | (3 why) | (4 i j launch published ok). *)
From Coq Require Import ZArith List.
From Batchie Require Import Lib.Sexp Lib.Num Model.Orchestrate.
Import ListNotations.
Open Scope Z_scope.

Definition as_kind (s : sexp) : option kind :=
  match s with
  | SZ 0 => Some KTraining | SZ 1 => Some KTest | SZ 2 => Some KThetas | SZ 3 => Some KDist
  | SZ 4 => Some KSelected | SZ 5 => Some KAdvanced | SZ 6 => Some KMeta | _ => None
  end.
Definition of_kind (k : kind) : sexp :=
  SZ (match k with KTraining => 0 | KTest => 1 | KThetas => 2 | KDist => 3 | KSelected => 4 | KAdvanced => 5 | KMeta => 6 end).

Definition as_step : sexp -> option step := as_pair as_Z as_Z.
Definition of_step (s : step) : sexp := SL [SZ (fst s); SZ (snd s)].

Definition as_spath (s : sexp) : option spath :=
  match s with
  | SL [SZ 0] => Some SInput
  | SL [SZ 1; SZ i; SZ j; k] => do k <- as_kind k; Some (SFile (i, j) k)
  | _ => None
  end.
Definition of_spath (p : spath) : sexp :=
  match p with SInput => SL [SZ 0] | SFile s k => SL [SZ 1; SZ (fst s); SZ (snd s); of_kind k] end.

Definition as_launch (s : sexp) : option launch :=
  match s with
  | SL [SZ 0; a] => do a <- as_spath a; Some (LInit a)
  | SL [SZ 1; a; b] => do a <- as_spath a; do b <- as_spath b; Some (LFirst a b)
  | SL [SZ 2; a] => do a <- as_spath a; Some (LProsp a)
  | SL [SZ 3; a; t; x] => do a <- as_spath a; do t <- as_step t; do x <- as_Zs x; Some (LNext a t x)
  | _ => None
  end.
Definition of_launch (l : launch) : sexp :=
  match l with
  | LInit a => SL [SZ 0; of_spath a]
  | LFirst a b => SL [SZ 1; of_spath a; of_spath b]
  | LProsp a => SL [SZ 2; of_spath a]
  | LNext a t x => SL [SZ 3; of_spath a; of_step t; of_Zs x]
  end.

Definition as_pdir (s : sexp) : option pdir :=
  match s with
  | SL [tr; te; th; di; se; ad; me; by_] =>
      do tr <- as_option as_Zs tr; do te <- as_bool te; do th <- as_bool th; do di <- as_bool di;
      do se <- as_option as_Z se; do ad <- as_option as_Zs ad; do me <- as_option as_Z me;
      do by_ <- as_option as_launch by_;
      Some (mkp tr te th di se ad me by_)
  | _ => None
  end.
Definition of_pdir (d : pdir) : sexp :=
  SL [of_option of_Zs (f_training d); of_bool (f_test d); of_bool (f_thetas d); of_bool (f_dist d);
      of_option SZ (f_selected d); of_option of_Zs (f_advanced d); of_option SZ (f_meta d);
      of_option of_launch (f_by d)].

Definition as_fs : sexp -> option fs := as_listof (as_pair as_Z (as_listof (as_pair as_Z as_pdir))).
Definition of_fs (f : fs) : sexp :=
  of_list (fun itd : Z * idir => SL [SZ (fst itd); of_list (fun p : Z * pdir => SL [SZ (fst p); of_pdir (snd p)]) (snd itd)]) f.

Definition as_entry (s : sexp) : option entry :=
  match s with
  | SL [k; o] => do k <- as_nat k; do o <- as_listof as_kind o; Some (mke k o)
  | _ => None
  end.

Definition of_logitem (g : logitem) : sexp :=
  match g with
  | GNamed w s => SL [SZ 0; SZ w; SZ (fst s); SZ (snd s)]
  | GDone => SL [SZ 1]
  | GStopped k => SL [SZ 2; of_nat k]
  | GFail w => SL [SZ 3; SZ w]
  | GLaunch s l ps ok => SL [SZ 4; SZ (fst s); SZ (snd s); of_launch l; of_list of_kind ps; of_bool ok]
  end.

(* the same with the operator screen of the invocation made explicit *)
Definition of_spath_r (r : Z) (p : spath) : sexp :=
  match p with SInput => SL [SZ 0; SZ r] | SFile _ _ => of_spath p end.
Definition of_launch_r (r : Z) (l : launch) : sexp :=
  match l with
  | LInit a => SL [SZ 0; of_spath_r r a]
  | LFirst a b => SL [SZ 1; of_spath_r r a; of_spath_r r b]
  | LProsp a => SL [SZ 2; of_spath_r r a]
  | LNext a t x => SL [SZ 3; of_spath_r r a; of_step t; of_Zs x]
  end.
Definition of_logitem_r (r : Z) (g : logitem) : sexp :=
  match g with
  | GLaunch s l ps ok => SL [SZ 4; SZ (fst s); SZ (snd s); of_launch_r r l; of_list of_kind ps; of_bool ok]
  | _ => of_logitem g
  end.
Definition of_iend (e : iend) : sexp :=
  SZ (match e with IReturned => 0 | IRaised => 1 | IExhausted => 2 end).
Definition of_irec (r : irec) : sexp :=
  SL [SZ (i_screen r); of_list (of_logitem_r (i_screen r)) (i_calls r); of_iend (i_end r)].

Definition as_mode (s : sexp) : option mode :=
  match s with SZ 0 => Some Retro | SZ 1 => Some Prosp | _ => None end.

Definition of_steps (l : list (step * pdir)) : sexp :=
  of_list (fun p : step * pdir => SL [of_step (fst p); of_pdir (snd p)]) l.

Definition as_mfile (s : sexp) : option mfile :=
  match s with
  | SL [] => Some None
  | SL [SZ 0] => Some (Some JOther)
  | SL [SZ 1] => Some (Some (JDict None))
  | SL [SZ 2; SZ m] => Some (Some (JDict (Some m)))
  | _ => None
  end.

Definition run_c19 (orc : oracle) (s : sexp) : sexp :=
  match s with
  | SL [SZ 0; fx; bs; f] =>
      match as_bool fx, as_Z bs, as_fs f with
      | Some fx, Some bs, Some f =>
          match examine fx bs f with
          | XOk (i, j, m, sc) => SL [SZ 0; SL [SZ i; SZ j; of_option SZ m; of_option of_spath sc]]
          | XNamed w st => SL [SZ 1; SZ w; SZ (fst st); SZ (snd st)]
          end
      | _, _, _ => bad_input
      end
  | SL [SZ 1; md; fx; bs; n; f; sched] =>
      match as_mode md, as_bool fx, as_Z bs, as_nat n, as_fs f, as_listof as_entry sched with
      | Some md, Some fx, Some bs, Some n, Some f, Some sched =>
          let '(f', log) := script_run md fx bs n f sched in
          SL [of_fs f'; of_list of_logitem log]
      | _, _, _, _, _, _ => bad_input
      end
  | SL [SZ 4; md; fx; bs; n; f; sched] =>
      match as_mode md, as_bool fx, as_Z bs, as_nat n, as_fs f, as_listof as_entry sched with
      | Some md, Some fx, Some bs, Some n, Some f, Some sched =>
          let '(f', recs) := script_session md fx bs n f sched in
          SL [of_fs f'; of_list of_irec recs]
      | _, _, _, _, _, _ => bad_input
      end
  | SL [SZ 2; md; bs; n] =>
      match as_mode md, as_nat bs, as_nat n with
      | Some md, Some bs, Some n => of_steps (crash_free md bs n)
      | _, _, _ => bad_input
      end
  | SL [SZ 3; f] =>
      match as_fs f with
      | Some f => of_steps (completed f)
      | None => bad_input
      end
  | SL [SZ 5; st; d] =>
      match as_step st, as_pdir d with
      | Some st, Some d =>
          match validate_initial (st, d) with
          | SOk None => SL [SZ 0; SL []]
          | SOk (Some r) => SL [SZ 0; SL [SL [of_spath (if_test r); of_spath (if_training r); SZ (if_meta r)]]]
          | SRaised _ w => SL [SZ 1; SZ w]
          | SNamed w s => SL [SZ 2; SZ w; SZ (fst s); SZ (snd s)]
          end
      | _, _ => bad_input
      end
  | SL [SZ 6; ws] =>
      match as_listof as_Zs ws with
      | Some ws =>
          match parse_known_args orch_options ws with
          | SOk (ns, extra) =>
              SL [SZ 0;
                  of_list (fun kv : str * nsval =>
                             SL [of_Zs (fst kv);
                                 match snd kv with VStr x => SL [SZ 0; of_Zs x] | VInt z => SL [SZ 1; SZ z] | VNone => SL [SZ 2] end]) ns;
                  of_list of_Zs extra]
          | SRaised _ w => SL [SZ 1; SZ w]
          | SNamed w st => SL [SZ 2; SZ w; SZ (fst st); SZ (snd st)]
          end
      | None => bad_input
      end
  | SL [SZ 7; f] =>
      match as_listof as_Zs f with
      | Some f => SL (map (of_list of_Zs) [script_location f; nextflow_dir f; base_config f; repository_root f; main_nf_file f])
      | None => bad_input
      end
  (* (8 tfix mode fixed bs n sched_t) -> script_session_t from the empty tree; entry_t = (k order torn);
     answer (fs' (torn step ...) (invocation ...)) *)
  | SL [SZ 8; tfix; md; fx; bs; n; sched] =>
      match as_bool tfix, as_mode md, as_bool fx, as_Z bs, as_nat n,
            as_listof (fun s => match s with
                                | SL [k; o; t] => do e <- as_entry (SL [k; o]); do t <- as_bool t; Some (mkte e t)
                                | _ => None end) sched with
      | Some tfix, Some md, Some fx, Some bs, Some n, Some sched =>
          let '(tf, recs) := script_session_t tfix md fx bs n ([], []) sched in
          SL [of_fs (fst tf); of_list of_step (snd tf); of_list of_irec recs]
      | _, _, _, _, _, _ => bad_input
      end
  (* (9 (file ...)) -> valid_meta: what validate_job_dir_and_return_meta answers for a job directory whose glob matches these
     marker files; file = () unreadable | (0) a JSON document that is no dict | (1) a dict without n_unobserved_plates |
     (2 m) a dict with n_unobserved_plates = m; answer () None | (m) *)
  | SL [SZ 9; files] =>
      match as_listof as_mfile files with
      | Some d => match valid_meta d with
                  | Some (JDict (Some m)) => SL [SZ m]
                  | _ => SL []
                  end
      | None => bad_input
      end
  (* (10 tfix fixed bs fs (torn step ...)) -> examine_t on the world (fs, torn): (0 (ni np meta? screen?)) | (1 why i j) | (3 why) raised *)
  | SL [SZ 10; tfix; fx; bs; f; torn] =>
      match as_bool tfix, as_bool fx, as_Z bs, as_fs f, as_listof as_step torn with
      | Some tfix, Some fx, Some bs, Some f, Some torn =>
          match examine_t tfix fx bs (f, torn) with
          | TOk (ni, np, meta, scr) => SL [SZ 0; SL [SZ ni; SZ np; of_option SZ meta; of_option of_spath scr]]
          | TNamed w (i, j) => SL [SZ 1; SZ w; SZ i; SZ j]
          | TRaised w => SL [SZ 3; SZ w]
          end
      | _, _, _, _, _ => bad_input
      end
  | _ => bad_input
  end.
