(* Wire entry point for C17.  Events: Reset (0) | SetRng (1 entropy (spawn_key)) | Step (2) | Record (3) | SampleVI (4 n).  Ops:
     (0 kind seed n_chains? chain_index? n_burnin? thin? n_thetas len0 returned) -> result (trace final_len)
     (1 seed n_chains chain_index)                                              -> result (entropy (spawn_key)) *)
From Coq Require Import ZArith List.
From Batchie Require Import Lib.Sexp Lib.Num Model.Sampling.
Import ListNotations.
Open Scope Z_scope.

Definition of_event (e : event) : sexp :=
  match e with
  | Reset => SL [SZ 0]
  | SetRng e sk => SL [SZ 1; SZ e; of_Zs sk]
  | Step => SL [SZ 2]
  | Record => SL [SZ 3]
  | SampleVI n => SL [SZ 4; SZ n]
  end.

Definition run_c17 (orc : oracle) (s : sexp) : sexp :=
  match s with
  | SL [SZ 0; kind; seed; nc; ci; b; t; n; len0; ret] =>
      match as_Z kind, as_Z seed, as_option as_Z nc, as_option as_Z ci, as_option as_Z b, as_option as_Z t,
            as_Z n, as_Z len0, as_nat ret with
      | Some kind, Some seed, Some nc, Some ci, Some b, Some t, Some n, Some len0, Some ret =>
          of_result (fun r => SL [of_list of_event (fst r); SZ (snd r)]) (sample kind seed nc ci b t n len0 ret)
      | _, _, _, _, _, _, _, _, _ => bad_input
      end
  | SL [SZ 1; seed; nc; ci] =>
      match as_Z seed, as_Z nc, as_Z ci with
      | Some seed, Some nc, Some ci => of_result (fun k => SL [SZ (fst k); of_Zs (snd k)]) (rng_key seed nc ci)
      | _, _, _ => bad_input
      end
  | _ => bad_input
  end.
