(* Wire entry point for C18: replay a recorded answer trace of one mirrored operation.
   Ops:
     (0 plate_ids answers)                  -> RandomScorer.score
     (1 size (num den) answers)             -> create_random_holdout
     (2 ((idxs observed) ...) (num den) answers) -> create_plate_balanced_holdout_set_among_masked_plates
     (3 n_thetas max_combos answers)        -> DBAL triple sub-sampling
     (4 plates size t answers)              -> FixedSizeSmoother / OptimalSizeSmoother._smooth_plates with plate size t;
                                               plates = the plates' 0/1 selection vectors; out = the final selection vector
     (5 names answers)                      -> PlatePermutationPlateGenerator._generate_plates: names = the (integer-coded) plate
                                               names of the rows to permute; out = their new names
     (6 groups size max_plate_size answers) -> SampleSegregatingPermutationPlateGenerator._generate_plates: groups = the row lists
                                               of the samples in unique_sample_ids order; out = (0 labels) | (1 tag), the plate
                                               number of every row
     (7 lower_s)                            -> argument_parsing.str_to_bool on a string whose lower() is lower_s
     (8 items types table others)           -> argument_parsing.cast_dict_to_type: items = ((key value) ...) in dict order, types =
                                               ((key ann) ...), ann = (0) bool | (1) int | (2) float | (3) str | (4) None | (5 n) the
                                               n-th other callable | (6) inspect.Parameter.empty; table = ((value (lower int float)) ...)
                                               = what s.lower(), int(s), float(s) answer for each value (results as (0 x) | (1 tag),
                                               floats as order keys); others = (((n value) result) ...); out = ((key pval) ...),
                                               pval = (0 b) | (1 z) | (2 key) | (3 str) | (4 o)
     (9 words)                              -> KVAppendAction.__call__ once per word on a namespace that starts at None;
                                               out = () | (((key value) ...))
     (10 s sep maxsplit)                    -> s.split(sep, maxsplit)
     (11 ((name no_default ann) ...))       -> introspection.get_required_init_args_with_annotations on a class whose __init__ has
                                               these parameters; out = ((name ann) ...)
     (12 modules class_name)                -> introspection.get_class over a package whose walk yields `modules` =
                                               ((name import_ok attr) ...), attr = () | ((id truthy is_class is_subclass));
                                               out = () | (id)
     (13 ((flags dest_kw dest type default required action nargs) ...))
                                            -> argparse's reading of the declared options (Cli.opt_dest / opt_kind / opt_may_be_none /
                                               opt_default): dest_kw = () | (str); type = () | (0 int | 1 float | 2 str | 3 str_to_bool);
                                               default = () | (lit), lit = (0) None | (1 b) | (2 z) | (3 n d) | (4 str) | (5) [];
                                               action = 0 store | 1 store_true | 2 store_false | 3 append | 4 count | 5 KVAppendAction;
                                               nargs = () | ((0 n) | (1) + | (2) * | (3) ?); out per option = (dest kind none default),
                                               kind = () | (k), k = (0) int | (1) float | (2) str | (3) bool | (4 k) list | (5) dict
   answers : list of list of integers (one per recorded generator call).
   Result: (0 (out requests contract_ok)) | (1 tag); requests encoded as
     (0) | (1 pool k replace) | (2 n k replace) | (3 pool);
   contract_ok = 1 iff there are exactly as many answers as requests and each answer satisfies
   the numpy contract of its request. *)
From Coq Require Import ZArith List QArith.
From Batchie Require Import Lib.Sexp Lib.Num Model.RandProg.
From Batchie Require Lib.PyRt Model.Cli.
Import ListNotations.
Open Scope Z_scope.

Definition of_req (r : req) : sexp :=
  match r with
  | RRandom => SL [SZ 0]
  | RChoice pool k rep => SL [SZ 1; of_Zs pool; SZ k; of_bool rep]
  | RChoiceN n k rep => SL [SZ 2; SZ n; SZ k; of_bool rep]
  | RPermutation pool => SL [SZ 3; of_Zs pool]
  end.

Definition of_run {Out} (enc : Out -> sexp) (answers : list ans) (r : result (Out * list req)) : sexp :=
  of_result (fun p : Out * list req =>
               SL [enc (fst p); of_list of_req (snd p); of_bool (answers_ok (snd p) answers)]) r.

Definition as_answers := as_listof as_Zs.

(* ---- the argument-handling glue (Model/Cli.v, last part): the library primitives are answer tables ---- *)
Definition as_ann (s : sexp) : option Cli.ann :=
  match s with
  | SL [SZ 0] => Some Cli.ABool | SL [SZ 1] => Some Cli.AInt | SL [SZ 2] => Some Cli.AFloat | SL [SZ 3] => Some Cli.AStr
  | SL [SZ 4] => Some Cli.ANone | SL [SZ 5; SZ n] => Some (Cli.AOther n) | SL [SZ 6] => Some Cli.AEmpty
  | _ => None
  end.
Definition of_ann (a : Cli.ann) : sexp :=
  match a with
  | Cli.ABool => SL [SZ 0] | Cli.AInt => SL [SZ 1] | Cli.AFloat => SL [SZ 2] | Cli.AStr => SL [SZ 3] | Cli.ANone => SL [SZ 4]
  | Cli.AOther n => SL [SZ 5; SZ n] | Cli.AEmpty => SL [SZ 6]
  end.
Definition as_resZ (s : sexp) : option (result Z) :=
  match s with SL [SZ 0; SZ z] => Some (Ok z) | SL [SZ 1; SZ t] => Some (Err t) | _ => None end.
Definition of_pval (v : Cli.pval Z Z) : sexp :=
  match v with
  | Cli.VBool b => SL [SZ 0; of_bool b] | Cli.VInt z => SL [SZ 1; SZ z] | Cli.VFloat f => SL [SZ 2; SZ f]
  | Cli.VStr s => SL [SZ 3; of_Zs s] | Cli.VOther o => SL [SZ 4; SZ o]
  end.
(* a value the tables do not list: Err 90 (a harness error, never an implementation behaviour) *)
Definition table_prims (tbl : list (Cli.str * (Cli.str * result Z * result Z))) (others : list (Z * Cli.str * result Z))
  : Cli.pyprims Z Z :=
  Cli.mk_pyprims
    (fun s => match PyRt.kdict_find PyRt.str_eqb tbl s with Some e => fst (fst e) | None => s end)
    (fun s => match PyRt.kdict_find PyRt.str_eqb tbl s with Some e => snd (fst e) | None => Err 90 end)
    (fun s => match PyRt.kdict_find PyRt.str_eqb tbl s with Some e => snd e | None => Err 90 end)
    (fun n s => match find (fun e => (fst (fst e) =? n) && PyRt.str_eqb (snd (fst e)) s) others with
                | Some e => snd e | None => Err 90 end).
Definition as_sigparam (s : sexp) : option (Cli.str * Cli.sigparam) :=
  match s with
  | SL [n; d; a] => do n <- as_Zs n; do d <- as_bool d; do a <- as_ann a; Some (n, Cli.mk_sigparam d a)
  | _ => None
  end.
(* a package as a table: module name -> (does the import succeed, the attribute of the requested name if any);
   an object = (id, truthy, is a class, is a subclass of the base) *)
Definition obj_t : Type := (Z * bool * bool * bool)%type.
Definition as_obj (s : sexp) : option obj_t :=
  match s with SL [SZ i; t; c; b] => do t <- as_bool t; do c <- as_bool c; do b <- as_bool b; Some (i, t, c, b) | _ => None end.
Definition as_module (s : sexp) : option (Cli.str * (bool * option obj_t)) :=
  match s with SL [n; ok; a] => do n <- as_Zs n; do ok <- as_bool ok; do a <- as_option as_obj a; Some (n, (ok, a)) | _ => None end.
Definition table_world (mods : list (Cli.str * (bool * option obj_t))) : Cli.pyworld (option (bool * option obj_t)) obj_t :=
  Cli.mk_pyworld
    (fun n => if PyRt.str_eqb n Cli.s_batchie then Ok None
              else match PyRt.kdict_find PyRt.str_eqb mods n with
                   | Some (true, a) => Ok (Some (true, a)) | _ => Err 32 end)
    (fun _ _ => map fst mods)
    (fun m _ => match m with Some (_, a) => a | None => None end)
    (fun o => snd (fst (fst o)))
    (fun o _ => if snd (fst o) then Ok (snd o) else Err 33)
    (fun o => snd (fst o))
    (fun _ => Err 34).

(* ---- the argparse option tables (Model/Cli.v, last part) ---- *)
Definition as_argtype (s : sexp) : option Cli.argtype :=
  match s with SZ 0 => Some Cli.TInt | SZ 1 => Some Cli.TFloat | SZ 2 => Some Cli.TStr | SZ 3 => Some Cli.TStrToBool | _ => None end.
Definition as_pylit (s : sexp) : option Cli.pylit :=
  match s with
  | SL [SZ 0] => Some Cli.LNone
  | SL [SZ 1; b] => do b <- as_bool b; Some (Cli.LBool b)
  | SL [SZ 2; SZ z] => Some (Cli.LInt z)
  | SL [SZ 3; SZ n; SZ (Zpos d)] => Some (Cli.LFloat n d)
  | SL [SZ 4; v] => do v <- as_Zs v; Some (Cli.LStr v)
  | SL [SZ 5] => Some Cli.LEmptyList
  | _ => None
  end.
Definition of_pylit (d : Cli.pylit) : sexp :=
  match d with
  | Cli.LNone => SL [SZ 0] | Cli.LBool b => SL [SZ 1; of_bool b] | Cli.LInt z => SL [SZ 2; SZ z]
  | Cli.LFloat n d => SL [SZ 3; SZ n; SZ (Zpos d)] | Cli.LStr v => SL [SZ 4; of_Zs v] | Cli.LEmptyList => SL [SZ 5]
  end.
Definition as_argaction (s : sexp) : option Cli.argaction :=
  match s with
  | SZ 0 => Some Cli.ActStore | SZ 1 => Some Cli.ActStoreTrue | SZ 2 => Some Cli.ActStoreFalse | SZ 3 => Some Cli.ActAppend
  | SZ 4 => Some Cli.ActCount | SZ 5 => Some Cli.ActKVAppend | _ => None
  end.
Definition as_argnargs (s : sexp) : option Cli.argnargs :=
  match s with
  | SL [SZ 0; SZ n] => Some (Cli.NInt n) | SL [SZ 1] => Some Cli.NPlus | SL [SZ 2] => Some Cli.NStar | SL [SZ 3] => Some Cli.NOpt
  | _ => None
  end.
Definition as_argopt (s : sexp) : option Cli.argopt :=
  match s with
  | SL [flags; dkw; dest; ty; dflt; req; act; nargs] =>
      do flags <- as_listof as_Zs flags; do dkw <- as_option as_Zs dkw; do dest <- as_Zs dest; do ty <- as_option as_argtype ty;
      do dflt <- as_option as_pylit dflt; do req <- as_bool req; do act <- as_argaction act; do nargs <- as_option as_argnargs nargs;
      Some (Cli.mk_argopt flags dkw dest ty dflt req act nargs None)
  | _ => None
  end.
Fixpoint of_nskind (k : Cli.nskind) : sexp :=
  match k with
  | Cli.KInt => SL [SZ 0] | Cli.KFloat => SL [SZ 1] | Cli.KStr => SL [SZ 2] | Cli.KBool => SL [SZ 3]
  | Cli.KList e => SL [SZ 4; of_nskind e] | Cli.KKV => SL [SZ 5]
  end.
Definition of_argopt_reading (o : Cli.argopt) : sexp :=
  SL [of_Zs (Cli.opt_dest o); of_option of_nskind (Cli.opt_kind o); of_bool (Cli.opt_may_be_none o); of_pylit (Cli.opt_default o)].

Definition run_c18 (orc : oracle) (s : sexp) : sexp :=
  match s with
  | SL [SZ 13; opts] =>
      match as_listof as_argopt opts with
      | Some opts => of_list of_argopt_reading opts
      | None => bad_input
      end
  | SL [SZ 7; lower_s] =>
      match as_Zs lower_s with
      | Some l => of_result of_bool (Cli.str_to_bool (table_prims [] []) (l : Cli.str))
      | None => bad_input
      end
  | SL [SZ 8; items; types; tbl; others] =>
      match as_listof (as_pair as_Zs as_Zs) items, as_listof (as_pair as_Zs as_ann) types,
            as_listof (as_pair as_Zs (as_triple as_Zs as_resZ as_resZ)) tbl,
            as_listof (as_pair (as_pair as_Z as_Zs) as_resZ) others with
      | Some items, Some types, Some tbl, Some others =>
          of_result (of_list (of_pair of_Zs of_pval)) (Cli.cast_dict (table_prims tbl others) items types)
      | _, _, _, _ => bad_input
      end
  | SL [SZ 9; words] =>
      match as_listof as_Zs words with
      | Some words => of_result (of_option (of_list (of_pair of_Zs of_Zs))) (Cli.kv_parse None words)
      | None => bad_input
      end
  | SL [SZ 10; str; sep; n] =>
      match as_Zs str, as_Zs sep, as_Z n with
      | Some str, Some sep, Some n => of_result (of_list of_Zs) (Cli.str_split str sep n)
      | _, _, _ => bad_input
      end
  | SL [SZ 11; ps] =>
      match as_listof as_sigparam ps with
      | Some ps => of_list (of_pair of_Zs of_ann) (fold_left Cli.required_step ps [])
      | None => bad_input
      end
  | SL [SZ 12; mods; name] =>
      match as_listof as_module mods, as_Zs name with
      | Some mods, Some name =>
          of_result (of_option (fun o : obj_t => SZ (fst (fst (fst o)))))
                    (Cli.get_class (table_world mods) Cli.s_batchie name Cli.BScorer)
      | _, _ => bad_input
      end
  | SL [SZ 0; plates; answers] =>
      match as_Zs plates, as_answers answers with
      | Some plates, Some answers =>
          of_run (of_list (of_pair SZ SZ)) answers (run (random_scorer_prog plates) answers)
      | _, _ => bad_input
      end
  | SL [SZ 1; size; fr; answers] =>
      match as_Z size, as_Q fr, as_answers answers with
      | Some size, Some fr, Some answers =>
          of_run of_Zs answers (run (random_holdout_prog size (Qnum fr) (Zpos (Qden fr))) answers)
      | _, _, _ => bad_input
      end
  | SL [SZ 2; plates; fr; answers] =>
      match as_listof (as_pair as_Zs as_bool) plates, as_Q fr, as_answers answers with
      | Some plates, Some fr, Some answers =>
          of_run of_Zs answers (run (balanced_holdout_prog plates (Qnum fr) (Zpos (Qden fr))) answers)
      | _, _, _ => bad_input
      end
  | SL [SZ 3; n; m; answers] =>
      match as_Z n, as_Z m, as_answers answers with
      | Some n, Some m, Some answers =>
          of_run (of_result of_Zs) answers (run (dbal_subsample_prog n m) answers)
      | _, _, _ => bad_input
      end
  | SL [SZ 4; plates; size; t; answers] =>
      match as_listof (as_listof as_bool) plates, as_Z size, as_Z t, as_answers answers with
      | Some plates, Some size, Some t, Some answers =>
          of_run (of_list of_bool) answers (run (size_smoother_prog plates size t) answers)
      | _, _, _, _ => bad_input
      end
  | SL [SZ 5; names; answers] =>
      match as_Zs names, as_answers answers with
      | Some names, Some answers => of_run of_Zs answers (run (plate_permutation_prog names) answers)
      | _, _ => bad_input
      end
  | SL [SZ 6; groups; size; mx; answers] =>
      match as_listof as_Zs groups, as_Z size, as_Z mx, as_answers answers with
      | Some groups, Some size, Some mx, Some answers =>
          of_run (of_result of_Zs) answers (run (sample_seg_prog groups size mx) answers)
      | _, _, _, _ => bad_input
      end
  | _ => bad_input
  end.
