(* Wire entry point for C18: replay a recorded answer trace of one mirrored operation.
   Ops:
     (0 plate_ids answers)                  -> RandomScorer.score
     (1 size (num den) answers)             -> create_random_holdout
     (2 ((idxs observed) ...) (num den) answers) -> create_plate_balanced_holdout_set_among_masked_plates
     (3 n_thetas max_combos answers)        -> DBAL triple sub-sampling
     (4 plates size t answers)              -> FixedSizeSmoother / OptimalSizeSmoother._smooth_plates with plate size t;
                                               plates = the plates' 0/1 selection vectors; out = the final selection vector
     (5 names answers)                      -> PlatePermutationPlateGenerator._generate_plates: names = the (integer-coded) plate
                                               names of the rows to permute; out = their new names
     (6 groups size max_plate_size answers) -> SampleSegregatingPermutationPlateGenerator._generate_plates: groups = the row lists
                                               of the samples in unique_sample_ids order; out = (0 labels) | (1 tag), the plate
                                               number of every row
   answers : list of list of integers (one per recorded generator call).
   Result: (0 (out requests contract_ok)) | (1 tag); requests encoded as
     (0) | (1 pool k replace) | (2 n k replace) | (3 pool);
   contract_ok = 1 iff there are exactly as many answers as requests and each answer satisfies
   the numpy contract of its request. *)
From Coq Require Import ZArith List QArith.
From Batchie Require Import Lib.Sexp Lib.Num Model.RandProg.
Import ListNotations.
Open Scope Z_scope.

Definition of_req (r : req) : sexp :=
  match r with
  | RRandom => SL [SZ 0]
  | RChoice pool k rep => SL [SZ 1; of_Zs pool; SZ k; of_bool rep]
  | RChoiceN n k rep => SL [SZ 2; SZ n; SZ k; of_bool rep]
  | RPermutation pool => SL [SZ 3; of_Zs pool]
  end.

Definition of_run {Out} (enc : Out -> sexp) (answers : list ans) (r : result (Out * list req)) : sexp :=
  of_result (fun p : Out * list req =>
               SL [enc (fst p); of_list of_req (snd p); of_bool (answers_ok (snd p) answers)]) r.

Definition as_answers := as_listof as_Zs.

Definition run_c18 (orc : oracle) (s : sexp) : sexp :=
  match s with
  | SL [SZ 0; plates; answers] =>
      match as_Zs plates, as_answers answers with
      | Some plates, Some answers =>
          of_run (of_list (of_pair SZ SZ)) answers (run (random_scorer_prog plates) answers)
      | _, _ => bad_input
      end
  | SL [SZ 1; size; fr; answers] =>
      match as_Z size, as_Q fr, as_answers answers with
      | Some size, Some fr, Some answers =>
          of_run of_Zs answers (run (random_holdout_prog size (Qnum fr) (Zpos (Qden fr))) answers)
      | _, _, _ => bad_input
      end
  | SL [SZ 2; plates; fr; answers] =>
      match as_listof (as_pair as_Zs as_bool) plates, as_Q fr, as_answers answers with
      | Some plates, Some fr, Some answers =>
          of_run of_Zs answers (run (balanced_holdout_prog plates (Qnum fr) (Zpos (Qden fr))) answers)
      | _, _, _ => bad_input
      end
  | SL [SZ 3; n; m; answers] =>
      match as_Z n, as_Z m, as_answers answers with
      | Some n, Some m, Some answers =>
          of_run (of_result of_Zs) answers (run (dbal_subsample_prog n m) answers)
      | _, _, _ => bad_input
      end
  | SL [SZ 4; plates; size; t; answers] =>
      match as_listof (as_listof as_bool) plates, as_Z size, as_Z t, as_answers answers with
      | Some plates, Some size, Some t, Some answers =>
          of_run (of_list of_bool) answers (run (size_smoother_prog plates size t) answers)
      | _, _, _, _ => bad_input
      end
  | SL [SZ 5; names; answers] =>
      match as_Zs names, as_answers answers with
      | Some names, Some answers => of_run of_Zs answers (run (plate_permutation_prog names) answers)
      | _, _ => bad_input
      end
  | SL [SZ 6; groups; size; mx; answers] =>
      match as_listof as_Zs groups, as_Z size, as_Z mx, as_answers answers with
      | Some groups, Some size, Some mx, Some answers =>
          of_run (of_result of_Zs) answers (run (sample_seg_prog groups size mx) answers)
      | _, _, _, _ => bad_input
      end
  | _ => bad_input
  end.
