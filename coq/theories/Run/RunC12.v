(* Wire entry point for C12.  Same input as C03 (Model/RevealIO.v).  Output per screen: the part of the
   screen C12 speaks about, which does not depend on sample / treatment ids:
     (rows-with-observation-bits-and-mask  plate_ids  plate_mapping  metadata-counters) *)
From Coq Require Import ZArith List.
From Batchie Require Import Lib.Sexp Lib.Num Model.Encode Model.Screen Model.ScreenIO Model.Reveal Model.Holdout Model.RevealIO.
Import ListNotations.
Open Scope Z_scope.

Definition of_screen_c12 (s : screen) : sexp :=
  SL [of_list of_row (s_rows s); of_Zs (s_pids s); of_nmapping (s_pmap s); of_meta s].

(* (0 sim) a simulation;  (1 mk_args) the constructor alone: result (c12 view) *)
Definition run_c12 (orc : oracle) (s : sexp) : sexp :=
  match s with
  | SL [SZ 0; x] => run_with as_sim (run_sim of_screen_c12) x
  | SL [SZ 1; a] => run_with as_mk_args (fun a => of_result of_screen_c12 (mk_screen_args a)) a
  | _ => bad_input
  end.
