(* Wire entry point for C02.  Ops (sub = () | (rows): when present the screen under test is built from
   [rows] with the mappings of the screen built from mk_args, i.e. its mappings are supersets of its rows):
     (0 mk_args sub k)  -> result (screen file ctrl arity)   k >= 1 save/load cycles; the screen after the last
                                                   load (with its control name and arity) and the file written by
                                                   the last save
     (1 mk_args sub k)  -> result (space sfile)   the same for ExperimentSpace.from_screen(screen)
     (2 mk_args sub)    -> file                   save only (what save_h5 writes) *)
From Coq Require Import ZArith List.
From Batchie Require Import Lib.Sexp Lib.Num Model.Encode Model.Screen Model.ScreenIO Model.Persist.
Import ListNotations.
Open Scope Z_scope.

Definition of_names : list name -> sexp := of_list of_name.

(* (tnames tdoses tids tm_names tm_doses tm_ids obs mask sids snames sm_names sm_ids pids pnames ctrl arity) *)
Definition of_file (f : file) : sexp :=
  SL [of_list of_names (f_tnames f); of_list of_Zs (f_tdoses f); of_list of_Zs (f_tids f);
      of_names (f_tm_names f); of_Zs (f_tm_doses f); of_Zs (f_tm_ids f);
      of_Zs (f_obs f); of_list of_bool (f_mask f);
      of_Zs (f_sids f); of_names (f_snames f); of_names (f_sm_names f); of_Zs (f_sm_ids f);
      of_Zs (f_pids f); of_names (f_pnames f); of_name (f_ctrl f); of_nat (f_arity f)].

(* (tmap smap ctrl) *)
Definition of_space (sp : space) : sexp :=
  SL [of_tmapping (sp_tmap sp); of_nmapping (sp_smap sp); of_name (sp_ctrl sp)].

(* (tnames tdoses tids snames sids ctrl) *)
Definition of_sfile (g : sfile) : sexp :=
  SL [of_names (g_tnames g); of_Zs (g_tdoses g); of_Zs (g_tids g); of_names (g_snames g); of_Zs (g_sids g);
      of_name (g_ctrl g)].

Definition build_subject (a : list row * nat * name * option (tmapping * bool) * option (nmapping * bool) * bool * bool)
           (sub : option (list row)) : result screen :=
  dor s1 <- mk_screen_args a;
  match sub with
  | None => Ok s1
  | Some rows =>
      mk_screen rows (s_arity s1) (s_ctrl s1) (Some (s_tmap s1, true)) (Some (s_smap s1, true)) true true
  end.

Definition run_c02 (orc : oracle) (s : sexp) : sexp :=
  match s with
  | SL [SZ 0; a; sub; k] =>
      match as_mk_args a, as_option (as_listof as_row) sub, as_nat k with
      | Some a, Some sub, Some (S k) =>
          of_result (fun p => SL [of_screen (fst p); of_file (snd p); of_name (s_ctrl (fst p)); of_nat (s_arity (fst p))])
            (dor s0 <- build_subject a sub;
             dor sk <- cycles k s0;
             dor s' <- load (save sk);
             Ok (s', save sk))
      | _, _, _ => bad_input
      end
  | SL [SZ 1; a; sub; k] =>
      match as_mk_args a, as_option (as_listof as_row) sub, as_nat k with
      | Some a, Some sub, Some (S k) =>
          of_result (fun p => SL [of_space (fst p); of_sfile (snd p)])
            (dor s0 <- build_subject a sub;
             dor sk <- space_cycles k (space_of_screen s0);
             dor s' <- space_load (space_save sk);
             Ok (s', space_save sk))
      | _, _, _ => bad_input
      end
  | SL [SZ 2; a; sub] =>
      match as_mk_args a, as_option (as_listof as_row) sub with
      | Some a, Some sub => of_result (fun s0 => of_file (save s0)) (build_subject a sub)
      | _, _ => bad_input
      end
  | _ => bad_input
  end.
