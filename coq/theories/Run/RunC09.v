(* Wire entry point for C09.
     theta  := (0 W W0 V2 V1 V0 alpha precision) | (1 W V2 precision ((c d q) ...))
     screen := (arity ((s t0 ...) ...))      arity 1 / 2 decoded to typed rows, others to (arity, size)
     holder := (n_thetas (theta ...))
   Ops:
     (0 theta screen)   -> (mean viability variance)                       each a result (list Qc)
     (1 holder screen)  -> (mean_all viability_all variance_all mean_avg viability_avg) *)
From Coq Require Import ZArith List QArith Qcanon.
From Batchie Require Import Lib.Sexp Lib.Num Model.Predict.
Import ListNotations.
Open Scope Z_scope.

Definition as_vec := as_listof as_Qc.
Definition as_mat := as_listof as_vec.

Definition as_entry (s : sexp) : option (Z * Z * Qc) :=
  match s with SL [SZ c; SZ d; q] => do v <- as_Qc q; Some (c, d, v) | _ => None end.

Definition as_theta (s : sexp) : option theta :=
  match s with
  | SL [SZ 0; W; W0; V2; V1; V0; al; pr] =>
      do W <- as_mat W; do W0 <- as_vec W0; do V2 <- as_mat V2; do V1 <- as_mat V1; do V0 <- as_vec V0;
      do al <- as_Qc al; do pr <- as_Qc pr;
      Some (TS {| sW := W; sW0 := W0; sV2 := V2; sV1 := V1; sV0 := V0; salpha := al; sprec := pr |})
  | SL [SZ 1; W; V2; pr; L] =>
      do W <- as_mat W; do V2 <- as_mat V2; do pr <- as_Qc pr; do L <- as_listof as_entry L;
      Some (TI {| iW := W; iV2 := V2; iprec := pr; ilookup := L |})
  | _ => None
  end.

Definition as_row1 (s : sexp) : option (Z * Z) :=
  match s with SL [SZ a; SZ b] => Some (a, b) | _ => None end.
Definition as_row2 (s : sexp) : option (Z * Z * Z) :=
  match s with SL [SZ a; SZ b; SZ c] => Some (a, b, c) | _ => None end.

Definition as_screen (s : sexp) : option screen :=
  match s with
  | SL [SZ 1; rows] => do r <- as_listof as_row1 rows; Some (Scr1 r)
  | SL [SZ 2; rows] => do r <- as_listof as_row2 rows; Some (Scr2 r)
  | SL [SZ a; rows] => if a <? 0 then None else do l <- as_list rows; Some (ScrN (Z.to_nat a) (length l))
  | _ => None
  end.

Definition as_holder (s : sexp) : option holder :=
  match s with
  | SL [n; ts] => do n <- as_nat n; do ts <- as_listof as_theta ts; Some {| h_n := n; h_thetas := ts |}
  | _ => None
  end.

Definition of_vec := of_list of_Qc.
Definition of_mat := of_list of_vec.

Definition run_c09 (orc : oracle) (s : sexp) : sexp :=
  match s with
  | SL [SZ 0; t; scr] =>
      match as_theta t, as_screen scr with
      | Some t, Some scr =>
          SL (map (fun k => of_result of_vec (theta_predict orc k t scr)) [KMean; KViab; KVar])
      | _, _ => bad_input
      end
  | SL [SZ 1; h; scr] =>
      match as_holder h, as_screen scr with
      | Some h, Some scr =>
          SL (map (fun k => of_result of_mat (predict_all orc k h scr)) [KMean; KViab; KVar]
              ++ map (fun k => of_result of_vec (predict_avg orc k h scr)) [KMean; KViab])
      | _, _ => bad_input
      end
  | _ => bad_input
  end.
