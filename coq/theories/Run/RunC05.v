(* Wire entry point for C05.  Rationals are (n d); NaN-padded variances are options.
   idxs = the recorded result of rng.choice (combination ranks); draws = one idxs per sub-group.
     (0 pred vars D df idxs)            -> dbal_fast_gauss_scoring_vectorized on dense arrays
     (1 ((means vars) ...) D df idxs)   -> heteroscedastic wrapper
     (2 (means ...) variances D df idxs)-> homoscedastic wrapper
     (3 max_chunk ((key means vars) ...) D draws) -> GaussianDBALScorer.score, list of (key score)
     (4 (means vars) D df idxs)         -> the direct estimator on one plate
     (5 first_only (code ...))          -> dtype (item size in bits) of the dense array pad_ragged_arrays_to_dense_array
                                           allocates for arrays of these dtypes; first_only = 0: the code (repair fx2)
   Scores: () = -inf, ((n d)) = finite.  Arrays are assumed rectangular (numpy arrays are). *)
From Coq Require Import ZArith List QArith Qcanon.
From Batchie Require Import Lib.Sexp Lib.Num Model.Unrank Model.Dbal.
Import ListNotations.
Open Scope Z_scope.

Definition as_arr2 : sexp -> option (list (list Qc)) := as_listof (as_listof as_Qc).
Definition as_arr3 : sexp -> option (list (list (list Qc))) := as_listof as_arr2.
Definition as_oarr3 : sexp -> option (list (list (list (option Qc)))) :=
  as_listof (as_listof (as_listof (as_option as_Qc))).
Definition as_plate : sexp -> option plate := as_pair as_arr2 as_arr2.
Definition as_kplate (s : sexp) : option (Z * plate) :=
  do t <- as_triple as_Z as_arr2 as_arr2 s; let '(k, m, v) := t in Some (k, (m, v)).

Definition of_ext : ext -> sexp := of_option of_Qc.
Definition of_scores : result (list ext) -> sexp := of_result (of_list of_ext).

Definition run_c05 (orc : oracle) (s : sexp) : sexp :=
  match s with
  | SL [SZ 0; pred; vars; D; df; idxs] =>
      match as_arr3 pred, as_oarr3 vars, as_arr2 D, as_Qc df, as_Zs idxs with
      | Some pred, Some vars, Some D, Some df, Some idxs =>
          of_scores (kernel_checked orc pred vars D df idxs)
      | _, _, _, _, _ => bad_input
      end
  | SL [SZ 1; plates; D; df; idxs] =>
      match as_listof as_plate plates, as_arr2 D, as_Qc df, as_Zs idxs with
      | Some plates, Some D, Some df, Some idxs => of_scores (hetero_checked orc plates D df idxs)
      | _, _, _, _ => bad_input
      end
  | SL [SZ 2; preds; variances; D; df; idxs] =>
      match as_arr3 preds, as_arr2 variances, as_arr2 D, as_Qc df, as_Zs idxs with
      | Some preds, Some variances, Some D, Some df, Some idxs =>
          of_scores (homo_checked orc preds variances D df idxs)
      | _, _, _, _, _ => bad_input
      end
  | SL [SZ 3; mc; plates; D; draws] =>
      match as_nat mc, as_listof as_kplate plates, as_arr2 D, as_listof as_Zs draws with
      | Some mc, Some plates, Some D, Some draws =>
          of_result (of_list (of_pair SZ of_ext)) (scorer_checked orc mc plates D draws)
      | _, _, _, _ => bad_input
      end
  | SL [SZ 4; pl; D; df; idxs] =>
      match as_plate pl, as_arr2 D, as_Qc df, as_Zs idxs with
      | Some pl, Some D, Some df, Some idxs =>
          of_result of_ext
            (res_bind (triples_of_draw (length (fst pl)) idxs) (fun ts => Ok (direct orc D df ts pl)))
      | _, _, _, _ => bad_input
      end
  | SL [SZ 5; fo; codes] =>
      match as_bool fo, as_listof (fun c => do z <- as_Z c; dt_of_code z) codes with
      | Some fo, Some ds => of_result (fun d => SZ (dt_code d)) (pad_dtype_of fo ds)
      | _, _ => bad_input
      end
  | _ => bad_input
  end.
