(* Wire entry point for C15.  Ops:
     (0 index n k)            -> result (list)          unrank index n k   (k < 0 behaves as k = 0,
                                                        as Python's empty ranges do)
     (1 n k)                  -> list of results        all unrankings 0 .. C(n,k)-1 in index order
     (2 n max_combos (i ...)) -> result (ncomb size (triple ...))   the scorer's use site with the
                                                        recorded rng.choice answer
     (3 n (c ...))            -> (rank c, desc_below n c)   specification functions (small values only:
                                                        binom is unary)
     (4 index n k)            -> (result result)        unrank index, unrank (index+1) *)
From Coq Require Import ZArith List.
From Batchie Require Import Lib.Sexp Lib.Num Model.Unrank Model.Binom.
Import ListNotations.
Open Scope Z_scope.

Definition of_unranked (r : result (list Z)) : sexp := of_result of_Zs r.

Definition run_c15 (orc : oracle) (s : sexp) : sexp :=
  match s with
  | SL [SZ 0; SZ index; SZ n; SZ k] => of_unranked (unrank index n (Z.to_nat k))
  | SL [SZ 1; SZ n; SZ k] => of_list of_unranked (enum_all n (Z.to_nat k))
  | SL [SZ 2; SZ n; SZ mc; idxs] =>
      match as_Zs idxs with
      | Some idxs =>
          of_result (fun '(ncomb, size, ts) => SL [SZ ncomb; SZ size; of_list of_Zs ts])
                    (dbal_triples n mc (fun _ _ => idxs))
      | None => bad_input
      end
  | SL [SZ 3; SZ n; c] =>
      match as_Zs c with
      | Some c => SL [SZ (rank c); of_bool (desc_belowb n c)]
      | None => bad_input
      end
  | SL [SZ 4; SZ index; SZ n; SZ k] =>
      SL [of_unranked (unrank index n (Z.to_nat k)); of_unranked (unrank (index + 1) n (Z.to_nat k))]
  | _ => bad_input
  end.
