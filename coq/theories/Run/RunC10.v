(* Wire entry point for C10.  A sample is (private shared), both arbitrary wire values (the
   harness sends bit patterns / tags); a holder is (declared (sample ...)).  Ops:
     (0 holder)            -> result holder            load (save holder)
     (1 holder)            -> result (list digits)     group keys of the saved file in file order
     (2 (holder ...))      -> result holder            concat
     (3 (holder ...))      -> result (list (id sample)) evaluate_model over saved+loaded chains
     (4 declared (op ...)) -> list of results          op = (0 sample) add_theta | (1 i) get_theta
     (5 (holder ...))      -> list of chain ids *)
From Coq Require Import ZArith List.
From Batchie Require Import Lib.Sexp Lib.Num Model.Thetas.
Import ListNotations.
Open Scope Z_scope.

Definition wtheta := theta sexp sexp.
Definition wholder := holder sexp sexp.

Definition as_theta (s : sexp) : option wtheta := as_pair Some Some s.
Definition as_holder (s : sexp) : option wholder :=
  match s with
  | SL [d; ts] => do d <- as_Z d; do ts <- as_listof as_theta ts; Some {| h_declared := d; h_thetas := ts |}
  | _ => None
  end.
Definition of_theta (t : wtheta) : sexp := SL [fst t; snd t].
Definition of_holder (h : wholder) : sexp := SL [SZ (h_declared h); of_list of_theta (h_thetas h)].

Inductive op := OpAdd (t : wtheta) | OpGet (i : Z).
Definition as_op (s : sexp) : option op :=
  match s with
  | SL [SZ 0; t] => do t <- as_theta t; Some (OpAdd t)
  | SL [SZ 1; SZ i] => Some (OpGet i)
  | _ => None
  end.

(* an exception leaves the holder unchanged *)
Fixpoint run_ops (h : wholder) (ops : list op) : list sexp :=
  match ops with
  | [] => []
  | OpAdd t :: r =>
      match add_theta sexp sexp h t with
      | Ok h' => of_result of_nat (Ok (length (h_thetas h'))) :: run_ops h' r
      | Err e => of_result of_nat (Err e) :: run_ops h r
      end
  | OpGet i :: r => of_result of_theta (get_theta sexp sexp h i) :: run_ops h r
  end.

Definition run_c10 (orc : oracle) (s : sexp) : sexp :=
  match s with
  | SL [SZ 0; h] => run_with as_holder (fun h => of_result of_holder (save_load sexp sexp h)) h
  | SL [SZ 1; h] =>
      run_with as_holder
        (fun h => of_result (of_list (fun g => of_list of_nat (digits (fst g))))
                    (dor f <- save sexp sexp h; Ok (f_groups f))) h
  | SL [SZ 2; hs] =>
      run_with (as_listof as_holder) (fun hs => of_result of_holder (concat_holders sexp sexp hs)) hs
  | SL [SZ 3; hs] =>
      run_with (as_listof as_holder)
        (fun hs => of_result (of_list (fun c => SL [SZ (fst c); of_theta (snd c)])) (evaluate_files sexp sexp hs)) hs
  | SL [SZ 4; SZ d; ops] =>
      run_with (as_listof as_op) (fun ops => SL (run_ops (empty_holder sexp sexp d) ops)) ops
  | SL [SZ 5; hs] =>
      run_with (as_listof as_holder) (fun hs => of_Zs (chain_ids sexp sexp hs)) hs
  | _ => bad_input
  end.
