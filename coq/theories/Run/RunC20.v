(* Wire entry point for C20.  Ops:
     (0 m preds obs chains names)          -> result of (mse, mse_variance, inter_chain, mean_predictions), each a result
     (1 m preds obs chains names)          -> result of the reloaded evaluation (preds obs chains names)
     (2 arity sids tids obs)               -> result of the single-effect dict as ((s t) v) in insertion order
     (3 arity sids tids obs)               -> result of the single-effect array
     (4 strict arity sids tids obs)        -> result of (sample ids, id rows, synergies)
     (5 per_theta obs)                     -> result of calculate_mse
     (6 mapping smap arity sample_id)      -> result of (sample ids, treatment id rows) of the combinatoric space
     (7 mapping smap arity nthetas rows table) -> result of (index, matrix of optional entries);
        table = list of ((sample_id ids) values-per-theta), the stub thetas' predictions
     (8 m preds obs chains names files seed) -> result of the events of analyze_model_evaluation.main (Model/CliAnalyze.v) on an
        evaluation file holding that evaluation and --thetas files holding the posterior samples numbered in `files` (one list
        per file, argument order); a similarity matrix is represented by the numbers of the samples it was computed from.
        `seed` is the parsed --seed.
        Events: (0) mkdir, (1 name samples) heat map, (2 name seed?) / (3 name seed?) scatter plots (the seed= keyword of the
        call, absent = ()), (4 name percentile?) violin plot,
        (5 name mse mse_variance inter_chain) summary; names 0..5 in the order of CliAnalyze.an_name *)
From Coq Require Import ZArith List QArith Qcanon.
From Batchie Require Import Lib.Sexp Lib.Num Lib.PyRt Model.Metrics Model.Synergy Model.Corr Model.Cli Model.CliAnalyze.
Import ListNotations.
Open Scope Z_scope.

Definition as_Qcs := as_listof as_Qc.
Definition as_Qcm := as_listof as_Qcs.
Definition as_Zm := as_listof as_Zs.
Definition of_Qcs := of_list of_Qc.
Definition of_ZZ (p : Z * Z) : sexp := SL [SZ (fst p); SZ (snd p)].
Definition as_ZZ := as_pair as_Z as_Z.

Definition rect (arity : nat) (tids : list (list Z)) : bool :=
  forallb (fun r => Nat.eqb (length r) arity) tids.

Definition of_eval (e : evaluation) : sexp :=
  SL [of_list of_Qcs (ev_preds e); of_Qcs (ev_obs e); of_Zs (ev_chains e); of_list of_Zs (ev_names e)].

Definition tab_f (table : list (Z * list Z * list Qc)) (th : nat) (sid : Z) (ids : list Z) : Qc :=
  match find (fun r => (fst (fst r) =? sid) && (if list_eq_dec Z.eq_dec (snd (fst r)) ids then true else false)) table with
  | Some r => nth th (snd r) 0%Qc
  | None => 0%Qc
  end.

(* op 8: the analysis command over the Metrics model; file i of --thetas is the path [i] *)
Definition an_name_code (n : an_name) : Z :=
  match n with N_heat => 0 | N_scatter => 1 | N_scatter_sample => 2 | N_violin => 3 | N_violin99 => 4 | N_summary => 5 end.
Definition of_an_event (e : an_event evaluation (list Z) (result Qc)) : sexp :=
  match e with
  | AnMkdir _ => SL [SZ 0]
  | AnHeat c f => SL [SZ 1; SZ (an_name_code (snd f)); of_Zs c]
  | AnScatter _ f sd => SL [SZ 2; SZ (an_name_code (snd f)); of_option SZ sd]
  | AnScatterSample _ f sd => SL [SZ 3; SZ (an_name_code (snd f)); of_option SZ sd]
  | AnViolin _ f p => SL [SZ 4; SZ (an_name_code (snd f)); of_option SZ p]
  | AnSummary s f => SL [SZ 5; SZ (an_name_code (snd f)); of_result of_Qc (sum_mse s); of_result of_Qc (sum_mse_variance s);
                         of_result of_Qc (sum_inter_chain s)]
  end.
Definition an_lib_metrics (ev : result evaluation) (files : list (list Z)) : an_lib unit (list Z) evaluation (list Z) (result Qc) :=
  {| an_load_thetas := fun p => match p with [i] => match nth_error files (Z.to_nat i) with Some f => Ok f | None => Err 30 end
                                         | _ => Err 30 end;
     an_concat_thetas := fun l => match l with [] => Err E_VALUE | _ => Ok (List.concat l) end;
     an_load_screen := fun _ => Ok tt;
     an_load_eval := fun _ => ev;
     an_correlation_matrix := fun _ th => Ok th;
     an_mse := ev_mse; an_mse_variance := ev_mse_variance; an_inter_chain := ev_inter_chain |}.

Definition run_c20 (orc : oracle) (s : sexp) : sexp :=
  match s with
  | SL [SZ 0; m; p; o; c; nm] =>
      match as_nat m, as_Qcm p, as_Qcs o, as_Zs c, as_Zm nm with
      | Some m, Some p, Some o, Some c, Some nm =>
          of_result (fun e => SL [of_result of_Qc (ev_mse e); of_result of_Qc (ev_mse_variance e);
                                  of_result of_Qc (ev_inter_chain e); of_result of_Qcs (ev_mean_predictions e)])
                    (mk_eval m p o c nm)
      | _, _, _, _, _ => bad_input
      end
  | SL [SZ 1; m; p; o; c; nm] =>
      match as_nat m, as_Qcm p, as_Qcs o, as_Zs c, as_Zm nm with
      | Some m, Some p, Some o, Some c, Some nm =>
          of_result of_eval (dor e <- mk_eval m p o c nm; ev_load (ev_save e))
      | _, _, _, _, _ => bad_input
      end
  | SL [SZ 2; a; sd; td; ob] =>
      match as_nat a, as_Zs sd, as_Zm td, as_Qcs ob with
      | Some a, Some sd, Some td, Some ob =>
          if rect a td then
            of_result (of_list (fun kv => SL [of_ZZ (fst kv); of_Qc (snd kv)])) (effect_map a sd td ob)
          else bad_input
      | _, _, _, _ => bad_input
      end
  | SL [SZ 3; a; sd; td; ob] =>
      match as_nat a, as_Zs sd, as_Zm td, as_Qcs ob with
      | Some a, Some sd, Some td, Some ob =>
          if rect a td then of_result (of_list of_Qcs) (effect_array a sd td ob) else bad_input
      | _, _, _, _ => bad_input
      end
  | SL [SZ 4; st; a; sd; td; ob] =>
      match as_bool st, as_nat a, as_Zs sd, as_Zm td, as_Qcs ob with
      | Some st, Some a, Some sd, Some td, Some ob =>
          if rect a td then
            of_result (fun r => SL [of_Zs (fst (fst r)); of_list of_Zs (snd (fst r)); of_Qcs (snd r)])
                      (calculate_synergy st a sd td ob)
          else bad_input
      | _, _, _, _, _ => bad_input
      end
  | SL [SZ 5; pt; ob] =>
      match as_Qcm pt, as_Qcs ob with
      | Some pt, Some ob => of_result of_Qc (calculate_mse pt ob)
      | _, _ => bad_input
      end
  | SL [SZ 6; mp; sm; a; sid] =>
      match as_listof as_ZZ mp, as_listof as_ZZ sm, as_nat a, as_Z sid with
      | Some mp, Some sm, Some a, Some sid =>
          of_result (fun r => SL [of_Zs (fst r); of_list of_Zs (snd r)]) (full_space mp sm a sid)
      | _, _, _, _ => bad_input
      end
  | SL [SZ 7; mp; sm; a; nt; rows; tab] =>
      match as_listof as_ZZ mp, as_listof as_ZZ sm, as_nat a, as_nat nt, as_listof as_ZZ rows,
            as_listof (as_pair (as_pair as_Z as_Zs) as_Qcs) tab with
      | Some mp, Some sm, Some a, Some nt, Some rows, Some tab =>
          of_result (fun r => SL [of_Zs (fst r); of_list (of_list (of_option of_Qc)) (snd r)])
                    (correlation_matrix orc (tab_f tab) mp sm a nt rows)
      | _, _, _, _, _, _ => bad_input
      end
  | SL [SZ 8; m; p; o; c; nm; files; sd] =>
      match as_nat m, as_Qcm p, as_Qcs o, as_Zs c, as_Zm nm, as_Zm files, as_Z sd with
      | Some m, Some p, Some o, Some c, Some nm, Some files, Some sd =>
          of_result (of_list of_an_event)
                    (cli_analyze (an_lib_metrics (mk_eval m p o c nm) files)
                                 (mk_an_args [] [] (map (fun i => [Z.of_nat i]) (seq 0 (length files))) [] sd))
      | _, _, _, _, _, _, _ => bad_input
      end
  | _ => bad_input
  end.
