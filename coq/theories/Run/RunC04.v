(* Wire entry point for C04.  A case is a list of requests; the reply is the list of answers.
   oval     : (0 (n d)) | (1) = NaN | (2 neg) = +-inf
   row      : (sample plate (tid ...) obs obs32 mask)    obs32 = the float32 cast of obs, as data
   requests :
     (0 via rows)                      SparseDrugCombo            -> result (trips)
     (1 via (fm gneg gnan) arity rows) SparseDrugComboInteraction -> result (lookup trips)
        via = 0 add_observations(rows); 1 train_model path (subset_observed, then add_observations);
              2 _add_observations(rows) (guard of the base class bypassed)
     (2 rowsA rowsB)                   -> (downstream_input equal?  downstream_input A)
     (3 mk_args)                       -> result: id-level rows (sample plate tids obs mask) of the screen the
                                          shared constructor model builds (mk_args as in Model/ScreenIO.v)
   trip = (y cl d1 d2); lookup = (((s t) v) ...). *)
From Coq Require Import ZArith List Bool QArith Qcanon.
From Batchie Require Import Lib.Sexp Lib.Num Model.Screen Model.ScreenIO Model.Train Model.TrainScreen.
Import ListNotations.
Open Scope Z_scope.

Definition as_oval (s : sexp) : option oval :=
  match s with
  | SL [SZ 0; q] => do q <- as_Qc q; Some (OFin q)
  | SL [SZ 1] => Some ONaN
  | SL [SZ 2; b] => do b <- as_bool b; Some (OInf b)
  | _ => None
  end.

Definition as_wrow (s : sexp) : option (trow * oval) :=
  match s with
  | SL [sa; pl; tr; ob; ob32; mk] =>
      do sa <- as_Z sa; do pl <- as_Z pl; do tr <- as_Zs tr; do ob <- as_oval ob;
      do ob32 <- as_oval ob32; do mk <- as_bool mk;
      Some ({| t_sample := sa; t_plate := pl; t_treats := tr; t_obs := ob; t_mask := mk |}, ob32)
  | _ => None
  end.

(* the float32 cast as a finite table (the harness computes it with numpy) *)
Definition r32_of (table : list (trow * oval)) (q : Qc) : oval :=
  match find (fun p => oval_eqb (t_obs (fst p)) (OFin q)) table with
  | Some p => snd p
  | None => OFin q
  end.

Definition of_oval (v : oval) : sexp :=
  match v with
  | OFin q => SL [SZ 0; of_Qc q]
  | ONaN => SL [SZ 1]
  | OInf b => SL [SZ 2; of_bool b]
  end.
Definition of_trip (t : trip) : sexp := SL [of_oval (tr_y t); SZ (tr_cl t); SZ (tr_d1 t); SZ (tr_d2 t)].
Definition of_lookup (l : lookup) : sexp :=
  of_list (fun kv => SL [SL [SZ (fst (fst kv)); SZ (snd (fst kv))]; of_oval (snd kv)]) l.
Definition of_istate (s : istate) : sexp := SL [of_lookup (i_lookup s); of_list of_trip (i_train s)].
Definition of_drow (d : drow) : sexp :=
  SL [SZ (d_sample d); SZ (d_plate d); of_Zs (d_treats d); of_bool (d_mask d); of_option of_oval (d_obs d)].

Definition run_req (orc : oracle) (s : sexp) : sexp :=
  match s with
  | SL [SZ 0; SZ via; rows] =>
      match as_listof as_wrow rows with
      | Some w =>
          let rows := map fst w in
          let r32 := r32_of w in
          of_result (of_list of_trip)
            (if via =? 0 then sdc_add orc r32 [] rows
             else if via =? 1 then train_sdc orc r32 rows
             else sdc_inner orc r32 [] rows)
      | None => bad_input
      end
  | SL [SZ 1; SZ via; flags; arity; rows] =>
      match as_triple as_bool as_bool as_bool flags, as_nat arity, as_listof as_wrow rows with
      | Some (fm, gneg, gnan), Some arity, Some w =>
          let rows := map fst w in
          let r32 := r32_of w in
          of_result of_istate
            (if via =? 0 then int_add orc r32 fm gneg gnan istate0 arity rows
             else if via =? 1 then train_int orc r32 fm gneg gnan arity rows
             else int_inner orc r32 fm gneg gnan istate0 arity rows)
      | _, _, _ => bad_input
      end
  | SL [SZ 2; a; b] =>
      match as_listof as_wrow a, as_listof as_wrow b with
      | Some a, Some b =>
          let va := downstream_input (map fst a) in
          let vb := downstream_input (map fst b) in
          SL [of_bool (drows_eqb va vb); of_list of_drow va]
      | _, _ => bad_input
      end
  | SL [SZ 3; args] =>
      match as_mk_args args with
      | Some a =>
          of_result (of_list (fun r => SL [SZ (t_sample r); SZ (t_plate r); of_Zs (t_treats r); of_oval (t_obs r);
                                           of_bool (t_mask r)]))
            (dor sc <- mk_screen_args a; Ok (trows_of_screen sc))
      | None => bad_input
      end
  | _ => bad_input
  end.

(* ---- downstream stages on the projection (Model/Downstream.v):
     (4 rows batch n_chunks policy slots)   policy = () | (k);  slots = ((plate id, score key) ...)
        -> ( (result ((plate id (row position ...)) ...)) per chunk index 0 .. n_chunks-1     what score_chunk hands the scorer
             result (option plate id) )                                                  select_next_plate on a holder with these slots
     (5 via rows)                      ComboGridFactorModel (via as in 0)  -> result ((sample id, y) ...)
     (6 arity rows)                    -> (option table, option table): single_treatment_effects of subset_observed() as coded /
                                          computed from the observed rows only; a table = one list of ovals per observed row ---- *)
From Batchie Require Import Model.Downstream.
From Batchie Require Model.Scores Model.Policy.

Definition run_req_down (orc : oracle) (s : sexp) : sexp :=
  match s with
  | SL [SZ 4; rows; batch; SZ n; policy; slots] =>
      match as_listof as_wrow rows, as_Zs batch, as_option as_Z policy, as_listof (as_pair as_Z as_Z) slots with
      | Some w, Some batch, Some policy, Some slots =>
          let v := downstream_input (map fst w) in
          let scr := dn_scores_screen v in
          SL [ of_list (fun k => of_result (of_list (fun p => SL [SZ (fst p); of_list (fun ir => of_nat (fst ir)) (snd p)]))
                                   (Scores.score_chunk scr batch n (Z.of_nat k)))
                       (seq 0 (Z.to_nat n));
               of_result (of_option SZ)
                 (match policy with
                  | None => Scores.select_next None scr batch (Scores.mkholder (Z.of_nat (length slots)) slots (length slots))
                  | Some k => dor r <- Policy.select_next k (dn_policy_plates v) slots batch; Ok (snd r)
                  end) ]
      | _, _, _, _ => bad_input
      end
  | SL [SZ 5; SZ via; rows] =>
      (* ComboGridFactorModel: (sample id, clipped y) per trained row; the per-row unpack function only keeps the sample id *)
      match as_listof as_wrow rows with
      | Some w =>
          let rows := map fst w in
          let u : unpack_fn unit := fun s _ => (s, 0, 0, tt, tt) in
          of_result (of_list (fun t => SL [SZ (match gt_u t with (s, _, _, _, _) => s end); of_oval (gt_y t)]))
            (if via =? 0 then grid_add u [] rows
             else if via =? 1 then train_grid u rows
             else grid_inner u [] rows)
      | None => bad_input
      end
  | SL [SZ 6; arity; rows] =>
      match as_nat arity, as_listof as_wrow rows with
      | Some arity, Some w =>
          let rows := map fst w in
          SL [ of_option (of_list (of_list of_oval)) (subset_observed_single_effects arity rows);
               of_option (of_list (of_list of_oval)) (subset_observed_single_effects_repaired arity rows) ]
      | _, _ => bad_input
      end
  | _ => run_req orc s
  end.

Definition run_c04 (orc : oracle) (s : sexp) : sexp :=
  match s with
  | SL reqs => SL (map (run_req_down orc) reqs)
  | _ => bad_input
  end.
