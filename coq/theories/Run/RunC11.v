(* Wire entry point for C11 (shared with C13: [run_retro]).  Ops (rows as in Model/ScreenIO.as_row;
   draws = list of (0 ints) | (1 names), in call order):
     (0 rows gen draws)                 -> result (rows n_unused_draws)      generate_plates
          gen = (0 force_names) | (1 fixed max) | (2 ctrl subset anchor)
     (1 rows sm draws)                  -> result (rows n_unused_draws)      smooth_plates
          sm = (0 min_size) | (1 n_iter) | (2 size) | (3) | (4 fixed min_plates)
             | (5 fixed min_size n_iter min_plates)
     (2 rows num den counts? draws)     -> result (train held n_unused)      plate-balanced hold-out
     (3 rows num den count? draws)      -> result (train held n_unused)      random hold-out
     (4 rows ctrl reveal draws)         -> result (rows n_unused)            sparse cover initial plate
     (5 rows ctrl arity)                -> result rows                       combination filter
   Every op first builds the input Screen ([construct]: tag 2 on a mixed plate). *)
From Coq Require Import ZArith List.
From Batchie Require Import Lib.Sexp Lib.Num Model.Encode Model.Screen Model.ScreenIO
  Model.Retro Model.RetroHoldout Model.Pairwise Model.RetroInit.
Import ListNotations.
Open Scope Z_scope.

Definition as_draw (s : sexp) : option draw :=
  match s with
  | SL [SZ 0; l] => do l <- as_listof as_nat l; Some (DInts l)
  | SL [SZ 1; l] => do l <- as_listof as_name l; Some (DNames l)
  | _ => None
  end.

Definition as_generator (s : sexp) : option generator :=
  match s with
  | SL [SZ 0; f] => do f <- as_listof as_name f; Some (GPerm f)
  | SL [SZ 1; fx; mx] => do fx <- as_bool fx; do mx <- as_Z mx; Some (GSampleSeg fx mx)
  | SL [SZ 2; c; a; b] => do c <- as_name c; do a <- as_Z a; do b <- as_Z b; Some (GPairwise c a b)
  | _ => None
  end.

Definition as_smoother (s : sexp) : option smoother :=
  match s with
  | SL [SZ 0; a] => do a <- as_Z a; Some (SMergeMin a)
  | SL [SZ 1; a] => do a <- as_Z a; Some (SMergeTB a)
  | SL [SZ 2; a] => do a <- as_Z a; Some (SFixed a)
  | SL [SZ 3] => Some SOptimal
  | SL [SZ 4; fx; a] => do fx <- as_bool fx; do a <- as_Z a; Some (SNPlate fx a)
  | SL [SZ 5; fx; a; b; c] =>
      do fx <- as_bool fx; do a <- as_Z a; do b <- as_Z b; do c <- as_Z c; Some (SEnsemble fx a b c)
  | _ => None
  end.

Definition of_rows : list row -> sexp := of_list of_row.
Definition of_rows_left (r : list row * list draw) : sexp :=
  SL [of_rows (fst r); of_nat (length (snd r))].
Definition of_split_left (r : list row * list row * list draw) : sexp :=
  SL [of_rows (fst (fst r)); of_rows (snd (fst r)); of_nat (length (snd r))].

Definition as_pos (s : sexp) : option positive :=
  match s with SZ (Zpos p) => Some p | _ => None end.

Definition run_retro (orc : oracle) (s : sexp) : sexp :=
  match s with
  | SL [SZ 0; rows; g; ds] =>
      match as_listof as_row rows, as_generator g, as_listof as_draw ds with
      | Some rows, Some g, Some ds =>
          of_result of_rows_left (dor r <- construct rows; generate_plates g r ds)
      | _, _, _ => bad_input
      end
  | SL [SZ 1; rows; sm; ds] =>
      match as_listof as_row rows, as_smoother sm, as_listof as_draw ds with
      | Some rows, Some sm, Some ds =>
          of_result of_rows_left (dor r <- construct rows; smooth_plates sm r ds)
      | _, _, _ => bad_input
      end
  | SL [SZ 2; rows; num; den; counts; ds] =>
      match as_listof as_row rows, as_Z num, as_pos den, as_option as_Zs counts, as_listof as_draw ds with
      | Some rows, Some num, Some den, Some counts, Some ds =>
          of_result of_split_left (dor r <- construct rows; holdout_balanced num den counts r ds)
      | _, _, _, _, _ => bad_input
      end
  | SL [SZ 3; rows; num; den; count; ds] =>
      match as_listof as_row rows, as_Z num, as_pos den, as_option as_Z count, as_listof as_draw ds with
      | Some rows, Some num, Some den, Some count, Some ds =>
          of_result of_split_left (dor r <- construct rows; holdout_random num den count r ds)
      | _, _, _, _, _ => bad_input
      end
  | SL [SZ 4; rows; ctrl; reveal; ds] =>
      match as_listof as_row rows, as_name ctrl, as_bool reveal, as_listof as_draw ds with
      | Some rows, Some ctrl, Some reveal, Some ds =>
          of_result of_rows_left (dor r <- construct rows; sparse_cover ctrl reveal r ds)
      | _, _, _, _ => bad_input
      end
  | SL [SZ 5; rows; ctrl; arity] =>
      match as_listof as_row rows, as_name ctrl, as_nat arity with
      | Some rows, Some ctrl, Some arity =>
          of_result of_rows (dor r <- construct rows; combo_filter ctrl arity r)
      | _, _, _ => bad_input
      end
  | _ => bad_input
  end.

Definition run_c11 (orc : oracle) (s : sexp) : sexp := run_retro orc s.
