(* Wire entry point for C01.  Ops:
     (0 mk_args)                    -> result screen      (Screen(...) with the given arguments)
     (1 mk_args sub_rows)           -> result screen      (construct, then construct sub_rows with
                                                           the first screen's mappings: reuse)
     (2 isint ids)                  -> bool               (numpy_array_is_0_indexed_integers)
     (3 tmap smap ctrl tname sname sid) -> (n_unique_treatment_types n_unique_doses doses_for_treatment(tname)
                                            treatment_ids_from_treatment_name(tname) result sample_id_from_sample_name(sname)
                                            result sample_name_from_sample_id(sid))   of the ExperimentSpace with these attributes *)
From Coq Require Import ZArith List.
From Batchie Require Import Lib.Sexp Lib.Num Model.Encode Model.Screen Model.ScreenIO Model.Persist.
Import ListNotations.
Open Scope Z_scope.

Definition run_c01 (orc : oracle) (s : sexp) : sexp :=
  match s with
  | SL [SZ 0; a] =>
      run_with as_mk_args (fun a => of_result of_screen (mk_screen_args a)) a
  | SL [SZ 1; a; sub] =>
      match as_mk_args a, as_listof as_row sub with
      | Some a, Some sub =>
          of_result of_screen
            (dor s1 <- mk_screen_args a;
             mk_screen sub (s_arity s1) (s_ctrl s1) (Some (s_tmap s1, true)) (Some (s_smap s1, true)) true true)
      | _, _ => bad_input
      end
  | SL [SZ 2; isint; ids] =>
      match as_bool isint, as_Zs ids with
      | Some b, Some ids => of_bool (zero_indexed b ids)
      | _, _ => bad_input
      end
  | SL [SZ 3; tm; sm; ctrl; tn; sn; sid] =>
      match as_tmapping tm, as_nmapping sm, as_name ctrl, as_name tn, as_name sn, as_Z sid with
      | Some tm, Some sm, Some ctrl, Some tn, Some sn, Some sid =>
          let sp := {| sp_tmap := tm; sp_smap := sm; sp_ctrl := ctrl |} in
          SL [SZ (space_n_treatment_types sp); SZ (space_n_doses sp); of_Zs (space_doses_for_treatment sp tn);
              of_Zs (space_treatment_ids_of_name sp tn); of_result SZ (space_sample_id sp sn);
              of_result of_name (space_sample_name sp sid)]
      | _, _, _, _, _, _ => bad_input
      end
  | _ => bad_input
  end.
