(* Wire entry point for C13: same ops as C11 (Run/RunC11.v, [run_retro]). *)
From Batchie Require Import Lib.Sexp Lib.Num Run.RunC11.
Definition run_c13 (orc : oracle) (s : sexp) : sexp := run_retro orc s.
