(* Wire entry point for C06.  row = (plate obs sample (treat ...)); screen = (row ...).
   Ops:
     (0 screen batch n_chunks chunk_index)
         -> result: what score_chunk hands to the scorer: ((plate_id ((pos sample (treat ...)) ...)) ...)
     (1 screen batch n_chunks order table polans)
         table = ((plate_id score_key) ...) (the scorer, as data), polans = () | ((id ...)) the
         policy's recorded answer (the model policy returns exactly these plates)
         -> result: (per entry of order: (handed holder)) (combined holder) (selected: () | (id))
            followed by the value of Model.Scores.pipeline itself
     (2 what holders post eligible)
         holders = ((size ((id score) ...)) ...): new(size) then add_score each; concat; then
         add_score each of post; what = 0 -> result holder, what = 1 -> result (argmin plate id)
         eligible = () | ((id ...)); what = 2 -> result (get_score pid), eligible = ((pid))
     (3 l n)      -> np.array_split of the integer list l into n sections
     (4 rows)     rows = ((sample (treat ...)) ...) -> positions kept by first-occurrence unique
   holder = (size ((id score) ...) current_index) *)
From Coq Require Import ZArith List Bool.
From Batchie Require Import Lib.Sexp Lib.Num Model.Scores.
Import ListNotations.
Open Scope Z_scope.

Definition as_row (x : sexp) : option row :=
  match x with
  | SL [p; o; sm; t] =>
      do p <- as_Z p; do o <- as_bool o; do sm <- as_Z sm; do t <- as_Zs t; Some (mkrow p o sm t)
  | _ => None
  end.
Definition as_screen := as_listof as_row.
Definition as_slot := as_pair as_Z as_Z.

Definition of_irow (ir : irow) : sexp :=
  SL [of_nat (fst ir); SZ (r_sample (snd ir)); of_Zs (r_treat (snd ir))].
Definition of_handed (l : list (Z * list irow)) : sexp := of_list (of_pair SZ (of_list of_irow)) l.
Definition of_slot : slot -> sexp := of_pair SZ SZ.
Definition of_holder (h : holder) : sexp := SL [SZ (h_size h); of_list of_slot (h_slots h); of_nat (h_cur h)].

Fixpoint lookup (t : list (Z * Z)) (k : Z) : Z :=
  match t with
  | [] => 0
  | (a, b) :: r => if a =? k then b else lookup r k
  end.

Definition pipeline_trace (scorer : scorer_t) (policy : option policy_t) (s : screen) (batch : list Z)
  (n_chunks : Z) (order : list Z)
  : result (list (list (Z * list irow) * holder) * holder * option Z) :=
  dor cs <- res_map_all (fun k => dor ps <- score_chunk s batch n_chunks k;
                                  dor h <- load_chunk scorer s batch n_chunks k; Ok (ps, h)) order;
  dor h <- h_concat (map snd cs);
  dor sel <- select_next policy s batch h;
  Ok (cs, h, sel).

Definition build_holders (hs : list (nat * list slot)) (post : list slot) : result holder :=
  dor built <- res_map_all (fun d => add_scores (holder_new (fst d)) (snd d)) hs;
  dor h <- h_concat built;
  add_scores h post.

Definition run_c06 (orc : oracle) (x : sexp) : sexp :=
  match x with
  | SL [SZ 0; s; b; n; k] =>
      match as_screen s, as_Zs b, as_Z n, as_Z k with
      | Some s, Some b, Some n, Some k => of_result of_handed (score_chunk s b n k)
      | _, _, _, _ => bad_input
      end
  | SL [SZ 1; s; b; n; order; table; pol] =>
      match as_screen s, as_Zs b, as_Z n, as_Zs order, as_listof as_slot table, as_option as_Zs pol with
      | Some s, Some b, Some n, Some order, Some table, Some pol =>
          let scorer : scorer_t := fun pid _ => lookup table pid in
          let policy : option policy_t :=
            match pol with None => None | Some ids => Some (fun _ _ => map (get_plate s) ids) end in
          SL [of_result (fun '(cs, h, sel) =>
                SL [of_list (of_pair of_handed of_holder) cs; of_holder h; of_option SZ sel])
                (pipeline_trace scorer policy s b n order);
              of_result (of_option SZ) (pipeline scorer policy s b n order)]
      | _, _, _, _, _, _ => bad_input
      end
  | SL [SZ 2; what; hs; post; el] =>
      match as_Z what, as_listof (as_pair as_nat (as_listof as_slot)) hs, as_listof as_slot post, as_option as_Zs el with
      | Some what, Some hs, Some post, Some el =>
          if what =? 0 then of_result of_holder (build_holders hs post)
          else if what =? 2 then
            match el with
            | Some [pid] => of_result SZ (dor h <- build_holders hs post; h_get_score h pid)
            | _ => bad_input
            end
          else of_result SZ (dor h <- build_holders hs post; min_plate h el)
      | _, _, _, _ => bad_input
      end
  | SL [SZ 3; l; n] =>
      match as_Zs l, as_nat n with
      | Some l, Some n => of_list of_Zs (array_split l n)
      | _, _ => bad_input
      end
  | SL [SZ 4; rows] =>
      match as_listof (as_pair as_Z as_Zs) rows with
      | Some rows =>
          let irs := combine (seq 0 (length rows)) (map (fun r => mkrow 0 false (fst r) (snd r)) rows) in
          of_list of_nat (map fst (uniq_first [] irs))
      | None => bad_input
      end
  | _ => bad_input
  end.
