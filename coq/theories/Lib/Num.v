(* Exact-rational helpers shared by the numeric models. *)
From Coq Require Import ZArith List QArith Qcanon.
Import ListNotations.
Open Scope Qc_scope.

Definition qsum (l : list Qc) : Qc := fold_right Qcplus 0 l.
Definition qlen {A} (l : list A) : Qc := Q2Qc (inject_Z (Z.of_nat (length l))).
Definition qmean (l : list Qc) : Qc := qsum l / qlen l.
Definition qsq (x : Qc) : Qc := x * x.
Definition qabs (x : Qc) : Qc := if Qclt_le_dec x 0 then - x else x.
Definition qdot (a b : list Qc) : Qc := qsum (map (fun p => fst p * snd p) (combine a b)).
Definition qleb (a b : Qc) : bool := if Qclt_le_dec b a then false else true.
Definition qltb (a b : Qc) : bool := if Qclt_le_dec a b then true else false.
Definition qeqb (a b : Qc) : bool := if Qc_eq_dec a b then true else false.
Definition qclip (lo hi x : Qc) : Qc := if qltb x lo then lo else if qltb hi x then hi else x.
Definition qofZ (z : Z) : Qc := Q2Qc (inject_Z z).

(* Oracle interface: transcendental functions enter the models as one function
   [orc code x]; theorems quantify over every such function.  The driver instantiates
   it with libm on the nearest double.  Codes: *)
Definition ORC_LN : Z := 0%Z.
Definition ORC_EXP : Z := 1%Z.
Definition ORC_EXPIT : Z := 2%Z.
Definition ORC_SQRT : Z := 3%Z.
Definition ORC_LOGIT : Z := 4%Z.
Definition oracle := Z -> Qc -> Qc.
