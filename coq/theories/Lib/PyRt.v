(* Run-time library of the Python -> Gallina translator harness/py2gal.py: the meaning the translation
   gives to the Python constructs of its fragment.  No proofs here.
     result              exceptions (Lib/Sexp.v): a statement list denotes a `result T`
     res_fold            a for loop whose body may raise: the state is threaded left to right
     dict                defaultdict(int) / dict with integer keys: insertion-ordered association list
                         (CPython >= 3.7 iterates a dict in insertion order; an existing key keeps its place)
     set                 membership only (the translator refuses iteration over a set)
     zrange, enumerate_z range(n), enumerate(l)
     unwrap              the content of a value that may be None; None where an int is needed is a TypeError *)
From Coq Require Import ZArith List Bool.
From Batchie Require Import Lib.Sexp.
Import ListNotations.
Open Scope Z_scope.

(* what harness/gen_consts.py puts in the place of a function that harness/py2gal.py refused on this run:
   `Definition src_f : translation_refused := Translation_refused.`  The generated file still compiles, and
   every statement that applies src_f or compares it with a model is ill-typed - so exactly the link
   lemmas about src_f (and what imports them) stop checking, nothing else. *)
Inductive translation_refused : Set := Translation_refused.

Fixpoint res_fold {S A : Type} (f : S -> A -> result S) (l : list A) (s : S) : result S :=
  match l with
  | [] => Ok s
  | a :: r => dor s' <- f s a; res_fold f r s'
  end.

Definition unwrap {A : Type} (o : option A) : result A :=
  match o with Some a => Ok a | None => Err 99 end.
Definition is_none {A : Type} (o : option A) : bool := match o with None => true | Some _ => false end.
Definition is_some {A : Type} (o : option A) : bool := match o with None => false | Some _ => true end.
Definition is_nil {A : Type} (l : list A) : bool := match l with [] => true | _ => false end.

Definition zmem (x : Z) (l : list Z) : bool := existsb (Z.eqb x) l.

(* d[k] += v  on a defaultdict(int) *)
Fixpoint dict_incr (d : list (Z * Z)) (k v : Z) : list (Z * Z) :=
  match d with
  | [] => [(k, 0 + v)]
  | (k', v') :: r => if k' =? k then (k', v' + v) :: r else (k', v') :: dict_incr r k v
  end.
Definition dict_mem (k : Z) (d : list (Z * Z)) : bool := existsb (fun kv => Z.eqb k (fst kv)) d.
Definition dict_items (d : list (Z * Z)) : list (Z * Z) := d.
Definition set_add (s : list Z) (x : Z) : list Z := if zmem x s then s else s ++ [x].

(* range(n) *)
Definition zrange (n : Z) : list Z := map Z.of_nat (seq 0 (Z.to_nat n)).
(* enumerate(l) *)
Definition enumerate_z {A : Type} (l : list A) : list (Z * A) := combine (map Z.of_nat (seq 0 (length l))) l.

(* l[i] on a list: a negative index counts from the end; out of range is an IndexError (Err 98) *)
Definition list_get {A : Type} (l : list A) (i : Z) : result A :=
  let j := if i <? 0 then i + Z.of_nat (length l) else i in
  if j <? 0 then Err 98
  else match nth_error l (Z.to_nat j) with Some a => Ok a | None => Err 98 end.
(* ---- additions for scoring/main.py ---- *)
(* d[k] = v on a dict with integer keys: an existing key keeps its place and gets the new value, a new key goes last *)
Fixpoint dict_set {V : Type} (d : list (Z * V)) (k : Z) (v : V) : list (Z * V) :=
  match d with
  | [] => [(k, v)]
  | (k', v') :: r => if k' =? k then (k', v) :: r else (k', v') :: dict_set r k v
  end.
(* [x for x in l if p x] where p may raise: p is evaluated element by element from the left *)
Fixpoint res_filter {A : Type} (p : A -> result bool) (l : list A) : result (list A) :=
  match l with
  | [] => Ok []
  | a :: r => dor b <- p a; dor r' <- res_filter p r; Ok (if b then a :: r' else r')
  end.
(* truth value of an Optional[list]: None and [] are false *)
Definition opt_list_truthy {A : Type} (o : option (list A)) : bool :=
  match o with Some (_ :: _) => true | _ => false end.
(* a[i] = v on a list / numpy array: negative indices wrap once, IndexError (Err tag) outside -len..len-1 *)
Definition list_set {A : Type} (tag : Z) (l : list A) (i : Z) (v : A) : result (list A) :=
  let n := Z.of_nat (length l) in
  let j := if i <? 0 then i + n else i in
  if (0 <=? j) && (j <? n) then Ok (firstn (Z.to_nat j) l ++ v :: skipn (S (Z.to_nat j)) l) else Err tag.
(* `while True:` left by `break`: the body answers (go on?, state); recursion on explicit fuel.  Running out of
   fuel is not a Python behaviour (Err 97): linking theorems are stated for sufficient fuel. *)
Fixpoint res_while {St : Type} (fuel : nat) (body : St -> result (bool * St)) (s : St) : result St :=
  match fuel with
  | O => Err 97
  | S n => dor r <- body s; if fst r then res_while n body (snd r) else Ok (snd r)
  end.

(* a `for` loop with `break`: the body answers (go on?, state) *)
Fixpoint res_fold_brk {St A : Type} (f : St -> A -> result (bool * St)) (l : list A) (s : St) : result St :=
  match l with
  | [] => Ok s
  | a :: r => dor x <- f s a; if fst x then res_fold_brk f r (snd x) else Ok (snd x)
  end.

(* ---- additions for scoring/gaussian_dbal.py ---- *)
(* d[k] (read) on a dict with integer keys: KeyError (Err 96) when the key is absent *)
Fixpoint dict_get {V : Type} (d : list (Z * V)) (k : Z) : result V :=
  match d with
  | [] => Err 96
  | (k', v) :: r => if k' =? k then Ok v else dict_get r k
  end.
(* dict(pairs): the pairs are inserted from the left (a repeated key keeps its first place and gets the last value) *)
Definition dict_of_pairs {V : Type} (l : list (Z * V)) : list (Z * V) :=
  fold_left (fun d kv => dict_set d (fst kv) (snd kv)) l [].
(* d.update(other) with other a dict: other's items are inserted into d in other's order *)
Definition dict_update {V : Type} (d other : list (Z * V)) : list (Z * V) :=
  fold_left (fun d kv => dict_set d (fst kv) (snd kv)) other d.
(* ---- additions for synergy.py / data.py (C20 links) ---- *)
(* a dict keyed by pairs of integers (`pairdict T`): insertion-ordered association list *)
Fixpoint pdict_get {V : Type} (d : list ((Z * Z) * V)) (a b : Z) : option V :=
  match d with
  | [] => None
  | ((a', b'), v) :: r => if (a' =? a) && (b' =? b) then Some v else pdict_get r a b
  end.
(* (a, b) in d *)
Definition pdict_mem {V : Type} (d : list ((Z * Z) * V)) (a b : Z) : bool :=
  match pdict_get d a b with Some _ => true | None => false end.
(* d[(a, b)]: KeyError (Err tag) when the key is absent *)
Definition pdict_read {V : Type} (tag : Z) (d : list ((Z * Z) * V)) (a b : Z) : result V :=
  match pdict_get d a b with Some v => Ok v | None => Err tag end.
(* d[(a, b)] = v: an existing key keeps its place and gets the new value, a new key goes last *)
Fixpoint pdict_set {V : Type} (d : list ((Z * Z) * V)) (a b : Z) (v : V) : list ((Z * Z) * V) :=
  match d with
  | [] => [((a, b), v)]
  | ((a', b'), v') :: r => if (a' =? a) && (b' =? b) then ((a', b'), v) :: r else ((a', b'), v') :: pdict_set r a b v
  end.
(* a[i, j] = v on a 2-d array held as the list of its rows: both indices wrap once, IndexError (Err tag) outside *)
Definition list_set2 {A : Type} (tag : Z) (m : list (list A)) (i j : Z) (v : A) : result (list (list A)) :=
  let n := Z.of_nat (length m) in
  let i' := if i <? 0 then i + n else i in
  if (0 <=? i') && (i' <? n) then
    dor row <- list_set tag (nth (Z.to_nat i') m []) j v;
    list_set tag m i' row
  else Err tag.
(* ---- additions for the training data of the sparse-combo models ---- *)
(* d[k].append(v) on a collections.defaultdict(list) with integer keys: a missing key is inserted (last) with the
   empty list first, an existing key keeps its place; the value goes to the end of the key's list *)
Fixpoint dict_append {V : Type} (d : list (Z * list V)) (k : Z) (v : V) : list (Z * list V) :=
  match d with
  | [] => [(k, [v])]
  | (k', l) :: r => if k' =? k then (k', l ++ [v]) :: r else (k', l) :: dict_append r k v
  end.
(* d[(a, b)] = v on a dict keyed by pairs of integers: an existing key keeps its place and gets the new value,
   a new key goes last *)
Fixpoint dict2_set {V : Type} (d : list ((Z * Z) * V)) (k : Z * Z) (v : V) : list ((Z * Z) * V) :=
  match d with
  | [] => [(k, v)]
  | (k', v') :: r =>
      if (fst k' =? fst k) && (snd k' =? snd k) then (k', v) :: r else (k', v') :: dict2_set r k v
  end.
(* ---- additions for scoring/gaussian_dbal.py (the unranking generator; C15 link) ---- *)
(* a // b and a % b on ints with cfg["checked_div"]: ZeroDivisionError (Err tag) when b = 0; otherwise floor division /
   modulo with the sign of the divisor, which is what Coq's Z.div / Z.modulo compute *)
Definition checked_div (tag : Z) (a b : Z) : result Z := if b =? 0 then Err tag else Ok (a / b).
Definition checked_mod (tag : Z) (a b : Z) : result Z := if b =? 0 then Err tag else Ok (a mod b).
(* ---- additions for distance_calculation.py (C07 links) ---- *)
(* a // b and a % b on ints, checked (cfg["zero_division"]): ZeroDivisionError (Err tag) when b = 0; otherwise Coq's
   floor division / modulo (remainder with the sign of the divisor), which is Python's for every sign *)
Definition z_floordiv (tag a b : Z) : result Z := if b =? 0 then Err tag else Ok (a / b).
Definition z_mod (tag a b : Z) : result Z := if b =? 0 then Err tag else Ok (a mod b).
(* truth value of an Optional[int]: None and 0 are false *)
Definition opt_int_truthy (o : option Z) : bool := match o with Some n => negb (n =? 0) | None => false end.
(* ---- additions for the parameter dicts of the posterior samples (core.Theta, models/sparse_combo*.py; C10 links) ---- *)
(* a Python str: the list of its code points (the framework's wire convention, harness common.s2l) *)
Definition pystr := list Z.
Fixpoint str_eqb (a b : pystr) : bool :=
  match a, b with
  | [], [] => true
  | x :: a', y :: b' => (x =? y) && str_eqb a' b'
  | _, _ => false
  end.
(* a dict with STRING keys (`strdict T`): insertion-ordered association list *)
Fixpoint sdict_get {V : Type} (d : list (pystr * V)) (k : pystr) : option V :=
  match d with
  | [] => None
  | (k', v) :: r => if str_eqb k' k then Some v else sdict_get r k
  end.
(* k in d *)
Definition sdict_mem {V : Type} (d : list (pystr * V)) (k : pystr) : bool :=
  match sdict_get d k with Some _ => true | None => false end.
(* d[k]: KeyError (Err tag) when the key is absent *)
Definition sdict_read {V : Type} (tag : Z) (d : list (pystr * V)) (k : pystr) : result V :=
  match sdict_get d k with Some v => Ok v | None => Err tag end.
(* d[k] = v, and the entries of a dict display from the left: an existing key keeps its place and gets the new value,
   a new key goes last *)
Fixpoint sdict_set {V : Type} (d : list (pystr * V)) (k : pystr) (v : V) : list (pystr * V) :=
  match d with
  | [] => [(k, v)]
  | (k', v') :: r => if str_eqb k' k then (k', v) :: r else (k', v') :: sdict_set r k v
  end.
(* F(..., **d): every key of d must be one of the parameter names the call site does not pass itself - any other key is
   a TypeError (Err tag: an unexpected keyword argument, or multiple values for one) *)
Definition sdict_only {V : Type} (tag : Z) (allowed : list pystr) (d : list (pystr * V)) : result unit :=
  if forallb (fun kv => existsb (str_eqb (fst kv)) allowed) d then Ok tt else Err tag.
(* ---- additions for data.py Screen.single_treatment_effects (C14 link) ---- *)
(* try: <body> except E: <handler>, both ending in a return: an exception of the body that carries E's tag is replaced by the
   handler's outcome, any other exception passes *)
Definition res_catch {A : Type} (tag : Z) (body handler : result A) : result A :=
  match body with
  | Ok v => Ok v
  | Err t => if t =? tag then handler else Err t
  end.
(* ---- additions for the argument-handling glue of the command-line wrappers (cli/argument_parsing.py, get_args) ---- *)
(* `kdict K V`: a dict whose keys have a type with a boolean equality test (strings as code-point lists, type objects):
   insertion-ordered association list.  d[k] = v: an existing key keeps its place and gets the new value, a new key goes last *)
Fixpoint kdict_set {K V : Type} (eqb : K -> K -> bool) (d : list (K * V)) (k : K) (v : V) : list (K * V) :=
  match d with
  | [] => [(k, v)]
  | (k', v') :: r => if eqb k' k then (k', v) :: r else (k', v') :: kdict_set eqb r k v
  end.
Fixpoint kdict_find {K V : Type} (eqb : K -> K -> bool) (d : list (K * V)) (k : K) : option V :=
  match d with
  | [] => None
  | (k', v) :: r => if eqb k' k then Some v else kdict_find eqb r k
  end.
(* d[k] (read): KeyError (Err tag) when the key is absent *)
Definition kdict_get {K V : Type} (eqb : K -> K -> bool) (tag : Z) (d : list (K * V)) (k : K) : result V :=
  match kdict_find eqb d k with Some v => Ok v | None => Err tag end.
(* d.get(k, default) *)
Definition kdict_get_default {K V : Type} (eqb : K -> K -> bool) (d : list (K * V)) (k : K) (default : V) : V :=
  match kdict_find eqb d k with Some v => v | None => default end.
(* `x or {}` / `x or []` on an Optional container, as a value: x's content when x is a container, the empty one for None
   (an empty x is replaced by a NEW empty container, which has the same content) *)
Definition opt_or_empty {A : Type} (o : option (list A)) : list A := match o with Some l => l | None => [] end.
(* try: B except E: H with E the exception class of the LISTED tags and H ending in a raise (cfg["except_tag_lists"]) *)
Definition res_catch_tags {A : Type} (tags : list Z) (body handler : result A) : result A :=
  match body with
  | Ok x => Ok x
  | Err t => if zmem t tags then handler else Err t
  end.
