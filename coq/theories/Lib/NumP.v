(* Order / sum lemmas over Qc used by the numeric proofs. *)
From Coq Require Import ZArith List QArith Qcanon Lia Lqa.
From Batchie Require Import Lib.Num.
Import ListNotations.
Open Scope Qc_scope.

Lemma Qc_sq_nonneg (x : Qc) : 0 <= x * x.
Proof.
  unfold Qcle, Qcmult; cbn [this Q2Qc]; rewrite !Qred_correct. generalize (this x); intros q. nra.
Qed.

Lemma Qc_add_nonneg (x y : Qc) : 0 <= x -> 0 <= y -> 0 <= x + y.
Proof.
  unfold Qcle, Qcplus; cbn [this Q2Qc]; rewrite !Qred_correct. intros; lra.
Qed.

Lemma Qc_mul_nonneg (x y : Qc) : 0 <= x -> 0 <= y -> 0 <= x * y.
Proof.
  unfold Qcle, Qcmult; cbn [this Q2Qc]; rewrite !Qred_correct. intros; nra.
Qed.

Lemma Qc_inv_nonneg (x : Qc) : 0 <= x -> 0 <= / x.
Proof.
  unfold Qcle, Qcinv; cbn [this Q2Qc]; rewrite !Qred_correct. apply Qinv_le_0_compat.
Qed.

Lemma qsum_nonneg (l : list Qc) : Forall (fun x => 0 <= x) l -> 0 <= qsum l.
Proof.
  induction 1 as [|x l Hx Hl IH]; cbn [qsum fold_right]; [apply Qcle_refl|].
  now apply Qc_add_nonneg.
Qed.

Lemma qlen_nonneg {A} (l : list A) : 0 <= qlen l.
Proof.
  unfold qlen, Qcle; cbn [this Q2Qc]; rewrite !Qred_correct.
  unfold Qle; simpl. lia.
Qed.

Lemma qsum_zero (l : list Qc) : Forall (fun x => x = 0) l -> qsum l = 0.
Proof.
  induction 1 as [|x l Hx Hl IH]; cbn [qsum fold_right]; [reflexivity|].
  fold (qsum l). rewrite Hx, IH. ring.
Qed.
