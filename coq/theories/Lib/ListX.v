(* List lemmas shared by several proofs. *)
From Coq Require Import List Arith Lia Permutation.
Import ListNotations.

Lemma firstn_skipn_app {A} (l : list A) x y :
  firstn x l ++ firstn y (skipn x l) = firstn (x + y) l.
Proof.
  revert l; induction x as [|x IH]; intros l; cbn [firstn skipn app Nat.add].
  - reflexivity.
  - destruct l as [|a l]; cbn [firstn skipn app].
    + now rewrite firstn_nil.
    + now rewrite IH.
Qed.

Lemma skipn_skipn {A} (l : list A) x y : skipn y (skipn x l) = skipn (x + y) l.
Proof.
  revert l; induction x as [|x IH]; intros l; cbn [skipn Nat.add]; [reflexivity|].
  destruct l as [|a l]; [now rewrite skipn_nil|apply IH].
Qed.

(* consecutive slices along monotone cut points concatenate to the enclosing slice *)
Lemma concat_slices {A} (l : list A) (f : nat -> nat) :
  (forall k, f k <= f (S k)) ->
  forall m a,
    concat (map (fun k => firstn (f (S k) - f k) (skipn (f k) l)) (seq a m))
    = firstn (f (a + m) - f a) (skipn (f a) l).
Proof.
  intros Hmono m; induction m as [|m IH]; intros a; cbn [seq map concat].
  - now rewrite Nat.add_0_r, Nat.sub_diag.
  - rewrite IH.
    assert (Hle : forall j, f (S a) <= f (S a + j)).
    { induction j as [|j IHj]; [now rewrite Nat.add_0_r|].
      rewrite Nat.add_succ_r. etransitivity; [exact IHj|apply Hmono]. }
    specialize (Hle m). specialize (Hmono a).
    replace (skipn (f (S a)) l) with (skipn (f (S a) - f a) (skipn (f a) l))
      by (rewrite skipn_skipn; f_equal; lia).
    rewrite firstn_skipn_app. f_equal. rewrite Nat.add_succ_r. change (S a + m) with (S (a + m)) in *. lia.
Qed.

Lemma NoDup_app_inv {A} (l1 l2 : list A) :
  NoDup (l1 ++ l2) -> NoDup l1 /\ NoDup l2 /\ (forall x, In x l1 -> In x l2 -> False).
Proof.
  induction l1 as [|a l1 IH]; cbn [app]; intros H.
  - repeat split; [constructor|exact H|intros x []].
  - inversion H as [|? ? Hn Hnd]; subst. destruct (IH Hnd) as (H1 & H2 & H3).
    repeat split; [constructor; [|exact H1]|exact H2|].
    + intros Hin; apply Hn, in_or_app; now left.
    + intros x [->|Hx] Hx2; [apply Hn, in_or_app; now right|eapply H3; eassumption].
Qed.

Lemma NoDup_concat_disjoint {A} (ls : list (list A)) i j (x : A) :
  NoDup (concat ls) -> i <> j -> In x (nth i ls []) -> In x (nth j ls []) -> False.
Proof.
  revert i j; induction ls as [|l ls IH]; intros i j Hnd Hij Hi Hj.
  - destruct i; destruct j; contradiction.
  - cbn [concat] in Hnd. destruct (NoDup_app_inv _ _ Hnd) as (_ & Hnd' & Hdis).
    assert (Hcross : forall k, In x l -> In x (nth k ls []) -> False).
    { intros k Hl Hk. apply (Hdis x Hl).
      apply in_concat. exists (nth k ls []). split; [|exact Hk].
      destruct (Nat.lt_ge_cases k (length ls)) as [Hlt|Hge]; [now apply nth_In|].
      rewrite nth_overflow in Hk by exact Hge. contradiction. }
    destruct i as [|i], j as [|j]; cbn [nth] in Hi, Hj.
    + congruence.
    + eapply Hcross; eassumption.
    + eapply Hcross; eassumption.
    + eapply (IH i j); auto.
Qed.

Lemma In_firstn {A} (l : list A) k x : In x (firstn k l) -> In x l.
Proof. intros H. rewrite <- (firstn_skipn k l). apply in_or_app. now left. Qed.
Lemma In_skipn {A} (l : list A) k x : In x (skipn k l) -> In x l.
Proof. intros H. rewrite <- (firstn_skipn k l). apply in_or_app. now right. Qed.

Lemma nth_map_lt {A B} (f : A -> B) (l : list A) (d : B) (d' : A) j :
  j < length l -> nth j (map f l) d = f (nth j l d').
Proof.
  intros Hj. rewrite nth_indep with (d' := f d') by (now rewrite map_length). apply map_nth.
Qed.

Lemma nth_map_seq0 {A} (f : nat -> A) (d : A) c k : k < c -> nth k (map f (seq 0 c)) d = f k.
Proof.
  intros Hk. rewrite (nth_map_lt f (seq 0 c) d 0) by (now rewrite seq_length). now rewrite seq_nth.
Qed.
