(* Universal wire value: integers and lists.  Everything that crosses between the
   Python harness and the extracted model is one of these.  Conventions (DESIGN 7a):
     bool      -> 0 / 1
     string    -> list of code points
     rational  -> (n d)           d > 0
     option    -> () | (x)
     result    -> (0 x) | (1 tag)  tag an integer error code
   Decoders are total and return None on malformed input. *)
From Coq Require Import ZArith List QArith Qcanon.
Import ListNotations.
Open Scope Z_scope.

Inductive sexp : Type :=
| SZ (z : Z)
| SL (l : list sexp).

Definition opt_bind {A B} (o : option A) (f : A -> option B) : option B :=
  match o with Some a => f a | None => None end.
Notation "'do' x <- e ; k" := (opt_bind e (fun x => k))
  (at level 200, x pattern, e at level 100, k at level 200, right associativity).

Fixpoint opt_map_all {A B} (f : A -> option B) (l : list A) : option (list B) :=
  match l with
  | [] => Some []
  | a :: r => do b <- f a; do bs <- opt_map_all f r; Some (b :: bs)
  end.

Definition as_Z (s : sexp) : option Z := match s with SZ z => Some z | _ => None end.
Definition as_list (s : sexp) : option (list sexp) := match s with SL l => Some l | _ => None end.
Definition as_bool (s : sexp) : option bool :=
  match s with SZ 0 => Some false | SZ 1 => Some true | _ => None end.
Definition as_nat (s : sexp) : option nat :=
  match s with SZ z => if z <? 0 then None else Some (Z.to_nat z) | _ => None end.
Definition as_listof {A} (f : sexp -> option A) (s : sexp) : option (list A) :=
  do l <- as_list s; opt_map_all f l.
Definition as_Zs := as_listof as_Z.
Definition as_pair {A B} (f : sexp -> option A) (g : sexp -> option B) (s : sexp) : option (A * B) :=
  match s with SL [a; b] => do x <- f a; do y <- g b; Some (x, y) | _ => None end.
Definition as_triple {A B C} (f : sexp -> option A) (g : sexp -> option B) (h : sexp -> option C)
  (s : sexp) : option (A * B * C) :=
  match s with SL [a; b; c] => do x <- f a; do y <- g b; do z <- h c; Some (x, y, z) | _ => None end.
Definition as_option {A} (f : sexp -> option A) (s : sexp) : option (option A) :=
  match s with SL [] => Some None | SL [a] => do x <- f a; Some (Some x) | _ => None end.
Definition as_Q (s : sexp) : option Q :=
  match s with
  | SL [SZ n; SZ (Zpos d)] => Some (n # d)
  | _ => None
  end.
Definition as_Qc (s : sexp) : option Qc := do q <- as_Q s; Some (Q2Qc q).

Definition of_bool (b : bool) : sexp := SZ (if b then 1 else 0).
Definition of_nat (n : nat) : sexp := SZ (Z.of_nat n).
Definition of_list {A} (f : A -> sexp) (l : list A) : sexp := SL (map f l).
Definition of_Zs := of_list SZ.
Definition of_pair {A B} (f : A -> sexp) (g : B -> sexp) (p : A * B) : sexp :=
  SL [f (fst p); g (snd p)].
Definition of_option {A} (f : A -> sexp) (o : option A) : sexp :=
  match o with None => SL [] | Some a => SL [f a] end.
Definition of_Q (q : Q) : sexp := SL [SZ (Qnum q); SZ (Zpos (Qden q))].
Definition of_Qc (q : Qc) : sexp := of_Q (this q).

(* result type shared by the models; error tags are small integers documented per model *)
Inductive result (A : Type) : Type :=
| Ok (a : A)
| Err (tag : Z).
Arguments Ok {A} a.
Arguments Err {A} tag.

Definition res_bind {A B} (r : result A) (f : A -> result B) : result B :=
  match r with Ok a => f a | Err t => Err t end.
Notation "'dor' x <- e ; k" := (res_bind e (fun x => k))
  (at level 200, x pattern, e at level 100, k at level 200, right associativity).

Fixpoint res_map_all {A B} (f : A -> result B) (l : list A) : result (list B) :=
  match l with
  | [] => Ok []
  | a :: r => dor b <- f a; dor bs <- res_map_all f r; Ok (b :: bs)
  end.

Definition of_result {A} (f : A -> sexp) (r : result A) : sexp :=
  match r with Ok a => SL [SZ 0; f a] | Err t => SL [SZ 1; SZ t] end.

(* malformed wire input: the driver prints this and the harness treats it as a harness bug *)
Definition bad_input : sexp := SL [SZ 2].
Definition run_with {A} (dec : sexp -> option A) (f : A -> sexp) (s : sexp) : sexp :=
  match dec s with Some a => f a | None => bad_input end.
