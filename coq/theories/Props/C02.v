(* C02 — Screen and experiment-space persistence is lossless.
   Statements only; every proof is `exact <lemma from Proofs/C02*.v>`.
   "Constructible" = returned by [mk_screen] (the model of Screen(...)) for SOME arguments: any rows (also none),
   any arity, control name, observations / mask given or not, mappings built from the data or supplied (and then
   possibly strict supersets of the data, in any stored order).  No hypothesis on the screen or on supplied
   mappings is needed: whatever the constructor accepted is what save writes and load hands back to the constructor.
   [load] = the constructor called as load_h5 calls it (Model/Persist.v).
   History: before /repo commit 81a412f a screen without rows (and a space with an empty mapping) saved but did
   not load; the model then said Err 8 and the literal clause was stated as refuted.  With encode_string_array /
   decode_string_array the clause holds for EVERY constructible screen, and is stated so below; the former
   witnesses are now Examples of successful round trips C02_ex_zero_rows and C02_ex_zero_rows_supplied. *)
From Coq Require Import ZArith List Bool.
From Batchie Require Import Lib.Sexp Model.Encode Model.Screen Model.Persist Proofs.C02Encode Proofs.C02Persist
  Generated.SrcPersist Proofs.C02Source.
Import ListNotations.
Open Scope Z_scope.

(* ---- screens ---- *)

(* load (save s) is the screen s itself: the complete record — rows (sample, plate, treatment names, doses,
   observation bit patterns, mask), arity, control name, treatment / sample / plate ids and the three mappings *)
Theorem C02_load_save : forall rows arity ctrl tmap smap og mg s,
  mk_screen rows arity ctrl tmap smap og mg = Ok s ->
  load (save s) = Ok s.
Proof. exact load_save. Qed.
Print Assumptions C02_load_save.

(* the same, observable by observable *)
Theorem C02_load_save_observables : forall rows arity ctrl tmap smap og mg s,
  mk_screen rows arity ctrl tmap smap og mg = Ok s ->
  exists s', load (save s) = Ok s'
    /\ length (s_rows s') = length (s_rows s)
    /\ map r_sample (s_rows s') = map r_sample (s_rows s)        (* sample names *)
    /\ map r_plate (s_rows s') = map r_plate (s_rows s)          (* plate names *)
    /\ map r_treats (s_rows s') = map r_treats (s_rows s)        (* treatment names and doses, per column *)
    /\ map r_obs (s_rows s') = map r_obs (s_rows s)              (* observations, bit patterns *)
    /\ map r_mask (s_rows s') = map r_mask (s_rows s)            (* observation mask *)
    /\ s_arity s' = s_arity s                                    (* also when there are no rows *)
    /\ s_ctrl s' = s_ctrl s                                      (* control name *)
    /\ s_tids s' = s_tids s /\ s_sids s' = s_sids s /\ s_pids s' = s_pids s
    /\ s_tmap s' = s_tmap s /\ s_smap s' = s_smap s /\ s_pmap s' = s_pmap s.
Proof. exact load_save_observables. Qed.
Print Assumptions C02_load_save_observables.

(* loading never renumbers: ids and mappings after the load are literally those of the saved screen; a supplied
   mapping comes back verbatim (stored order, entries no row uses included) *)
Theorem C02_no_renumber : forall rows arity ctrl tmap smap og mg s,
  mk_screen rows arity ctrl tmap smap og mg = Ok s ->
  exists s', load (save s) = Ok s'
  /\ s_tids s' = s_tids s /\ s_sids s' = s_sids s /\ s_pids s' = s_pids s
  /\ s_tmap s' = s_tmap s /\ s_smap s' = s_smap s /\ s_pmap s' = s_pmap s
  /\ (forall m b, tmap = Some (m, b) -> s_tmap s' = m)
  /\ (forall m b, smap = Some (m, b) -> s_smap s' = m).
Proof. exact no_renumber. Qed.
Print Assumptions C02_no_renumber.

(* a second save writes the same file, a second load returns the same screen, and so on for ever *)
Theorem C02_fixed_point : forall rows arity ctrl tmap smap og mg s,
  mk_screen rows arity ctrl tmap smap og mg = Ok s ->
  exists s', load (save s) = Ok s'
  /\ save s' = save s /\ load (save s') = Ok s' /\ forall n, cycles n s' = Ok s'.
Proof. exact fixed_point. Qed.
Print Assumptions C02_fixed_point.

Theorem C02_any_number_of_cycles : forall rows arity ctrl tmap smap og mg s,
  mk_screen rows arity ctrl tmap smap og mg = Ok s ->
  forall n, cycles n s = Ok s.
Proof. exact any_cycles. Qed.
Print Assumptions C02_any_number_of_cycles.

(* exact description of load . save on ANY screen record (constructible or not): it is the constructor call
   load_h5 makes — rows, arity and control name as stored, observations and mask given, the stored treatment and
   sample mappings supplied, plates re-encoded.  (Replaces the former Ok / Err 8 characterisation.) *)
Theorem C02_load_save_characterised : forall s,
  load (save s)
  = mk_screen (s_rows s) (s_arity s) (s_ctrl s) (Some (s_tmap s, true)) (Some (s_smap s, true)) true true.
Proof. exact load_save_is_ctor. Qed.
Print Assumptions C02_load_save_characterised.

(* ---- experiment space ---- *)
Theorem C02_space_load_save : forall sp, space_load (space_save sp) = Ok sp.
Proof. exact space_load_save. Qed.
Print Assumptions C02_space_load_save.

(* no renumbering, fixed point, any number of cycles *)
Theorem C02_space_fixed_point : forall sp,
  exists sp', space_load (space_save sp) = Ok sp'
  /\ sp' = sp /\ space_save sp' = space_save sp /\ forall n, space_cycles n sp' = Ok sp'.
Proof. exact space_fixed_point. Qed.
Print Assumptions C02_space_fixed_point.

Theorem C02_space_any_number_of_cycles : forall sp n, space_cycles n sp = Ok sp.
Proof. exact space_cycles_fixed. Qed.
Print Assumptions C02_space_any_number_of_cycles.

(* the space of every constructible screen round-trips, and from_screen commutes with the screen's own round trip *)
Theorem C02_space_of_screen : forall rows arity ctrl tmap smap og mg s,
  mk_screen rows arity ctrl tmap smap og mg = Ok s ->
  space_load (space_save (space_of_screen s)) = Ok (space_of_screen s)
  /\ (forall n, space_cycles n (space_of_screen s) = Ok (space_of_screen s))
  /\ (forall s', load (save s) = Ok s' -> space_of_screen s' = space_of_screen s).
Proof. exact space_of_screen_load_save. Qed.
Print Assumptions C02_space_of_screen.

(* ---- non-vacuity: the hypotheses are met by non-trivial screens ---- *)
Definition ex_rows : list row :=
  [ {| r_sample := [115]; r_plate := [112; 49]; r_treats := [([97], 5); ([98], 7)];
       r_obs := 4607182418800017408; r_mask := true |};
    {| r_sample := [115]; r_plate := [112; 50]; r_treats := [([98], 7); ([], 0)];
       r_obs := 9221120237041090561; r_mask := false |};                         (* NaN with a payload *)
    {| r_sample := [233]; r_plate := [112; 50]; r_treats := [([97], 5); ([97], 5)];
       r_obs := 9223372036854775808; r_mask := false |} ].                       (* -0.0 *)

(* hand-made supplied mappings: not in sorted order, entries (c,5)->2, (a,9)->3 and sample "zz"->1 are used by no row *)
Definition ex_tmap : tmapping :=
  [(([99], 5), 2); (([98], 7), 1); (([], 0), -1); (([97], 5), 0); (([97], 9), 3)].
Definition ex_smap : nmapping := [([233], 2); ([122; 122], 1); ([115], 0)].

Example C02_ex_superset :
  match mk_screen ex_rows 2 [] (Some (ex_tmap, true)) (Some (ex_smap, true)) true true with
  | Ok s => s_tmap s = ex_tmap /\ s_smap s = ex_smap
            /\ s_tids s = [[0; 1]; [1; -1]; [0; 0]] /\ s_sids s = [0; 0; 2] /\ s_pids s = [0; 1; 1]
            /\ existsb (Z.eqb 2) (concat (s_tids s)) = false       (* id 2 is in the mapping, in no row *)
            /\ load (save s) = Ok s /\ cycles 3 s = Ok s
            /\ space_cycles 3 (space_of_screen s) = Ok (space_of_screen s)
  | Err _ => False
  end.
Proof. vm_compute. repeat split. Qed.

(* mappings built from the data; observations not given (all rows unobserved, observations zero) *)
Example C02_ex_built :
  match mk_screen ex_rows 2 [99] None None false false with
  | Ok s => map r_mask (s_rows s) = [false; false; false]
            /\ s_tmap s = [(([], 0), -1); (([97], 5), 0); (([98], 7), 1)]
            /\ s_tids s = [[0; 1]; [1; -1]; [0; 0]]
            /\ load (save s) = Ok s /\ cycles 2 s = Ok s
  | Err _ => False
  end.
Proof. vm_compute. repeat split. Qed.

(* a mapping that does not cover the data, or is not dense, is refused at construction (so it is not
   "constructible") *)
Example C02_ex_not_constructible :
  mk_screen ex_rows 2 [] (Some ([(([97], 5), 0)], true)) None true true = Err 5
  /\ mk_screen ex_rows 2 [] (Some ([(([99], 5), 3); (([98], 7), 1); (([], 0), -1); (([97], 5), 0)], true)) None true true = Err 3.
Proof. split; vm_compute; reflexivity. Qed.

(* the former counterexamples: screens without rows now round-trip, arity and (empty or supplied) mappings kept *)
Example C02_ex_zero_rows :
  match mk_screen [] 2 [] None None true true with
  | Ok s => s_rows s = [] /\ s_arity s = 2%nat /\ s_tmap s = [] /\ s_smap s = []
            /\ f_arity (save s) = 2%nat /\ load (save s) = Ok s /\ cycles 3 s = Ok s
            /\ space_load (space_save (space_of_screen s)) = Ok (space_of_screen s)
  | Err _ => False
  end.
Proof. vm_compute. repeat split. Qed.

Example C02_ex_zero_rows_supplied :
  match mk_screen [] 1 [] (Some ([(([97], 5), 0)], true)) (Some ([([115], 0)], true)) true true with
  | Ok s => s_rows s = [] /\ s_arity s = 1%nat /\ s_tmap s = [(([97], 5), 0)] /\ s_smap s = [([115], 0)]
            /\ load (save s) = Ok s /\ cycles 2 s = Ok s
  | Err _ => False
  end.
Proof. vm_compute. repeat split. Qed.

(* ---- source-translation links: the model IS the code ----
   Generated/SrcPersist.v holds the Gallina translations of the WHOLE methods Screen.save_h5, Screen.load_h5,
   ExperimentSpace.from_screen, ExperimentSpace.save_h5 and ExperimentSpace.load_h5, regenerated from /repo's current
   data.py on every run (harness/py2gal.py; configurations C02_* of harness/src_functions.py).  They work on a raw HDF5
   file [h5raw] = its datasets and attributes BY NAME (end of Model/Persist.v): save_h5 denotes the raw file it has
   written (one [h5_create] per create_dataset call of the source), load_h5 reads one ([h5_read_*] per f[NAME][:]).
   [h5_close] / [h5_close_space] is the representation map raw file -> the model's record (every dataset of the record is
   present under its name).  Trusted: the translator and the configured primitives (h5py create_dataset / f[NAME][:] /
   attrs per literal name, numpy's np.char.encode / decode / np.empty inside the translated codec helpers, the attribute reads
   of a Screen, Screen(...) / ExperimentSpace(...) as the model constructors on the arrays the call site passes). *)

(* the helpers encode_string_array / decode_string_array, translated too (1-d and 2-d arrays): with their
   `arr.size == 0` guard they are the identity on the strings of every array, also one without elements - where
   np.char.encode / decode alone answer with a float64 array (tag 33, the defect repaired in /repo 81a412f) *)
Theorem C02_model_is_source_string_codec :
  (forall a : list name, src_encode_string_array_1d a = Ok a) /\ (forall a : h5_2d name, src_encode_string_array_2d a = Ok a) /\
  (forall a : list bname, src_decode_string_array_1d a = Ok a) /\ (forall a : h5_2d bname, src_decode_string_array_2d a = Ok a).
Proof. exact src_string_codec_is_identity. Qed.
Print Assumptions C02_model_is_source_string_codec.

(* Screen.save_h5 writes exactly the model's file: the 14 datasets + 1 attribute under the names the model gives
   them, each from the attribute of the screen the model says - the six mapping datasets included; stated through
   h5_close, so independent of the order of the create_dataset calls *)
Theorem C02_model_is_source_screen_save_h5 : forall s : screen,
  (dor w <- src_screen_save_h5 s; h5_close w) = Ok (save s).
Proof. exact src_screen_save_h5_is_model. Qed.
Print Assumptions C02_model_is_source_screen_save_h5.

(* Screen.load_h5 on ANY raw file that represents a record f (all 14 datasets + the attribute present with their
   kinds) is the model's load f: the datasets it reads, and the keyword of Screen(...) each one reaches - treatment_names,
   treatment_doses, observations, observation_mask, sample_names, plate_names, control_treatment_name,
   sample_mapping = (sample_mapping_names, sample_mapping_ids), treatment_mapping = (treatment_mapping_names, _doses, _ids);
   the stored id datasets are not read *)
Theorem C02_model_is_source_screen_load_h5 : forall (w : h5raw) (f : file),
  h5_close w = Ok f -> src_screen_load_h5 w = load f.
Proof. exact src_screen_load_h5_is_model. Qed.
Print Assumptions C02_model_is_source_screen_load_h5.

(* the translated load_h5 applied to the raw file the translated save_h5 wrote is the model's load (save s), for every
   screen record: C02_load_save_characterised and everything above are theorems about the translated source *)
Theorem C02_model_is_source_screen_save_load : forall s : screen,
  (dor w <- src_screen_save_h5 s; src_screen_load_h5 w) = load (save s).
Proof. exact src_screen_save_load_is_model. Qed.
Print Assumptions C02_model_is_source_screen_save_load.

(* ... in particular: every constructible screen comes back from the translated methods, after any number of cycles *)
Theorem C02_source_round_trip : forall rows arity ctrl tmap smap og mg s,
  mk_screen rows arity ctrl tmap smap og mg = Ok s ->
  (dor w <- src_screen_save_h5 s; src_screen_load_h5 w) = Ok s /\ forall n, src_cycles n s = Ok s.
Proof. exact src_screen_round_trip. Qed.
Print Assumptions C02_source_round_trip.

(* ExperimentSpace.from_screen: the screen's two mappings and its control name *)
Theorem C02_model_is_source_space_from_screen : forall s : screen,
  src_space_from_screen s = Ok (space_of_screen s).
Proof. exact src_space_from_screen_is_model. Qed.
Print Assumptions C02_model_is_source_space_from_screen.

Theorem C02_model_is_source_space_save_h5 : forall sp : space,
  (dor w <- src_space_save_h5 sp; h5_close_space w) = Ok (space_save sp).
Proof. exact src_space_save_h5_is_model. Qed.
Print Assumptions C02_model_is_source_space_save_h5.

Theorem C02_model_is_source_space_load_h5 : forall (w : h5raw) (g : sfile),
  h5_close_space w = Ok g -> src_space_load_h5 w = space_load g.
Proof. exact src_space_load_h5_is_model. Qed.
Print Assumptions C02_model_is_source_space_load_h5.

Theorem C02_model_is_source_space_save_load : forall sp : space,
  (dor w <- src_space_save_h5 sp; src_space_load_h5 w) = space_load (space_save sp).
Proof. exact src_space_save_load_is_model. Qed.
Print Assumptions C02_model_is_source_space_save_load.

(* from_screen, save_h5, load_h5 as translated, one after the other, on any screen *)
Theorem C02_source_space_round_trip : forall s : screen,
  (dor sp <- src_space_from_screen s; dor w <- src_space_save_h5 sp; src_space_load_h5 w) = Ok (space_of_screen s).
Proof. exact src_space_round_trip. Qed.
Print Assumptions C02_source_space_round_trip.

(* non-vacuity of the hypothesis of the load links: what the translated save_h5 writes does represent a record, and a
   raw file lacking a dataset represents none (the translated load_h5 then raises KeyError, tag 30) *)
Example C02_ex_source_raw :
  match mk_screen ex_rows 2 [] (Some (ex_tmap, true)) (Some (ex_smap, true)) true true with
  | Ok s => match src_screen_save_h5 s with
            | Ok w => h5_close w = Ok (save s) /\ src_screen_load_h5 w = Ok s
                      /\ List.length (h_data w) = 14%nat /\ List.length (h_attrs w) = 1%nat
            | Err _ => False
            end
  | Err _ => False
  end
  /\ src_screen_load_h5 h5_empty = Err 30 /\ src_space_load_h5 h5_empty = Err 30.
Proof. vm_compute. repeat split. Qed.

(* what the guard of the codec helpers is for: numpy's own codec on arrays without elements *)
Example C02_ex_codec_guard :
  np_char_codec1 [] = Err 33 /\ np_char_codec2 (2%nat, []) = Err 33 /\ np_char_codec2 (0%nat, [[]; []]) = Err 33
  /\ src_encode_string_array_2d (2%nat, []) = Ok (2%nat, []) /\ src_decode_string_array_1d [] = Ok [].
Proof. vm_compute. repeat split. Qed.
