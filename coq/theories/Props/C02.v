(* placeholder so that the pipeline runs; theorems are added below as they are proved *)
From Coq Require Import ZArith List.
From Batchie Require Import Model.Encode Model.Screen Model.Persist.
