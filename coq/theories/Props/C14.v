(* C14 - placeholder while the proofs are being written *)
From Batchie Require Import Model.Views.
