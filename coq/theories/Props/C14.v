(* C14 — Subset and plate views are exact row selections with set-algebra semantics.
   Statements only; every proof is `exact <lemma from Proofs/C14*.v>`.
   Model: Model/Views.v (views, operations, op trees [vexpr], evaluator [eval], reference semantics [ref]);
   specification vocabulary: Proofs/C14Defs.v ([screen_wf], [view_ok], [view_in], [mask_of]) and
   Proofs/C14ToScreen.v ([screen_valid]).  Every screen the constructor returns is [screen_wf] and
   [screen_valid] (C14_constructed_screens).  All statements are for ALL screens, selections, duplicate
   patterns and trees; nothing is bounded.  A functional model cannot mutate: "without touching the outer
   view" is the fact that every operation is a function returning a new view (the outer view is an
   argument, not a result); the run-time side of that clause is checked on the real objects by the harness. *)
From Coq Require Import ZArith List Bool Arith Sorted.
From Batchie Require Import Lib.Sexp Model.Encode Model.Screen Model.Views
  Proofs.C14Defs Proofs.C14Lists Proofs.C14Unique Proofs.C14Views Proofs.C14ToScreen Proofs.C14Closure
  Generated.SrcViews Proofs.C14Source.
Import ListNotations.
Open Scope nat_scope.

(* ---------- every screen built by the constructor satisfies the side conditions used below ---------- *)
Theorem C14_constructed_screens : forall rows ar ctrl tm sm og mg s,
  mk_screen rows ar ctrl tm sm og mg = Ok s -> screen_wf s /\ screen_valid s.
Proof. intros; split; [eapply mk_screen_wf|eapply mk_screen_valid]; eassumption. Qed.
Print Assumptions C14_constructed_screens.

(* ---------- attributes: the parent's values at the selected rows, in parent order ---------- *)
(* np.where of a selection vector: strictly increasing, in range, exactly the true positions *)
Theorem C14_selected_rows : forall sel,
  StronglySorted lt (np_where sel) /\
  forall i, In i (np_where sel) <-> nth i sel false = true.
Proof. intros sel; split; [apply where_sorted|intros i; apply In_where]. Qed.
Print Assumptions C14_selected_rows.

(* a[sel] for any per-row array a *)
Theorem C14_attr_exact : forall (A : Type) (d : A) (sel : list bool) (col : list A),
  length sel = length col -> select sel col = map (fun i => nth i col d) (np_where sel).
Proof. exact @select_nth. Qed.
Print Assumptions C14_attr_exact.

(* all attributes of a view *)
Theorem C14_view_attrs : forall v (dr : row), view_ok v -> screen_wf (v_parent v) ->
  let p := v_parent v in
  let idx := np_where (v_sel v) in
  view_pids v = map (fun i => nth i (s_pids p) 0%Z) idx /\
  view_sids v = map (fun i => nth i (s_sids p) 0%Z) idx /\
  view_tids v = map (fun i => nth i (s_tids p) []) idx /\
  view_rows v = map (fun i => nth i (s_rows p) dr) idx /\
  view_sample_names v = map r_sample (view_rows v) /\
  view_plate_names v = map r_plate (view_rows v) /\
  view_treats v = map r_treats (view_rows v) /\
  view_obs v = map r_obs (view_rows v) /\
  view_mask v = map r_mask (view_rows v) /\
  view_size v = length idx.
Proof. exact view_attrs. Qed.
Print Assumptions C14_view_attrs.

(* ---------- subset of a subset composes the selections ---------- *)
Theorem C14_subset_compose : forall v isb inner v', view_ok v -> view_subset v isb inner = Ok v' ->
  v_tag v' = v_tag v /\ v_parent v' = v_parent v /\ view_ok v' /\
  np_where (v_sel v') = select inner (np_where (v_sel v)) /\
  forall (A : Type) (col : list A), length col = length (v_sel v) ->
    select (v_sel v') col = select inner (select (v_sel v) col).
Proof. exact subset_compose. Qed.
Print Assumptions C14_subset_compose.

Theorem C14_subset_total : forall v inner, view_ok v -> length inner = view_size v ->
  view_subset v true inner = Ok {| v_tag := v_tag v; v_parent := v_parent v; v_sel := expand (v_sel v) inner |}.
Proof. exact view_subset_ok. Qed.
Print Assumptions C14_subset_total.

Theorem C14_subset_refused : forall v isb inner,
  (isb = false -> view_subset v isb inner = Err 21%Z) /\
  (isb = true -> length inner <> view_size v -> view_subset v isb inner = Err 22%Z).
Proof. exact subset_refused. Qed.
Print Assumptions C14_subset_refused.

(* ---------- combine / concat = union, invert = complement ---------- *)
Theorem C14_combine_union : forall a b c,
  view_ok a -> view_ok b -> v_parent b = v_parent a -> view_combine a b = Ok c ->
  v_tag c = v_tag a /\ v_parent c = v_parent a /\ view_ok c /\
  forall i, nth i (v_sel c) false = nth i (v_sel a) false || nth i (v_sel b) false.
Proof. exact combine_union. Qed.
Print Assumptions C14_combine_union.

Theorem C14_combine_total : forall a b,
  view_ok a -> view_ok b -> v_parent b = v_parent a -> v_tag b = v_tag a -> exists c, view_combine a b = Ok c.
Proof. exact combine_total. Qed.
Print Assumptions C14_combine_total.

Theorem C14_concat_union : forall p vs c,
  Forall (fun v => v_parent v = p /\ view_ok v) vs -> view_concat vs = Ok c ->
  v_parent c = p /\ view_ok c /\ Forall (fun v => v_tag v = v_tag c) vs /\
  forall i, nth i (v_sel c) false = existsb (fun v => nth i (v_sel v) false) vs.
Proof. exact concat_union. Qed.
Print Assumptions C14_concat_union.

Theorem C14_concat_single_and_empty : (forall v, view_concat [v] = Ok v) /\ view_concat [] = Err 24%Z.
Proof. exact (conj concat_single concat_empty). Qed.
Print Assumptions C14_concat_single_and_empty.

Theorem C14_invert_complement : forall v, view_ok v ->
  exists v', view_invert v = Ok v' /\ v_tag v' = v_tag v /\ v_parent v' = v_parent v /\ view_ok v' /\
    forall i, i < length (v_sel v) -> nth i (v_sel v') false = negb (nth i (v_sel v) false).
Proof. exact invert_complement. Qed.
Print Assumptions C14_invert_complement.

(* ---------- observed / unobserved split the screen by its mask ---------- *)
(* None exactly when the side is empty; otherwise the observed view selects exactly the observed rows, the
   unobserved view exactly the others (so: disjoint and exhaustive), and their mask attributes are constant *)
Theorem C14_observed_split : forall tag p, screen_wf p ->
  let n := screen_size p in
  (subset_observed tag p = None <-> forall i, row_observed p i = false) /\
  (subset_unobserved tag p = None <-> forall i, i < n -> row_observed p i = true) /\
  (forall r, subset_observed tag p = Some r ->
     exists v, r = Ok v /\ v_tag v = tag /\ v_parent v = p /\ view_ok v /\
       (forall i, nth i (v_sel v) false = row_observed p i) /\ Forall (fun b => b = true) (view_mask v)) /\
  (forall r, subset_unobserved tag p = Some r ->
     exists v, r = Ok v /\ v_tag v = tag /\ v_parent v = p /\ view_ok v /\
       (forall i, i < n -> nth i (v_sel v) false = negb (row_observed p i)) /\ Forall (fun b => b = false) (view_mask v)).
Proof. exact observed_split. Qed.
Print Assumptions C14_observed_split.

(* ---------- plates ---------- *)
Theorem C14_get_plate : forall tag p pid, screen_wf p ->
  exists v, get_plate tag p pid = Ok v /\ v_tag v = tag /\ v_parent v = p /\ view_ok v /\
    forall i, nth i (v_sel v) false = row_on_plate p pid i.
Proof. exact get_plate_spec. Qed.
Print Assumptions C14_get_plate.

(* one view per distinct plate id, ascending; every row lies on exactly one of them *)
Theorem C14_plates_partition : forall tag p vs, screen_wf p -> plates tag p = Ok vs ->
  let ids := sort_uniq Z.compare (s_pids p) in
  StronglySorted Z.lt ids /\ NoDup ids /\ (forall x, In x ids <-> In x (s_pids p)) /\
  length vs = length ids /\
  (forall j, j < length ids ->
     v_tag (nth j vs (Build_view 0 p [])) = tag /\ v_parent (nth j vs (Build_view 0 p [])) = p /\
     view_ok (nth j vs (Build_view 0 p [])) /\
     forall i, nth i (v_sel (nth j vs (Build_view 0 p []))) false = row_on_plate p (nth j ids 0%Z) i) /\
  (forall i, i < screen_size p -> exists j, j < length ids /\ row_on_plate p (nth j ids 0%Z) i = true /\
     forall j', j' < length ids -> row_on_plate p (nth j' ids 0%Z) i = true -> j' = j).
Proof. exact plates_partition. Qed.
Print Assumptions C14_plates_partition.

(* ---------- materialising a view ---------- *)
(* same rows (sample name, plate name, treatment names and doses, observation, mask) in the same order;
   ids are NOT promised: to_screen passes no mappings (see C14_to_screen_may_renumber_ids below) *)
Theorem C14_to_screen_rows : forall v s, to_screen v = Ok s ->
  s_rows s = view_rows v /\ s_arity s = s_arity (v_parent v) /\ s_ctrl s = s_ctrl (v_parent v) /\ screen_wf s.
Proof. exact to_screen_rows. Qed.
Print Assumptions C14_to_screen_rows.

Theorem C14_to_screen_total : forall v, screen_valid (v_parent v) -> exists s, to_screen v = Ok s.
Proof. exact to_screen_total. Qed.
Print Assumptions C14_to_screen_total.

(* ---------- the unique-condition filter ---------- *)
(* select_unique_zipped_numpy_arrays on the key rows: row i is kept iff no earlier row has the same key,
   i.e. the index np.unique(return_index=True) returns — the first occurrence *)
Theorem C14_unique_mask_first : forall keys i,
  length (unique_mask keys) = length keys /\
  (nth i (unique_mask keys) false = true <->
   i < length keys /\ forall j, j < i -> nth j keys [] <> nth i keys []).
Proof. intros keys i; split; [apply unique_mask_length|apply nth_unique_mask]. Qed.
Print Assumptions C14_unique_mask_first.

(* the kept keys are pairwise distinct and every key is kept: exactly one row per distinct key *)
Theorem C14_unique_mask_exactly_one : forall keys,
  NoDup (select (unique_mask keys) keys) /\ forall k, In k (select (unique_mask keys) keys) <-> In k keys.
Proof.
  intros keys. rewrite unique_mask_rec, select_first_mask_rec. split; [apply NoDup_kf|].
  intros k. rewrite In_kf. cbn [In]. tauto.
Qed.
Print Assumptions C14_unique_mask_exactly_one.

(* filter_dataset_to_unique_treatments on a view, key = (sample id, treatment ids) of the parent row *)
Theorem C14_unique_exactly_one : forall v v', view_ok v -> screen_wf (v_parent v) -> filter_unique_view v = Ok v' ->
  let key := row_key (v_parent v) in
  let W := np_where (v_sel v) in
  let W' := np_where (v_sel v') in
  v_tag v' = v_tag v /\ v_parent v' = v_parent v /\ view_ok v' /\
  (forall i, In i W' <-> In i W /\ forall j, In j W -> j < i -> key j <> key i) /\
  NoDup (map key W') /\
  (forall i, In i W -> exists i', In i' W' /\ key i' = key i).
Proof. exact unique_exactly_one. Qed.
Print Assumptions C14_unique_exactly_one.

Theorem C14_unique_total : forall v, view_ok v -> screen_wf (v_parent v) -> exists v', filter_unique_view v = Ok v'.
Proof. exact filter_unique_view_total. Qed.
Print Assumptions C14_unique_total.

(* ---------- views of different parents refuse to combine ---------- *)
Theorem C14_different_parent_refused :
  (forall a b, v_tag a <> v_tag b -> view_combine a b = Err 23%Z) /\
  (forall v0 vs, Exists (fun v => v_tag v <> v_tag v0) vs -> view_concat (v0 :: vs) = Err 23%Z).
Proof. exact (conj combine_different_parent concat_different_parent). Qed.
Print Assumptions C14_different_parent_refused.

(* ---------- closure under any finite composition ---------- *)
(* whatever tree of subset / combine / concat / invert / unique operations over the leaves Screen.subset,
   subset_observed, subset_unobserved, get_plate, filter_unique(screen) evaluates to a view, that view is a
   view of the tree's parent and selects exactly the rows of the index-set semantics [ref] *)
Theorem C14_closure : forall ps, Forall screen_wf ps -> forall e v, eval ps e = Ok v ->
  view_in ps v (parent_of e) /\ np_where (v_sel v) = ref ps e.
Proof. exact closure. Qed.
Print Assumptions C14_closure.

Theorem C14_closure_selection_vector : forall ps e v, Forall screen_wf ps -> eval ps e = Ok v ->
  v_sel v = mask_of (screen_size (v_parent v)) (ref ps e).
Proof. exact closure_mask. Qed.
Print Assumptions C14_closure_selection_vector.

Theorem C14_closure_attributes : forall ps e v, Forall screen_wf ps -> eval ps e = Ok v ->
  forall (A : Type) (d : A) (col : list A), length col = screen_size (v_parent v) ->
    select (v_sel v) col = map (fun i => nth i col d) (ref ps e).
Proof. exact closure_attr. Qed.
Print Assumptions C14_closure_attributes.

Theorem C14_closure_ref_sorted : forall ps e v, Forall screen_wf ps -> eval ps e = Ok v ->
  StronglySorted lt (ref ps e) /\ forall i, In i (ref ps e) -> i < screen_size (v_parent v).
Proof. exact ref_sorted. Qed.
Print Assumptions C14_closure_ref_sorted.

(* ================= the model is the source =================
   Generated/SrcViews.v is re-translated from /repo's src/batchie/data.py on every run (harness/py2gal.py, configurations
   C14_* of harness/src_functions.py).  Each theorem: the translation of the WHOLE method equals the model's function, for
   ALL inputs, with no side condition.  A Screen object is (identity tag, contents) [pyscreen]; a ScreenSubset / Plate
   object is a [view]; an array handed in as a selection is (dtype is bool, truth values) [anyarray]. *)
(* ScreenSubset.__init__, which ScreenSubset(...) and Plate(...) run (Plate defines none): the dtype check, the length
   check against screen.size, then the object holding (screen, selection_vector) - whatever the fresh instance held *)
Theorem C14_model_is_source_init : forall (self : view) (s : pyscreen) (sv : anyarray),
  src_view_init self s sv = mk_view (fst s) (snd s) (fst sv) (snd sv).
Proof. exact src_view_init_is_model. Qed.
Print Assumptions C14_model_is_source_init.

(* ScreenBase.size on a Screen object and on a ScreenSubset object *)
Theorem C14_model_is_source_size :
  (forall s : pyscreen, src_screen_size s = Ok (Z.of_nat (screen_size (snd s)))) /\
  (forall v : view, src_view_size v = Ok (Z.of_nat (view_size v))).
Proof. exact (conj src_screen_size_is_model src_view_size_is_model). Qed.
Print Assumptions C14_model_is_source_size.

(* ScreenSubset.subset: dtype check, size check against self.size, copy of the selection vector, np.where, the scatter of
   the inner mask at the true positions, ScreenSubset(self.screen, result) *)
Theorem C14_model_is_source_subset : forall (v : view) (sv : anyarray),
  src_view_subset v sv = view_subset v (fst sv) (snd sv).
Proof. exact src_view_subset_is_model. Qed.
Print Assumptions C14_model_is_source_subset.

(* ScreenSubset.combine: `other.screen is not self.screen` (the parents' identities) refuses, else Plate(self.screen, a | b) *)
Theorem C14_model_is_source_combine : forall a b : view, src_view_combine a b = view_combine a b.
Proof. exact src_view_combine_is_model. Qed.
Print Assumptions C14_model_is_source_combine.

(* ScreenSubset.concat: one argument -> that argument itself; none -> refused; else the loop (identity check against the
   first argument's parent, `|` accumulation starting from None) and Plate(first.screen, accumulated) *)
Theorem C14_model_is_source_concat : forall vs : list view, src_view_concat vs = view_concat vs.
Proof. exact src_view_concat_is_model. Qed.
Print Assumptions C14_model_is_source_concat.

(* ScreenSubset.invert: Plate(self.screen, ~self.selection_vector) *)
Theorem C14_model_is_source_invert : forall v : view, src_view_invert v = view_invert v.
Proof. exact src_view_invert_is_model. Qed.
Print Assumptions C14_model_is_source_invert.

(* Screen.subset *)
Theorem C14_model_is_source_screen_subset : forall (s : pyscreen) (sv : anyarray),
  src_screen_subset s sv = screen_subset (fst s) (snd s) (fst sv) (snd sv).
Proof. exact src_screen_subset_is_model. Qed.
Print Assumptions C14_model_is_source_screen_subset.

(* Screen.subset_observed / subset_unobserved: None (falling off the end) iff np.any of the mask / of its negation is
   false, else self.subset(that mask).  [opt_result] turns the model's `option (result view)` into the translation's
   `result (option view)` *)
Theorem C14_model_is_source_subset_observed : forall s : pyscreen,
  src_subset_observed s = opt_result (subset_observed (fst s) (snd s)).
Proof. exact src_subset_observed_is_model. Qed.
Print Assumptions C14_model_is_source_subset_observed.

Theorem C14_model_is_source_subset_unobserved : forall s : pyscreen,
  src_subset_unobserved s = opt_result (subset_unobserved (fst s) (snd s)).
Proof. exact src_subset_unobserved_is_model. Qed.
Print Assumptions C14_model_is_source_subset_unobserved.

(* Screen.get_plate: Plate(self, self.plate_ids == plate_id) *)
Theorem C14_model_is_source_get_plate : forall (s : pyscreen) (pid : Z),
  src_get_plate s pid = get_plate (fst s) (snd s) pid.
Proof. exact src_get_plate_is_model. Qed.
Print Assumptions C14_model_is_source_get_plate.

(* ScreenBase.unique_plate_ids (np.unique of the plate ids) and Screen.plates ([self.get_plate(x) for x in those]) *)
Theorem C14_model_is_source_plates :
  (forall s : pyscreen, src_unique_plate_ids s = Ok (sort_uniq Z.compare (s_pids (snd s)))) /\
  (forall s : pyscreen, src_plates s = plates (fst s) (snd s)).
Proof. exact (conj src_unique_plate_ids_is_model src_plates_is_model). Qed.
Print Assumptions C14_model_is_source_plates.

(* ScreenSubset.to_screen: Screen(...) with exactly the keywords treatment_names, treatment_doses, observations,
   observation_mask, sample_names, plate_names (each the parent's array at the selected rows, copied) and
   control_treatment_name - and no mappings *)
Theorem C14_model_is_source_to_screen : forall v : view, src_to_screen v = to_screen v.
Proof. exact src_to_screen_is_model. Qed.
Print Assumptions C14_model_is_source_to_screen.

(* the attribute properties of ScreenSubset *)
Theorem C14_model_is_source_attributes : forall v : view,
  src_view_plate_ids v = Ok (view_pids v) /\
  src_view_sample_ids v = Ok (view_sids v) /\
  src_view_treatment_ids v = Ok (view_tids v) /\
  src_view_sample_names v = Ok (view_sample_names v) /\
  src_view_observations v = Ok (view_obs v) /\
  src_view_observation_mask v = Ok (view_mask v) /\
  src_view_treatment_names v = Ok (s_arity (v_parent v), map (map fst) (view_treats v)) /\
  src_view_treatment_doses v = Ok (s_arity (v_parent v), map (map snd) (view_treats v)) /\
  src_view_control_treatment_name v = Ok (s_ctrl (v_parent v)) /\
  src_view_treatment_mapping v = Ok (s_tmap (v_parent v)) /\
  src_view_sample_mapping v = Ok (s_smap (v_parent v)) /\
  src_view_plate_mapping v = Ok (s_pmap (v_parent v)).
Proof. exact src_view_attrs_are_model. Qed.
Print Assumptions C14_model_is_source_attributes.

(* ScreenSubset.single_treatment_effects, for any value of the parent's property: None propagates, else the selected rows *)
Theorem C14_model_is_source_single_treatment_effects : forall (E : Type) (v : view) (parent_value : option (list E)),
  src_view_single_treatment_effects E v parent_value = Ok (view_single_effects v parent_value).
Proof. exact src_view_single_effects_is_model. Qed.
Print Assumptions C14_model_is_source_single_treatment_effects.

(* the attribute getters of Screen (`return self._<attr>`; Generated/SrcScreenAttrs.v): each property of a Screen object is the
   corresponding field of the model screen - the per-row arrays as the columns of its rows, the 2-d arrays with the screen's arity
   as their column count, the id arrays and the three mappings as stored *)
From Batchie Require Import Generated.SrcScreenAttrs.
Theorem C14_model_is_source_screen_attributes : forall s : pyscreen,
  src_screen_plate_ids s = Ok (s_pids (snd s)) /\
  src_screen_sample_ids s = Ok (s_sids (snd s)) /\
  src_screen_treatment_ids s = Ok (s_tids (snd s)) /\
  src_screen_sample_names s = Ok (map r_sample (s_rows (snd s))) /\
  src_screen_treatment_names s = Ok (s_arity (snd s), map (fun r => map fst (r_treats r)) (s_rows (snd s))) /\
  src_screen_treatment_doses s = Ok (s_arity (snd s), map (fun r => map snd (r_treats r)) (s_rows (snd s))) /\
  src_screen_observations s = Ok (map r_obs (s_rows (snd s))) /\
  src_screen_observation_mask s = Ok (map r_mask (s_rows (snd s))) /\
  src_screen_treatment_mapping s = Ok (s_tmap (snd s)) /\
  src_screen_sample_mapping s = Ok (s_smap (snd s)) /\
  src_screen_plate_mapping s = Ok (s_pmap (snd s)).
Proof. exact src_screen_attrs_are_model. Qed.
Print Assumptions C14_model_is_source_screen_attributes.

(* consistency: C14_model_is_source_attributes read the parent's attributes as primitives; with the translated getters in their place
   a view's property is the mask selection of its parent's property (the mappings are handed through) *)
Theorem C14_source_view_attributes_of_parent : forall v : view,
  src_view_plate_ids v = (dor a <- src_screen_plate_ids (view_screen v); Ok (select (v_sel v) a)) /\
  src_view_sample_ids v = (dor a <- src_screen_sample_ids (view_screen v); Ok (select (v_sel v) a)) /\
  src_view_treatment_ids v = (dor a <- src_screen_treatment_ids (view_screen v); Ok (select (v_sel v) a)) /\
  src_view_sample_names v = (dor a <- src_screen_sample_names (view_screen v); Ok (select (v_sel v) a)) /\
  src_view_treatment_names v = (dor a <- src_screen_treatment_names (view_screen v); Ok (select2 (v_sel v) a)) /\
  src_view_treatment_doses v = (dor a <- src_screen_treatment_doses (view_screen v); Ok (select2 (v_sel v) a)) /\
  src_view_observations v = (dor a <- src_screen_observations (view_screen v); Ok (select (v_sel v) a)) /\
  src_view_observation_mask v = (dor a <- src_screen_observation_mask (view_screen v); Ok (select (v_sel v) a)) /\
  src_view_treatment_mapping v = src_screen_treatment_mapping (view_screen v) /\
  src_view_sample_mapping v = src_screen_sample_mapping (view_screen v) /\
  src_view_plate_mapping v = src_screen_plate_mapping (view_screen v).
Proof. exact src_view_attrs_of_parent_getters. Qed.
Print Assumptions C14_source_view_attributes_of_parent.

(* ScreenBase.sample_space_size / treatment_space_size (len of the names column of the mapping the translated property returns): the
   number of rows of the screen's sample / treatment mapping; a ScreenSubset / Plate reports its parent's *)
Theorem C14_model_is_source_space_sizes : forall (s : pyscreen) (v : view),
  src_screen_sample_space_size s = Ok (Z.of_nat (length (s_smap (snd s)))) /\
  src_screen_treatment_space_size s = Ok (Z.of_nat (length (s_tmap (snd s)))) /\
  src_view_sample_space_size v = Ok (Z.of_nat (length (s_smap (v_parent v)))) /\
  src_view_treatment_space_size v = Ok (Z.of_nat (length (s_tmap (v_parent v)))).
Proof. exact src_space_sizes_are_model. Qed.
Print Assumptions C14_model_is_source_space_sizes.

(* ================= the small helpers of data.py, translated as well (Generated/SrcPlates.v) =================
   The configurations of the other links (C06, C11, C13) use these helpers as PRIMITIVES; here they are whole translated
   functions, equal to their models at the end of Model/Views.v for all inputs.  Props/C13.v and Props/C11.v then prove that,
   read through the representation of the Retro vocabulary, they are the meaning those primitives were given. *)
From Batchie Require Import Lib.PyRt Generated.SrcPlates Proofs.C14SourceHelpers.
Open Scope Z_scope.

(* ScreenBase.is_observed (np.all of the mask), n_plates (number of distinct plate ids), unique_sample_ids (np.unique),
   n_unique_samples, unique_treatments (np.unique of ALL entries of the 2-d id array, minus the control sentinel),
   n_unique_treatments, treatment_arity (shape[1]) - on a Screen object *)
Theorem C14_model_is_source_screen_properties : forall s : pyscreen,
  src_screen_is_observed s = Ok (screen_is_observed (snd s)) /\
  src_screen_n_plates s = Ok (Z.of_nat (length (screen_unique_pids (snd s)))) /\
  src_screen_unique_sample_ids s = Ok (screen_unique_sids (snd s)) /\
  src_screen_n_unique_samples s = Ok (Z.of_nat (length (screen_unique_sids (snd s)))) /\
  src_screen_unique_treatments s = Ok (screen_unique_treatments (snd s)) /\
  src_screen_n_unique_treatments s = Ok (Z.of_nat (length (screen_unique_treatments (snd s)))) /\
  src_screen_treatment_arity s = Ok (Z.of_nat (s_arity (snd s))).
Proof. exact src_screen_props_are_model. Qed.
Print Assumptions C14_model_is_source_screen_properties.

(* ... and on a ScreenSubset / Plate object: the same one-liners over the view's attribute arrays *)
Theorem C14_model_is_source_view_properties : forall v : view,
  src_view_unique_plate_ids v = Ok (view_unique_pids v) /\
  src_view_is_observed v = Ok (view_is_observed v) /\
  src_view_n_plates v = Ok (Z.of_nat (length (view_unique_pids v))) /\
  src_view_unique_sample_ids v = Ok (view_unique_sids v) /\
  src_view_n_unique_samples v = Ok (Z.of_nat (length (view_unique_sids v))) /\
  src_view_unique_treatments v = Ok (view_unique_treatments v) /\
  src_view_n_unique_treatments v = Ok (Z.of_nat (length (view_unique_treatments v))) /\
  src_view_treatment_arity v = Ok (Z.of_nat (s_arity (v_parent v))).
Proof. exact src_view_props_are_model. Qed.
Print Assumptions C14_model_is_source_view_properties.

(* Plate.plate_id: the single distinct plate id of the selected rows, refused (29) for none or several *)
Theorem C14_model_is_source_plate_id : forall v : view, src_plate_id v = view_plate_id v.
Proof. exact src_plate_id_is_model. Qed.
Print Assumptions C14_model_is_source_plate_id.

(* Plate.plate_name: the plate NAME of the first selected row of the parent; IndexError (98) when nothing is selected *)
Theorem C14_model_is_source_plate_name : forall v : view, src_plate_name v = view_plate_name v.
Proof. exact src_plate_name_is_model. Qed.
Print Assumptions C14_model_is_source_plate_name.

(* Plate.__lt__: self.size < other.size *)
Theorem C14_model_is_source_plate_lt : forall a b : view, src_plate_lt a b = Ok (view_lt a b).
Proof. exact src_plate_lt_is_model. Qed.
Print Assumptions C14_model_is_source_plate_lt.

(* Plate.merge, the whole method: the identity check on the parents, self's selection becomes the union, the union's rows
   get the name of the union's first row (self.plate_name is read AFTER the union is stored), the parent's plate ids are
   re-encoded from the new names by the translated encode_1d_array_to_0_indexed_ids, self is returned *)
Theorem C14_model_is_source_plate_merge : forall self other : view, src_plate_merge self other = view_merge self other.
Proof. exact src_plate_merge_is_model. Qed.
Print Assumptions C14_model_is_source_plate_merge.

(* Screen.combine: refused for another control name; otherwise Screen(...) on the concatenation self-then-other of each of the
   six per-row arrays (masks concatenated, not combined otherwise), observations and mask passed, no mappings *)
Theorem C14_model_is_source_screen_combine : forall a b : pyscreen, src_screen_combine a b = screen_combine (snd a) (snd b).
Proof. exact src_screen_combine_is_model. Qed.
Print Assumptions C14_model_is_source_screen_combine.

(* common.select_unique_zipped_numpy_arrays, whole: the equal-length check, vstack + transpose, np.unique(axis=0,
   return_index=True) as the first-occurrence primitive, the zero mask with True stored at those indices.  On an empty list
   of arrays numpy's vstack raises (17); the model is never applied to one *)
Theorem C14_model_is_source_select_unique : forall cols : list (list Z),
  src_select_unique cols = match cols with [] => Err 17 | _ => select_unique cols end.
Proof. exact src_select_unique_is_model. Qed.
Print Assumptions C14_model_is_source_select_unique.

(* filter_dataset_to_unique_treatments, whole, on a ScreenSubset and on a Screen: the column list (sample ids, then one
   treatment-id column per position, by the loop over treatment_arity), the unique mask, screen.subset(mask) *)
Theorem C14_model_is_source_filter_unique :
  (forall v : view, src_filter_unique_view v = filter_unique_view v) /\
  (forall s : pyscreen, src_filter_unique_screen s = filter_unique_screen (fst s) (snd s)).
Proof. exact (conj src_filter_unique_view_is_model src_filter_unique_screen_is_model). Qed.
Print Assumptions C14_model_is_source_filter_unique.
Open Scope nat_scope.

(* ================= non-vacuity: concrete instances by computation ================= *)
Definition ex_row (s p : Z) (t1 d1 t2 d2 : Z) (o : Z) (m : bool) : row :=
  {| r_sample := [s]; r_plate := [p]; r_treats := [([t1], d1); ([t2], d2)]; r_obs := o; r_mask := m |}.
(* six experiments, three plates (plate 98 observed), rows 0/3/5 share (sample, treatments), rows 1/4 too *)
Definition ex_rows : list row :=
  [ ex_row 120 98 100 5 101 7 11 true;  ex_row 121 97 100 5 101 7 12 false; ex_row 120 99 101 7 100 5 13 false;
    ex_row 120 97 100 5 101 7 14 false; ex_row 121 98 100 5 101 7 15 true;  ex_row 120 99 100 5 101 7 16 false ]%Z.
Definition ex_screen : screen :=
  match mk_screen ex_rows 2 [] None None true true with Ok s => s | Err _ => empty_screen end.
Definition sel_of (r : result view) : option (list bool) := match r with Ok v => Some (v_sel v) | Err _ => None end.
Definition err_of {A} (r : result A) : option Z := match r with Ok _ => None | Err t => Some t end.

Example C14_ex_screen_built : mk_screen ex_rows 2 [] None None true true = Ok ex_screen /\
  s_sids ex_screen = [0; 1; 0; 0; 1; 0]%Z /\ s_pids ex_screen = [1; 0; 2; 0; 1; 2]%Z.
Proof. vm_compute. repeat split. Qed.
Example C14_ex_screen_ok : screen_wf ex_screen /\ screen_valid ex_screen.
Proof. eapply C14_constructed_screens. exact (proj1 C14_ex_screen_built). Qed.

(* ((plate 0) | rows{0,2}) .subset([T,F,T,T]) , inverted, then made unique *)
Definition ex_tree : vexpr :=
  Unique (Invert (Subset (Combine (GetPlate 0 0) (Base 0 true [true; false; true; false; false; false]))
                         true [true; false; true; true])).
Example C14_ex_tree : sel_of (eval [ex_screen] ex_tree) = Some [false; true; false; false; false; true]
  /\ ref [ex_screen] ex_tree = [1; 5]
  /\ ref [ex_screen] (Invert (Subset (Combine (GetPlate 0 0) (Base 0 true [true; false; true; false; false; false]))
                                      true [true; false; true; true])) = [1; 4; 5].
Proof. vm_compute. repeat split. Qed.
(* the outer selection {0,2,3,5} restricted by the inner mask [F,T,F,T] is {2,5}: the inner mask is written at
   the outer view's true positions, not at a prefix *)
Example C14_ex_subset_positions :
  sel_of (eval [ex_screen] (Subset (Base 0 true [true; false; true; true; false; true]) true [false; true; false; true]))
  = Some [false; false; true; false; false; true].
Proof. vm_compute. reflexivity. Qed.
(* the same through the translated source: Screen.subset, then ScreenSubset.subset; and the translated concat refuses
   views of two parent objects with equal contents *)
Example C14_ex_source_runs :
  sel_of (dor v <- src_screen_subset (0%Z, ex_screen) (true, [true; false; true; true; false; true]);
          src_view_subset v (true, [false; true; false; true]))
  = Some [false; false; true; false; false; true] /\
  err_of (dor a <- src_screen_subset (0%Z, ex_screen) (true, repeat true 6);
          dor b <- src_screen_subset (1%Z, ex_screen) (true, repeat true 6);
          src_view_concat [a; a; b]) = Some 23%Z.
Proof. vm_compute. split; reflexivity. Qed.
Example C14_ex_unique_first :
  sel_of (eval [ex_screen] (UniqueS 0)) = Some [true; true; true; false; false; false]
  /\ select_unique [[3; 1; 3; 1; 2; 3]; [0; 5; 0; 5; 5; 1]]%Z = Ok [true; true; false; false; true; true].
Proof. vm_compute. split; reflexivity. Qed.
Example C14_ex_split :
  sel_of (eval [ex_screen] (Observed 0)) = Some [true; false; false; false; true; false] /\
  sel_of (eval [ex_screen] (Unobserved 0)) = Some [false; true; true; true; false; true] /\
  err_of (eval [ex_screen] (Observed 1)) = Some 26%Z.
Proof. vm_compute. repeat split. Qed.
Example C14_ex_refusals :
  err_of (eval [ex_screen; ex_screen] (Combine (Base 0 true (repeat true 6)) (Base 1 true (repeat true 6)))) = Some 23%Z /\
  err_of (eval [ex_screen; ex_screen] (Concat [Base 0 true (repeat true 6); Base 0 true (repeat false 6); Base 1 true (repeat true 6)])) = Some 23%Z /\
  err_of (eval [ex_screen] (Subset (Base 0 true [true; false; true; false; false; false]) true (repeat true 6))) = Some 22%Z /\
  err_of (eval [ex_screen] (Base 0 false (repeat true 6))) = Some 21%Z /\
  err_of (eval [ex_screen] (Concat [])) = Some 24%Z.
Proof. vm_compute. repeat split. Qed.
(* materialising rows 1 and 4 (sample 121 only): same rows, but the sample id 1 of the parent becomes 0 *)
Example C14_to_screen_may_renumber_ids :
  exists v s, eval [ex_screen] (Base 0 true [false; true; false; false; true; false]) = Ok v /\ to_screen v = Ok s /\
    s_rows s = [nth 1 ex_rows (ex_row 0 0 0 0 0 0 0 false); nth 4 ex_rows (ex_row 0 0 0 0 0 0 0 false)] /\
    view_sids v = [1; 1]%Z /\ s_sids s = [0; 0]%Z.
Proof. eexists. eexists. vm_compute. repeat split. Qed.

(* Plate.merge through the translated source: plates 2 (rows 2, 5, name 99) and 0 (rows 1, 3, name 97) of the example screen.
   The union takes the name of ITS first row in the parent (row 1: 97), the plate ids are re-encoded (two plates are left), the
   merged plate is a view of the new parent; the parent's plate_mapping is not refreshed and still lists three names *)
Example C14_ex_merge :
  match (dor ps <- src_plates (0%Z, ex_screen); dor a <- list_get ps 0%Z; dor b <- list_get ps 2%Z; src_plate_merge b a) with
  | Ok v => v_sel v = [false; true; true; true; false; true] /\
            map r_plate (s_rows (v_parent v)) = [[98]; [97]; [97]; [97]; [98]; [97]]%Z /\
            s_pids (v_parent v) = [1; 0; 0; 0; 1; 0]%Z /\ length (s_pmap (v_parent v)) = 3 /\
            src_plate_id v = Ok 0%Z /\ src_plate_name v = Ok [97]%Z /\ src_view_n_plates v = Ok 1%Z
  | Err _ => False
  end.
Proof. vm_compute. repeat split. Qed.
(* the translated helpers on the example screen *)
Example C14_ex_helpers :
  src_screen_n_plates (0%Z, ex_screen) = Ok 3%Z /\ src_screen_n_unique_samples (0%Z, ex_screen) = Ok 2%Z /\
  src_screen_is_observed (0%Z, ex_screen) = Ok false /\ src_screen_treatment_arity (0%Z, ex_screen) = Ok 2%Z /\
  err_of (dor v <- src_screen_subset (0%Z, ex_screen) (true, repeat false 6); src_plate_name v) = Some 98%Z /\
  err_of (dor v <- src_screen_subset (0%Z, ex_screen) (true, repeat true 6); src_plate_id v) = Some 29%Z /\
  err_of (dor a <- src_get_plate (0%Z, ex_screen) 0%Z; dor b <- src_get_plate (1%Z, ex_screen) 1%Z; src_plate_merge a b) = Some 28%Z /\
  option_map (fun s => map r_mask (s_rows s)) (match src_screen_combine (0%Z, ex_screen) (1%Z, ex_screen) with Ok s => Some s | Err _ => None end)
  = Some [true; false; false; false; true; false; true; false; false; false; true; false].
Proof. vm_compute. repeat split. Qed.

(* ---- Screen.concat and Screen.single_treatment_effects (data.py), re-translated on every run (Generated/SrcPlates.v,
   configurations L10B_SCREEN_CONCAT / L10B_SCREEN_STE; proofs Proofs/C14SourceLeftovers.v) ---- *)
From Batchie Require Generated.SrcPlates Proofs.C14SourceLeftovers.

(* Screen.concat (the two length tests, screens[0], the loop `result = result.combine(screen)` over screens[1:] through the
   translated Screen.combine): an empty list is refused, ONE screen is returned as the same object, otherwise a new object
   (identity new_tag, any value) holding the screens combined from the left *)
Theorem C14_model_is_source_screen_concat : forall (new_tag : Z) (ss : list pyscreen),
  SrcPlates.src_screen_concat new_tag ss
  = match ss with
    | [] => Err 24%Z
    | [s] => Ok s
    | s :: r => dor c <- screen_concat_from (snd s) (map snd r); Ok (new_tag, c)
    end.
Proof. exact C14SourceLeftovers.src_screen_concat_is_model. Qed.
Print Assumptions C14_model_is_source_screen_concat.

(* on the contents, whatever the identities: the model's screen_concat *)
Theorem C14_model_is_source_screen_concat_contents : forall (new_tag : Z) (ss : list pyscreen),
  (dor o <- SrcPlates.src_screen_concat new_tag ss; Ok (snd o)) = screen_concat (map snd ss).
Proof. exact C14SourceLeftovers.src_screen_concat_contents. Qed.
Print Assumptions C14_model_is_source_screen_concat_contents.

(* Screen.single_treatment_effects (the try / except KeyError / return None): for ANY effect-array function and KeyError tag,
   the effect array of the screen's sample ids, treatment ids and observations; None exactly when its construction raises
   KeyError; every other exception passes *)
Theorem C14_model_is_source_screen_single_treatment_effects :
  forall (E : Type) (key_error : Z) (effect_array : list Z -> list (list Z) -> list Z -> result (list E)) (self : pyscreen),
  SrcPlates.src_screen_single_treatment_effects E key_error effect_array self
  = screen_single_effects key_error effect_array (snd self).
Proof. exact C14SourceLeftovers.src_screen_single_effects_is_model. Qed.
Print Assumptions C14_model_is_source_screen_single_treatment_effects.

(* consistency: C14_model_is_source_single_treatment_effects took the parent's property as a primitive VALUE; with the translated
   Screen property in its place a view's property is the row selection of the parent's array (None propagates) *)
Theorem C14_source_view_single_treatment_effects_of_parent :
  forall (E : Type) (key_error : Z) (effect_array : list Z -> list (list Z) -> list Z -> result (list E)) (v : view),
  (dor ste <- SrcPlates.src_screen_single_treatment_effects E key_error effect_array (view_screen v);
   src_view_single_treatment_effects E v ste)
  = (dor ste <- screen_single_effects key_error effect_array (v_parent v); Ok (view_single_effects v ste)).
Proof. exact C14SourceLeftovers.src_view_single_effects_of_parent. Qed.
Print Assumptions C14_source_view_single_treatment_effects_of_parent.

Example C14_ex_screen_concat :
  (exists s, SrcPlates.src_screen_concat 9%Z [(0%Z, ex_screen); (1%Z, ex_screen); (2%Z, ex_screen)] = Ok (9%Z, s) /\ length (s_rows s) = 18) /\
  SrcPlates.src_screen_concat 9%Z [(5%Z, ex_screen)] = Ok (5%Z, ex_screen) /\
  SrcPlates.src_screen_concat 9%Z [] = Err 24%Z.
Proof. split; [eexists; vm_compute; split; reflexivity | split; vm_compute; reflexivity]. Qed.
Example C14_ex_screen_single_effects :
  SrcPlates.src_screen_single_treatment_effects Z 5%Z (fun _ _ _ => Err 5%Z) (0%Z, ex_screen) = Ok None /\
  SrcPlates.src_screen_single_treatment_effects Z 5%Z (fun _ _ _ => Err 4%Z) (0%Z, ex_screen) = Err 4%Z /\
  SrcPlates.src_screen_single_treatment_effects Z 5%Z (fun s _ _ => Ok s) (0%Z, ex_screen) = Ok (Some (s_sids ex_screen)).
Proof. vm_compute. repeat split; reflexivity. Qed.
