(* C04 — Masked observations never influence training, scoring or selection.
   Statements only; every proof is `exact <lemma from Proofs/C04Train.v>` or a vm_compute witness.
   [orc] is every logit, [r32] every float32 cast.  The interaction model has three switches
   (fixed_mask, guard_neg, guard_nan); all false = AS CODED in /repo, see Model/Train.v. *)
From Coq Require Import ZArith List Bool QArith Qcanon.
From Batchie Require Import Lib.Sexp Lib.Num Generated.Consts Model.Encode Model.Screen Model.Train Model.TrainScreen
  Proofs.C04Train Proofs.C04Screen.
Import ListNotations.
Open Scope Z_scope.

(* ---- non-interference of the training data ---- *)
Theorem C04_train_noninterference_sdc : forall orc r32 s1 s2,
  same_except_masked s1 s2 -> train_sdc orc r32 s1 = train_sdc orc r32 s2.
Proof. exact train_sdc_noninterference. Qed.
Print Assumptions C04_train_noninterference_sdc.

(* lookup table and training arrays; as coded and for every repair *)
Theorem C04_train_noninterference_interaction : forall orc r32 fixed_mask guard_neg guard_nan arity s1 s2,
  same_except_masked s1 s2 ->
  train_int orc r32 fixed_mask guard_neg guard_nan arity s1 = train_int orc r32 fixed_mask guard_neg guard_nan arity s2.
Proof. exact train_int_noninterference. Qed.
Print Assumptions C04_train_noninterference_interaction.

(* ---- trained on exactly the observed rows, each once, in order, transformed as documented ---- *)
Theorem C04_trained_exactly_once_sdc : forall orc r32 rows,
  (forall tr, train_sdc orc r32 rows = Ok tr ->
     tr = map (fun r => {| tr_y := ologit orc (oclip (cast32 r32 (t_obs r))); tr_cl := t_sample r;
                           tr_d1 := nth 0 (t_treats r) 0; tr_d2 := nth 1 (t_treats r) 0 |})
              (filter t_mask rows)) /\
  ((forall r, In r rows -> t_mask r = true ->
      o_nonneg (t_obs r) = true /\ o_isnan (sdc_transform orc r32 (t_obs r)) = false /\
      (2 <= length (t_treats r))%nat) ->
   exists tr, train_sdc orc r32 rows = Ok tr).
Proof. exact sdc_exactly_once_full. Qed.
Print Assumptions C04_trained_exactly_once_sdc.

(* the transform is logit(clip(cast y, lo, hi)), finite, with the bounds read from the source *)
Theorem C04_sdc_transform_documented : forall orc r32 v,
  (forall q, cast32 r32 v = OFin q ->
     sdc_transform orc r32 v = OFin (orc ORC_LOGIT (qclip (q_of_pair OBS_CLIP_LO) (q_of_pair OBS_CLIP_HI) q))) /\
  (cast32 r32 v = OInf false -> sdc_transform orc r32 v = OFin (orc ORC_LOGIT (q_of_pair OBS_CLIP_HI))) /\
  (cast32 r32 v = OInf true -> sdc_transform orc r32 v = OFin (orc ORC_LOGIT (q_of_pair OBS_CLIP_LO))) /\
  (cast32 r32 v = ONaN -> sdc_transform orc r32 v = ONaN).
Proof. exact sdc_transform_documented. Qed.
Print Assumptions C04_sdc_transform_documented.

(* interaction model with the repaired mask: exactly the observed rows without a control id *)
Theorem C04_trained_exactly_once_interaction : forall orc r32 guard_neg guard_nan arity rows st,
  train_int orc r32 true guard_neg guard_nan arity rows = Ok st ->
  i_train st = map (fun r => {| tr_y := ologit orc (cast32 r32 (t_obs r)); tr_cl := t_sample r;
                                tr_d1 := nth 0 (t_treats r) 0; tr_d2 := nth 1 (t_treats r) 0 |})
                   (filter (fun r => t_mask r && Nat.eqb (count_ctrl (t_treats r)) 0) rows).
Proof. exact train_int_exactly_once. Qed.
Print Assumptions C04_trained_exactly_once_interaction.

(* the lookup: built from the observed rows only; a non-control entry is the mean of the
   single-agent rows (all ids but one are control) of that sample and treatment *)
Theorem C04_single_effect_documented : forall orc r32 fixed_mask guard_neg guard_nan arity rows st,
  train_int orc r32 fixed_mask guard_neg guard_nan arity rows = Ok st ->
  (i_lookup st = lk_update [] (single_effect_map arity (filter t_mask rows))
   \/ (existsb t_mask rows = false /\ i_lookup st = [])) /\
  forall obs s t v, In ((s, t), v) (single_effect_map arity obs) ->
    (t = CONTROL_SENTINEL_VALUE /\ v = OFin 1%Qc) \/
    (t <> CONTROL_SENTINEL_VALUE /\
     filter (fun r => is_single arity r && single_matches s t r) obs <> [] /\
     v = omean (map t_obs (filter (fun r => is_single arity r && single_matches s t r) obs))).
Proof. exact single_effect_documented_full. Qed.
Print Assumptions C04_single_effect_documented.

(* AS CODED the interaction model trains on the all-control row and on no combination row *)
Definition ids_of (t : trip) : Z * Z * Z := (tr_cl t, tr_d1 t, tr_d2 t).
Definition orc_id : oracle := fun _ x => x.
Definition half : Qc := Q2Qc (1 # 2).
Definition w_rows : list trow :=
  [ {| t_sample := 0; t_plate := 0; t_treats := [0; -1]; t_obs := OFin half; t_mask := true |};
    {| t_sample := 0; t_plate := 0; t_treats := [-1; 1]; t_obs := OFin half; t_mask := true |};
    {| t_sample := 0; t_plate := 0; t_treats := [0; 1]; t_obs := OFin (Q2Qc (1 # 4)); t_mask := true |};
    {| t_sample := 0; t_plate := 0; t_treats := [-1; -1]; t_obs := OFin half; t_mask := true |};
    {| t_sample := 0; t_plate := 1; t_treats := [0; 1]; t_obs := OFin (Q2Qc (3 # 4)); t_mask := false |} ].

Theorem C04_trained_exactly_once_interaction_refuted :
  exists orc r32 arity rows st,
    train_int orc r32 false false false arity rows = Ok st /\
    map ids_of (i_train st) = [(0, -1, -1)] /\
    map ids_of (map (int_trip orc r32) (filter (fun r => t_mask r && Nat.eqb (count_ctrl (t_treats r)) 0) rows))
      = [(0, 0, 1)].
Proof.
  exists orc_id, OFin, 2%nat, w_rows. eexists. split; [vm_compute; reflexivity|].
  split; vm_compute; reflexivity.
Qed.
Print Assumptions C04_trained_exactly_once_interaction_refuted.

(* ---- refusal ---- *)
Theorem C04_refuses_masked : forall (S : Type) (inner : list trow -> result S) rows r,
  In r rows -> t_mask r = false -> add_observations inner rows = Err 1.
Proof. exact add_observations_refuses_masked. Qed.
Print Assumptions C04_refuses_masked.

Theorem C04_refuses_negative_nan_sdc : forall orc r32 rows r,
  In r rows -> (o_negative (t_obs r) = true \/ t_obs r = ONaN) ->
  (forall st, exists t, sdc_add orc r32 st rows = Err t) /\
  (t_mask r = true -> exists t, train_sdc orc r32 rows = Err t).
Proof. exact refuses_negative_nan_sdc_full. Qed.
Print Assumptions C04_refuses_negative_nan_sdc.

Theorem C04_refuses_negative_nan_interaction : forall orc r32 fixed_mask guard_nan arity rows r,
  In r rows -> (o_negative (t_obs r) = true \/ t_obs r = ONaN) ->
  (forall st, exists t, int_add orc r32 fixed_mask true guard_nan st arity rows = Err t) /\
  (t_mask r = true -> exists t, train_int orc r32 fixed_mask true guard_nan arity rows = Err t).
Proof. exact refuses_negative_nan_int_full. Qed.
Print Assumptions C04_refuses_negative_nan_interaction.

(* AS CODED: a negative observation is accepted, and becomes a NaN training target *)
Theorem C04_refuses_negative_interaction_refuted :
  exists orc r32 arity rows r st,
    In r rows /\ t_mask r = true /\ o_negative (t_obs r) = true /\
    int_add orc r32 false false false istate0 arity rows = Ok st /\
    map (fun t => o_isnan (tr_y t)) (i_train st) = [true].
Proof.
  exists orc_id, OFin, 2%nat.
  exists [ {| t_sample := 0; t_plate := 0; t_treats := [-1; -1]; t_obs := OFin (Q2Qc (-3 # 1)); t_mask := true |} ].
  eexists. eexists. split; [left; reflexivity|].
  split; [reflexivity|]. split; [vm_compute; reflexivity|].
  split; vm_compute; reflexivity.
Qed.
Print Assumptions C04_refuses_negative_interaction_refuted.

(* AS CODED: a NaN observation (here on a single-agent row) is accepted and lands in the lookup *)
Theorem C04_refuses_nan_interaction_refuted :
  exists orc r32 arity rows r st,
    In r rows /\ t_mask r = true /\ t_obs r = ONaN /\
    int_add orc r32 false false false istate0 arity rows = Ok st /\
    map (fun kv => (fst kv, o_isnan (snd kv))) (i_lookup st) = [((0, -1), false); ((0, 0), true)].
Proof.
  exists orc_id, OFin, 2%nat.
  exists [ {| t_sample := 0; t_plate := 0; t_treats := [0; -1]; t_obs := ONaN; t_mask := true |} ].
  eexists. eexists. split; [left; reflexivity|].
  split; [reflexivity|]. split; [reflexivity|].
  split; vm_compute; reflexivity.
Qed.
Print Assumptions C04_refuses_nan_interaction_refuted.

(* ---- downstream frame ---- *)
(* what distance / scoring / selection are given is the screen minus the masked values:
   exactly that (iff), so every function of it is blind to them, and the training input is
   one such function *)
Theorem C04_downstream_frame : forall s1 s2,
  (same_except_masked s1 s2 <-> downstream_input s1 = downstream_input s2) /\
  (same_except_masked s1 s2 ->
     forall (A : Type) (f : list drow -> A), f (downstream_input s1) = f (downstream_input s2)) /\
  train_input s1 = view_train_input (downstream_input s1).
Proof. exact downstream_frame_full. Qed.
Print Assumptions C04_downstream_frame.

(* ---- the same over the shared Screen model (names, doses, bit patterns): two argument lists
   of the Screen constructor that differ only in masked observation values are accepted or
   rejected alike, and the constructed screens give equal training data and projections ---- *)
Theorem C04_screen_noninterference : forall orc r32 fixed_mask guard_neg guard_nan rows1 rows2 arity ctrl tm sm s1,
  Forall2 name_row_agree rows1 rows2 ->
  mk_screen rows1 arity ctrl tm sm true true = Ok s1 ->
  exists s2, mk_screen rows2 arity ctrl tm sm true true = Ok s2 /\
    train_sdc orc r32 (trows_of_screen s1) = train_sdc orc r32 (trows_of_screen s2) /\
    train_int orc r32 fixed_mask guard_neg guard_nan arity (trows_of_screen s1)
      = train_int orc r32 fixed_mask guard_neg guard_nan arity (trows_of_screen s2) /\
    downstream_input (trows_of_screen s1) = downstream_input (trows_of_screen s2).
Proof. exact screen_noninterference. Qed.
Print Assumptions C04_screen_noninterference.

(* ---- non-vacuity ---- *)
Definition w_rows' : list trow :=
  [ {| t_sample := 0; t_plate := 0; t_treats := [0; -1]; t_obs := OFin half; t_mask := true |};
    {| t_sample := 0; t_plate := 0; t_treats := [-1; 1]; t_obs := OFin half; t_mask := true |};
    {| t_sample := 0; t_plate := 0; t_treats := [0; 1]; t_obs := OFin (Q2Qc (1 # 4)); t_mask := true |};
    {| t_sample := 0; t_plate := 0; t_treats := [-1; -1]; t_obs := OFin half; t_mask := true |};
    {| t_sample := 0; t_plate := 1; t_treats := [0; 1]; t_obs := ONaN; t_mask := false |} ].

Example C04_hypothesis_satisfiable : same_except_masked w_rows w_rows' /\ w_rows <> w_rows'.
Proof.
  split.
  - unfold w_rows, w_rows'. repeat constructor; cbn; discriminate.
  - intros H. apply (f_equal (fun l => map (fun r => o_isnan (t_obs r)) l)) in H. vm_compute in H. discriminate.
Qed.

(* SparseDrugCombo trains on the four observed rows; the repaired interaction model on the
   one combination row *)
Example C04_sdc_example :
  option_map (map ids_of) (match train_sdc orc_id OFin w_rows with Ok t => Some t | Err _ => None end)
  = Some [(0, 0, -1); (0, -1, 1); (0, 0, 1); (0, -1, -1)].
Proof. vm_compute. reflexivity. Qed.
Example C04_interaction_repaired_example :
  option_map (fun st => map ids_of (i_train st))
    (match train_int orc_id OFin true true true 2 w_rows with Ok t => Some t | Err _ => None end)
  = Some [(0, 0, 1)].
Proof. vm_compute. reflexivity. Qed.
Example C04_refusal_example :
  train_int orc_id OFin true true true 2
    [ {| t_sample := 0; t_plate := 0; t_treats := [-1; -1]; t_obs := OFin (Q2Qc (-3 # 1)); t_mask := true |} ] = Err 2
  /\ sdc_add orc_id OFin [] w_rows = Err 1.
Proof. split; vm_compute; reflexivity. Qed.

(* the bridge on a concrete pair: 0.5 observed; masked 0.75 vs NaN bits *)
Definition w_name_rows (masked_bits : Z) : list row :=
  [ {| r_sample := [120]; r_plate := [112]; r_treats := [([97], 1); ([98], 1)]; r_obs := 4602678819172646912; r_mask := true |};
    {| r_sample := [120]; r_plate := [113]; r_treats := [([97], 1); ([98], 1)]; r_obs := masked_bits; r_mask := false |} ].
Example C04_screen_example :
  match mk_screen (w_name_rows 4604930618986332160) 2 [] None None true true,
        mk_screen (w_name_rows 9221120237041090560) 2 [] None None true true with
  | Ok s1, Ok s2 =>
      map (fun r => (t_sample r, t_plate r, t_treats r, t_mask r)) (trows_of_screen s1)
        = [(0, 0, [0; 1], true); (0, 1, [0; 1], false)]
      /\ map (fun r => o_isnan (t_obs r)) (trows_of_screen s1) = [false; false]
      /\ map (fun r => o_isnan (t_obs r)) (trows_of_screen s2) = [false; true]
      /\ map (fun r => match t_obs r with OFin q => Some (this q) | _ => None end) (trows_of_screen s1)
           = [Some (1 # 2)%Q; Some (3 # 4)%Q]
  | _, _ => False
  end.
Proof. vm_compute. repeat split; reflexivity. Qed.
