(* C04 — Masked observations never influence training, scoring or selection.
   Statements only; every proof is `exact <lemma from Proofs/C04Train.v>` or a vm_compute witness.
   [orc] is every logit, [r32] every float32 cast.  The interaction model has three switches
   (fixed_mask, guard_neg, guard_nan); all false = AS CODED in /repo, see Model/Train.v. *)
From Coq Require Import ZArith List Bool QArith Qcanon.
From Coq Require Import Sorted.
From Batchie Require Import Lib.Sexp Lib.Num Lib.PyRt Generated.Consts Generated.ConstsClip Generated.SrcTrain Model.Encode Model.Screen Model.Train
  Model.TrainScreen Proofs.C04Train Proofs.C04Screen Proofs.C04Source Proofs.C04SourceC20.
From Batchie Require Model.Synergy.
Import ListNotations.
Open Scope Z_scope.

(* ---- non-interference of the training data ---- *)
Theorem C04_train_noninterference_sdc : forall orc r32 s1 s2,
  same_except_masked s1 s2 -> train_sdc orc r32 s1 = train_sdc orc r32 s2.
Proof. exact train_sdc_noninterference. Qed.
Print Assumptions C04_train_noninterference_sdc.

(* lookup table and training arrays; as coded and for every repair *)
Theorem C04_train_noninterference_interaction : forall orc r32 fixed_mask guard_neg guard_nan arity s1 s2,
  same_except_masked s1 s2 ->
  train_int orc r32 fixed_mask guard_neg guard_nan arity s1 = train_int orc r32 fixed_mask guard_neg guard_nan arity s2.
Proof. exact train_int_noninterference. Qed.
Print Assumptions C04_train_noninterference_interaction.

(* ---- trained on exactly the observed rows, each once, in order, transformed as documented ---- *)
Theorem C04_trained_exactly_once_sdc : forall orc r32 rows,
  (forall tr, train_sdc orc r32 rows = Ok tr ->
     tr = map (fun r => {| tr_y := ologit orc (oclip (cast32 r32 (t_obs r))); tr_cl := t_sample r;
                           tr_d1 := nth 0 (t_treats r) 0; tr_d2 := nth 1 (t_treats r) 0 |})
              (filter t_mask rows)) /\
  ((forall r, In r rows -> t_mask r = true ->
      o_nonneg (t_obs r) = true /\ o_isnan (sdc_transform orc r32 (t_obs r)) = false /\
      (2 <= length (t_treats r))%nat) ->
   exists tr, train_sdc orc r32 rows = Ok tr).
Proof. exact sdc_exactly_once_full. Qed.
Print Assumptions C04_trained_exactly_once_sdc.

(* the transform is logit(clip(cast y, lo, hi)), finite, with the bounds read from the source *)
Theorem C04_sdc_transform_documented : forall orc r32 v,
  (forall q, cast32 r32 v = OFin q ->
     sdc_transform orc r32 v = OFin (orc ORC_LOGIT (qclip (q_of_pair OBS_CLIP_LO) (q_of_pair OBS_CLIP_HI) q))) /\
  (cast32 r32 v = OInf false -> sdc_transform orc r32 v = OFin (orc ORC_LOGIT (q_of_pair OBS_CLIP_HI))) /\
  (cast32 r32 v = OInf true -> sdc_transform orc r32 v = OFin (orc ORC_LOGIT (q_of_pair OBS_CLIP_LO))) /\
  (cast32 r32 v = ONaN -> sdc_transform orc r32 v = ONaN).
Proof. exact sdc_transform_documented. Qed.
Print Assumptions C04_sdc_transform_documented.

(* interaction model with the repaired mask: exactly the observed rows without a control id *)
Theorem C04_trained_exactly_once_interaction : forall orc r32 guard_neg guard_nan arity rows st,
  train_int orc r32 true guard_neg guard_nan arity rows = Ok st ->
  i_train st = map (fun r => {| tr_y := ologit orc (cast32 r32 (t_obs r)); tr_cl := t_sample r;
                                tr_d1 := nth 0 (t_treats r) 0; tr_d2 := nth 1 (t_treats r) 0 |})
                   (filter (fun r => t_mask r && Nat.eqb (count_ctrl (t_treats r)) 0) rows).
Proof. exact train_int_exactly_once. Qed.
Print Assumptions C04_trained_exactly_once_interaction.

(* the lookup: built from the observed rows only; a non-control entry is the mean of the
   single-agent rows (all ids but one are control) of that sample and treatment *)
Theorem C04_single_effect_documented : forall orc r32 fixed_mask guard_neg guard_nan arity rows st,
  train_int orc r32 fixed_mask guard_neg guard_nan arity rows = Ok st ->
  (i_lookup st = lk_update [] (single_effect_map arity (filter t_mask rows))
   \/ (existsb t_mask rows = false /\ i_lookup st = [])) /\
  forall obs s t v, In ((s, t), v) (single_effect_map arity obs) ->
    (t = CONTROL_SENTINEL_VALUE /\ v = OFin 1%Qc) \/
    (t <> CONTROL_SENTINEL_VALUE /\
     filter (fun r => is_single arity r && single_matches s t r) obs <> [] /\
     v = omean (map t_obs (filter (fun r => is_single arity r && single_matches s t r) obs))).
Proof. exact single_effect_documented_full. Qed.
Print Assumptions C04_single_effect_documented.

(* AS CODED the interaction model trains on the all-control row and on no combination row *)
Definition ids_of (t : trip) : Z * Z * Z := (tr_cl t, tr_d1 t, tr_d2 t).
Definition orc_id : oracle := fun _ x => x.
Definition half : Qc := Q2Qc (1 # 2).
Definition w_rows : list trow :=
  [ {| t_sample := 0; t_plate := 0; t_treats := [0; -1]; t_obs := OFin half; t_mask := true |};
    {| t_sample := 0; t_plate := 0; t_treats := [-1; 1]; t_obs := OFin half; t_mask := true |};
    {| t_sample := 0; t_plate := 0; t_treats := [0; 1]; t_obs := OFin (Q2Qc (1 # 4)); t_mask := true |};
    {| t_sample := 0; t_plate := 0; t_treats := [-1; -1]; t_obs := OFin half; t_mask := true |};
    {| t_sample := 0; t_plate := 1; t_treats := [0; 1]; t_obs := OFin (Q2Qc (3 # 4)); t_mask := false |} ].

Theorem C04_trained_exactly_once_interaction_refuted :
  exists orc r32 arity rows st,
    train_int orc r32 false false false arity rows = Ok st /\
    map ids_of (i_train st) = [(0, -1, -1)] /\
    map ids_of (map (int_trip orc r32) (filter (fun r => t_mask r && Nat.eqb (count_ctrl (t_treats r)) 0) rows))
      = [(0, 0, 1)].
Proof.
  exists orc_id, OFin, 2%nat, w_rows. eexists. split; [vm_compute; reflexivity|].
  split; vm_compute; reflexivity.
Qed.
Print Assumptions C04_trained_exactly_once_interaction_refuted.

(* ---- refusal ---- *)
Theorem C04_refuses_masked : forall (S : Type) (inner : list trow -> result S) rows r,
  In r rows -> t_mask r = false -> add_observations inner rows = Err 1.
Proof. exact add_observations_refuses_masked. Qed.
Print Assumptions C04_refuses_masked.

Theorem C04_refuses_negative_nan_sdc : forall orc r32 rows r,
  In r rows -> (o_negative (t_obs r) = true \/ t_obs r = ONaN) ->
  (forall st, exists t, sdc_add orc r32 st rows = Err t) /\
  (t_mask r = true -> exists t, train_sdc orc r32 rows = Err t).
Proof. exact refuses_negative_nan_sdc_full. Qed.
Print Assumptions C04_refuses_negative_nan_sdc.

Theorem C04_refuses_negative_nan_interaction : forall orc r32 fixed_mask guard_nan arity rows r,
  In r rows -> (o_negative (t_obs r) = true \/ t_obs r = ONaN) ->
  (forall st, exists t, int_add orc r32 fixed_mask true guard_nan st arity rows = Err t) /\
  (t_mask r = true -> exists t, train_int orc r32 fixed_mask true guard_nan arity rows = Err t).
Proof. exact refuses_negative_nan_int_full. Qed.
Print Assumptions C04_refuses_negative_nan_interaction.

(* AS CODED: a negative observation is accepted, and becomes a NaN training target *)
Theorem C04_refuses_negative_interaction_refuted :
  exists orc r32 arity rows r st,
    In r rows /\ t_mask r = true /\ o_negative (t_obs r) = true /\
    int_add orc r32 false false false istate0 arity rows = Ok st /\
    map (fun t => o_isnan (tr_y t)) (i_train st) = [true].
Proof.
  exists orc_id, OFin, 2%nat.
  exists [ {| t_sample := 0; t_plate := 0; t_treats := [-1; -1]; t_obs := OFin (Q2Qc (-3 # 1)); t_mask := true |} ].
  eexists. eexists. split; [left; reflexivity|].
  split; [reflexivity|]. split; [vm_compute; reflexivity|].
  split; vm_compute; reflexivity.
Qed.
Print Assumptions C04_refuses_negative_interaction_refuted.

(* AS CODED: a NaN observation (here on a single-agent row) is accepted and lands in the lookup *)
Theorem C04_refuses_nan_interaction_refuted :
  exists orc r32 arity rows r st,
    In r rows /\ t_mask r = true /\ t_obs r = ONaN /\
    int_add orc r32 false false false istate0 arity rows = Ok st /\
    map (fun kv => (fst kv, o_isnan (snd kv))) (i_lookup st) = [((0, -1), false); ((0, 0), true)].
Proof.
  exists orc_id, OFin, 2%nat.
  exists [ {| t_sample := 0; t_plate := 0; t_treats := [0; -1]; t_obs := ONaN; t_mask := true |} ].
  eexists. eexists. split; [left; reflexivity|].
  split; [reflexivity|]. split; [reflexivity|].
  split; vm_compute; reflexivity.
Qed.
Print Assumptions C04_refuses_nan_interaction_refuted.

(* ---- downstream frame ---- *)
(* what distance / scoring / selection are given is the screen minus the masked values:
   exactly that (iff), so every function of it is blind to them, and the training input is
   one such function *)
Theorem C04_downstream_frame : forall s1 s2,
  (same_except_masked s1 s2 <-> downstream_input s1 = downstream_input s2) /\
  (same_except_masked s1 s2 ->
     forall (A : Type) (f : list drow -> A), f (downstream_input s1) = f (downstream_input s2)) /\
  train_input s1 = view_train_input (downstream_input s1).
Proof. exact downstream_frame_full. Qed.
Print Assumptions C04_downstream_frame.

(* ---- the same over the shared Screen model (names, doses, bit patterns): two argument lists
   of the Screen constructor that differ only in masked observation values are accepted or
   rejected alike, and the constructed screens give equal training data and projections ---- *)
Theorem C04_screen_noninterference : forall orc r32 fixed_mask guard_neg guard_nan rows1 rows2 arity ctrl tm sm s1,
  Forall2 name_row_agree rows1 rows2 ->
  mk_screen rows1 arity ctrl tm sm true true = Ok s1 ->
  exists s2, mk_screen rows2 arity ctrl tm sm true true = Ok s2 /\
    train_sdc orc r32 (trows_of_screen s1) = train_sdc orc r32 (trows_of_screen s2) /\
    train_int orc r32 fixed_mask guard_neg guard_nan arity (trows_of_screen s1)
      = train_int orc r32 fixed_mask guard_neg guard_nan arity (trows_of_screen s2) /\
    downstream_input (trows_of_screen s1) = downstream_input (trows_of_screen s2).
Proof. exact screen_noninterference. Qed.
Print Assumptions C04_screen_noninterference.

(* ---- non-vacuity ---- *)
Definition w_rows' : list trow :=
  [ {| t_sample := 0; t_plate := 0; t_treats := [0; -1]; t_obs := OFin half; t_mask := true |};
    {| t_sample := 0; t_plate := 0; t_treats := [-1; 1]; t_obs := OFin half; t_mask := true |};
    {| t_sample := 0; t_plate := 0; t_treats := [0; 1]; t_obs := OFin (Q2Qc (1 # 4)); t_mask := true |};
    {| t_sample := 0; t_plate := 0; t_treats := [-1; -1]; t_obs := OFin half; t_mask := true |};
    {| t_sample := 0; t_plate := 1; t_treats := [0; 1]; t_obs := ONaN; t_mask := false |} ].

Example C04_hypothesis_satisfiable : same_except_masked w_rows w_rows' /\ w_rows <> w_rows'.
Proof.
  split.
  - unfold w_rows, w_rows'. repeat constructor; cbn; discriminate.
  - intros H. apply (f_equal (fun l => map (fun r => o_isnan (t_obs r)) l)) in H. vm_compute in H. discriminate.
Qed.

(* SparseDrugCombo trains on the four observed rows; the repaired interaction model on the
   one combination row *)
Example C04_sdc_example :
  option_map (map ids_of) (match train_sdc orc_id OFin w_rows with Ok t => Some t | Err _ => None end)
  = Some [(0, 0, -1); (0, -1, 1); (0, 0, 1); (0, -1, -1)].
Proof. vm_compute. reflexivity. Qed.
Example C04_interaction_repaired_example :
  option_map (fun st => map ids_of (i_train st))
    (match train_int orc_id OFin true true true 2 w_rows with Ok t => Some t | Err _ => None end)
  = Some [(0, 0, 1)].
Proof. vm_compute. reflexivity. Qed.
Example C04_refusal_example :
  train_int orc_id OFin true true true 2
    [ {| t_sample := 0; t_plate := 0; t_treats := [-1; -1]; t_obs := OFin (Q2Qc (-3 # 1)); t_mask := true |} ] = Err 2
  /\ sdc_add orc_id OFin [] w_rows = Err 1.
Proof. split; vm_compute; reflexivity. Qed.

(* the bridge on a concrete pair: 0.5 observed; masked 0.75 vs NaN bits *)
Definition w_name_rows (masked_bits : Z) : list row :=
  [ {| r_sample := [120]; r_plate := [112]; r_treats := [([97], 1); ([98], 1)]; r_obs := 4602678819172646912; r_mask := true |};
    {| r_sample := [120]; r_plate := [113]; r_treats := [([97], 1); ([98], 1)]; r_obs := masked_bits; r_mask := false |} ].
Example C04_screen_example :
  match mk_screen (w_name_rows 4604930618986332160) 2 [] None None true true,
        mk_screen (w_name_rows 9221120237041090560) 2 [] None None true true with
  | Ok s1, Ok s2 =>
      map (fun r => (t_sample r, t_plate r, t_treats r, t_mask r)) (trows_of_screen s1)
        = [(0, 0, [0; 1], true); (0, 1, [0; 1], false)]
      /\ map (fun r => o_isnan (t_obs r)) (trows_of_screen s1) = [false; false]
      /\ map (fun r => o_isnan (t_obs r)) (trows_of_screen s2) = [false; true]
      /\ map (fun r => match t_obs r with OFin q => Some (this q) | _ => None end) (trows_of_screen s1)
           = [Some (1 # 2)%Q; Some (3 # 4)%Q]
  | _, _ => False
  end.
Proof. vm_compute. repeat split; reflexivity. Qed.

(* ---- source-translation links: the functions below are re-translated from /repo into Gallina on every run
   (Generated/SrcTrain.v, harness/py2gal.py with the configurations C04_* of harness/src_functions.py) and the
   hand-written model of Model/Train.v is proved EQUAL to the translation for all inputs.  The wrapped legacy sampler
   object is Train.legacy (its four Python lists and three defaultdict(list)); [legacy_of st] is the object holding the
   training rows st: the four lists are the columns of st, each index dictionary lists every id of its column in order
   of first occurrence with the ascending row numbers that hold it. ---- *)

(* BayesianModel.add_observations, for EVERY model class (inner = its _add_observations, any state type) *)
Theorem C04_model_is_source_add_observations :
  forall (S : Type) (inner : S -> list trow -> result S) (self : S) (rows : list trow),
  src_add_observations S inner self rows = add_observations (inner self) rows.
Proof. exact src_add_observations_is_model. Qed.
Print Assumptions C04_model_is_source_add_observations.

(* LegacySparseDrugComboImpl._update and LegacySparseDrugComboInteractionImpl._update (and n_obs) *)
Theorem C04_model_is_source_legacy_update : forall st y cl d1 d2,
  src_legacy_update (legacy_of st) y cl d1 d2 = Ok (legacy_of (st ++ [mk_trip y cl d1 d2])) /\
  src_legacy_int_update (legacy_of st) y cl d1 d2 = Ok (legacy_of (st ++ [mk_trip y cl d1 d2])) /\
  src_legacy_n_obs (legacy_of st) = Ok (Z.of_nat (length st)) /\
  src_legacy_int_n_obs (legacy_of st) = Ok (Z.of_nat (length st)).
Proof.
  intros st y cl d1 d2.
  exact (conj (src_legacy_update_is_model st y cl d1 d2) (conj (src_legacy_int_update_is_model st y cl d1 d2)
              (src_legacy_n_obs_is_model st))).
Qed.
Print Assumptions C04_model_is_source_legacy_update.

(* any number of _update calls on a fresh object: the lists are the columns of the calls and the index dictionaries
   are the positions of each id (one entry per id, in order of first occurrence; ascending row numbers from 0) *)
Theorem C04_model_is_source_legacy_index_invariant : forall calls : list trip,
  (res_fold (fun w t => src_legacy_update w (tr_y t) (tr_cl t) (tr_d1 t) (tr_d2 t)) calls (legacy_of []) = Ok (legacy_of calls)) /\
  (res_fold (fun w t => src_legacy_int_update w (tr_y t) (tr_cl t) (tr_d1 t) (tr_d2 t)) calls (legacy_of []) = Ok (legacy_of calls)) /\
  let w := legacy_of calls in
  lg_y w = map tr_y calls /\ lg_cline w = map tr_cl calls /\ lg_dd1 w = map tr_d1 calls /\ lg_dd2 w = map tr_d2 calls /\
  lg_cline_idxs w = index_dict (lg_cline w) /\ lg_dd1_idxs w = index_dict (lg_dd1 w) /\ lg_dd2_idxs w = index_dict (lg_dd2 w) /\
  (forall col k l, In (k, l) (index_dict col) <-> In k col /\ l = positions k col) /\
  (forall col, NoDup (map fst (index_dict col))) /\
  (forall col k j, In j (positions k col) <-> 0 <= j /\ nth_error col (Z.to_nat j) = Some k) /\
  (forall col k, StronglySorted Z.lt (positions k col)).
Proof. exact legacy_index_invariant. Qed.
Print Assumptions C04_model_is_source_legacy_index_invariant.

(* SparseDrugCombo._add_observations, on every reachable wrapped object *)
Theorem C04_model_is_source_sdc_add_observations : forall orc r32 (st : list trip) (rows : list trow),
  src_sdc_add_observations orc r32 (legacy_of st) rows = dor t <- sdc_inner orc r32 st rows; Ok (legacy_of t).
Proof. exact src_sdc_add_observations_is_model. Qed.
Print Assumptions C04_model_is_source_sdc_add_observations.

(* the public entry point: translated guard around the translated _add_observations = sdc_add *)
Theorem C04_model_is_source_sdc_add : forall orc r32 st rows,
  src_add_observations legacy (src_sdc_add_observations orc r32) (legacy_of st) rows
  = dor t <- sdc_add orc r32 st rows; Ok (legacy_of t).
Proof. exact src_sdc_add_is_model. Qed.
Print Assumptions C04_model_is_source_sdc_add.

(* create_single_treatment_effect_map on the three columns of any row list *)
Theorem C04_model_is_source_create_single_treatment_effect_map : forall (arity : nat) (rows : list trow),
  src_create_single_treatment_effect_map oval oone omean arity (map t_sample rows) (map t_treats rows) (map t_obs rows)
  = if Z.of_nat arity <? 2 then Err 4 else Ok (single_effect_map arity rows).
Proof. exact src_single_effect_map_is_model. Qed.
Print Assumptions C04_model_is_source_create_single_treatment_effect_map.

(* the same translated function at exact rationals (O = Qc, one = 1, mean = qmean) is C20's column-level model
   Synergy.effect_map, on every n x arity id array with two 1-d arrays of n entries (C20's model also covers
   misaligned arrays = numpy's IndexError, which the translation's mask primitive does not represent; it tags the
   arity ValueError 1 where the C04 models use 4) *)
Theorem C04_model_is_source_create_single_treatment_effect_map_c20 :
  forall (arity : nat) (sids : list Z) (tids : list (list Z)) (obs : list Qc),
  Forall (fun row => length row = arity) tids -> length sids = length tids -> length obs = length tids ->
  src_create_single_treatment_effect_map Qc 1%Qc qmean arity sids tids obs
  = if Nat.ltb arity 2 then Err 4 else Synergy.effect_map arity sids tids obs.
Proof. exact src_single_effect_map_is_c20_model. Qed.
Print Assumptions C04_model_is_source_create_single_treatment_effect_map_c20.

(* SparseDrugComboInteraction._add_observations = the interaction model with ALL repair switches true *)
Theorem C04_model_is_source_interaction_add_observations : forall orc r32 (arity : nat) (st : istate) (rows : list trow),
  src_int_add_observations orc r32 arity (i_lookup st) (legacy_of (i_train st)) rows
  = dor s <- int_inner orc r32 true true true st arity rows; Ok (i_lookup s, legacy_of (i_train s)).
Proof. exact src_int_add_observations_is_model. Qed.
Print Assumptions C04_model_is_source_interaction_add_observations.

Theorem C04_model_is_source_interaction_add : forall orc r32 arity st rows,
  src_add_observations (lookup * legacy)
    (fun self d => src_int_add_observations orc r32 arity (fst self) (snd self) d)
    (i_lookup st, legacy_of (i_train st)) rows
  = dor s <- int_add orc r32 true true true st arity rows; Ok (i_lookup s, legacy_of (i_train s)).
Proof. exact src_int_add_is_model. Qed.
Print Assumptions C04_model_is_source_interaction_add.

(* the translation determines the switches: no other variant of the interaction model equals the source *)
Theorem C04_source_variant_unique : forall fixed_mask guard_neg guard_nan : bool,
  (forall orc r32 arity st rows,
     src_int_add_observations orc r32 arity (i_lookup st) (legacy_of (i_train st)) rows
     = dor s <- int_inner orc r32 fixed_mask guard_neg guard_nan st arity rows; Ok (i_lookup s, legacy_of (i_train s)))
  <-> (fixed_mask = true /\ guard_neg = true /\ guard_nan = true).
Proof. exact int_source_variant_unique. Qed.
Print Assumptions C04_source_variant_unique.

(* non-vacuity: the translated functions run on the witness rows; the second call continues the row numbering *)
Example C04_source_example :
  (match src_add_observations legacy (src_sdc_add_observations orc_id OFin) (legacy_of []) (filter t_mask w_rows) with
   | Ok w => Some (lg_cline w, lg_dd1 w, lg_dd2 w, lg_dd1_idxs w)
   | Err _ => None
   end) = Some ([0; 0; 0; 0], [0; -1; 0; -1], [-1; 1; 1; -1], [(0, [0; 2]); (-1, [1; 3])])
  /\ (match (dor w <- src_sdc_add_observations orc_id OFin (legacy_of []) (filter t_mask w_rows);
             src_sdc_add_observations orc_id OFin w (filter t_mask w_rows)) with
      | Ok w => Some (lg_dd1_idxs w)
      | Err _ => None
      end) = Some [(0, [0; 2; 4; 6]); (-1, [1; 3; 5; 7])]
  /\ src_add_observations legacy (src_sdc_add_observations orc_id OFin) (legacy_of []) w_rows = Err 1
  /\ (match src_int_add_observations orc_id OFin 2 [] (legacy_of []) (filter t_mask w_rows) with
      | Ok p => Some (map fst (fst p), lg_cline (snd p), lg_dd1 (snd p), lg_dd2 (snd p))
      | Err _ => None
      end) = Some ([(0, -1); (0, 0); (0, 1)], [0], [0], [1]).
Proof. vm_compute. repeat split; reflexivity. Qed.

(* ---- the command-line wrapper train_model.main is what the source says NOW ----
   `src_cli_train_model` is the whole function main of /repo's current batchie/cli/train_model.py, re-translated on every run
   (configuration CLI_TRAIN_MODEL -> Generated/SrcCli.v): the model built on ExperimentSpace.from_screen of the loaded screen is handed
   add_observations(screen.subset_observed()) - the OBSERVED subset only, nothing when it is None - then sample(...) with the seed /
   chain arguments, and the result is saved.
   Model/Cli.v: the parsed arguments are a record of the plain argparse results (get_args() is not translated), `L` is a
   record of the library functions the wrapper calls over abstract types (each component stands for the library function
   of that name with its parameter list; `*_load_*` = what loading the file at a path yields), a main() denotes the list
   of (path, content) files it writes, Err = the exception that ends it.  The links hold for EVERY such record. *)
From Batchie Require Lib.PyRt Model.Cli Generated.SrcCli Proofs.C04SourceCli.
Theorem C04_model_is_source_cli_train_model : forall (Scr Sub Sp Pa Mo Th : Type) (L : Cli.tm_lib Scr Sub Sp Pa Mo Th) (params : Pa) (a : Cli.tm_args),
  SrcCli.src_cli_train_model Scr Sub Sp Pa Mo Th L params a
  = Cli.cli_train_model L params a.
Proof. exact C04SourceCli.src_cli_train_model_is_model. Qed.
Print Assumptions C04_model_is_source_cli_train_model.

(* ---- the argument-handling glue of train_model is what the source says NOW ----
   `src_tm_get_args` is the WHOLE function get_args of /repo's current batchie/cli/train_model.py (parser.parse_args() is the primitive that
   yields the raw namespace; the statements after it - class lookup by name, required-argument annotations, cast of the KEY=VALUE
   parameters - are translated), `src_cli_train_model_cmd` is main() once more as a whole command, in which get_args() is the translated
   get_args and `args.model_cls( **args.model_params)` is `construct` on the two namespace attributes; both re-translated on every run (configurations
   ARGS_GET_ARGS_TM / ARGS_CMD_TM -> Generated/SrcCliArgs.v).  Model: the last part of Model/Cli.v; `I` = introspection.get_class /
   get_required_init_args_with_annotations (linked to their own translations in Props/C18.v), `P` = s.lower(), int(s), float(s), the call of
   another annotation object; cast_dict_to_type is the translated function (Props/C18.v).  The statements hold for EVERY such record. *)
From Batchie Require Proofs.C04SourceArgs Proofs.C18SourceIntrospect Generated.SrcCliArgs.
Theorem C04_model_is_source_cli_args_get_args : forall (Cls F O : Type) (I : Cli.introspect Cls) (P : Cli.pyprims F O)
  (raw : Cli.tm_ns Cls F O),
  SrcCliArgs.src_tm_get_args Cls F O I P raw = Cli.tm_get_args I P raw.
Proof. exact C04SourceArgs.src_tm_get_args_is_model. Qed.
Print Assumptions C04_model_is_source_cli_args_get_args.

(* the whole command: tm_construct of C04_model_is_source_cli_train_model IS the class found under the name --model, instantiated
   with the cast --model-param values to which main() has added the experiment space *)
Theorem C04_model_is_source_cli_args_train_model :
  forall (Cls F O : Type) (I : Cli.introspect Cls) (P : Cli.pyprims F O) (Scr Sub Sp Mo Th : Type)
         (construct : Cls -> list (Cli.str * Cli.pval F O) -> result Mo)
         (L : Cli.tm_lib Scr Sub Sp (list (Cli.str * Cli.pval F O)) Mo Th) (raw : Cli.tm_ns Cls F O),
  SrcCliArgs.src_cli_train_model_cmd Cls F O I P Scr Sub Sp Mo Th construct L raw
  = Cli.cli_train_model_cmd I P construct L raw.
Proof. exact C04SourceArgs.src_cli_train_model_cmd_is_model. Qed.
Print Assumptions C04_model_is_source_cli_args_train_model.

Theorem C04_model_is_source_cli_args_train_model_world :
  forall (Mod Obj F O : Type) (W : Cli.pyworld Mod Obj) (P : Cli.pyprims F O) (Scr Sub Sp Mo Th : Type)
         (construct : Obj -> list (Cli.str * Cli.pval F O) -> result Mo)
         (L : Cli.tm_lib Scr Sub Sp (list (Cli.str * Cli.pval F O)) Mo Th) (raw : Cli.tm_ns Obj F O),
  SrcCliArgs.src_cli_train_model_cmd Obj F O (C18SourceIntrospect.introspect_src W) P Scr Sub Sp Mo Th construct L raw
  = Cli.cli_train_model_cmd (Cli.introspect_of W) P construct L raw.
Proof. exact C04SourceArgs.src_cli_train_model_cmd_world. Qed.
Print Assumptions C04_model_is_source_cli_args_train_model_world.

(* ---- the argparse option tables: get_parser() of train_model, re-read from /repo on every run by the fail-closed reader
   harness/argparse_reader.py (Generated/SrcParser_<command>.v; a get_parser that is not a plain sequence of literal
   parser.add_argument calls is refused and these theorems stop compiling).  What the argument records of Model/Cli.v assume of
   the namespace parse_args() yields - the premise of the C??_model_is_source_cli_* links - is provided by the declared options:
   Cli.declares = the attribute is the dest of EXACTLY ONE option, which stores the assumed kind of value and can be None exactly
   where the record has an option type; Cli.dests_derived = the dest the reader computed is argparse's derivation from the flags;
   Cli.dests_distinct = no dest and no flag is declared twice; Cli.seed_declared = --seed is an int option with a non-negative int
   default (get_prng_from_seed_argument never sees None); Cli.coordinates_int = --n-chunks / --chunk-index / --n-chains /
   --chain-index are int options that are never None; Cli.params_kv = every --*-param option accumulates through KVAppendAction;
   Cli.fraction_declared = --holdout-fraction is a float option with a default in [0, 1]. ---- *)

From Batchie Require Model.Cli Proofs.C18Parser Generated.SrcParser_train_model Proofs.C18SourceParser_train_model.
Theorem C04_source_parser_train_model_fields :
  forall f, In f (Cli.tm_fields ++ Cli.logging_fields) -> Cli.declares SrcParser_train_model.src_parser_train_model f.
Proof. exact C18SourceParser_train_model.parser_train_model_fields. Qed.
Print Assumptions C04_source_parser_train_model_fields.

Theorem C04_source_parser_train_model_dests_derived :
  Cli.dests_derived SrcParser_train_model.src_parser_train_model.
Proof. exact C18SourceParser_train_model.parser_train_model_dests_derived. Qed.
Print Assumptions C04_source_parser_train_model_dests_derived.

Theorem C04_source_parser_train_model_dests_distinct :
  Cli.dests_distinct SrcParser_train_model.src_parser_train_model.
Proof. exact C18SourceParser_train_model.parser_train_model_dests_distinct. Qed.
Print Assumptions C04_source_parser_train_model_dests_distinct.

Theorem C04_source_parser_train_model_seed :
  Cli.seed_declared SrcParser_train_model.src_parser_train_model.
Proof. exact C18SourceParser_train_model.parser_train_model_seed. Qed.
Print Assumptions C04_source_parser_train_model_seed.

Theorem C04_source_parser_train_model_coordinates :
  Cli.coordinates_int SrcParser_train_model.src_parser_train_model.
Proof. exact C18SourceParser_train_model.parser_train_model_coordinates. Qed.
Print Assumptions C04_source_parser_train_model_coordinates.

Theorem C04_source_parser_train_model_params :
  Cli.params_kv SrcParser_train_model.src_parser_train_model.
Proof. exact C18SourceParser_train_model.parser_train_model_params. Qed.
Print Assumptions C04_source_parser_train_model_params.

(* ==== the downstream clause: posterior samples, distance matrix, scores, selected plate ====
   Model/Downstream.v: the input of every downstream stage as a function of the projection `downstream_input`, and one whole
   iteration of the loop (`loop_iteration`: training -> sampler sweeps against recorded draws -> distance chunks, save, load,
   concat, dense -> score chunks, save, load, concat -> selection with no policy or KPerSamplePlatePolicy k) composed of the
   stage models of C08 / C07 / C06 / C16, for ANY prediction function of (posterior sample, row ids), ANY metric, ANY scorer.
   Proofs/C04DownSrc.v: the same stages as the TRANSLATED functions of /repo (the src_ definitions), applied to the same projections. *)
From Batchie Require Import Model.Downstream Proofs.C04Down Proofs.C04DownSrc.
From Batchie Require Model.Scores Model.Policy Model.Gibbs Model.DistMat Generated.SrcScoring Generated.SrcScoringPolicy
  Generated.SrcDistMat Generated.SrcGibbs Proofs.C06SourceCliScores Proofs.C07SourcePipeline.

(* what score_chunk / select_next_plate, the policy, the predictions and training read of a screen are functions of the
   projection *)
Theorem C04_downstream_views_factor : forall rows,
  scores_screen_of rows = dn_scores_screen (downstream_input rows) /\
  policy_plates_of rows = dn_policy_plates (downstream_input rows) /\
  pred_rows_of rows = dn_pred_rows (downstream_input rows) /\
  train_input rows = dn_train (downstream_input rows).
Proof. exact views_factor_full. Qed.
Print Assumptions C04_downstream_views_factor.

(* one whole iteration: posterior samples, dense distance matrix, combined scores and the selected plate are identical *)
Theorem C04_loop_noninterference : forall (V : Type) (vzero : V) predict metric scorer orc r32 (c : loop_cfg) s1 s2,
  same_except_masked s1 s2 ->
  loop_iteration V vzero predict metric scorer orc r32 c s1 = loop_iteration V vzero predict metric scorer orc r32 c s2.
Proof. exact loop_iteration_noninterference. Qed.
Print Assumptions C04_loop_noninterference.

(* ... because every stage reads the projection only (training through subset_observed of it) *)
Theorem C04_loop_reads_projection : forall (V : Type) (vzero : V) predict metric scorer orc r32 (c : loop_cfg) rows,
  loop_iteration V vzero predict metric scorer orc r32 c rows =
  (dor th <- (match dn_train (downstream_input rows) with
              | Some o => dor t <- sdc_add orc r32 [] o;
                          match gibbs_data t with
                          | None => Err 3
                          | Some d => match run_sweeps (lc_g c) d orc (lc_s0 c) (lc_vals c) with
                                      | Some th => Ok th | None => Err 9 end
                          end
              | None => match run_sweeps (lc_g c) {| Gibbs.d_y := []; Gibbs.d_cl := []; Gibbs.d_dd1 := []; Gibbs.d_dd2 := [] |}
                                orc (lc_s0 c) (lc_vals c) with
                        | Some th => Ok th | None => Err 9 end
              end);
   dor dm <- loop_dist V vzero predict metric c th (downstream_input rows);
   dor h <- loop_scores V scorer c th dm (downstream_input rows);
   dor sel <- loop_select c h (downstream_input rows);
   Ok (th, dm, h, sel)).
Proof. exact loop_iteration_factors. Qed.
Print Assumptions C04_loop_reads_projection.

(* the posterior samples come from sweeps on exactly the documented training data of the observed rows *)
Theorem C04_loop_thetas_from_observed : forall orc r32 (c : loop_cfg) rows th,
  loop_thetas orc r32 c rows = Ok th ->
  exists t d, train_sdc orc r32 rows = Ok t /\ gibbs_data t = Some d /\
    t = map (fun r => {| tr_y := ologit orc (oclip (cast32 r32 (t_obs r))); tr_cl := t_sample r;
                         tr_d1 := nth 0 (t_treats r) 0; tr_d2 := nth 1 (t_treats r) 0 |}) (filter t_mask rows) /\
    Gibbs.d_cl d = map t_sample (filter t_mask rows) /\
    run_sweeps (lc_g c) d orc (lc_s0 c) (lc_vals c) = Some th.
Proof. exact loop_thetas_data. Qed.
Print Assumptions C04_loop_thetas_from_observed.

(* ---- the same of the translated source, stage by stage ---- *)
(* training as train_model.main calls it: translated guard around the translated _add_observations on a fresh object *)
Theorem C04_source_train_stage : forall orc r32 rows,
  src_stage_train orc r32 rows = dor t <- train_sdc orc r32 rows; Ok (legacy_of t).
Proof. exact src_stage_train_is_model. Qed.
Print Assumptions C04_source_train_stage.

(* the interaction model's training stage: (lookup, wrapped object) = the fully repaired train_int; equal for both screens *)
Theorem C04_source_train_stage_interaction : forall orc r32 arity rows,
  src_stage_train_int orc r32 arity rows
  = dor s <- train_int orc r32 true true true arity rows; Ok (i_lookup s, legacy_of (i_train s)).
Proof. exact src_stage_train_int_is_model. Qed.
Print Assumptions C04_source_train_stage_interaction.

Theorem C04_source_train_stage_interaction_noninterference : forall orc r32 arity s1 s2, same_except_masked s1 s2 ->
  src_stage_train_int orc r32 arity s1 = src_stage_train_int orc r32 arity s2.
Proof. exact src_stage_train_int_noninterference. Qed.
Print Assumptions C04_source_train_stage_interaction_noninterference.

(* posterior samples: the translated mcmc_step (Generated/SrcGibbs.v), its blocks run by ANY runner that is handed the data
   the translated training stored (C08's translated blocks are one), against any recorded draws *)
Theorem C04_source_thetas_noninterference : forall run orc r32 s0 vals s1 s2, same_except_masked s1 s2 ->
  src_stage_thetas run orc r32 s0 vals s1 = src_stage_thetas run orc r32 s0 vals s2.
Proof. exact src_stage_thetas_noninterference. Qed.
Print Assumptions C04_source_thetas_noninterference.

Theorem C04_source_thetas_data : forall run orc r32 s0 vals rows,
  src_stage_thetas run orc r32 s0 vals rows =
  dor t <- train_sdc orc r32 rows;
  match gibbs_data t with
  | None => Err 3
  | Some d => match src_sweeps run d 0 s0 vals with Some th => Ok th | None => Err 9 end
  end.
Proof. exact src_stage_thetas_data. Qed.
Print Assumptions C04_source_thetas_data.

(* distance matrix: C07's composition of the translated calculate_pairwise_distance_matrix_on_predictions / save / load / concat /
   to_dense, predictions any function of (sample, row ids) *)
Theorem C04_source_distance_noninterference : forall (V : Type) (vzero : V) visz (T : Type) (dflt : T) predict metric th s1 s2 c order,
  same_except_masked s1 s2 ->
  src_stage_dist V vzero visz T dflt predict metric th s1 c order = src_stage_dist V vzero visz T dflt predict metric th s2 c order.
Proof. exact src_stage_dist_noninterference. Qed.
Print Assumptions C04_source_distance_noninterference.

(* scores: translated score_chunk per chunk, file round trip, translated ChunkedScoresHolder.concat - any scorer, chunk count,
   chunk order, batch *)
Theorem C04_source_scores_noninterference : forall scorer s1 s2 rng batch n order, same_except_masked s1 s2 ->
  src_stage_scores scorer s1 rng batch n order = src_stage_scores scorer s2 rng batch n order.
Proof. exact src_stage_scores_noninterference. Qed.
Print Assumptions C04_source_scores_noninterference.

Theorem C04_source_scores_stage : forall (V : Type) (scorer : list Gibbs.st -> list (list V) -> Scores.scorer_fn) c th dm rows rng,
  src_stage_scores (scorer th dm) rows rng (lc_batch c) (lc_schunks c) (lc_sorder c)
  = loop_scores V scorer c th dm (downstream_input rows).
Proof. exact src_stage_scores_is_model. Qed.
Print Assumptions C04_source_scores_stage.

(* selection: translated select_next_plate with no policy / any policy function ... *)
Theorem C04_source_select_noninterference : forall policy h s1 s2 batch rng, same_except_masked s1 s2 ->
  src_stage_select policy h s1 batch rng = src_stage_select policy h s2 batch rng.
Proof. exact src_stage_select_noninterference. Qed.
Print Assumptions C04_source_select_noninterference.

Theorem C04_source_select_stage : forall policy h rows batch rng,
  src_stage_select policy h rows batch rng = Scores.select_next policy (dn_scores_screen (downstream_input rows)) batch h.
Proof. exact src_stage_select_is_model. Qed.
Print Assumptions C04_source_select_stage.

(* ... and with KPerSamplePlatePolicy(k): C16's translation, a Plate = (id, sample ids of its rows), is_observed = all mask bits *)
Theorem C04_source_select_k_noninterference : forall k h s1 s2 batch rng, same_except_masked s1 s2 ->
  src_stage_select_k k h s1 batch rng = src_stage_select_k k h s2 batch rng.
Proof. exact src_stage_select_k_noninterference. Qed.
Print Assumptions C04_source_select_k_noninterference.

(* the whole iteration composed of the translations *)
Theorem C04_source_loop_noninterference : forall (V : Type) (vzero : V) visz run predict metric scorer orc r32 (c : loop_cfg) s1 s2,
  same_except_masked s1 s2 ->
  src_loop_iteration V vzero visz run predict metric scorer orc r32 c s1
  = src_loop_iteration V vzero visz run predict metric scorer orc r32 c s2.
Proof. exact src_loop_iteration_noninterference. Qed.
Print Assumptions C04_source_loop_noninterference.

(* ---- the four command-line steps: the translated main() functions (Generated/SrcCli.v) run on two file systems whose
   screens differ only behind the mask write the same files.  train_model: any model class / sampler; the other three
   with the library calls standing for the translated library functions. ---- *)
Theorem C04_source_cli_train_model_noninterference :
  forall Sp Pa Mo Th fs1 fs2 from_ids set_space construct new_holder add_obs sample params a, fs_agree fs1 fs2 ->
  SrcCli.src_cli_train_model _ _ Sp Pa Mo Th (tm_lib_fs Sp Pa Mo Th fs1 from_ids set_space construct new_holder add_obs sample) params a
  = SrcCli.src_cli_train_model _ _ Sp Pa Mo Th (tm_lib_fs Sp Pa Mo Th fs2 from_ids set_space construct new_holder add_obs sample) params a.
Proof. exact src_cli_train_model_noninterference. Qed.
Print Assumptions C04_source_cli_train_model_noninterference.

(* with SparseDrugCombo, what sampling.sample is handed holds exactly the training trips of the observed rows *)
Theorem C04_source_cli_train_model_sdc :
  forall Sp Pa X Th fs from_ids set_space (construct : Pa -> result X) new_holder sample orc r32 params a,
  SrcCli.src_cli_train_model _ _ Sp Pa (X * legacy) Th
    (tm_lib_fs Sp Pa (X * legacy) Th fs from_ids set_space (fun pa => dor x <- construct pa; Ok (x, legacy_of [])) new_holder
       (fun m d => dor w <- SrcTrain.src_add_observations legacy (SrcTrain.src_sdc_add_observations orc r32) (snd m) d; Ok (fst m, w))
       sample) params a
  = dor s <- fs (Cli.tm_data a);
    dor sp <- from_ids (pred_rows_of s);
    dor x <- construct (set_space params sp);
    dor holder <- new_holder (Cli.tm_n_samples a);
    dor t <- train_sdc orc r32 s;
    dor results <- sample (x, legacy_of t) holder (Cli.tm_seed a) (Some (Cli.tm_n_chains a)) (Some (Cli.tm_chain_index a))
                     (Some (Cli.tm_n_burnin a)) (Some (Cli.tm_thin a)) (Cli.tm_progress a);
    Ok [(Cli.tm_output a, results)].
Proof. exact src_cli_train_model_sdc_trains. Qed.
Print Assumptions C04_source_cli_train_model_sdc.

Theorem C04_source_cli_calculate_distance_matrix_noninterference :
  forall (V : Type) (vzero : V) visz (T : Type) (dflt : T) predict fs1 fs2 load_thetas mk_metric a, fs_agree fs1 fs2 ->
  SrcCli.src_cli_calculate_distance_matrix _ _ _ _ (cd_lib_fs V vzero visz T dflt predict fs1 load_thetas mk_metric) a
  = SrcCli.src_cli_calculate_distance_matrix _ _ _ _ (cd_lib_fs V vzero visz T dflt predict fs2 load_thetas mk_metric) a.
Proof. exact src_cli_calculate_distance_matrix_noninterference. Qed.
Print Assumptions C04_source_cli_calculate_distance_matrix_noninterference.

Theorem C04_source_cli_calculate_scores_noninterference :
  forall (Th Dm : Type) fs1 fs2 mk_scorer load_thetas concat_thetas load_dist concat_dist mix a, fs_agree fs1 fs2 ->
  SrcCli.src_cli_calculate_scores _ _ _ _ _ _
    (C06SourceCliScores.cs_scores_lib Th Dm (scores_fs fs1) mk_scorer load_thetas concat_thetas load_dist concat_dist) mix a
  = SrcCli.src_cli_calculate_scores _ _ _ _ _ _
    (C06SourceCliScores.cs_scores_lib Th Dm (scores_fs fs2) mk_scorer load_thetas concat_thetas load_dist concat_dist) mix a.
Proof. exact src_cli_calculate_scores_noninterference. Qed.
Print Assumptions C04_source_cli_calculate_scores_noninterference.

Theorem C04_source_cli_select_next_plate_noninterference : forall fs1 fs2 mk_policy load_scores mix a, fs_agree fs1 fs2 ->
  SrcCli.src_cli_select_next_plate _ _ _ _ (C06SourceCliScores.sn_scores_lib (scores_fs fs1) mk_policy load_scores) mix a
  = SrcCli.src_cli_select_next_plate _ _ _ _ (C06SourceCliScores.sn_scores_lib (scores_fs fs2) mk_policy load_scores) mix a.
Proof. exact src_cli_select_next_plate_noninterference. Qed.
Print Assumptions C04_source_cli_select_next_plate_noninterference.

(* non-vacuity: on the witness screens (observed plate 0, masked plate 1 holding 0.75 / NaN) the translated stages run: the
   size-like scorer is handed plate 1 with its row, the holder has one slot, plate 1 is selected - without a policy and with
   KPerSamplePlatePolicy(1); with k = 2 the only sample has too few plates and nothing is eligible *)
Example C04_source_downstream_example :
  let sc : Scores.scorer_fn := fun ps => map (fun p => (fst p, Z.of_nat (length (snd p)))) ps in
  match src_stage_scores sc w_rows (Some tt) [] 2 [0; 1], src_stage_scores sc w_rows' (Some tt) [] 2 [0; 1] with
  | Ok h, Ok h' =>
      Scores.h_slots h = [(1, 1)] /\ h' = h /\
      src_stage_select None h w_rows [] (Some tt) = Ok (Some 1) /\
      src_stage_select_k 1 h w_rows' [] (Some tt) = Ok (Some 1) /\
      src_stage_select_k 2 h w_rows [] (Some tt) = Ok None /\
      policy_plates_of w_rows' = [((0, [0; 0; 0; 0]), true); ((1, [0]), false)]
  | _, _ => False
  end.
Proof. vm_compute. repeat split; reflexivity. Qed.

(* ==== the third shipped BayesianModel subclass: ComboGridFactorModel (models/grid_combo.py; variational, selectable with --model).
   `src_grid_add_observations` is its whole method _add_observations re-translated on every run (configuration C04_GRID_ADD ->
   Generated/SrcTrainGrid.v); the six numpy arrays of the object are six lists, [grid_cols st] the object holding the training
   entries st; grid_helper.unpack_data(use_mask=True) is a primitive: row-wise over the rows with mask, by ANY per-row function u
   of (sample id, treatment ids) - Model/Train.v, last part. ==== *)
From Batchie Require Import Generated.SrcTrainGrid Proofs.C04SourceGrid.

Theorem C04_model_is_source_grid_add_observations : forall (C : Type) (u : unpack_fn C) (st : list (gtrip C)) (rows : list trow),
  (let '(s, c, e, d, f, y) := grid_cols st in src_grid_add_observations C u s c e d f y rows)
  = dor t <- grid_inner u st rows; Ok (grid_cols t).
Proof. exact src_grid_add_observations_is_model. Qed.
Print Assumptions C04_model_is_source_grid_add_observations.

Theorem C04_model_is_source_grid_add : forall (C : Type) (u : unpack_fn C) (st : list (gtrip C)) (rows : list trow),
  src_add_observations _
    (fun (self : list Z * list C * list C * list Z * list Z * list oval) d =>
       let '(s, c, e, dd, f, y) := self in src_grid_add_observations C u s c e dd f y d)
    (grid_cols st) rows
  = dor t <- grid_add u st rows; Ok (grid_cols t).
Proof. exact src_grid_add_is_model. Qed.
Print Assumptions C04_model_is_source_grid_add.

Theorem C04_train_noninterference_grid : forall (C : Type) (u : unpack_fn C) s1 s2,
  same_except_masked s1 s2 -> train_grid u s1 = train_grid u s2.
Proof. exact train_grid_noninterference. Qed.
Print Assumptions C04_train_noninterference_grid.

(* one entry per observed row, in order: the row's unpacked ids / concentrations and clip(y, 0, 1); accepted whenever no observed
   value is negative or NaN *)
Theorem C04_trained_exactly_once_grid : forall (C : Type) (u : unpack_fn C) rows,
  (forall t, train_grid u rows = Ok t ->
     t = map (fun r => {| gt_u := u (t_sample r) (t_treats r); gt_y := oclip_at 0%Qc 1%Qc (t_obs r) |}) (filter t_mask rows)) /\
  ((forall r, In r rows -> t_mask r = true -> o_nonneg (t_obs r) = true) -> exists t, train_grid u rows = Ok t).
Proof. exact train_grid_exactly_once. Qed.
Print Assumptions C04_trained_exactly_once_grid.

Theorem C04_refuses_grid : forall (C : Type) (u : unpack_fn C) (st : list (gtrip C)) rows r, In r rows ->
  (t_mask r = false -> grid_add u st rows = Err 1) /\
  ((o_negative (t_obs r) = true \/ t_obs r = ONaN) ->
     (exists t, grid_add u st rows = Err t) /\ (t_mask r = true -> exists t, train_grid u rows = Err t)).
Proof.
  exact (fun C u st rows r Hi => conj (grid_refuses_masked C u st rows r Hi) (grid_refuses_negative_nan C u st rows r Hi)).
Qed.
Print Assumptions C04_refuses_grid.

Example C04_grid_example :
  let u : unpack_fn unit := fun s t => (s, nth 0 t 0, nth 1 t 0, tt, tt) in
  option_map (map (fun t => (gt_u t, match gt_y t with OFin q => Some (this q) | _ => None end)))
    (match train_grid u w_rows' with Ok t => Some t | Err _ => None end)
  = Some [((0, 0, -1, tt, tt), Some (1 # 2)%Q); ((0, -1, 1, tt, tt), Some (1 # 2)%Q); ((0, 0, 1, tt, tt), Some (1 # 4)%Q);
          ((0, -1, -1, tt, tt), Some (1 # 2)%Q)]
  /\ (let '(s, c, e, d, f, y) := grid_cols (C := unit) [] in src_grid_add_observations unit u s c e d f y w_rows') = Err 2.
Proof. vm_compute. split; reflexivity. Qed.

(* ==== "the data handed to the model": the observed subset's rows are identical (C04_downstream_frame, train_input); its
   computed attribute single_treatment_effects is NOT, as coded - the parent's table is built from all rows, masked included
   (witness: an observed single-agent well 0.5 and a masked replicate holding 0.5 / 1 give the observed row the effect 0.5 / 0.75).
   No shipped model reads the attribute, so the training arrays and everything downstream are unaffected; computed from the
   observed rows only it would be blind. ==== *)
From Batchie Require Import Proofs.C04View.
Theorem C04_handed_view_single_effects_refuted :
  exists arity s1 s2, same_except_masked s1 s2 /\
    subset_observed_single_effects arity s1 = Some [[OFin v_half; OFin 1%Qc]] /\
    subset_observed_single_effects arity s2 = Some [[OFin (Q2Qc (3 # 4)); OFin 1%Qc]].
Proof. exact handed_view_single_effects_refuted. Qed.
Print Assumptions C04_handed_view_single_effects_refuted.

Theorem C04_handed_view_single_effects_repaired : forall arity s1 s2, same_except_masked s1 s2 ->
  subset_observed_single_effects_repaired arity s1 = subset_observed_single_effects_repaired arity s2.
Proof. exact handed_view_single_effects_repaired. Qed.
Print Assumptions C04_handed_view_single_effects_repaired.
