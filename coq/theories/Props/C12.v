(* C12 — Plates are observed atomically; revealing is exact, monotone, value-preserving.
   Statements only; every proof is `exact <lemma from Proofs/>`.

   Vocabulary (Model/Reveal.v, Model/Screen.v, Proofs/C12Reveal.v):
     step v s o / history v ops s   the lifecycle operations reveal(ids) / mask / unmask / save+load on a screen,
                                    for ANY variant v (whether or not the call sites pass the mappings: C12 does
                                    not depend on the C03 defect)
     constructed s                  s was returned by some call of the Screen constructor
     plates_encoded s               the plate ids of s are the encoding of its plate names (true of every
                                    constructed screen and preserved by set_observed)
     reveal_row ids (r, pid)        r with mask := r_mask r || (pid in ids), nothing else touched
     row_core r                     (sample, plate, treatments with doses, stored observation bits)
   reveal_plates takes ONE screen; the plate ids are that screen's own (they are re-derived from the plate
   names on every construction), which is how the model selects. *)
From Coq Require Import ZArith List Bool.
From Batchie Require Import Lib.Sexp Generated.Consts Model.Encode Model.Screen Model.Reveal Model.Holdout
  Proofs.C03Base Proofs.C03Screen Proofs.C12Reveal Proofs.C12Counters Proofs.C03Frozen Proofs.C12Defined Proofs.C03Witness Proofs.C12Examples
  Generated.SrcReveal Proofs.C12Source_Base Proofs.C12Source_Reveal Proofs.C12Source_Variant Proofs.C12Source_SetObserved Proofs.C12Source.
Import ListNotations.
Open Scope Z_scope.

(* ---- atomic_invariant ---- *)
Theorem C12_atomic_invariant : forall v ops s0 s,
  constructed s0 -> history v ops s0 = Ok s -> plate_uniform (s_rows s) = true.
Proof. exact atomic_invariant. Qed.
Print Assumptions C12_atomic_invariant.

Theorem C12_atomic_invariant_lifecycle : forall v p sel test ops s,
  lifecycle v p sel test ops = Ok s -> plate_uniform (s_rows s) = true.
Proof. exact atomic_invariant_lifecycle. Qed.
Print Assumptions C12_atomic_invariant_lifecycle.

(* no operation of a history is ever refused because a plate would become mixed (error tag 2) *)
Theorem C12_history_never_mixed : forall v ops s0 s o,
  constructed s0 -> history v ops s0 = Ok s -> step v s o <> Err 2.
Proof. exact history_never_mixed. Qed.
Print Assumptions C12_history_never_mixed.

(* what plate_uniform says: rows of one plate have one mask *)
Theorem C12_plate_uniform_meaning : forall rows,
  plate_uniform rows = true <->
  (forall r1 r2, In r1 rows -> In r2 rows -> r_plate r1 = r_plate r2 -> r_mask r1 = r_mask r2).
Proof. exact plate_uniform_spec. Qed.
Print Assumptions C12_plate_uniform_meaning.

Theorem C12_constructed_plates_encoded : forall s, constructed s -> plates_encoded s.
Proof. exact constructed_plates. Qed.
Print Assumptions C12_constructed_plates_encoded.

(* ---- reveal_exact ---- *)
Theorem C12_reveal_exact : forall v s ids s',
  plates_encoded s -> reveal_plates v s ids = Ok s' ->
  s_rows s' = map (reveal_row ids) (combine (s_rows s) (s_pids s)) /\
  map row_core (s_rows s') = map row_core (s_rows s) /\
  s_pids s' = s_pids s /\ s_pmap s' = s_pmap s.
Proof. exact reveal_exact. Qed.
Print Assumptions C12_reveal_exact.

Theorem C12_reveal_mask : forall v s ids s',
  plates_encoded s -> reveal_plates v s ids = Ok s' ->
  map r_mask (s_rows s') = map (fun rp => r_mask (fst rp) || mem_Z (snd rp) ids) (combine (s_rows s) (s_pids s)).
Proof. exact reveal_mask_eq. Qed.
Print Assumptions C12_reveal_mask.

Theorem C12_reveal_monotone : forall v s ids s' i r r',
  plates_encoded s -> reveal_plates v s ids = Ok s' ->
  nth_error (s_rows s) i = Some r -> nth_error (s_rows s') i = Some r' ->
  row_core r' = row_core r /\ (r_mask r = true -> r_mask r' = true).
Proof. exact reveal_monotone. Qed.
Print Assumptions C12_reveal_monotone.

(* revealing is defined whenever its two guards pass (any variant; a call site that passes the mappings on
   needs them to pass the constructor's check, which holds for both halves of a split and is preserved).
   reveal_zero_guard (Model/Reveal.v) = the zero guard of the code as repaired by fix fx5: the selected values are all
   zero (or nothing is selected), or SOME selected plate's own values are all zero; C12_reveal_zero_guard_meaning below *)
Theorem C12_reveal_defined : forall v s ids,
  constructed s -> (carry_reveal v = true -> mappings_valid s) ->
  reveal_zero_guard s ids = false -> existsb obs_is_nan (revealed_values s ids) = false ->
  exists s', reveal_plates v s ids = Ok s'.
Proof. exact reveal_defined. Qed.
Print Assumptions C12_reveal_defined.

Theorem C12_step_defined : forall v s o,
  constructed s -> (carries v o = true -> mappings_valid s) ->
  match o with
  | Reveal ids => reveal_zero_guard s ids = false /\ existsb obs_is_nan (revealed_values s ids) = false
  | _ => True
  end -> exists s', step v s o = Ok s'.
Proof. exact step_defined. Qed.
Print Assumptions C12_step_defined.

Theorem C12_repaired_lifecycle_defined : forall p sel test ops s o,
  lifecycle (carry_mappings true) p sel test ops = Ok s ->
  match o with
  | Reveal ids => reveal_zero_guard s ids = false /\ existsb obs_is_nan (revealed_values s ids) = false
  | _ => True
  end -> exists s', step (carry_mappings true) s o = Ok s'.
Proof. exact repaired_lifecycle_defined. Qed.
Print Assumptions C12_repaired_lifecycle_defined.

(* ---- unobserved_drop ---- *)
Theorem C12_unobserved_drop : forall v s ids s',
  plates_encoded s -> reveal_plates v s ids = Ok s' ->
  n_unobserved_plates s = (n_unobserved_plates s' + length (newly_revealed s ids))%nat /\
  n_plates s' = n_plates s /\ unique_plate_ids s' = unique_plate_ids s.
Proof. exact unobserved_drop. Qed.
Print Assumptions C12_unobserved_drop.

(* what is counted: newly_revealed is the duplicate-free list of the screen's plate ids that are named in ids
   (however often, among whatever unknown ids) and were not observed; a plate is observed iff all its rows are *)
Theorem C12_newly_revealed_meaning : forall s ids,
  NoDup (newly_revealed s ids) /\
  forall pid, In pid (newly_revealed s ids) <-> (In pid (s_pids s) /\ In pid ids /\ plate_observed s pid = false).
Proof. exact newly_revealed_spec. Qed.
Print Assumptions C12_newly_revealed_meaning.

Theorem C12_unique_plate_ids_meaning : forall s,
  NoDup (unique_plate_ids s) /\ forall pid, In pid (unique_plate_ids s) <-> In pid (s_pids s).
Proof. exact unique_plate_ids_spec. Qed.
Print Assumptions C12_unique_plate_ids_meaning.

Theorem C12_plate_observed_meaning : forall s pid,
  plate_observed s pid = true <->
  (forall r, In (r, pid) (combine (s_rows s) (s_pids s)) -> r_mask r = true).
Proof. exact plate_observed_spec. Qed.
Print Assumptions C12_plate_observed_meaning.

Theorem C12_counters_add_up : forall s, (n_observed_plates s + n_unobserved_plates s = n_plates s)%nat.
Proof. exact observed_plus_unobserved. Qed.
Print Assumptions C12_counters_add_up.

(* ---- ctor_rules ---- *)
Theorem C12_ctor_rejects_mixed : forall rows a c tm sm r1 r2,
  arity_ok a rows = true -> In r1 rows -> In r2 rows -> r_plate r1 = r_plate r2 -> r_mask r1 <> r_mask r2 ->
  mk_screen rows a c tm sm true true = Err 2.
Proof. exact ctor_rejects_mixed. Qed.
Print Assumptions C12_ctor_rejects_mixed.

Theorem C12_ctor_err2_only_if_mixed : forall rows a c tm sm og mg,
  mk_screen rows a c tm sm og mg = Err 2 ->
  og = true /\ mg = true /\
  exists r1 r2, In r1 rows /\ In r2 rows /\ r_plate r1 = r_plate r2 /\ r_mask r1 <> r_mask r2.
Proof. exact ctor_err2_only_if_mixed. Qed.
Print Assumptions C12_ctor_err2_only_if_mixed.

Theorem C12_ctor_obs_without_mask : forall rows a c tm sm s,
  mk_screen rows a c tm sm true false = Ok s ->
  s_rows s = map (with_mask true) rows /\
  (forall r, In r (s_rows s) -> r_mask r = true) /\ map r_obs (s_rows s) = map r_obs rows.
Proof. exact ctor_obs_without_mask. Qed.
Print Assumptions C12_ctor_obs_without_mask.

Theorem C12_ctor_no_obs : forall rows a c tm sm mg s,
  mk_screen rows a c tm sm false mg = Ok s ->
  mg = false /\ (forall r, In r (s_rows s) -> r_mask r = false /\ r_obs r = 0) /\
  map (fun r => (r_sample r, r_plate r, r_treats r)) (s_rows s) = map (fun r => (r_sample r, r_plate r, r_treats r)) rows.
Proof. exact ctor_no_obs. Qed.
Print Assumptions C12_ctor_no_obs.

Theorem C12_ctor_mask_without_obs : forall rows a c tm sm,
  arity_ok a rows = true -> mk_screen rows a c tm sm false true = Err 7.
Proof. exact ctor_mask_without_obs. Qed.
Print Assumptions C12_ctor_mask_without_obs.

(* ---- set_observed_exact ---- *)
Theorem C12_set_observed_exact : forall s sel vals s',
  set_observed s sel vals = Ok s' ->
  length sel = length (s_rows s) /\
  (exists vs, (vs = vals \/ exists x, vals = [x] /\ vs = repeat x (count_true sel)) /\
              length vs = count_true sel /\
              forall i, nth_error (s_rows s') i =
                        match nth_error sel i with
                        | Some true => option_map (with_obs (nth (rank sel i) vs 0)) (nth_error (s_rows s) i)
                        | _ => nth_error (s_rows s) i
                        end) /\
  s_arity s' = s_arity s /\ s_ctrl s' = s_ctrl s /\ s_tmap s' = s_tmap s /\ s_smap s' = s_smap s /\ s_pmap s' = s_pmap s /\
  s_tids s' = s_tids s /\ s_sids s' = s_sids s /\ s_pids s' = s_pids s.
Proof. exact set_observed_exact. Qed.
Print Assumptions C12_set_observed_exact.

Theorem C12_set_observed_refuses : forall s sel vals,
  (length sel <> length (s_rows s) -> set_observed s sel vals = Err 10) /\
  (length sel = length (s_rows s) -> length vals <> count_true sel -> length vals <> 1%nat -> set_observed s sel vals = Err 11).
Proof. exact set_observed_refuses. Qed.
Print Assumptions C12_set_observed_refuses.

(* ---- reveal_refuses ---- *)
Theorem C12_reveal_refuses_zero : forall v s ids,
  forallb obs_is_zero (revealed_values s ids) = true -> reveal_plates v s ids = Err 8.
Proof. exact reveal_refuses_zero. Qed.
Print Assumptions C12_reveal_refuses_zero.

(* ids naming no plate of the screen — in particular the empty id list — select nothing, and np.all([]) is True *)
Theorem C12_reveal_refuses_unknown : forall v s ids,
  (forall pid, In pid ids -> ~ In pid (s_pids s)) -> reveal_plates v s ids = Err 8.
Proof. exact reveal_refuses_unknown. Qed.
Print Assumptions C12_reveal_refuses_unknown.

(* a NaN among the selected values: refused - with the NaN error (9) unless the zero guard, which the code tests first,
   already refused it (8: another selected plate holds only zeros; never because the selection is jointly zero) *)
Theorem C12_reveal_refuses_nan : forall v s ids,
  existsb obs_is_nan (revealed_values s ids) = true ->
  forallb obs_is_zero (revealed_values s ids) = false /\
  reveal_plates v s ids = Err (if reveal_zero_guard s ids then 8 else 9).
Proof. exact reveal_refuses_nan. Qed.
Print Assumptions C12_reveal_refuses_nan.

(* ---- the other operations are exact too ---- *)
Theorem C12_mask_exact : forall v s s',
  plates_encoded s -> mask_screen v s = Ok s' ->
  s_rows s' = map (with_mask false) (s_rows s) /\ s_pids s' = s_pids s /\ s_pmap s' = s_pmap s.
Proof. exact mask_exact. Qed.
Print Assumptions C12_mask_exact.

Theorem C12_unmask_exact : forall v s s',
  plates_encoded s -> unmask_screen v s = Ok s' ->
  s_rows s' = map (with_mask true) (s_rows s) /\ s_pids s' = s_pids s /\ s_pmap s' = s_pmap s.
Proof. exact unmask_exact. Qed.
Print Assumptions C12_unmask_exact.

Theorem C12_save_load_exact : forall s s',
  plates_encoded s -> save_load s = Ok s' ->
  s_rows s' = s_rows s /\ s_pids s' = s_pids s /\ s_pmap s' = s_pmap s.
Proof. exact save_load_exact. Qed.
Print Assumptions C12_save_load_exact.

(* ---- the model IS the source ----
   Generated/SrcReveal.v holds the translations (harness/py2gal.py, configurations C12_* of harness/src_functions.py) of
   the WHOLE functions batchie.retrospective.reveal_plates / mask_screen / unmask_screen and batchie.data.Screen.set_observed,
   and of the two statement runs of Screen.__init__ that decide observations / observation_mask, regenerated from the
   source on every run.  A Screen object is a [screen]; its array attributes are the columns of its rows (col_*, end of
   Model/Reveal.v); Screen(...) is the model's constructor applied to the keyword arguments THE CALL SITE passes (py_screen:
   an argument that is not passed is None), so that the call sites pass observation_mask = old | reveal_mask / zeros / ones
   and both id mappings is read from the source, not assumed.  Every theorem above about reveal_plates v / mask_screen v /
   unmask_screen v holds for all variants v, in particular for the source's. *)
Theorem C12_model_is_source_reveal_plates : forall (s : screen) (ids : list Z),
  src_reveal_plates s ids = reveal_plates (carry_mappings true) s ids.
Proof. exact src_reveal_plates_is_model. Qed.
Print Assumptions C12_model_is_source_reveal_plates.

Theorem C12_model_is_source_mask_screen : forall s : screen,
  src_mask_screen s = mask_screen (carry_mappings true) s.
Proof. exact src_mask_screen_is_model. Qed.
Print Assumptions C12_model_is_source_mask_screen.

Theorem C12_model_is_source_unmask_screen : forall s : screen,
  src_unmask_screen s = unmask_screen (carry_mappings true) s.
Proof. exact src_unmask_screen_is_model. Qed.
Print Assumptions C12_model_is_source_unmask_screen.

(* set_observed: the translated method acts on the two arrays it writes (self._observations, self._observation_mask);
   the model's result is the screen with these two columns replaced (set_cols) - nothing else is assigned by the method *)
Theorem C12_model_is_source_set_observed : forall (s : screen) (sel : list bool) (vals : list Z),
  set_observed s sel vals
  = dor p <- src_set_observed (col_obs s) (col_mask s) sel vals; Ok (set_cols s (fst p) (snd p)).
Proof. exact set_observed_is_src. Qed.
Print Assumptions C12_model_is_source_set_observed.

(* Screen.__init__, statement run 1 (observations None / mask None handling) on the arrays of a constructor call with
   observations given iff og and mask given iff mg: the model's Err 7, or the observation and mask columns of the rows
   the model's constructor stores (norm_rows = the `rows` mk_screen binds, Proofs/C03Screen.mk_screen_unfold) *)
Theorem C12_model_is_source_init_observations : forall (rows : list row) (og mg : bool),
  src_init_observations (if og then Some (map r_obs rows) else None) (if mg then Some (map r_mask rows) else None)
                        (Z.of_nat (length rows))
  = if negb og && mg then Err 7
    else Ok (map r_obs (norm_rows og mg rows), map r_mask (norm_rows og mg rows)).
Proof. exact src_init_observations_spec. Qed.
Print Assumptions C12_model_is_source_init_observations.

(* statement run 2 (the loop over np.unique(plate_names)) IS the model's plate_uniform *)
Theorem C12_model_is_source_init_plate_check : forall rows : list row,
  src_init_plate_check (map r_plate rows) (map r_mask rows) = if plate_uniform rows then Ok tt else Err 2.
Proof. exact src_init_plate_check_spec. Qed.
Print Assumptions C12_model_is_source_init_plate_check.

(* together: the model's constructor, whatever the call passes, refuses ragged rows, runs the translated mask rules, and
   is then the constructor on the rows they leave with observations and mask given *)
Theorem C12_model_is_source_init_mask_rules : forall rows a c tm sm og mg,
  mk_screen rows a c tm sm og mg
  = if negb (arity_ok a rows) then Err 1
    else dor rows' <- src_mask_rules rows og mg; mk_screen rows' a c tm sm true true.
Proof. exact mk_screen_is_src_mask_rules. Qed.
Print Assumptions C12_model_is_source_init_mask_rules.

(* the arrays the translated reveal_plates hands to numpy / zips into rows have one entry per row on every screen
   whose plate ids are encoded (every constructed screen): the case in which np_or / select / zip_rows would stop at
   a shorter list, where numpy raises, does not arise *)
Theorem C12_source_arrays_aligned : forall s ids,
  plates_encoded s ->
  length (np_isin (s_pids s) ids) = length (s_rows s) /\ length (col_obs s) = length (s_rows s) /\
  length (col_mask s) = length (s_rows s) /\ length (np_or (col_mask s) (np_isin (s_pids s) ids)) = length (s_rows s).
Proof. exact source_arrays_aligned. Qed.
Print Assumptions C12_source_arrays_aligned.

(* ---- non-vacuity (vm_compute).  w_parent (Proofs/C03Witness.v): plates p0 (unobserved, values 0.5 0.25),
   p1, p2 (observed); plate ids 0 1 2.  view r = (masks, n_unobserved_plates) of an Ok result; zrow p obs = an
   unobserved row on plate p with stored bits obs (Proofs/C12Examples.v). ---- *)
(* reveal plate 0, named twice, among an already observed and an unknown id: exactly p0 becomes observed,
   the counter drops from 1 to 0 = by the one newly revealed plate *)
Example C12_reveal_example :
  view (Ok w_parent) = Some ([false; false; true; true; true; true], 1%nat) /\
  view (reveal_plates (carry_mappings false) w_parent [0; 2; 0; 99]) = Some ([true; true; true; true; true; true], 0%nat) /\
  newly_revealed w_parent [0; 2; 0; 99] = [0].
Proof. vm_compute. repeat split; reflexivity. Qed.

(* revealing only already observed plates changes nothing; empty and unknown selections are refused *)
Example C12_reveal_observed_example :
  view (reveal_plates (carry_mappings true) w_parent [1; 2]) = view (Ok w_parent) /\
  reveal_plates (carry_mappings false) w_parent [] = Err 8 /\ reveal_plates (carry_mappings false) w_parent [99; -3] = Err 8.
Proof. vm_compute. repeat split; reflexivity. Qed.

(* a plate whose stored values are +0.0 and -0.0 is refused (8); one containing a NaN is refused (9); both together:
   the zero guard comes first (8); the zero plate (48) beside a plate holding 0.5 and 0.25 (50): refused (8) since fix
   fx5, while the plate 50 alone is revealed *)
Example C12_refuse_example :
  (dor s <- mk_screen [zrow 48 0; zrow 48 two63; zrow 49 9221120237041090560; zrow 49 4602678819172646912;
                       zrow 50 4602678819172646912; zrow 50 4598175219545276416] 1 [] None None true true;
   Ok (reveal_plates (carry_mappings false) s [0], reveal_plates (carry_mappings false) s [1],
       reveal_plates (carry_mappings false) s [0; 1], reveal_plates (carry_mappings false) s [0; 2],
       reveal_plates (carry_mappings false) s [2; 1],
       option_map fst (view (reveal_plates (carry_mappings false) s [2]))))
  = Ok (Err 8, Err 9, Err 8, Err 8, Err 9, Some [false; false; false; false; true; true]).
Proof. vm_compute. reflexivity. Qed.

(* constructor: a plate with mixed status is rejected *)
Example C12_mixed_example :
  mk_screen [zrow 48 1; with_mask true (zrow 48 1)] 1 [] None None true true = Err 2.
Proof. vm_compute. reflexivity. Qed.

(* set_observed on part of a plate is outside the atomicity clause: it leaves the plate mixed, and the next
   constructor call (here an unrelated reveal) is refused with the mixed-plate error *)
Example C12_set_observed_example :
  (dor s <- set_observed w_parent [true; false; false; false; false; false] [4607182418800017408];
   Ok (map r_obs (firstn 2 (s_rows s)), map r_mask (firstn 2 (s_rows s)), plate_uniform (s_rows s),
       reveal_plates (carry_mappings false) s [1]))
  = Ok ([4607182418800017408; 4598175219545276416], [true; false], false, Err 2).
Proof. vm_compute. reflexivity. Qed.

(* plate ids are per screen: the training half of the witness split lost plate p0, so its plates p1 p2 have
   ids 0 1 while the parent numbers them 1 2; reveal_plates(train, [0]) therefore addresses p1 *)
Example C12_plate_ids_per_screen_example :
  s_pids w_parent = [0; 0; 1; 1; 2; 2] /\ map r_plate (s_rows w_train) = map r_plate (skipn 2 (s_rows w_parent)) /\
  s_pids w_train = [0; 0; 1; 1].
Proof. vm_compute. repeat split; reflexivity. Qed.

(* the translated functions run: the reveal of C12_reveal_example, mask / unmask, and a partial-plate set_observed *)
Example C12_source_example :
  view (src_reveal_plates w_parent [0; 2; 0; 99]) = Some ([true; true; true; true; true; true], 0%nat) /\
  src_reveal_plates w_parent [] = Err 8 /\
  view (src_mask_screen w_parent) = Some ([false; false; false; false; false; false], 3%nat) /\
  view (src_unmask_screen w_parent) = Some ([true; true; true; true; true; true], 0%nat) /\
  (dor p <- src_set_observed (col_obs w_parent) (col_mask w_parent) [true; false; false; false; false; false] [4607182418800017408];
   Ok (firstn 2 (fst p), firstn 2 (snd p))) = Ok ([4607182418800017408; 4598175219545276416], [true; false]) /\
  src_set_observed (col_obs w_parent) (col_mask w_parent) [true] [0] = Err 10 /\
  src_init_observations None (Some [true]) 1 = Err 7 /\
  src_init_observations (Some [5]) None 1 = Ok ([5], [true]) /\
  src_init_plate_check [[48]; [49]; [48]] [true; false; false] = Err 2.
Proof. vm_compute. repeat split; reflexivity. Qed.

(* ---- the command-line wrappers reveal_plate.main and extract_screen_metadata.main is what the source says NOW ----
   `src_cli_reveal_plate` / `src_cli_extract_screen_metadata` are the whole functions main of /repo's current
   batchie/cli/reveal_plate.py / extract_screen_metadata.py, re-translated on every run (configurations CLI_REVEAL_PLATE /
   CLI_EXTRACT_METADATA -> Generated/SrcCli.v).
   Model/Cli.v: the parsed arguments are a record of the plain argparse results (get_args() is not translated), `L` is a
   record of the library functions the wrapper calls over abstract types (each component stands for the library function
   of that name with its parameter list; `*_load_*` = what loading the file at a path yields), a main() denotes the list
   of (path, content) files it writes, Err = the exception that ends it.  The links hold for EVERY such record. *)
From Batchie Require Lib.PyRt Model.Cli Generated.SrcCli Proofs.C12SourceCli Proofs.C12SourceCliReveal.
Theorem C12_model_is_source_cli_reveal_plate : forall (Scr : Type) (L : Cli.rp_lib Scr) (a : Cli.rp_args),
  SrcCli.src_cli_reveal_plate Scr L a
  = Cli.cli_reveal_plate L a.
Proof. exact C12SourceCli.src_cli_reveal_plate_is_model. Qed.
Print Assumptions C12_model_is_source_cli_reveal_plate.

Theorem C12_model_is_source_cli_extract_screen_metadata : forall (Scr Pl : Type) (L : Cli.em_lib Scr Pl) (a : Cli.em_args),
  SrcCli.src_cli_extract_screen_metadata Scr Pl L a
  = Cli.cli_extract_screen_metadata L a.
Proof. exact C12SourceCli.src_cli_extract_screen_metadata_is_model. Qed.
Print Assumptions C12_model_is_source_cli_extract_screen_metadata.

(* instance over this property's vocabulary, the library call standing for the TRANSLATED reveal_plates
   (Generated/SrcReveal.v): load, the model's reveal_plates with the mappings carried, save *)
Theorem C12_model_is_source_cli_reveal_plate_reveal : forall (load : Cli.path -> result screen) (a : Cli.rp_args),
  SrcCli.src_cli_reveal_plate screen (Cli.mk_rp_lib load src_reveal_plates) a
  = dor s <- load (Cli.rp_screen a);
    dor s' <- reveal_plates (carry_mappings true) s (Cli.rp_plate_id a);
    Ok [(Cli.rp_output a, s')].
Proof. exact C12SourceCliReveal.src_cli_reveal_plate_reveal. Qed.
Print Assumptions C12_model_is_source_cli_reveal_plate_reveal.

(* ---- the guards of reveal, read PER PLATE ("revealing refuses plates whose stored values are all zero or contain NaN") ----
   plate_values s pid = the stored values of the rows whose plate id is pid (Model/Reveal.v).  Since fix fx5 the code tests
   the zero guard on every selected plate by itself (after the joint test over the union of the selected rows, kept: it
   refuses the empty selection); the NaN guard is np.any over the union, i.e. per plate already.  The clause holds as the
   property words it: ONE named plate of the screen that is all zero, or contains a NaN, refuses the whole reveal. *)
From Batchie Require Proofs.C12PerPlate.
Theorem C12_reveal_refuses_zero_per_plate : forall v s ids pid,
  In pid ids -> In pid (s_pids s) -> forallb obs_is_zero (plate_values s pid) = true -> reveal_plates v s ids = Err 8.
Proof. exact C12PerPlate.reveal_refuses_zero_per_plate. Qed.
Print Assumptions C12_reveal_refuses_zero_per_plate.

(* tag 9, or tag 8 when the zero guard (tested first) fires as well *)
Theorem C12_reveal_refuses_nan_per_plate : forall v s ids pid,
  In pid ids -> existsb obs_is_nan (plate_values s pid) = true ->
  reveal_plates v s ids = Err (if reveal_zero_guard s ids then 8 else 9).
Proof. exact C12PerPlate.reveal_refuses_nan_per_plate. Qed.
Print Assumptions C12_reveal_refuses_nan_per_plate.

(* exactly when the zero guard fires *)
Theorem C12_reveal_zero_guard_meaning : forall s ids,
  reveal_zero_guard s ids = true <->
  forallb obs_is_zero (revealed_values s ids) = true \/
  exists pid, In pid ids /\ In pid (s_pids s) /\ forallb obs_is_zero (plate_values s pid) = true.
Proof. exact C12PerPlate.reveal_zero_guard_spec. Qed.
Print Assumptions C12_reveal_zero_guard_meaning.

(* conversely: every plate an ACCEPTED reveal names holds a non-zero value and no NaN *)
Theorem C12_reveal_ok_per_plate : forall v s ids s' pid,
  reveal_plates v s ids = Ok s' -> In pid ids -> In pid (s_pids s) ->
  forallb obs_is_zero (plate_values s pid) = false /\ existsb obs_is_nan (plate_values s pid) = false.
Proof. exact C12PerPlate.reveal_ok_per_plate. Qed.
Print Assumptions C12_reveal_ok_per_plate.

(* the code BEFORE fix fx5 (Model/Reveal.reveal_plates_joint: the zero guard over the union only) did not satisfy the
   per-plate clause: a constructed screen, an unobserved non-empty all-zero plate pid named in ids, which alone is refused
   (tag 8), and the old reveal returns a screen in which that plate is observed.  The repaired model and the TRANSLATED
   reveal_plates refuse the same call. *)
Theorem C12_reveal_refuses_zero_per_plate_refuted :
  exists s ids pid s',
    constructed s /\ In pid ids /\ In pid (s_pids s) /\ plate_observed s pid = false /\
    plate_values s pid <> [] /\ forallb obs_is_zero (plate_values s pid) = true /\
    reveal_plates_joint (carry_mappings true) s [pid] = Err 8 /\
    reveal_plates_joint (carry_mappings true) s ids = Ok s' /\ plate_observed s' pid = true /\
    reveal_plates (carry_mappings true) s ids = Err 8 /\ src_reveal_plates s ids = Err 8.
Proof. exact C12PerPlate.reveal_zero_guard_was_joint. Qed.
Print Assumptions C12_reveal_refuses_zero_per_plate_refuted.

(* ---- "the number of unobserved plates REPORTED for the screen" ----
   instance of C12_model_is_source_cli_extract_screen_metadata with the library record filled by the TRANSLATED
   Screen.plates / ScreenBase.is_observed / n_plates / n_unique_samples / n_unique_treatments / size (C12SourceCliCounters.em_src_lib;
   their links to Model/Views.v are C14's): on a constructed screen the JSON object's counters ARE Model/Reveal.v's n_plates,
   n_unobserved_plates, n_observed_plates - the counters C12_unobserved_drop and C12_counters_add_up speak about. *)
From Batchie Require Model.Views Proofs.C12SourceCliCounters.
Theorem C12_model_is_source_cli_extract_screen_metadata_counters :
  forall (load : Cli.path -> result Views.pyscreen) (a : Cli.em_args) (s : Views.pyscreen),
  load (Cli.em_screen a) = Ok s -> constructed (snd s) ->
  SrcCli.src_cli_extract_screen_metadata Views.pyscreen Views.view (C12SourceCliCounters.em_src_lib load) a
  = Ok [(Cli.em_output a,
         Cli.mk_meta (Z.of_nat (n_unique_samples_rows (snd s))) (Z.of_nat (length (Views.screen_unique_treatments (snd s))))
                     (Z.of_nat (length (s_tids (snd s)))) (Z.of_nat (n_plates (snd s)))
                     (Z.of_nat (n_unobserved_plates (snd s))) (Z.of_nat (n_observed_plates (snd s))))].
Proof. exact C12SourceCliCounters.src_cli_extract_screen_metadata_counters. Qed.
Print Assumptions C12_model_is_source_cli_extract_screen_metadata_counters.
