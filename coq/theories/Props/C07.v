(* C07 — Pairwise-distance chunks partition the work and assemble to the same matrix.
   Statements only; every proof is `exact <lemma from Proofs/>`. *)
From Coq Require Import ZArith List QArith Qcanon.
From Batchie Require Import Lib.Sexp Lib.Num Model.Chunks Model.DistMat Model.Mse
  Proofs.C07Chunks Proofs.C07DistMat Proofs.C07Mse Proofs.C07Src Generated.SrcArith
  Lib.PyRt Generated.SrcChunks Proofs.C07Source.
Import ListNotations.

(* the chunk arithmetic the theorems are about IS the source's arithmetic: src_chunk_bounds is
   translated statement by statement from get_lower_triangular_indices_chunk on every run *)
Theorem C07_model_is_source_arithmetic : forall n k c,
  n_lower n = src_n_lower n /\ chunk_bounds (n_lower n) k c = src_chunk_bounds n k c.
Proof. intros n k c. split; [exact (n_lower_is_source n)|exact (chunk_bounds_is_source n k c)]. Qed.
Print Assumptions C07_model_is_source_arithmetic.

(* ... and the enumeration the chunks are cut from IS the source's generator: src_lower_triangular_indices is the
   whole generator function lower_triangular_indices re-translated on every run (harness/py2gal.py; a generator
   denotes the list of the values it yields, in order); for n <= 0 it yields nothing *)
Theorem C07_model_is_source_enumeration :
  (forall n : nat, src_lower_triangular_indices (Z.of_nat n) = Ok (map zpair (lower_tri n))) /\
  (forall n : Z, n <= 0 -> src_lower_triangular_indices n = Ok []).
Proof. exact (conj src_lower_tri_is_model src_lower_tri_negative). Qed.
Print Assumptions C07_model_is_source_enumeration.

(* the chunks, concatenated in index order, are the enumeration of all pairs i>j *)
Theorem C07_chunks_partition : forall n c, (0 < c)%nat -> concat (all_chunks n c) = lower_tri n.
Proof. exact chunks_concat. Qed.
Print Assumptions C07_chunks_partition.

(* together they contain every pair j<i<n, and nothing else, exactly once *)
Theorem C07_chunks_cover_once : forall n c, (0 < c)%nat ->
  NoDup (concat (all_chunks n c)) /\
  forall i j, In (i, j) (concat (all_chunks n c)) <-> (j < i < n)%nat.
Proof. exact chunks_cover_once. Qed.
Print Assumptions C07_chunks_cover_once.

Theorem C07_chunks_disjoint : forall n c (k1 k2 : nat) p,
  (k1 < c)%nat -> (k2 < c)%nat -> k1 <> k2 ->
  In p (chunk n (Z.of_nat k1) (Z.of_nat c)) -> In p (chunk n (Z.of_nat k2) (Z.of_nat c)) -> False.
Proof. exact chunks_disjoint. Qed.
Print Assumptions C07_chunks_disjoint.

Theorem C07_chunk_sizes_differ_by_at_most_one : forall n c (k1 k2 : nat),
  (k1 < c)%nat -> (k2 < c)%nat ->
  (Z.abs (Z.of_nat (length (chunk n (Z.of_nat k1) (Z.of_nat c)))
          - Z.of_nat (length (chunk n (Z.of_nat k2) (Z.of_nat c)))) <= 1)%Z.
Proof. exact chunk_sizes_differ_by_at_most_one. Qed.
Print Assumptions C07_chunk_sizes_differ_by_at_most_one.

(* any family of chunk files that contains every chunk index (any order, repeats allowed),
   computed independently, saved, loaded, concatenated and densified, is the matrix of the
   metric: d below the diagonal, mirrored above, zero on it — the same value whatever c and
   order are, in particular the single-chunk result (c = 1, order = [0]). *)
Theorem C07_assemble : forall (V : Type) (vzero : V) (d : nat -> nat -> V) n (c : nat) (order : list Z),
  (0 < c)%nat -> order <> [] ->
  (forall k, (k < c)%nat -> In (Z.of_nat k) order) ->
  pipeline V vzero d n (Z.of_nat c) order = Ok (dense_of V vzero d n).
Proof. exact pipeline_assembles. Qed.
Print Assumptions C07_assemble.

Theorem C07_dense_symmetric : forall (V : Type) (vzero : V) d n a b,
  (a < n)%nat -> (b < n)%nat ->
  nth b (nth a (dense_of V vzero d n) []) vzero = nth a (nth b (dense_of V vzero d n) []) vzero.
Proof. exact @dense_of_symmetric. Qed.
Print Assumptions C07_dense_symmetric.

Theorem C07_dense_zero_diagonal : forall (V : Type) (vzero : V) d n a,
  (a < n)%nat -> nth a (nth a (dense_of V vzero d n) []) vzero = vzero.
Proof. exact @dense_of_zero_diag. Qed.
Print Assumptions C07_dense_zero_diagonal.

Theorem C07_dense_entry_is_metric : forall (V : Type) (vzero : V) d n a b,
  (a < n)%nat -> (b < a)%nat ->
  nth b (nth a (dense_of V vzero d n) []) vzero = d a b.
Proof.
  intros V vzero d n a b Ha Hb. rewrite dense_of_entry by (assumption || (eapply Nat.lt_trans; eassumption)).
  now apply Nat.ltb_lt in Hb as ->.
Qed.
Print Assumptions C07_dense_entry_is_metric.

(* a family of chunks none of which contains some pair refuses to densify *)
Theorem C07_incomplete_refused : forall (V : Type) (vzero : V) (d : nat -> nat -> V) n (c : Z) (order : list Z) i j,
  order <> [] -> (j < i < n)%nat ->
  (forall k, In k order -> ~ In (i, j) (chunk n k c)) ->
  pipeline V vzero d n c order = Err 5%Z.
Proof. exact pipeline_refuses_incomplete. Qed.
Print Assumptions C07_incomplete_refused.

(* the metric, for every expit *)
Theorem C07_mse_symmetric : forall orc sg a b, mse_distance orc sg a b = mse_distance orc sg b a.
Proof. exact mse_symmetric. Qed.
Print Assumptions C07_mse_symmetric.

Theorem C07_mse_nonneg : forall orc sg a b v, mse_distance orc sg a b = Ok v -> (0 <= v)%Qc.
Proof. exact mse_nonneg. Qed.
Print Assumptions C07_mse_nonneg.

Theorem C07_mse_zero_on_identical : forall orc sg a, a <> [] -> mse_distance orc sg a a = Ok 0%Qc.
Proof. exact mse_zero_on_identical. Qed.
Print Assumptions C07_mse_zero_on_identical.

(* non-vacuity: a concrete non-trivial instance of the assembly hypotheses and conclusion *)
Example C07_assemble_example :
  pipeline Z 0%Z (fun i j => Z.of_nat (10 * i + j)) 4 3%Z [2; 0; 2; 1]%Z
  = Ok [[0; 10; 20; 30]; [10; 0; 21; 31]; [20; 21; 0; 32]; [30; 31; 32; 0]]%Z.
Proof. vm_compute. reflexivity. Qed.
Example C07_incomplete_example :
  pipeline Z 0%Z (fun i j => Z.of_nat (10 * i + j)) 4 3%Z [2; 0]%Z = Err 5%Z.
Proof. vm_compute. reflexivity. Qed.

(* ---- the command-line wrapper calculate_distance_matrix.main is what the source says NOW ----
   `src_cli_calculate_distance_matrix` is the whole function main of /repo's current batchie/cli/calculate_distance_matrix.py,
   re-translated on every run (configuration CLI_DISTANCE_MATRIX -> Generated/SrcCli.v): the chunk named by --chunk-index / --n-chunks of
   the pairwise matrix over the concatenation of the --thetas files (argument order), saved.
   Model/Cli.v: the parsed arguments are a record of the plain argparse results (get_args() is not translated), `L` is a
   record of the library functions the wrapper calls over abstract types (each component stands for the library function
   of that name with its parameter list; `*_load_*` = what loading the file at a path yields), a main() denotes the list
   of (path, content) files it writes, Err = the exception that ends it.  The links hold for EVERY such record. *)
From Batchie Require Lib.PyRt Model.Cli Generated.SrcCli Proofs.C07SourceCli.
Theorem C07_model_is_source_cli_calculate_distance_matrix : forall (Scr Th Me Dm : Type) (L : Cli.cd_lib Scr Th Me Dm) (a : Cli.cd_args),
  SrcCli.src_cli_calculate_distance_matrix Scr Th Me Dm L a
  = Cli.cli_calculate_distance_matrix L a.
Proof. exact C07SourceCli.src_cli_calculate_distance_matrix_is_model. Qed.
Print Assumptions C07_model_is_source_cli_calculate_distance_matrix.
