(* C07 — Pairwise-distance chunks partition the work and assemble to the same matrix.
   Statements only; every proof is `exact <lemma from Proofs/>`. *)
From Coq Require Import ZArith List QArith Qcanon.
From Batchie Require Import Lib.Sexp Lib.Num Model.Chunks Model.DistMat Model.Mse
  Proofs.C07Chunks Proofs.C07DistMat Proofs.C07Mse Proofs.C07Src Generated.SrcArithC07
  Lib.PyRt Generated.SrcChunks Proofs.C07Source Generated.SrcDistMat Generated.SrcMse Proofs.C07SourceMat
  Proofs.C07SourceMse Proofs.C07SourcePipeline.
Import ListNotations.

(* the chunk arithmetic the theorems are about IS the source's arithmetic: src_chunk_bounds is
   translated statement by statement from get_lower_triangular_indices_chunk on every run *)
Theorem C07_model_is_source_arithmetic : forall n k c,
  n_lower n = src_n_lower n /\ chunk_bounds (n_lower n) k c = src_chunk_bounds n k c.
Proof. intros n k c. split; [exact (n_lower_is_source n)|exact (chunk_bounds_is_source n k c)]. Qed.
Print Assumptions C07_model_is_source_arithmetic.

(* ... and the enumeration the chunks are cut from IS the source's generator: src_lower_triangular_indices is the
   whole generator function lower_triangular_indices re-translated on every run (harness/py2gal.py; a generator
   denotes the list of the values it yields, in order); for n <= 0 it yields nothing *)
Theorem C07_model_is_source_enumeration :
  (forall n : nat, src_lower_triangular_indices (Z.of_nat n) = Ok (map zpair (lower_tri n))) /\
  (forall n : Z, n <= 0 -> src_lower_triangular_indices n = Ok []).
Proof. exact (conj src_lower_tri_is_model src_lower_tri_negative). Qed.
Print Assumptions C07_model_is_source_enumeration.

(* ... and get_lower_triangular_indices_chunk as ONE whole function (the assert, the arithmetic, the generator's list,
   consume(g, start) and list(islice(g, k)) as skipn / firstn that refuse a negative count; consume and
   get_number_of_lower_triangular_indices are translated too) IS Chunks.chunk_checked for all integer arguments, which for a
   chunk index in range 0 <= k < c is Chunks.chunk - the function all partition theorems below are about *)
Theorem C07_model_is_source_get_lower_triangular_indices_chunk :
  (forall n k c : Z, src_get_lower_triangular_indices_chunk n k c = chunk_checked n k c) /\
  (forall (n : nat) (k c : Z), (0 <= k < c)%Z -> chunk_checked (Z.of_nat n) k c = Ok (map zpair (chunk n k c))) /\
  (forall (n k c : Z) l, (n <= 0)%Z -> chunk_checked n k c = Ok l -> l = []).
Proof. exact (conj src_chunk_is_model (conj chunk_checked_in_range chunk_checked_negative)). Qed.
Print Assumptions C07_model_is_source_get_lower_triangular_indices_chunk.

(* ---- ChunkedDistanceMatrix, method by method.  The translations work on the object as it is stored (DistMat.cdm: size,
   chunk_size, current_index and the three parallel arrays as lists); the model's entry list is read off by the
   representation map dm_of_storage (entry k = (row_indices[k], col_indices[k], values[k]), k < current_index).
   storage_ok is what every constructed object satisfies (three arrays of one length, current_index within it, every slot
   from current_index on still zero); each theorem re-establishes it for the object it returns (storage_refines).
   V is the type of a stored value, vzero the zero np.zeros fills with, visz the test `x == 0`. ---- *)

(* __init__: `if chunk_size:` takes the argument unless it is None or 0 and otherwise falls back to the length of the
   chunk (init_chunk_size); a negative size is refused by np.zeros; the new object is well formed and represents the
   empty matrix *)
Theorem C07_model_is_source_init : forall (V : Type) (vzero : V) (visz : V -> bool), visz vzero = true ->
  (forall (self0 : cdm V) (size n_chunks chunk_index : Z) (chunk_size : option Z),
     src_cdm_init V vzero visz self0 size n_chunks chunk_index chunk_size
     = dor c <- init_chunk_size size n_chunks chunk_index chunk_size;
       if (c <? 0)%Z then Err 13%Z else Ok (cdm_fresh vzero size c)) /\
  (forall size c : Z, (0 <= c)%Z ->
     storage_ok vzero visz (cdm_fresh vzero size c) /\ dm_of_storage vzero (cdm_fresh vzero size c) = dm_empty V size).
Proof. exact (fun V vzero visz H => conj (src_init_is_model V vzero visz) (fresh_ok V vzero visz H)). Qed.
Print Assumptions C07_model_is_source_init.

(* add_value (with _expand_storage, translated too): on a well-formed object with room - a free slot, or a positive
   chunk_size to grow by - it is the model's add_value: the bounds guard (>=), the order guard (<), then the entry appended;
   none of the three "already calculated" tests can fire.  Without room (an object built for an EMPTY chunk: chunk_size 0)
   a value that passes the guards meets an IndexError. *)
Theorem C07_model_is_source_add_value : forall (V : Type) (vzero : V) (visz : V -> bool) (st : cdm V) (i j : Z) (v : V),
  storage_ok vzero visz st ->
  (has_room st ->
   storage_refines vzero visz (src_cdm_add_value V vzero visz st i j v) (add_value V (dm_of_storage vzero st) i j v)) /\
  (~ has_room st ->
   src_cdm_add_value V vzero visz st i j v
   = if ((i >=? c_size st) || (j >=? c_size st))%Z then Err 1%Z else if (i <? j)%Z then Err 2%Z else Err 98%Z).
Proof.
  exact (fun V vzero visz st i j v H =>
    conj (src_add_value_is_model V vzero visz st i j v H) (src_add_value_no_room V vzero visz st i j v H)).
Qed.
Print Assumptions C07_model_is_source_add_value.

Theorem C07_model_is_source_is_complete : forall (V : Type) (vzero : V) (visz : V -> bool) (st : cdm V),
  storage_ok vzero visz st ->
  src_cdm_is_complete V vzero visz st = Ok (is_complete V (dm_of_storage vzero st)).
Proof. exact src_is_complete_is_model. Qed.
Print Assumptions C07_model_is_source_is_complete.

(* combine: the size test, the copy of self's used prefix into a new object, then every entry of other whose (row, col)
   is not among the keys stored so far, through the translated add_value.  The side condition says the new object can
   take a value (it is built with chunk_size = self.current_index, or - when that is 0 - the number of all pairs, which is
   0 only for size < 2): a matrix of size < 2 is not combined with one that holds a value *)
Theorem C07_model_is_source_combine : forall (V : Type) (vzero : V) (visz : V -> bool), visz vzero = true ->
  forall a b : cdm V, storage_ok vzero visz a -> storage_ok vzero visz b ->
  (c_cur b = 0 \/ c_cur a <> 0 \/ 2 <= c_size a)%Z ->
  storage_refines vzero visz (src_cdm_combine V vzero visz a b)
                  (combine V (dm_of_storage vzero a) (dm_of_storage vzero b)).
Proof. exact src_combine_is_model. Qed.
Print Assumptions C07_model_is_source_combine.

(* concat (roomy: a matrix that holds a value has size >= 2 - there is no pair below the diagonal otherwise) *)
Theorem C07_model_is_source_concat : forall (V : Type) (vzero : V) (visz : V -> bool), visz vzero = true ->
  forall ms : list (cdm V), Forall (storage_ok vzero visz) ms -> Forall roomy (tl ms) ->
  storage_refines vzero visz (src_cdm_concat V vzero visz ms) (dm_concat V (map (dm_of_storage vzero) ms)).
Proof. exact src_concat_is_model. Qed.
Print Assumptions C07_model_is_source_concat.

(* to_dense: the refusal of an incomplete matrix, then both cells (i, j) and (j, i) of a zero matrix written per entry,
   for an object whose stored index pairs address cells of the matrix (entries_in_range) *)
Theorem C07_model_is_source_to_dense : forall (V : Type) (vzero : V) (visz : V -> bool) (st : cdm V),
  storage_ok vzero visz st -> entries_in_range st ->
  src_cdm_to_dense V vzero visz st = to_dense V vzero (dm_of_storage vzero st).
Proof. exact src_to_dense_is_model. Qed.
Print Assumptions C07_model_is_source_to_dense.

(* calculate_pairwise_distance_matrix_on_predictions for ANY holder / prediction method / metric (get_theta, predict,
   dist): for a chunk index in range it is the model's compute_chunk with d i j = dist (predict (get_theta i))
   (predict (get_theta j)); outside the range it fails as get_lower_triangular_indices_chunk does, before any distance *)
Theorem C07_model_is_source_calculate_pairwise : forall (V : Type) (vzero : V) (visz : V -> bool), visz vzero = true ->
  forall (Th Pr : Type) (get_theta : Z -> Th) (predict : Th -> Pr) (dist : Pr -> Pr -> V),
  (forall (n : nat) (k c : Z), (0 <= k < c)%Z ->
     storage_refines vzero visz
       (src_calculate_pairwise V vzero visz Th Pr (Z.of_nat n) get_theta predict dist k c)
       (compute_chunk V (metric_of V Th Pr get_theta predict dist) n k c)) /\
  (forall (n k c t : Z), chunk_checked n k c = Err t ->
     src_calculate_pairwise V vzero visz Th Pr n get_theta predict dist k c = Err t).
Proof.
  exact (fun V vzero visz H Th Pr g p d =>
    conj (src_calculate_is_model V vzero visz H Th Pr g p d) (src_calculate_bad_chunk V vzero visz Th Pr g p d)).
Qed.
Print Assumptions C07_model_is_source_calculate_pairwise.

(* save / load with the h5py calls as primitives over the record of the file's four datasets: save writes the used
   prefixes of the three arrays and [size] (file_of_storage); loading what save wrote gives a well-formed object that
   represents the same matrix - the model's dm_load (dm_save m) *)
Theorem C07_model_is_source_save_load : forall (V : Type) (vzero : V) (visz : V -> bool), visz vzero = true ->
  (forall st : cdm V, src_cdm_save V vzero visz st = Ok (file_of_storage st)) /\
  (forall st : cdm V, storage_ok vzero visz st ->
     storage_refines vzero visz (dor f <- src_cdm_save V vzero visz st; src_cdm_load V vzero visz f)
                     (Ok (dm_load V (dm_save V (dm_of_storage vzero st))))).
Proof. exact (fun V vzero visz H => conj (src_save_is_model V vzero visz) (src_load_save_is_model V vzero visz H)). Qed.
Print Assumptions C07_model_is_source_save_load.

(* the translated functions composed as the command line composes them (per listed chunk index one calculate_..., save,
   load; then concat, to_dense) ARE the model's pipeline, the subject of C07_assemble / C07_incomplete_refused *)
Theorem C07_model_is_source_pipeline : forall (V : Type) (vzero : V) (visz : V -> bool), visz vzero = true ->
  forall (Th Pr : Type) (get_theta : Z -> Th) (predict : Th -> Pr) (dist : Pr -> Pr -> V) (n : nat) (c : Z) (order : list Z),
  order <> [] -> (forall k, In k order -> (0 <= k < c)%Z) ->
  src_pipeline V vzero visz Th Pr get_theta predict dist n c order
  = pipeline V vzero (metric_of V Th Pr get_theta predict dist) n c order.
Proof. exact src_pipeline_is_model. Qed.
Print Assumptions C07_model_is_source_pipeline.

(* MSEDistance.distance on two prediction vectors of one length (expit the oracle, numpy's - ** mean as primitives) *)
Theorem C07_model_is_source_mse_distance : forall (orc : oracle) (sigmoid : bool) (a b : list Qc), length a = length b ->
  src_mse_distance orc sigmoid a b = mse_distance orc sigmoid a b.
Proof. exact src_mse_is_model. Qed.
Print Assumptions C07_model_is_source_mse_distance.

(* the chunks, concatenated in index order, are the enumeration of all pairs i>j *)
Theorem C07_chunks_partition : forall n c, (0 < c)%nat -> concat (all_chunks n c) = lower_tri n.
Proof. exact chunks_concat. Qed.
Print Assumptions C07_chunks_partition.

(* together they contain every pair j<i<n, and nothing else, exactly once *)
Theorem C07_chunks_cover_once : forall n c, (0 < c)%nat ->
  NoDup (concat (all_chunks n c)) /\
  forall i j, In (i, j) (concat (all_chunks n c)) <-> (j < i < n)%nat.
Proof. exact chunks_cover_once. Qed.
Print Assumptions C07_chunks_cover_once.

Theorem C07_chunks_disjoint : forall n c (k1 k2 : nat) p,
  (k1 < c)%nat -> (k2 < c)%nat -> k1 <> k2 ->
  In p (chunk n (Z.of_nat k1) (Z.of_nat c)) -> In p (chunk n (Z.of_nat k2) (Z.of_nat c)) -> False.
Proof. exact chunks_disjoint. Qed.
Print Assumptions C07_chunks_disjoint.

Theorem C07_chunk_sizes_differ_by_at_most_one : forall n c (k1 k2 : nat),
  (k1 < c)%nat -> (k2 < c)%nat ->
  (Z.abs (Z.of_nat (length (chunk n (Z.of_nat k1) (Z.of_nat c)))
          - Z.of_nat (length (chunk n (Z.of_nat k2) (Z.of_nat c)))) <= 1)%Z.
Proof. exact chunk_sizes_differ_by_at_most_one. Qed.
Print Assumptions C07_chunk_sizes_differ_by_at_most_one.

(* any family of chunk files that contains every chunk index (any order, repeats allowed),
   computed independently, saved, loaded, concatenated and densified, is the matrix of the
   metric: d below the diagonal, mirrored above, zero on it — the same value whatever c and
   order are, in particular the single-chunk result (c = 1, order = [0]). *)
Theorem C07_assemble : forall (V : Type) (vzero : V) (d : nat -> nat -> V) n (c : nat) (order : list Z),
  (0 < c)%nat -> order <> [] ->
  (forall k, (k < c)%nat -> In (Z.of_nat k) order) ->
  pipeline V vzero d n (Z.of_nat c) order = Ok (dense_of V vzero d n).
Proof. exact pipeline_assembles. Qed.
Print Assumptions C07_assemble.

Theorem C07_dense_symmetric : forall (V : Type) (vzero : V) d n a b,
  (a < n)%nat -> (b < n)%nat ->
  nth b (nth a (dense_of V vzero d n) []) vzero = nth a (nth b (dense_of V vzero d n) []) vzero.
Proof. exact @dense_of_symmetric. Qed.
Print Assumptions C07_dense_symmetric.

Theorem C07_dense_zero_diagonal : forall (V : Type) (vzero : V) d n a,
  (a < n)%nat -> nth a (nth a (dense_of V vzero d n) []) vzero = vzero.
Proof. exact @dense_of_zero_diag. Qed.
Print Assumptions C07_dense_zero_diagonal.

Theorem C07_dense_entry_is_metric : forall (V : Type) (vzero : V) d n a b,
  (a < n)%nat -> (b < a)%nat ->
  nth b (nth a (dense_of V vzero d n) []) vzero = d a b.
Proof.
  intros V vzero d n a b Ha Hb. rewrite dense_of_entry by (assumption || (eapply Nat.lt_trans; eassumption)).
  now apply Nat.ltb_lt in Hb as ->.
Qed.
Print Assumptions C07_dense_entry_is_metric.

(* a family of chunks none of which contains some pair refuses to densify *)
Theorem C07_incomplete_refused : forall (V : Type) (vzero : V) (d : nat -> nat -> V) n (c : Z) (order : list Z) i j,
  order <> [] -> (j < i < n)%nat ->
  (forall k, In k order -> ~ In (i, j) (chunk n k c)) ->
  pipeline V vzero d n c order = Err 5%Z.
Proof. exact pipeline_refuses_incomplete. Qed.
Print Assumptions C07_incomplete_refused.

(* the metric, for every expit *)
Theorem C07_mse_symmetric : forall orc sg a b, mse_distance orc sg a b = mse_distance orc sg b a.
Proof. exact mse_symmetric. Qed.
Print Assumptions C07_mse_symmetric.

Theorem C07_mse_nonneg : forall orc sg a b v, mse_distance orc sg a b = Ok v -> (0 <= v)%Qc.
Proof. exact mse_nonneg. Qed.
Print Assumptions C07_mse_nonneg.

Theorem C07_mse_zero_on_identical : forall orc sg a, a <> [] -> mse_distance orc sg a a = Ok 0%Qc.
Proof. exact mse_zero_on_identical. Qed.
Print Assumptions C07_mse_zero_on_identical.

(* non-vacuity: a concrete non-trivial instance of the assembly hypotheses and conclusion *)
Example C07_assemble_example :
  pipeline Z 0%Z (fun i j => Z.of_nat (10 * i + j)) 4 3%Z [2; 0; 2; 1]%Z
  = Ok [[0; 10; 20; 30]; [10; 0; 21; 31]; [20; 21; 0; 32]; [30; 31; 32; 0]]%Z.
Proof. vm_compute. reflexivity. Qed.
Example C07_incomplete_example :
  pipeline Z 0%Z (fun i j => Z.of_nat (10 * i + j)) 4 3%Z [2; 0]%Z = Err 5%Z.
Proof. vm_compute. reflexivity. Qed.
(* the translated source itself, run on concrete inputs: the same pipeline instance as above through the translations
   of calculate_pairwise_distance_matrix_on_predictions, concat and to_dense (the metric reads samples 10 * i + j) ... *)
Example C07_source_pipeline_example :
  src_pipeline Z 0%Z (Z.eqb 0) Z Z (fun i => i) (fun t => t) (fun a b => (10 * a + b)%Z) 4 3%Z [2; 0; 2; 1]%Z
  = Ok [[0; 10; 20; 30]; [10; 0; 21; 31]; [20; 21; 0; 32]; [30; 31; 32; 0]]%Z.
Proof. vm_compute. reflexivity. Qed.
(* ... and the degenerate object of C07_model_is_source_add_value's second clause: built for the empty last chunk of a
   3 x 3 matrix cut in 4 (chunk_size 0), it refuses a valid pair with an IndexError *)
Example C07_source_empty_chunk_object_example :
  (dor m <- src_cdm_init Z 0%Z (Z.eqb 0) (cdm_blank Z) 3%Z 4%Z 3%Z None; src_cdm_add_value Z 0%Z (Z.eqb 0) m 1%Z 0%Z 5%Z)
  = Err 98%Z.
Proof. vm_compute. reflexivity. Qed.

(* ---- the command-line wrapper calculate_distance_matrix.main is what the source says NOW ----
   `src_cli_calculate_distance_matrix` is the whole function main of /repo's current batchie/cli/calculate_distance_matrix.py,
   re-translated on every run (configuration CLI_DISTANCE_MATRIX -> Generated/SrcCli.v): the chunk named by --chunk-index / --n-chunks of
   the pairwise matrix over the concatenation of the --thetas files (argument order), saved.
   Model/Cli.v: the parsed arguments are a record of the plain argparse results (get_args() is not translated), `L` is a
   record of the library functions the wrapper calls over abstract types (each component stands for the library function
   of that name with its parameter list; `*_load_*` = what loading the file at a path yields), a main() denotes the list
   of (path, content) files it writes, Err = the exception that ends it.  The links hold for EVERY such record. *)
From Batchie Require Lib.PyRt Model.Cli Generated.SrcCli Proofs.C07SourceCli.
Theorem C07_model_is_source_cli_calculate_distance_matrix : forall (Scr Th Me Dm : Type) (L : Cli.cd_lib Scr Th Me Dm) (a : Cli.cd_args),
  SrcCli.src_cli_calculate_distance_matrix Scr Th Me Dm L a
  = Cli.cli_calculate_distance_matrix L a.
Proof. exact C07SourceCli.src_cli_calculate_distance_matrix_is_model. Qed.
Print Assumptions C07_model_is_source_cli_calculate_distance_matrix.

(* ---- the constructor of MSEDistance (Generated/SrcInits.v): __init__ stores `sigmoid`, the flag the translated distance reads ---- *)
From Batchie Require Generated.SrcInits Proofs.C07Source_Init_MSEDistance Proofs.C07Source_ConstructedMse.
Theorem C07_model_is_source_mse_distance_init : forall sigmoid : bool, SrcInits.src_mse_distance_init sigmoid = Ok sigmoid.
Proof. exact C07Source_Init_MSEDistance.src_mse_distance_init_stores. Qed.
Print Assumptions C07_model_is_source_mse_distance_init.

Theorem C07_source_constructed_mse_distance : forall (orc : oracle) (sigmoid : bool) (a b : list Qc), length a = length b ->
  (dor s <- SrcInits.src_mse_distance_init sigmoid; src_mse_distance orc s a b) = mse_distance orc sigmoid a b.
Proof. exact C07Source_ConstructedMse.constructed_mse_distance_uses_its_flag. Qed.
Print Assumptions C07_source_constructed_mse_distance.


(* ---- calculate_distance_matrix.get_args and main() as a whole command (gap review G7.2) ----
   get_args() was the one function on this property's path that was not re-translated.  Now: parser.parse_args() is the
   primitive yielding the raw namespace (Cli.cd_ns: the plain results main() reads, --distance-metric, the KEY=VALUE dict
   of --distance-metric-param or None); the statements after it - class lookup among DistanceMetric subclasses, the
   required-argument annotations of what was found, the cast of the KEY=VALUE items, the two attribute stores - come from
   the translation (Generated/SrcCliArgsDist.v), and main() is translated once more with get_args() = that translation
   and args.metric_cls( **args.metric_params) = `construct` on the two attributes get_args() stored. *)
From Batchie Require Generated.SrcCliArgs Generated.SrcCliArgsDist Proofs.C18SourceIntrospect Proofs.C07SourceArgs.
Theorem C07_model_is_source_cli_args_get_args :
  forall (Cls F O : Type) (I : Cli.introspect Cls) (P : Cli.pyprims F O) (raw : Cli.cd_ns Cls F O),
  SrcCliArgsDist.src_cd_get_args Cls F O I P raw = Cli.cd_get_args I P raw.
Proof. exact C07SourceArgs.src_cd_get_args_is_model. Qed.
Print Assumptions C07_model_is_source_cli_args_get_args.

Theorem C07_model_is_source_cli_args_calculate_distance_matrix :
  forall (Cls F O : Type) (I : Cli.introspect Cls) (P : Cli.pyprims F O) (Scr Th Me Dm : Type)
         (construct : Cls -> list (Cli.str * Cli.pval F O) -> result Me) (L : Cli.cd_lib Scr Th Me Dm) (raw : Cli.cd_ns Cls F O),
  SrcCliArgsDist.src_cli_calculate_distance_matrix_cmd Cls F O I P Scr Th Me Dm construct L raw
  = Cli.cli_calculate_distance_matrix_cmd I P construct L raw.
Proof. exact C07SourceArgs.src_cli_calculate_distance_matrix_cmd_is_model. Qed.
Print Assumptions C07_model_is_source_cli_args_calculate_distance_matrix.

(* ... with the introspection record made of the TRANSLATED get_class / get_required_init_args_with_annotations (Props/C18.v) *)
Theorem C07_model_is_source_cli_args_calculate_distance_matrix_world :
  forall (Mod Obj F O : Type) (W : Cli.pyworld Mod Obj) (P : Cli.pyprims F O) (Scr Th Me Dm : Type)
         (construct : Obj -> list (Cli.str * Cli.pval F O) -> result Me) (L : Cli.cd_lib Scr Th Me Dm) (raw : Cli.cd_ns Obj F O),
  SrcCliArgsDist.src_cli_calculate_distance_matrix_cmd Obj F O (C18SourceIntrospect.introspect_src W) P Scr Th Me Dm construct L raw
  = Cli.cli_calculate_distance_matrix_cmd (Cli.introspect_of W) P construct L raw.
Proof. exact C07SourceArgs.src_cli_calculate_distance_matrix_cmd_world. Qed.
Print Assumptions C07_model_is_source_cli_args_calculate_distance_matrix_world.

(* the metric every entry is computed with IS the configured one: whenever the translated command writes its file, the class
   named by --distance-metric was found, the --distance-metric-param items were cast by its required-argument annotations
   (ps = [] exactly when the option is absent), `construct` on that class and EXACTLY those parameters gave the metric m, and
   the file holds what the library computes with m.  A get_args() that drops or ignores the option does not satisfy this. *)
Theorem C07_cli_metric_is_configured :
  forall (Cls F O : Type) (I : Cli.introspect Cls) (P : Cli.pyprims F O) (Scr Th Me Dm : Type)
         (construct : Cls -> list (Cli.str * Cli.pval F O) -> result Me) (L : Cli.cd_lib Scr Th Me Dm) (raw : Cli.cd_ns Cls F O) out,
  SrcCliArgsDist.src_cli_calculate_distance_matrix_cmd Cls F O I P Scr Th Me Dm construct L raw = Ok out ->
  exists c req ps m,
    Cli.i_get_class I Cli.s_batchie (Cli.cd_distance_metric raw) Cli.BDistanceMetric = Ok (Some c)
    /\ Cli.i_required I (Some c) = Ok req
    /\ Cli.cast_params P (Cli.cd_distance_metric_param raw) req = Ok ps
    /\ construct c ps = Ok m
    /\ Cli.cli_calculate_distance_matrix (Cli.cd_with_mk L (Ok m)) (Cli.cd_plain raw) = Ok out.
Proof. exact C07SourceArgs.cmd_metric_is_constructed_from_params. Qed.
Print Assumptions C07_cli_metric_is_configured.

(* OBSERVATION on the unchanged tree (outside the property's quantifier, recorded because the review asked): the parameter
   types are looked up only among the __init__ arguments WITHOUT a default, so a KEY naming a defaulted argument is a
   KeyError (Err 25) - and the only metric the package ships, MSEDistance(sigmoid: bool = True), has no other argument:
   `--distance-metric-param sigmoid=false` cannot be given.  Stated of the translated source, for every world in which the
   signature gives the key's parameter a default. *)
Theorem C07_cli_defaulted_metric_param_is_key_error :
  forall (Mod Obj F O : Type) (W : Cli.pyworld Mod Obj) (P : Cli.pyprims F O) (Scr Th Me Dm : Type)
         (construct : Obj -> list (Cli.str * Cli.pval F O) -> result Me) (L : Cli.cd_lib Scr Th Me Dm) (raw : Cli.cd_ns Obj F O)
         (o : Obj) sig k v rest,
  Cli.get_class W Cli.s_batchie (Cli.cd_distance_metric raw) Cli.BDistanceMetric = Ok (Some o) ->
  Cli.w_isclass W o = true -> Cli.w_signature W o = Ok sig ->
  (forall sp, In (k, sp) sig -> Cli.sp_no_default sp = false) ->
  Cli.cd_distance_metric_param raw = Some ((k, v) :: rest) ->
  SrcCliArgsDist.src_cli_calculate_distance_matrix_cmd Obj F O (C18SourceIntrospect.introspect_src W) P Scr Th Me Dm construct L raw
  = Err 25%Z.
Proof. exact C07SourceArgs.cmd_defaulted_param_is_key_error_world. Qed.
Print Assumptions C07_cli_defaulted_metric_param_is_key_error.

(* ---- matrices built by hand through the public class (gap review G7.1) ----
   "a matrix missing any pair refuses to be densified" beyond the matrices the pipeline builds: ANY matrix of size n whose
   stored keys ps are distinct, strictly lower-triangular and in range - in whatever order add_value stored them, with
   whatever values d - refuses while a pair is missing and densifies to the symmetric zero-diagonal matrix of its values
   once none is; mk ps is what the add_value calls build. *)
From Batchie Require Proofs.C07HandBuilt.
Theorem C07_hand_built_incomplete_refused :
  forall (V : Type) (vzero : V) (d : nat -> nat -> V) (n : nat) (ps : list (nat * nat)) i j,
  NoDup ps -> Forall (fun p => (snd p < fst p < n)%nat) ps -> (j < i < n)%nat -> ~ In (i, j) ps ->
  add_all V d (dm_empty V (Z.of_nat n)) ps = Ok (C07DistMat.mk V d n ps) /\
  to_dense V vzero (C07DistMat.mk V d n ps) = Err 5%Z.
Proof.
  intros V vzero d n ps i j Hnd Hv Hij Hnin.
  exact (conj (C07HandBuilt.hand_built_by_add_value V d n ps Hv)
              (C07HandBuilt.hand_built_incomplete_refused V vzero d n ps i j Hnd Hv Hij Hnin)).
Qed.
Print Assumptions C07_hand_built_incomplete_refused.

Theorem C07_hand_built_complete_densifies :
  forall (V : Type) (vzero : V) (d : nat -> nat -> V) (n : nat) (ps : list (nat * nat)),
  NoDup ps -> Forall (fun p => (snd p < fst p < n)%nat) ps -> (forall i j, (j < i < n)%nat -> In (i, j) ps) ->
  to_dense V vzero (C07DistMat.mk V d n ps) = Ok (C07DistMat.dense_of V vzero d n).
Proof. exact C07HandBuilt.hand_built_complete_densifies. Qed.
Print Assumptions C07_hand_built_complete_densifies.

(* ... and the side condition cannot be dropped: `to_dense m = Ok D -> every pair is stored` is FALSE of the class as
   written.  add_value guards with i < j (a diagonal key passes), is_complete counts entries: three accepted calls on a
   size-3 matrix densify with the pairs (2,0), (2,1) missing and a non-zero diagonal.  Outside the property's quantifier
   (no family of chunk files contains a diagonal key); replayed on the implementation by the harness (extra check). *)
Theorem C07_to_dense_accepts_ill_formed_refuted :
  exists m D, C07HandBuilt.ill_formed_script = Ok m /\ to_dense Z 0%Z m = Ok D
              /\ has_key Z (dm_entries m) 2 0 = false /\ has_key Z (dm_entries m) 2 1 = false
              /\ D = [[0; 3; 0]; [3; 5; 0]; [0; 0; 7]]%Z.
Proof. exact C07HandBuilt.to_dense_accepts_ill_formed. Qed.
Print Assumptions C07_to_dense_accepts_ill_formed_refuted.
