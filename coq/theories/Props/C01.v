(* C01 — Screen identifiers are a faithful, dense encoding of names and doses.
   Statements only; every proof is `exact <lemma from Proofs/>`.
   [mk_screen rows arity ctrl tmap smap obs_given mask_given = Ok s] is "s can be constructed". *)
From Coq Require Import ZArith List Bool.
From Batchie Require Import Lib.Sexp Lib.PyRt Generated.Consts Model.Encode Model.Screen Model.Persist
  Proofs.C01Encode Proofs.C01Screen Proofs.C01Props Generated.SrcArithC01
  Generated.SrcEncode Generated.SrcScreenIds Generated.SrcSpaceMethods Proofs.C01Source Proofs.C01SourceInit.
Import ListNotations.
Open Scope Z_scope.

(* the sentinel the model uses is the one the source defines today *)
Theorem C01_sentinel_from_source : CONTROL_SENTINEL_VALUE = -1.
Proof. exact sentinel_is_minus_one. Qed.
Print Assumptions C01_sentinel_from_source.

(* the model's control test is the source's: `dose_is_zero | treatment_is_control` with the
   comparison operator of `dose_is_zero` translated from the source on every run *)
Theorem C01_control_test_from_source : forall ctrl k,
  is_control ctrl k = src_dose_is_control (snd k) || name_eqb (fst k) ctrl.
Proof. intros ctrl k. reflexivity. Qed.
Print Assumptions C01_control_test_from_source.

(* every experiment's stored treatment id is the mapping's id of exactly that (name, dose) *)
Theorem C01_decode_treatments : forall rows a ctrl tm sm og mg s,
  mk_screen rows a ctrl tm sm og mg = Ok s ->
  s_tids s = map (fun r => map (tid_of (s_tmap s)) (r_treats r)) (s_rows s) /\
  forall k, row_keys s k -> In (k, tid_of (s_tmap s) k) (s_tmap s).
Proof. exact decode_treatments. Qed.
Print Assumptions C01_decode_treatments.

Theorem C01_decode_samples : forall rows a ctrl tm sm og mg s,
  mk_screen rows a ctrl tm sm og mg = Ok s ->
  s_sids s = map (fun r => nid_of (s_smap s) (r_sample r)) (s_rows s) /\
  forall r, In r (s_rows s) -> In (r_sample r, nid_of (s_smap s) (r_sample r)) (s_smap s).
Proof. exact decode_samples. Qed.
Print Assumptions C01_decode_samples.

Theorem C01_decode_plates : forall rows a ctrl tm sm og mg s,
  mk_screen rows a ctrl tm sm og mg = Ok s ->
  s_pids s = map (fun r => nid_of (s_pmap s) (r_plate r)) (s_rows s) /\
  forall r, In r (s_rows s) -> In (r_plate r, nid_of (s_pmap s) (r_plate r)) (s_pmap s).
Proof. exact decode_plates. Qed.
Print Assumptions C01_decode_plates.

(* sentinel exactly when the name is the control name or the dose is not positive *)
Theorem C01_control_iff : forall rows a ctrl sm og mg s,
  mk_screen rows a ctrl None sm og mg = Ok s ->
  forall k, row_keys s k ->
  (tid_of (s_tmap s) k = CONTROL_SENTINEL_VALUE <-> (snd k <= 0 \/ fst k = ctrl)).
Proof. exact control_iff. Qed.
Print Assumptions C01_control_iff.

(* the non-control treatment ids in use are exactly 0 .. (experiment-space size - 1) *)
Theorem C01_treatment_ids_dense : forall rows a ctrl sm og mg s,
  mk_screen rows a ctrl None sm og mg = Ok s ->
  forall z, (exists k, row_keys s k /\ tid_of (s_tmap s) k = z /\ z <> CONTROL_SENTINEL_VALUE)
            <-> 0 <= z < space_n_treatments s.
Proof. exact treatment_ids_dense. Qed.
Print Assumptions C01_treatment_ids_dense.

(* equal non-control ids iff equal (name, dose) *)
Theorem C01_treatment_ids_injective : forall rows a ctrl sm og mg s,
  mk_screen rows a ctrl None sm og mg = Ok s ->
  forall k1 k2, row_keys s k1 -> row_keys s k2 ->
  tid_of (s_tmap s) k1 <> CONTROL_SENTINEL_VALUE ->
  (tid_of (s_tmap s) k1 = tid_of (s_tmap s) k2 <-> k1 = k2).
Proof. exact treatment_ids_injective. Qed.
Print Assumptions C01_treatment_ids_injective.

Theorem C01_sample_ids_dense : forall rows a ctrl tm og mg s,
  mk_screen rows a ctrl tm None og mg = Ok s ->
  forall z, (exists r, In r (s_rows s) /\ nid_of (s_smap s) (r_sample r) = z) <-> 0 <= z < space_n_samples s.
Proof. exact sample_ids_dense. Qed.
Print Assumptions C01_sample_ids_dense.

Theorem C01_sample_ids_injective : forall rows a ctrl tm og mg s,
  mk_screen rows a ctrl tm None og mg = Ok s ->
  forall r1 r2, In r1 (s_rows s) -> In r2 (s_rows s) ->
  (nid_of (s_smap s) (r_sample r1) = nid_of (s_smap s) (r_sample r2) <-> r_sample r1 = r_sample r2).
Proof. exact sample_ids_injective. Qed.
Print Assumptions C01_sample_ids_injective.

Theorem C01_plate_ids_dense : forall rows a ctrl tm sm og mg s,
  mk_screen rows a ctrl tm sm og mg = Ok s ->
  forall z, (exists r, In r (s_rows s) /\ nid_of (s_pmap s) (r_plate r) = z)
            <-> 0 <= z < Z.of_nat (length (sort_uniq name_cmp (map r_plate rows))).
Proof. exact plate_ids_dense. Qed.
Print Assumptions C01_plate_ids_dense.

Theorem C01_plate_ids_injective : forall rows a ctrl tm sm og mg s,
  mk_screen rows a ctrl tm sm og mg = Ok s ->
  forall r1 r2, In r1 (s_rows s) -> In r2 (s_rows s) ->
  (nid_of (s_pmap s) (r_plate r1) = nid_of (s_pmap s) (r_plate r2) <-> r_plate r1 = r_plate r2).
Proof. exact plate_ids_injective. Qed.
Print Assumptions C01_plate_ids_injective.

(* a supplied mapping is followed verbatim (C01_decode_* then says the ids are its ids) *)
Theorem C01_supplied_verbatim : forall rows a ctrl m b sm og mg s,
  mk_screen rows a ctrl (Some (m, b)) sm og mg = Ok s ->
  s_tmap s = m /\ zero_indexed b (map snd m) = true.
Proof. exact supplied_verbatim. Qed.
Print Assumptions C01_supplied_verbatim.

Theorem C01_supplied_samples_verbatim : forall rows a ctrl tm m b og mg s,
  mk_screen rows a ctrl tm (Some (m, b)) og mg = Ok s ->
  s_smap s = m /\ zero_indexed b (map snd m) = true.
Proof. exact supplied_samples_verbatim. Qed.
Print Assumptions C01_supplied_samples_verbatim.

(* ... or rejected: not dense *)
Theorem C01_supplied_not_dense_rejected : forall rows a ctrl m b sm og mg,
  forallb (fun r => Nat.eqb (length (r_treats r)) a) rows = true ->
  negb og && mg = false -> plate_uniform (norm_rows og mg rows) = true ->
  zero_indexed b (map snd m) = false ->
  mk_screen rows a ctrl (Some (m, b)) sm og mg = Err 3.
Proof. exact supplied_not_dense_rejected. Qed.
Print Assumptions C01_supplied_not_dense_rejected.

(* ... or rejected: does not cover the data *)
Theorem C01_supplied_uncovered_rejected : forall rows a ctrl m b sm og mg k r,
  forallb (fun r => Nat.eqb (length (r_treats r)) a) rows = true ->
  In r rows -> In k (r_treats r) -> ~ In k (map fst m) ->
  forall s, mk_screen rows a ctrl (Some (m, b)) sm og mg <> Ok s.
Proof. exact supplied_uncovered_rejected. Qed.
Print Assumptions C01_supplied_uncovered_rejected.

(* what "dense" means for a supplied id array *)
Theorem C01_zero_indexed_spec : forall ids,
  zero_indexed true ids = true <->
  exists u : nat, forall z, In z ids <-> ((z = -1 /\ In (-1) ids) \/ 0 <= z < Z.of_nat u).
Proof. exact zero_indexed_spec. Qed.
Print Assumptions C01_zero_indexed_spec.

(* the mappings a screen builds are accepted back, on any rows they cover, unchanged:
   so the same (name, dose) / name gets the same id in the sub-screen (lemma C02/C03 stand on) *)
Theorem C01_superset_stable : forall rows a ctrl og mg s sub,
  mk_screen rows a ctrl None None og mg = Ok s ->
  forallb (fun r => Nat.eqb (length (r_treats r)) a) sub = true ->
  plate_uniform sub = true ->
  (forall r k, In r sub -> In k (r_treats r) -> row_keys s k) ->
  (forall r, In r sub -> In (r_sample r) (map r_sample (s_rows s))) ->
  exists s', mk_screen sub a ctrl (Some (s_tmap s, true)) (Some (s_smap s, true)) true true = Ok s'
             /\ s_tmap s' = s_tmap s /\ s_smap s' = s_smap s /\ s_rows s' = sub.
Proof. exact superset_stable. Qed.
Print Assumptions C01_superset_stable.

(* the experiment-space sizes strictly bound every id *)
Theorem C01_treatment_ids_bounded : forall rows a ctrl tm sm og mg s k,
  mk_screen rows a ctrl tm sm og mg = Ok s -> row_keys s k ->
  match tm with Some (_, b) => b = true | None => True end ->
  tid_of (s_tmap s) k < space_n_treatments s.
Proof. exact treatment_ids_bounded. Qed.
Print Assumptions C01_treatment_ids_bounded.

Theorem C01_sample_ids_bounded : forall rows a ctrl tm og mg s r,
  mk_screen rows a ctrl tm None og mg = Ok s -> In r (s_rows s) ->
  nid_of (s_smap s) (r_sample r) < space_n_samples s.
Proof. exact sample_ids_bounded. Qed.
Print Assumptions C01_sample_ids_bounded.

Theorem C01_sample_ids_bounded_supplied : forall rows a ctrl tm m og mg s r,
  mk_screen rows a ctrl tm (Some (m, true)) og mg = Ok s -> NoDup (map fst m) -> In r (s_rows s) ->
  nid_of (s_smap s) (r_sample r) < space_n_samples s.
Proof. exact sample_ids_bounded_supplied. Qed.
Print Assumptions C01_sample_ids_bounded_supplied.

(* non-vacuity: a concrete screen with control by name, control by dose, a repeated key,
   arity 2, names "" / "a" / "b" (code points), control name "" *)
Definition ex_rows : list row :=
  [ {| r_sample := [115]; r_plate := [112]; r_treats := [([97], 5); ([98], 7)]; r_obs := 1; r_mask := true |};
    {| r_sample := [116]; r_plate := [112]; r_treats := [([97], 5); ([], 7)]; r_obs := 2; r_mask := true |};
    {| r_sample := [115]; r_plate := [113]; r_treats := [([98], 0); ([98], 7)]; r_obs := 3; r_mask := false |} ].

Example C01_example_constructs :
  exists s, mk_screen ex_rows 2 [] None None true true = Ok s
            /\ s_tids s = [[0; 1]; [0; -1]; [-1; 1]] /\ s_sids s = [0; 1; 0] /\ s_pids s = [0; 0; 1]
            /\ space_n_treatments s = 2 /\ space_n_samples s = 2.
Proof. eexists. vm_compute. repeat split. Qed.

Example C01_example_reuse :
  exists s s', mk_screen ex_rows 2 [] None None true true = Ok s
    /\ mk_screen (tl ex_rows) 2 [] (Some (s_tmap s, true)) (Some (s_smap s, true)) true true = Ok s'
    /\ s_tids s' = [[0; -1]; [-1; 1]] /\ s_sids s' = [1; 0] /\ s_tmap s' = s_tmap s.
Proof. do 2 eexists. vm_compute. repeat split. Qed.

Example C01_example_gap_rejected :
  mk_screen ex_rows 2 [] (Some ([(([97], 5), 0); (([98], 7), 2); (([], 7), -1); (([98], 0), -1)], true)) None true true = Err 3.
Proof. vm_compute. reflexivity. Qed.

(* ---- the model is the source: whole functions of batchie/data.py, re-translated from /repo on every run
   (harness/py2gal.py, configurations C01_* of harness/src_functions.py, Generated/SrcEncode.v and SrcScreenIds.v).
   Every numpy / pandas call is ONE primitive with a list meaning (end of Model/Encode.v, Model/Screen.v); the order and
   wiring of the calls, the branches, the raises and the None handling are the translation's. ---- *)

(* numpy_array_is_0_indexed_integers on an id array (integer dtype?, values) is [zero_indexed] *)
Theorem C01_model_is_source_numpy_array_is_0_indexed_integers : forall (isint : bool) (ids : list Z),
  src_numpy_array_is_0_indexed_integers (isint, ids) = Ok (zero_indexed isint ids).
Proof. exact src_valid_ids_is_model. Qed.
Print Assumptions C01_model_is_source_numpy_array_is_0_indexed_integers.

(* encode_treatment_arrays_to_0_indexed_ids, for ALL arguments (arrays of different lengths: pandas' ValueError, tag 15):
   it is [encode_treatments] on the zipped (name, dose) keys, returning the merged id column (no NaN: all Some) and the
   mapping's three columns.  Hypothesis: a supplied mapping is key-unique (true of every mapping batchie builds; with a
   repeated key pandas' merge would duplicate rows where the model takes the first match) *)
Theorem C01_model_is_source_encode_treatment_arrays :
  forall (names : list name) (doses : list Z) (ctrl : name) (existing : option tmap_py),
  match existing with Some t => NoDup (map fst (tmap_py_rows t)) | None => True end ->
  src_encode_treatment_arrays names doses ctrl existing
  = if negb (Nat.eqb (length names) (length doses)) then Err 15
    else if match existing with Some t => negb (tmap_py_aligned t) | None => false end then Err 15
    else dor r <- encode_treatments (combine names doses) ctrl (option_map tmap_py_rows existing);
         Ok (map Some (fst r), map (fun e => fst (fst e)) (snd r), map (fun e => snd (fst e)) (snd r), map snd (snd r)).
Proof. exact src_encode_treatments_is_model. Qed.
Print Assumptions C01_model_is_source_encode_treatment_arrays.

(* the `else` branch of that function, statement by statement (drop_duplicates, sort_values, reset_index, the two control
   tests, `|`, cumsum, index - cumsum, the sentinel override by label, the two `del`s) builds exactly [build_tmapping] *)
Theorem C01_model_is_source_assign : forall (ctrl : name) (keys : list tkey),
  map snd (src_built_frame ctrl (df_fresh keys)) = build_tmapping ctrl keys.
Proof. exact src_built_frame_rows. Qed.
Print Assumptions C01_model_is_source_assign.

(* the round-1 constant src_dose_is_control (Generated/SrcArithC01.v) is the comparison the translation applies to the
   dose column: redundant now, and consistent *)
Theorem C01_model_is_source_dose_test_consistent : forall doses : list Z,
  series_le0 doses = map src_dose_is_control doses.
Proof. exact src_dose_is_control_consistent. Qed.
Print Assumptions C01_model_is_source_dose_test_consistent.

(* encode_1d_array_to_0_indexed_ids, for all arguments, is [encode_names] (same hypothesis) *)
Theorem C01_model_is_source_encode_1d_array : forall (names : list name) (existing : option smap_py),
  match existing with Some t => NoDup (map fst (smap_py_rows t)) | None => True end ->
  src_encode_1d_array names existing
  = if match existing with Some t => negb (smap_py_aligned t) | None => false end then Err 15
    else dor r <- encode_names names (option_map smap_py_rows existing) 6;
         Ok (map Some (fst r), map fst (snd r), map snd (snd r)).
Proof. exact src_encode_1d_is_model. Qed.
Print Assumptions C01_model_is_source_encode_1d_array.

(* Screen.__init__, first statement: the attribute the id statements read is the parameter *)
Theorem C01_model_is_source_init_control_name : forall c : name, src_init_control_name c = Ok c.
Proof. exact src_init_control_name_is_param. Qed.
Print Assumptions C01_model_is_source_init_control_name.

(* Screen.__init__, the id-encoding statements (column-major flatten of both 2-d arrays for any arity, validation of the
   supplied mappings, the three encoder calls with the existing_mapping each receives, split / vstack / T, the stores):
   on the arrays of a constructor call they ARE the id part of [mk_screen], read back by [stored_ids].
   Hypotheses: arity > 0 (for shape[1] = 0 numpy's concatenate raises where the model builds an empty screen - the
   model is more permissive there; the harness generates arity 1-3), supplied mappings key-unique *)
Theorem C01_model_is_source_init_ids : forall rows a c tm sm,
  (0 < a)%nat ->
  match tm with Some (m, _) => NoDup (map fst m) | None => True end ->
  match sm with Some (m, _) => NoDup (map fst m) | None => True end ->
  (dor s <- mk_screen rows a c tm sm true true; Ok (stored_ids s))
  = if negb (forallb (fun r => Nat.eqb (length (r_treats r)) a) rows) then Err 1
    else if negb (plate_uniform rows) then Err 2
    else src_init_ids (names_arr a rows) (doses_arr a rows) (map r_sample rows) (map r_plate rows)
                      (tmap_arg_py tm) (smap_arg_py sm) c.
Proof. exact src_init_ids_is_model. Qed.
Print Assumptions C01_model_is_source_init_ids.

(* the whole constructor model, whatever the call passes: refuse ragged rows; the two translated observation-mask runs
   (the C12_model_is_source_init theorems); then the translated id run on the rows they leave *)
Theorem C01_model_is_source_init : forall rows a c tm sm og mg,
  (0 < a)%nat ->
  match tm with Some (m, _) => NoDup (map fst m) | None => True end ->
  match sm with Some (m, _) => NoDup (map fst m) | None => True end ->
  (dor s <- mk_screen rows a c tm sm og mg; Ok (stored_ids s))
  = if negb (forallb (fun r => Nat.eqb (length (r_treats r)) a) rows) then Err 1
    else dor rows' <- C12Source.src_mask_rules rows og mg;
         src_init_ids (names_arr a rows') (doses_arr a rows') (map r_sample rows') (map r_plate rows')
                      (tmap_arg_py tm) (smap_arg_py sm) c.
Proof. exact mk_screen_is_source_runs. Qed.
Print Assumptions C01_model_is_source_init.

(* ExperimentSpace.n_unique_samples / n_unique_treatments (the sizes every id is bounded by), on the mapping tuples a
   constructed screen stores and from_screen hands over *)
Theorem C01_model_is_source_n_unique_samples : forall s : screen,
  src_space_n_unique_samples (nmap_cols2 (s_smap s)) = Ok (space_n_samples s).
Proof. exact src_space_n_samples_is_model. Qed.
Print Assumptions C01_model_is_source_n_unique_samples.

Theorem C01_model_is_source_n_unique_treatments : forall s : screen,
  src_space_n_unique_treatments (tmap_cols3 (s_tmap s)) = Ok (space_n_treatments s).
Proof. exact src_space_n_treatments_is_model. Qed.
Print Assumptions C01_model_is_source_n_unique_treatments.

(* ---- ExperimentSpace: the constructor and the query methods (Generated/SrcSpaceMethods.v; models: last part of Model/Persist.v).
   An ExperimentSpace object is [pyspace] = its three attributes as stored; [pyspace_of sp] is the object of the model space sp. ---- *)

(* __init__ stores its three arguments, whatever the instance held before *)
Theorem C01_model_is_source_space_init : forall (o : pyspace) (tm : tmap_arrays) (sm : smap_arrays) (c : name),
  src_space_init o tm sm c = Ok (tm, sm, c).
Proof. exact src_space_init_stores. Qed.
Print Assumptions C01_model_is_source_space_init.

(* the constructor-call primitive of the from_screen / load_h5 links (C02: arrays_space) is this constructor *)
Theorem C01_model_is_source_space_init_arrays : forall (tm : tmap_arrays) (sm : smap_arrays) (c : name) (sp : space),
  arrays_space tm sm c = Ok sp -> src_space_init blank_pyspace tm sm c = Ok (pyspace_of sp).
Proof. exact arrays_space_is_src_init. Qed.
Print Assumptions C01_model_is_source_space_init_arrays.

Theorem C01_model_is_source_n_unique_treatment_types : forall sp : space,
  src_space_n_unique_treatment_types (pyspace_of sp) = Ok (space_n_treatment_types sp).
Proof. exact src_space_n_treatment_types_is_model. Qed.
Print Assumptions C01_model_is_source_n_unique_treatment_types.

Theorem C01_model_is_source_n_unique_doses : forall sp : space,
  src_space_n_unique_doses (pyspace_of sp) = Ok (space_n_doses sp).
Proof. exact src_space_n_doses_is_model. Qed.
Print Assumptions C01_model_is_source_n_unique_doses.

Theorem C01_model_is_source_doses_for_treatment : forall (sp : space) (nm : name),
  src_space_doses_for_treatment (pyspace_of sp) nm = Ok (space_doses_for_treatment sp nm).
Proof. exact src_space_doses_for_treatment_is_model. Qed.
Print Assumptions C01_model_is_source_doses_for_treatment.

Theorem C01_model_is_source_treatment_ids_from_treatment_name : forall (sp : space) (nm : name),
  src_space_treatment_ids_from_treatment_name (pyspace_of sp) nm = Ok (space_treatment_ids_of_name sp nm).
Proof. exact src_space_treatment_ids_from_name_is_model. Qed.
Print Assumptions C01_model_is_source_treatment_ids_from_treatment_name.

Theorem C01_model_is_source_sample_id_from_sample_name : forall (sp : space) (nm : name),
  src_space_sample_id_from_sample_name (pyspace_of sp) nm = space_sample_id sp nm.
Proof. exact src_space_sample_id_is_model. Qed.
Print Assumptions C01_model_is_source_sample_id_from_sample_name.

Theorem C01_model_is_source_sample_name_from_sample_id : forall (sp : space) (i : Z),
  src_space_sample_name_from_sample_id (pyspace_of sp) i = space_sample_name sp i.
Proof. exact src_space_sample_name_is_model. Qed.
Print Assumptions C01_model_is_source_sample_name_from_sample_id.

(* what the translated methods answer on the space from_screen builds for a constructed screen.
   The two sample lookups are mutually inverse (a supplied sample mapping must not repeat a name or an id) ... *)
Theorem C01_space_sample_lookups_inverse : forall rows a ctrl tm sm og mg s,
  mk_screen rows a ctrl tm sm og mg = Ok s ->
  match sm with Some (m, _) => NoDup (map fst m) /\ NoDup (map snd m) | None => True end ->
  forall nm i,
  src_space_sample_id_from_sample_name (pyspace_of (space_of_screen s)) nm = Ok i
  <-> src_space_sample_name_from_sample_id (pyspace_of (space_of_screen s)) i = Ok nm.
Proof. exact src_sample_lookups_inverse. Qed.
Print Assumptions C01_space_sample_lookups_inverse.

(* ... every sample of the screen has an id, the one its experiments carry ... *)
Theorem C01_space_sample_id_of_row : forall rows a ctrl tm sm og mg s,
  mk_screen rows a ctrl tm sm og mg = Ok s ->
  match sm with Some (m, _) => NoDup (map fst m) /\ NoDup (map snd m) | None => True end ->
  forall r, In r (s_rows s) ->
  src_space_sample_id_from_sample_name (pyspace_of (space_of_screen s)) (r_sample r) = Ok (nid_of (s_smap s) (r_sample r)).
Proof. exact src_sample_id_of_row. Qed.
Print Assumptions C01_space_sample_id_of_row.

(* ... and an id the lookup returns lies below n_unique_samples *)
Theorem C01_space_sample_id_bounded : forall rows a ctrl tm og mg s nm i,
  mk_screen rows a ctrl tm None og mg = Ok s ->
  src_space_sample_id_from_sample_name (pyspace_of (space_of_screen s)) nm = Ok i -> 0 <= i < space_n_samples s.
Proof. exact src_sample_id_bounded. Qed.
Print Assumptions C01_space_sample_id_bounded.

(* the ids of a treatment name are the sentinel or lie below n_unique_treatments *)
Theorem C01_space_treatment_ids_bounded : forall rows a ctrl tm sm og mg s nm i,
  mk_screen rows a ctrl tm sm og mg = Ok s ->
  match tm with Some (_, b) => b = true | None => True end ->
  In i (space_treatment_ids_of_name (space_of_screen s) nm) ->
  i = CONTROL_SENTINEL_VALUE \/ 0 <= i < space_n_treatments s.
Proof. exact space_treatment_ids_of_name_bounded. Qed.
Print Assumptions C01_space_treatment_ids_bounded.

(* the doses of a treatment name: exactly the non-zero doses of the mapping rows of that name *)
Theorem C01_space_doses_for_treatment_spec : forall (sp : space) (nm : name) (d : Z),
  In d (space_doses_for_treatment sp nm) <-> (d <> 0 /\ In (nm, d) (map fst (sp_tmap sp))).
Proof. exact space_doses_for_treatment_spec. Qed.
Print Assumptions C01_space_doses_for_treatment_spec.

(* non-vacuity of the links: the translated functions run on the example above *)
Example C01_example_source_valid_ids :
  src_numpy_array_is_0_indexed_integers (true, [1; -1; 0; 1]) = Ok true /\
  src_numpy_array_is_0_indexed_integers (true, [2; -1; 0]) = Ok false /\
  src_numpy_array_is_0_indexed_integers (false, [0; 1]) = Ok false.
Proof. vm_compute. repeat split. Qed.

Example C01_example_source_encode :
  src_encode_treatment_arrays [[97]; [98]; []; [98]; [97]] [5; 7; 7; 0; 5] [] None
  = Ok ([Some 0; Some 1; Some (-1); Some (-1); Some 0], [[]; [97]; [98]; [98]], [7; 5; 0; 7], [-1; 0; -1; 1]).
Proof. vm_compute. reflexivity. Qed.

Example C01_example_source_init :
  exists ids, src_init_ids (names_arr 2 ex_rows) (doses_arr 2 ex_rows) (map r_sample ex_rows) (map r_plate ex_rows) None None []
              = Ok ids /\ snd (fst (fst (fst (fst ids)))) = (2%nat, [[Some 0; Some 1]; [Some 0; Some (-1)]; [Some (-1); Some 1]]).
Proof. eexists. vm_compute. split; reflexivity. Qed.

(* the translated ExperimentSpace methods run: names "a" "b", control "", doses 5 7 0; samples "s" "t" *)
Definition ex_space : space :=
  {| sp_tmap := [(([], 7), -1); (([97], 5), 0); (([98], 0), -1); (([98], 7), 1); (([98], 5), 2)];
     sp_smap := [([115], 0); ([116], 1)]; sp_ctrl := [] |}.
Example C01_example_source_space :
  src_space_n_unique_treatment_types (pyspace_of ex_space) = Ok 2 /\
  src_space_n_unique_doses (pyspace_of ex_space) = Ok 2 /\
  src_space_doses_for_treatment (pyspace_of ex_space) [98] = Ok [5; 7] /\
  src_space_treatment_ids_from_treatment_name (pyspace_of ex_space) [98] = Ok [-1; 1; 2] /\
  src_space_sample_id_from_sample_name (pyspace_of ex_space) [116] = Ok 1 /\
  src_space_sample_name_from_sample_id (pyspace_of ex_space) 0 = Ok [115] /\
  src_space_sample_id_from_sample_name (pyspace_of ex_space) [117] = Err 36.
Proof. vm_compute. repeat split. Qed.

(* ---- the DECODE direction and supplied batchie-made mappings (gap review g1, C01 gaps 1 and 2; Proofs/C01Decode.v) ---- *)
From Batchie Require Import Proofs.C01Decode.

(* the mapping a screen builds lists exactly the (name, dose) pairs of its rows, each once *)
Theorem C01_mapping_keys_are_row_keys : forall rows a ctrl sm og mg s,
  mk_screen rows a ctrl None sm og mg = Ok s ->
  NoDup (map fst (s_tmap s)) /\ forall k, In k (map fst (s_tmap s)) <-> row_keys s k.
Proof. exact mapping_keys_are_row_keys. Qed.
Print Assumptions C01_mapping_keys_are_row_keys.

(* ... and decodes: an id of the mapping is the sentinel exactly on controls, a non-control id belongs to exactly one
   (name, dose), and looking a (name, dose) up returns the id stored with it - with C01_decode_treatments: an experiment's
   non-control id decodes through the mapping to EXACTLY that experiment's (name, dose) *)
Theorem C01_mapping_decodes : forall rows a ctrl sm og mg s,
  mk_screen rows a ctrl None sm og mg = Ok s ->
  (forall k id, In (k, id) (s_tmap s) -> (id = CONTROL_SENTINEL_VALUE <-> (snd k <= 0 \/ fst k = ctrl))) /\
  (forall k1 k2 id, In (k1, id) (s_tmap s) -> In (k2, id) (s_tmap s) -> id <> CONTROL_SENTINEL_VALUE -> k1 = k2) /\
  (forall k id, In (k, id) (s_tmap s) -> tid_of (s_tmap s) k = id).
Proof. exact mapping_decodes. Qed.
Print Assumptions C01_mapping_decodes.

Theorem C01_sample_mapping_decodes : forall rows a ctrl tm og mg s,
  mk_screen rows a ctrl tm None og mg = Ok s ->
  NoDup (map fst (s_smap s)) /\ (forall n, In n (map fst (s_smap s)) <-> exists r, In r (s_rows s) /\ r_sample r = n) /\
  (forall n1 n2 id, In (n1, id) (s_smap s) -> In (n2, id) (s_smap s) -> n1 = n2).
Proof. exact sample_mapping_decodes. Qed.
Print Assumptions C01_sample_mapping_decodes.

(* a screen constructed WITH the mapping batchie built for another screen (same control name; any rows, arity, flags):
   construction succeeding already means the data is covered; the sentinel clause and equal-ids-iff-equal-keys hold on it *)
Theorem C01_control_iff_supplied : forall rows a ctrl sm og mg s,
  mk_screen rows a ctrl None sm og mg = Ok s ->
  forall sub a' b sm' og' mg' s',
  mk_screen sub a' ctrl (Some (s_tmap s, b)) sm' og' mg' = Ok s' ->
  forall k, row_keys s' k ->
  (tid_of (s_tmap s') k = CONTROL_SENTINEL_VALUE <-> (snd k <= 0 \/ fst k = ctrl)).
Proof. exact control_iff_supplied. Qed.
Print Assumptions C01_control_iff_supplied.

Theorem C01_treatment_ids_injective_supplied : forall rows a ctrl sm og mg s,
  mk_screen rows a ctrl None sm og mg = Ok s ->
  forall sub a' b sm' og' mg' s',
  mk_screen sub a' ctrl (Some (s_tmap s, b)) sm' og' mg' = Ok s' ->
  forall k1 k2, row_keys s' k1 -> row_keys s' k2 ->
  tid_of (s_tmap s') k1 <> CONTROL_SENTINEL_VALUE ->
  (tid_of (s_tmap s') k1 = tid_of (s_tmap s') k2 <-> k1 = k2).
Proof. exact treatment_ids_injective_supplied. Qed.
Print Assumptions C01_treatment_ids_injective_supplied.

(* its ids are the superset screen's ids of the same (name, dose), below the superset's space size, which is also its own *)
Theorem C01_ids_of_superset_supplied : forall rows a ctrl sm og mg s,
  mk_screen rows a ctrl None sm og mg = Ok s ->
  forall sub a' b sm' og' mg' s',
  mk_screen sub a' ctrl (Some (s_tmap s, b)) sm' og' mg' = Ok s' ->
  forall k, row_keys s' k ->
  tid_of (s_tmap s') k = tid_of (s_tmap s) k /\ tid_of (s_tmap s') k < space_n_treatments s /\
  space_n_treatments s' = space_n_treatments s.
Proof. exact ids_of_superset_supplied. Qed.
Print Assumptions C01_ids_of_superset_supplied.

Theorem C01_sample_ids_injective_supplied : forall rows a ctrl tm og mg s,
  mk_screen rows a ctrl tm None og mg = Ok s ->
  forall sub a' ctrl' tm' b og' mg' s',
  mk_screen sub a' ctrl' tm' (Some (s_smap s, b)) og' mg' = Ok s' ->
  forall r1 r2, In r1 (s_rows s') -> In r2 (s_rows s') ->
  (nid_of (s_smap s') (r_sample r1) = nid_of (s_smap s') (r_sample r2) <-> r_sample r1 = r_sample r2).
Proof. exact sample_ids_injective_supplied. Qed.
Print Assumptions C01_sample_ids_injective_supplied.
