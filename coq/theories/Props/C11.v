(* C11 - Retrospective preparation conserves experiments; the hold-out split partitions.
   Statements only; every proof is `exact <lemma from Proofs/>`.
   Vocabulary: [strip r] = experiment minus its plate label (sample, treatments, observation, mask);
   [unobserved]/[observed] = the two parts generate_plates / smooth_plates split the screen into;
   [draw] streams are the recorded answers of rng.permutation / rng.choice / heappop / argsort. *)
From Coq Require Import ZArith List Bool Permutation.
From Batchie Require Import Lib.Sexp Model.Encode Model.Screen Model.Retro Model.Pairwise Model.RetroHoldout
  Model.RetroInit Proofs.C11Lib Proofs.C11Gen Proofs.C11Smooth Proofs.C11Select Proofs.C11Holdout Proofs.C11Init
  Generated.SrcRetro Proofs.C11Source Proofs.C11Source_Holdout Proofs.C13SampleSeg Proofs.C13SparseTerm Generated.SrcRetroGen Proofs.C13Source
  Proofs.C13Source_Holdout Proofs.C13SourcePairwise.
Import ListNotations.

(* ---- the models are what the source says NOW ----
   `src_*` (Generated/SrcRetro.v) are WHOLE functions of /repo's current working tree, re-translated statement by
   statement on every run (harness/py2gal.py, configurations in harness/src_functions.py); each equals the
   hand-written model for ALL inputs, so the theorems below are theorems about the translated source.
   Trusted: the translator and the primitives listed in the configurations (Model/Retro.v, last section). *)

(* RetrospectivePlateGenerator.generate_plates (core.py): split into unobserved / observed, `is None` checks,
   to_screen, recombination new ++ observed - for EVERY inner generator f (the abstract self._generate_plates),
   in particular the shipped ones the conservation theorems are about *)
Theorem C11_model_is_source_generate_plates : forall rows ds,
  (forall f : inner, src_generate_plates f rows ds = wrap f rows ds) /\
  (forall g, src_generate_plates (generate_inner g) rows ds = generate_plates g rows ds).
Proof. exact src_generate_plates_is_model. Qed.
Print Assumptions C11_model_is_source_generate_plates.

(* RetrospectivePlateSmoother.smooth_plates (core.py), likewise *)
Theorem C11_model_is_source_smooth_plates : forall rows ds,
  (forall f : inner, src_smooth_plates f rows ds = wrap f rows ds) /\
  (forall sm, src_smooth_plates (smooth_inner sm) rows ds = smooth_plates sm rows ds).
Proof. exact src_smooth_plates_is_model. Qed.
Print Assumptions C11_model_is_source_smooth_plates.

(* MergeMinPlateSmoother._get_plate_sample_id (retrospective.py): the `len(...) > 1` test, the raise, the `[0]`;
   on the plate named p of the screen (a Plate is its selection vector) it is the model's [plate_sample] *)
Theorem C11_model_is_source_merge_min_get_plate_sample_id : forall rows p,
  src_merge_min_get_plate_sample_id rows (plate_vec p rows) = plate_sample p rows.
Proof. exact src_get_plate_sample_id_is_model. Qed.
Print Assumptions C11_model_is_source_merge_min_get_plate_sample_id.

(* MergeMinPlateSmoother._smooth_plates (retrospective.py): the loop over the samples, the comprehension building the
   heap (through the translated _get_plate_sample_id), the `while True:` with its two `break`s (len <= 1; sum of the two
   smallest sizes > min_size), the two heappops, the merge of the second smallest WITH the smallest, the push.
   The `while` is translated into recursion on the explicit fuel [fuel] (Err 97 if it ran out, which is not a Python
   behaviour); with more fuel than the screen has experiments (e.g. fuel = S (length rows)) the translation equals
   the model for every min_size, screen and answer stream - the model's own fuel (the heap size) is sufficient *)
Theorem C11_model_is_source_merge_min_smooth_plates : forall min_size rows ds fuel,
  length rows < fuel ->
  src_merge_min_smooth_plates min_size rows ds fuel = merge_min min_size rows ds.
Proof. exact src_merge_min_is_model. Qed.
Print Assumptions C11_model_is_source_merge_min_smooth_plates.

(* MergeTopBottomPlateSmoother._get_plate_sample_id (same text as MergeMin's, translated on its own) *)
Theorem C11_model_is_source_merge_tb_get_plate_sample_id : forall rows p,
  src_merge_tb_get_plate_sample_id rows (plate_vec p rows) = plate_sample p rows.
Proof. exact src_tb_get_plate_sample_id_is_model. Qed.
Print Assumptions C11_model_is_source_merge_tb_get_plate_sample_id.

(* MergeTopBottomPlateSmoother._smooth_plates (retrospective.py): the loop over the samples, `for i in
   range(self.n_iterations)` with its `break` at <= 1 plates, the comprehension, the sort by size, halfway =
   floor(len / 2), the zip of the first half with the reversed list's first half, bigger.merge(smaller) for each
   pair - equal to the model for every n_iterations and screen (no fuel: both loops are `for` loops) *)
Theorem C11_model_is_source_merge_tb_smooth_plates : forall n_iter rows,
  src_merge_tb_smooth_plates n_iter rows = merge_tb n_iter rows.
Proof. exact src_merge_tb_is_model. Qed.
Print Assumptions C11_model_is_source_merge_tb_smooth_plates.

(* create_plate_balanced_holdout_set_among_masked_plates (retrospective.py): the range check and its raise, the
   all-false selection vector, the loop over the plates, `if plate.is_observed: continue`, the count
   math.ceil(plate.size * fraction), the rng.choice of that many of the plate's indices, the update
   selection_vector[indices] = True, the two Screen(...) calls (rows not selected; rows selected, marked observed),
   the returned pair - equal to the model for every fraction num/den, count mode, screen and answer stream *)
Theorem C11_model_is_source_create_plate_balanced_holdout_set_among_masked_plates : forall num den counts rows ds,
  src_balanced_holdout num den counts rows ds = holdout_balanced num den counts rows ds.
Proof. exact src_balanced_holdout_is_model. Qed.
Print Assumptions C11_model_is_source_create_plate_balanced_holdout_set_among_masked_plates.

(* create_random_holdout (retrospective.py): the range check and its raise, the all-false selection vector, the single
   rng.choice of math.ceil(screen.size * fraction) of all row numbers, selection_vector[indices] = True, the two Screen(...)
   calls, the returned pair - equal to [holdout_random] (the subject of C11_random_holdout_partition) for every fraction
   num/den, count mode, screen and answer stream *)
Theorem C11_model_is_source_create_random_holdout : forall num den count rows ds,
  src_random_holdout num den count rows ds = holdout_random num den count rows ds.
Proof. exact src_random_holdout_is_model. Qed.
Print Assumptions C11_model_is_source_create_random_holdout.

(* the shipped generators and smoothers, the initial plate and the combination filter - the subjects of
   C11_generator_conserves, C11_smoother_sub, C11_size_smoothers_keep_rows, C11_initial_plate_conserves, C11_filter_sub:
   the same links as in Props/C13.v (see the comments there; Generated/SrcRetroGen.v, proofs in Proofs/C13Source.v) *)
Theorem C11_model_is_source_sample_segregating_generate_plates : forall mx rows ds, (0 <= mx)%Z ->
  src_sample_seg_generate_plates mx rows ds = sample_seg_checked mx rows ds /\
  (ss_contract mx rows (sample_names rows) ds -> src_sample_seg_generate_plates mx rows ds = sample_seg true mx rows ds) /\
  (ss_contract mx (unobserved rows) (sample_names (unobserved rows)) ds ->
   src_generate_plates (src_sample_seg_generate_plates mx) rows ds = generate_plates (GSampleSeg true mx) rows ds).
Proof. exact link_sample_segregating_generate_plates. Qed.
Print Assumptions C11_model_is_source_sample_segregating_generate_plates.

Theorem C11_model_is_source_sample_segregating_generate_plates_negative_max : forall mx rows ds, (mx < 0)%Z ->
  match sample_seg true mx rows ds with
  | Ok r => src_sample_seg_generate_plates mx rows ds = Ok r
  | Err _ => exists t, src_sample_seg_generate_plates mx rows ds = Err t
  end.
Proof. exact src_sample_seg_negative_max. Qed.
Print Assumptions C11_model_is_source_sample_segregating_generate_plates_negative_max.

Theorem C11_model_is_source_plate_permutation_generate_plates : forall force rows ds,
  src_plate_permutation_generate_plates force rows ds = plate_perm (match force with Some l => l | None => [] end) rows ds /\
  src_generate_plates (src_plate_permutation_generate_plates force) rows ds
  = generate_plates (GPerm (match force with Some l => l | None => [] end)) rows ds.
Proof. exact link_plate_permutation_generate_plates. Qed.
Print Assumptions C11_model_is_source_plate_permutation_generate_plates.

Theorem C11_model_is_source_fixed_size_smooth_plates : forall t rows ds,
  src_fixed_size_smooth_plates t rows ds = size_smooth t rows ds /\
  src_smooth_plates (src_fixed_size_smooth_plates t) rows ds = smooth_plates (SFixed t) rows ds.
Proof. exact link_fixed_size_smooth_plates. Qed.
Print Assumptions C11_model_is_source_fixed_size_smooth_plates.

Theorem C11_model_is_source_optimal_size_smooth_plates : forall rows ds,
  src_optimal_size_smooth_plates rows ds = optimal_smooth rows ds /\
  src_smooth_plates src_optimal_size_smooth_plates rows ds = smooth_plates SOptimal rows ds.
Proof. exact link_optimal_size_smooth_plates. Qed.
Print Assumptions C11_model_is_source_optimal_size_smooth_plates.

Theorem C11_model_is_source_nplate_smooth_plates : forall m rows ds,
  (forall p, src_nplate_get_plate_sample_id rows (plate_vec p rows) = dor nm <- plate_sample p rows; Ok (sample_id_z rows nm)) /\
  src_nplate_smooth_plates m rows = nplate true m rows /\
  src_smooth_plates (fun s d => dor r <- src_nplate_smooth_plates m s; Ok (r, d)) rows ds = smooth_plates (SNPlate true m) rows ds.
Proof. exact link_nplate_smooth_plates. Qed.
Print Assumptions C11_model_is_source_nplate_smooth_plates.

Theorem C11_model_is_source_ensemble_smooth_plates : forall ms n m rows ds fuel, length rows < fuel ->
  src_ensemble_smooth_plates ms n m rows ds fuel = ensemble true ms n m rows ds /\
  src_smooth_plates (fun s d => src_ensemble_smooth_plates ms n m s d fuel) rows ds = smooth_plates (SEnsemble true ms n m) rows ds.
Proof. exact link_ensemble_smooth_plates. Qed.
Print Assumptions C11_model_is_source_ensemble_smooth_plates.

Theorem C11_model_is_source_sparse_cover_generate_and_unmask_initial_plate : forall ctrl reveal rows ds fuel,
  length ds < fuel \/ ndistinct (all_tids ctrl rows) < fuel ->
  (forall f : initial_inner,
     src_generate_and_unmask_initial_plate f rows ds = if negb (forallb r_mask rows) then Err 8%Z else f rows ds) /\
  src_sparse_cover ctrl reveal rows ds fuel = sparse_cover_inner ctrl reveal rows ds /\
  src_generate_and_unmask_initial_plate (fun s d => src_sparse_cover ctrl reveal s d fuel) rows ds = sparse_cover ctrl reveal rows ds.
Proof. exact link_sparse_cover_generate_and_unmask_initial_plate. Qed.
Print Assumptions C11_model_is_source_sparse_cover_generate_and_unmask_initial_plate.

Theorem C11_model_is_source_sparse_cover_terminates : forall ctrl reveal rows ds,
  forallb r_mask rows = true ->
  sc_contract ctrl rows (sample_names rows) [] ds ->
  length (sample_names rows) + ndistinct (all_tids ctrl rows) <= length ds ->
  exists out ds',
    src_generate_and_unmask_initial_plate
      (fun s d => src_sparse_cover ctrl reveal s d (S (ndistinct (all_tids ctrl rows)))) rows ds = Ok (out, ds').
Proof. exact src_sparse_cover_terminates. Qed.
Print Assumptions C11_model_is_source_sparse_cover_terminates.

Theorem C11_model_is_source_filter_dataset_to_treatments_that_appear_in_at_least_one_combo : forall ctrl arity rows,
  src_combo_filter ctrl arity rows = combo_filter ctrl arity rows.
Proof. exact src_combo_filter_is_model. Qed.
Print Assumptions C11_model_is_source_filter_dataset_to_treatments_that_appear_in_at_least_one_combo.

Theorem C11_model_is_source_pairwise_generate_plates : forall ctrl subset anchor rows ds,
  (argsort_ok anchor (length (unique_ids ctrl (filter (is_combo ctrl) rows))) ds ->
   src_pairwise_generate_plates ctrl subset anchor rows ds = pairwise ctrl subset anchor rows ds) /\
  (argsort_ok anchor (length (unique_ids ctrl (filter (is_combo ctrl) (unobserved rows)))) ds ->
   src_generate_plates (src_pairwise_generate_plates ctrl subset anchor) rows ds
   = generate_plates (GPairwise ctrl subset anchor) rows ds).
Proof. exact link_pairwise_generate_plates. Qed.
Print Assumptions C11_model_is_source_pairwise_generate_plates.

(* every shipped generator (PlatePermutation, SampleSegregating in both variants, Pairwise), every
   oracle answer: the output is new ++ (observed input rows, unchanged, still observed), the new rows
   are all unobserved and, minus plate labels, a permutation of the unobserved input rows *)
Theorem C11_generator_conserves : forall g rows ds out ds',
  generate_plates g rows ds = Ok (out, ds') ->
  exists nu, out = nu ++ observed rows
             /\ Forall (fun r => r_mask r = false) nu
             /\ Permutation (map strip nu) (map strip (unobserved rows)).
Proof. exact generator_conserves. Qed.
Print Assumptions C11_generator_conserves.

(* generic skeleton: whatever labels a generator computes (any labelling oracle, which may look at
   position and row), relabelling leaves every row minus its label unchanged, in order *)
Theorem C11_relabel_conserves : forall (labels : nat -> row -> name) rows,
  map strip (map (fun ir => set_plate (labels (fst ir) (snd ir)) (snd ir)) (enum_from 0 rows)) = map strip rows.
Proof. exact relabel_any_conserves. Qed.
Print Assumptions C11_relabel_conserves.

(* every shipped smoother (MergeMin, MergeTopBottom, FixedSize, OptimalSize, NPlatePerCellLine in both
   variants, BatchieEnsemble), every oracle answer: sub-multiset, observed part unchanged *)
Theorem C11_smoother_sub : forall sm rows ds out ds',
  smooth_plates sm rows ds = Ok (out, ds') ->
  exists nu, out = nu ++ observed rows
             /\ Forall (fun r => r_mask r = false) nu
             /\ exists rest, Permutation (map strip nu ++ rest) (map strip (unobserved rows)).
Proof. exact smoother_sub. Qed.
Print Assumptions C11_smoother_sub.

(* generic skeleton: ANY boolean row selection yields a sub-multiset of untouched rows *)
Theorem C11_select_sub : forall (v : bvec) (rows : list row), exists rest, Permutation (vselect v rows ++ rest) rows.
Proof. exact select_any_sub. Qed.
Print Assumptions C11_select_sub.

Theorem C11_merge_smoothers_relabel_only : forall rows ds out ds',
  (forall ms, merge_min ms rows ds = Ok (out, ds') -> map strip out = map strip rows) /\
  (forall n, merge_tb n rows = Ok out -> map strip out = map strip rows).
Proof. exact merge_smoothers_relabel_only. Qed.
Print Assumptions C11_merge_smoothers_relabel_only.

Theorem C11_size_smoothers_keep_rows : forall rows ds out ds',
  (forall t, size_smooth t rows ds = Ok (out, ds') -> exists v : bvec, out = vselect v rows) /\
  (optimal_smooth rows ds = Ok (out, ds') -> exists v : bvec, out = vselect v rows) /\
  (forall fx m, nplate fx m rows = Ok out -> exists v : bvec, out = vselect v rows).
Proof. exact size_smoothers_keep_rows. Qed.
Print Assumptions C11_size_smoothers_keep_rows.

(* plate-balanced hold-out, every fraction, every oracle answer: held is held0 marked observed and
   train ++ held0 is the input as a multiset - plate labels AND masks included, so train keeps its mask *)
Theorem C11_holdout_partition : forall num den counts rows ds train held ds',
  holdout_balanced num den counts rows ds = Ok (train, held, ds') ->
  exists held0,
    held = map (set_mask true) held0 /\ Permutation (train ++ held0) rows /\
    Forall (fun r => r_mask r = true) held /\ exists v : bvec, train = vselect v rows.
Proof. exact holdout_partition. Qed.
Print Assumptions C11_holdout_partition.

(* under numpy's choice contract: exactly ceil(fraction * size_p) rows of each unobserved plate p,
   none of any other plate (exact mode) *)
Theorem C11_holdout_counts : forall num den rows ds train held ds',
  holdout_balanced num den None rows ds = Ok (train, held, ds') ->
  choice_contract rows ds ->
  forall p,
    (In p (unobserved_plates rows) ->
       Z.of_nat (plate_count p held) = ceil_frac (plate_count p rows) num den) /\
    (~ In p (unobserved_plates rows) -> plate_count p held = 0).
Proof. exact holdout_counts. Qed.
Print Assumptions C11_holdout_counts.

(* oracle mode: the supplied values of math.ceil(size * fraction), in plate order *)
Theorem C11_holdout_counts_oracle : forall num den cs rows ds train held ds',
  holdout_balanced num den (Some cs) rows ds = Ok (train, held, ds') ->
  choice_contract rows ds ->
  map (fun q => Z.of_nat (plate_count q held)) (unobserved_plates rows)
    = firstn (length (unobserved_plates rows)) cs /\
  forall p, ~ In p (unobserved_plates rows) -> plate_count p held = 0.
Proof. exact holdout_counts_oracle. Qed.
Print Assumptions C11_holdout_counts_oracle.

(* ceil_frac is the ceiling: the least n with n * den >= size * num *)
Theorem C11_ceil_frac_spec : forall size num den,
  let n := ceil_frac size num den in
  (Zpos den * (n - 1) < Z.of_nat size * num <= Zpos den * n)%Z.
Proof. exact ceil_frac_spec. Qed.
Print Assumptions C11_ceil_frac_spec.

Theorem C11_random_holdout_partition : forall num den count rows ds train held ds',
  holdout_random num den count rows ds = Ok (train, held, ds') ->
  exists held0 idx,
    held = map (set_mask true) held0 /\ Permutation (train ++ held0) rows /\
    ds = DInts idx :: ds' /\
    Z.of_nat (length idx) = match count with Some c => c | None => ceil_frac (length rows) num den end /\
    (NoDup idx -> (forall i, In i idx -> (i < length rows)%nat) -> length held = length idx).
Proof. exact random_holdout_partition. Qed.
Print Assumptions C11_random_holdout_partition.

Theorem C11_initial_plate_conserves : forall ctrl reveal rows ds out ds',
  sparse_cover ctrl reveal rows ds = Ok (out, ds') -> map core out = map core rows.
Proof. exact initial_plate_conserves. Qed.
Print Assumptions C11_initial_plate_conserves.

Theorem C11_filter_sub : forall ctrl arity rows out,
  combo_filter ctrl arity rows = Ok out -> exists f, out = filter f rows.
Proof. exact filter_sub. Qed.
Print Assumptions C11_filter_sub.

(* ---- non-vacuity: concrete runs ---- *)
Definition mkrow (s p : Z) (o : Z) (m : bool) : row :=
  {| r_sample := [s]; r_plate := [p]; r_treats := [([97], 1); ([98], 2)]%Z; r_obs := o; r_mask := m |}.
Definition ex_rows : list row :=
  [mkrow 65 1 10 false; mkrow 65 1 11 false; mkrow 66 2 12 false; mkrow 66 2 13 false; mkrow 66 2 14 false;
   mkrow 67 3 15 true]%Z.

(* SampleSegregating (code as found), max 2: B's three experiments are split by the permutation 4,2,3 *)
Example C11_generator_example :
  option_map (fun r => map r_plate (fst r))
    (match generate_plates (GSampleSeg false 2) ex_rows [DInts [4; 2; 3]] with Ok r => Some r | Err _ => None end)
  = Some [[]; []; gen_name 0; gen_name 1; gen_name 0; [3%Z]].
Proof. vm_compute. reflexivity. Qed.

(* FixedSize 2 with the choice 4,2 out of plate 2: keeps plate 1 and two rows of plate 2 *)
Example C11_smoother_example :
  option_map (fun r => map r_obs (fst r))
    (match smooth_plates (SFixed 2) ex_rows [DInts [4; 2]] with Ok r => Some r | Err _ => None end)
  = Some [10; 11; 12; 14; 15]%Z.
Proof. vm_compute. reflexivity. Qed.

(* hold-out of 1/2: ceil(2/2)=1 of plate 1, ceil(3/2)=2 of plate 2, none of the observed plate 3;
   the answers satisfy the contract *)
Example C11_holdout_example :
  (match holdout_balanced 1 2 None ex_rows [DInts [1]; DInts [4; 2]] with
   | Ok (train, held, _) => Some (map r_obs train, map r_obs held, map r_mask held)
   | Err _ => None end)
  = Some ([10; 13; 15]%Z, [11; 12; 14]%Z, [true; true; true]).
Proof. vm_compute. reflexivity. Qed.
Example C11_holdout_contract_example : choice_contract ex_rows [DInts [1]; DInts [4; 2]].
Proof.
  unfold choice_contract. vm_compute.
  repeat constructor; eexists; (split; [reflexivity|]); split;
    try (repeat constructor; cbn; intuition congruence); intros x Hx; cbn in *; intuition.
Qed.

(* ================= the PRIMITIVES of the wrapper / hold-out / generator links are theorems =================
   (see the same section of Props/C13.v for the representation and the side conditions)  The translated Screen.combine,
   ScreenSubset.to_screen, Screen.subset / subset_unobserved / subset_observed and ScreenBase.is_observed
   (Generated/SrcViews.v, Generated/SrcPlates.v; equal to their Model/Views.v models by Props/C14.v), read through the
   representation, are [combine_screens], [Retro.to_screen], [subset_of], [Retro.subset_unobserved] / [Retro.subset_observed],
   `forallb r_mask` and [vec_observed]: the meanings the configurations C11_* / C13_* gave to those calls. *)
From Batchie Require Import Lib.PyRt Model.Views Generated.SrcViews Generated.SrcPlates
  Proofs.C14Defs Proofs.C14ToScreen Proofs.C13SourceHelpers_Base Proofs.C13SourceHelpers_Combine Proofs.C13SourceHelpers_Subset
  Proofs.C13SourceHelpers_SubsetObserved Proofs.C13SourceHelpers_Observed.

(* primitive `__a.combine(__b)` -> [combine_screens] (the wrappers, PlatePermutation, Pairwise): on two valid screens of one
   arity and control name (both descend from one screen) the translated Screen.combine is refused (mixed plate, tag 2) exactly
   when [construct] refuses the concatenated rows, and otherwise builds a fresh screen with those rows, self's first *)
Theorem C11_model_is_source_screen_combine : forall a b : pyscreen,
  screen_valid (snd a) -> screen_valid (snd b) -> s_arity (snd b) = s_arity (snd a) -> s_ctrl (snd b) = s_ctrl (snd a) ->
  res_rows (src_screen_combine a b) = combine_screens (s_rows (snd a)) (s_rows (snd b)) /\
  (forall s, src_screen_combine a b = Ok s ->
     fresh_screen s /\ s_arity s = s_arity (snd a) /\ s_ctrl s = s_ctrl (snd a)).
Proof. exact src_screen_combine_is_combine_screens. Qed.
Print Assumptions C11_model_is_source_screen_combine.

(* primitives `__s.subset(__v)` -> [subset_of] and `__s.to_screen()` -> [Retro.to_screen]: the view selects subset_of's rows;
   to_screen() of a view of a valid screen is never refused and yields a fresh screen with exactly those rows *)
Theorem C11_model_is_source_subset_to_screen :
  (forall (t : Z) (p : screen) (v : bvec), length v = screen_size p ->
     exists w, src_screen_subset (t, p) (true, v) = Ok w /\ view_rows w = subset_of (s_rows p) v /\
               v_tag w = t /\ v_parent w = p /\ v_sel w = v /\ view_ok w) /\
  (forall v : view, screen_valid (v_parent v) ->
     exists s, src_to_screen v = Ok s /\ s_rows s = Retro.to_screen (subset_of (s_rows (v_parent v)) (v_sel v)) /\
               fresh_screen s /\ s_arity s = s_arity (v_parent v) /\ s_ctrl s = s_ctrl (v_parent v)).
Proof. exact (conj src_screen_subset_is_subset_of src_to_screen_is_retro_to_screen). Qed.
Print Assumptions C11_model_is_source_subset_to_screen.

(* primitives `__s.subset_unobserved()` / `__s.subset_observed()`: None exactly when Retro's is None, else a view of the screen
   whose rows are Retro's unobserved / observed rows *)
Theorem C11_model_is_source_subset_unobserved_observed :
  (forall (t : Z) (p : screen), screen_wf p ->
     exists o, src_subset_unobserved (t, p) = Ok o /\ option_map view_rows o = Retro.subset_unobserved (s_rows p) /\
               (forall w, o = Some w -> v_tag w = t /\ v_parent w = p /\ view_ok w)) /\
  (forall (t : Z) (p : screen), screen_wf p ->
     exists o, src_subset_observed (t, p) = Ok o /\ option_map view_rows o = Retro.subset_observed (s_rows p) /\
               (forall w, o = Some w -> v_tag w = t /\ v_parent w = p /\ view_ok w)).
Proof. exact (conj src_subset_unobserved_is_retro src_subset_observed_is_retro). Qed.
Print Assumptions C11_model_is_source_subset_unobserved_observed.

(* primitives `__s.is_observed` -> `forallb r_mask` (the initial-plate wrapper) and `__p.is_observed` -> [vec_observed]
   (the balanced hold-out) *)
Theorem C11_model_is_source_is_observed :
  (forall s : pyscreen, src_screen_is_observed s = Ok (forallb r_mask (s_rows (snd s)))) /\
  (forall v : view, src_view_is_observed v = Ok (vec_observed (v_sel v) (s_rows (v_parent v)))).
Proof. exact src_is_observed_is_retro. Qed.
Print Assumptions C11_model_is_source_is_observed.

(* non-vacuity: the wrapper's own sequence on the example screen through the translated helpers - split, to_screen both
   parts, recombine unobserved-first - against the Retro primitives on the rows *)
Example C11_helpers_example :
  match mk_screen ex_rows 2 [] None None true true with
  | Ok s =>
      match (dor u <- src_subset_unobserved (0%Z, s); dor o <- src_subset_observed (0%Z, s);
             dor u' <- unwrap u; dor o' <- unwrap o; dor us <- src_to_screen u'; dor os <- src_to_screen o';
             dor c <- src_screen_combine (1%Z, us) (2%Z, os); Ok (s_rows us, s_rows os, s_rows c)) with
      | Ok (ur, orr, cr) =>
          Some ur = Retro.subset_unobserved ex_rows /\ Some orr = Retro.subset_observed ex_rows /\
          Ok cr = combine_screens ur orr
      | Err _ => False
      end
  | Err _ => False
  end.
Proof. vm_compute. repeat split. Qed.

(* ---- the prepare wrapper's get_args() does not touch the plain arguments ----
   `src_pr_get_args` is the WHOLE function get_args of /repo's current batchie/cli/prepare_retrospective_simulation.py, re-translated on
   every run (configuration ARGS_GET_ARGS_PR -> Generated/SrcCliArgs.v; parser.parse_args() is the primitive that yields the raw
   namespace).  Whatever the class lookups do, the namespace main() receives carries the plain argparse results unchanged - so the
   float given as --holdout-fraction is the fraction create_plate_balanced_holdout_set_among_masked_plates receives
   (C03_model_is_source_cli_prepare_retrospective_simulation: the hold-out is taken last, with args.holdout_fraction). *)
From Batchie Require Model.Cli Proofs.C03SourceArgs Generated.SrcCliArgs.
Theorem C11_model_is_source_cli_args_holdout_fraction_unchanged :
  forall (Cls F O : Type) (I : Cli.introspect Cls) (P : Cli.pyprims F O) (raw a : Cli.pr_ns Cls F O),
  SrcCliArgs.src_pr_get_args Cls F O I P raw = Ok a ->
  Cli.pr_holdout_fraction (Cli.pr_plain a) = Cli.pr_holdout_fraction (Cli.pr_plain raw).
Proof. exact C03SourceArgs.src_pr_get_args_holdout. Qed.
Print Assumptions C11_model_is_source_cli_args_holdout_fraction_unchanged.

(* ---- the argparse option tables: get_parser() of prepare_retrospective_simulation, re-read from /repo on every run by the fail-closed reader
   harness/argparse_reader.py (Generated/SrcParser_<command>.v; a get_parser that is not a plain sequence of literal
   parser.add_argument calls is refused and these theorems stop compiling).  What the argument records of Model/Cli.v assume of
   the namespace parse_args() yields - the premise of the C??_model_is_source_cli_* links - is provided by the declared options:
   Cli.declares = the attribute is the dest of EXACTLY ONE option, which stores the assumed kind of value and can be None exactly
   where the record has an option type; Cli.dests_derived = the dest the reader computed is argparse's derivation from the flags;
   Cli.dests_distinct = no dest and no flag is declared twice; Cli.seed_declared = --seed is an int option with a non-negative int
   default (get_prng_from_seed_argument never sees None); Cli.coordinates_int = --n-chunks / --chunk-index / --n-chains /
   --chain-index are int options that are never None; Cli.params_kv = every --*-param option accumulates through KVAppendAction;
   Cli.fraction_declared = --holdout-fraction is a float option with a default in [0, 1]. ---- *)

From Batchie Require Model.Cli Proofs.C18Parser Generated.SrcParser_prepare_retrospective_simulation Proofs.C18SourceParser_prepare_retrospective_simulation.
Theorem C11_source_parser_prepare_retrospective_simulation_fraction :
  Cli.fraction_declared SrcParser_prepare_retrospective_simulation.src_parser_prepare_retrospective_simulation.
Proof. exact C18SourceParser_prepare_retrospective_simulation.parser_prepare_retrospective_simulation_fraction. Qed.
Print Assumptions C11_source_parser_prepare_retrospective_simulation_fraction.

Theorem C11_source_parser_prepare_retrospective_simulation_fields :
  forall f, In f (Cli.pr_fields ++ Cli.logging_fields) -> Cli.declares SrcParser_prepare_retrospective_simulation.src_parser_prepare_retrospective_simulation f.
Proof. exact C18SourceParser_prepare_retrospective_simulation.parser_prepare_retrospective_simulation_fields. Qed.
Print Assumptions C11_source_parser_prepare_retrospective_simulation_fields.

Theorem C11_source_parser_prepare_retrospective_simulation_dests_derived :
  Cli.dests_derived SrcParser_prepare_retrospective_simulation.src_parser_prepare_retrospective_simulation.
Proof. exact C18SourceParser_prepare_retrospective_simulation.parser_prepare_retrospective_simulation_dests_derived. Qed.
Print Assumptions C11_source_parser_prepare_retrospective_simulation_dests_derived.
