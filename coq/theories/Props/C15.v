(* C15 — Combination unranking is a bijection: sampled triples are distinct and complete.
   Statements only; every proof is `exact <lemma from Proofs/>`.
   Vocabulary (Model/Binom.v):  Cz n k = C(n,k) (Pascal recursion);  desc_below n c = "c is strictly
   descending with entries in [0,n)" (a k-subset of {0..n-1} as a descending tuple);
   rank [c1>...>ck] = sum_j C(c_j, k-j+1);  lex_lt = Python's tuple order.
   unrank index n k (Model/Unrank.v) is generate_combination_at_sorted_index, statement by statement.
   All theorems are for ALL n >= 0 and ALL k (not only k <= 4). *)
From Coq Require Import ZArith List Sorting.Sorted Sorting.Permutation.
From Batchie Require Import Lib.Sexp Model.Unrank Model.Binom
  Proofs.C15Binom Proofs.C15Unrank Proofs.C15Enum Proofs.C15Src Generated.SrcArithC15
  Generated.SrcUnrank Proofs.C15Source.
Import ListNotations.
Open Scope Z_scope.

(* the loops of the model ARE the source's loops: the src_* definitions are translated statement by
   statement from generate_combination_at_sorted_index on every run (harness/py2coq.py); the model
   adds only the ZeroDivisionError guard and fuel *)
Theorem C15_model_is_source_loops :
  (forall n k, init_nck n k
     = fold_left (fun acc i => src_init_body acc (n - Z.of_nat i + 1) (Z.of_nat i)) (seq 1 k) 1) /\
  (forall f index k cur nck n, unrank_inner (S f) index k cur nck n =
     if src_inner_cond cur nck index then
       let '(cur', nck', n') := src_inner_body cur nck n k in
       if n' =? 0 then Err 8 else unrank_inner f index k cur' nck' n'
     else Ok (cur, nck, n)) /\
  (forall index k ks cur nck n, unrank_outer index (k :: ks) cur nck n =
     if n =? 0 then Err 8
     else
       dor st <- unrank_inner (S (Z.to_nat n)) index k cur (src_outer_pre nck k n) n;
       let '(cur, nck, n) := st in
       let n := src_outer_post n in
       dor rest <- unrank_outer index ks cur nck n;
       Ok (n :: rest)).
Proof. exact (conj init_nck_is_source (conj unrank_inner_is_source unrank_outer_is_source)). Qed.
Print Assumptions C15_model_is_source_loops.

(* WHOLE-FUNCTION source link.  Generated/SrcUnrank.v holds the Gallina translation (harness/py2gal.py, regenerated from
   /repo on every run) of the generator generate_combination_at_sorted_index as ONE function - the product loop over
   zip(range(n, n-k, -1), range(1, k+1)), the loop `for k in range(k, 0, -1)` whose variable shadows the parameter, the
   `while current_index - n_ck > index` loop as recursion on the explicit parameter [fuel] (Err 97 if it ran out, which is
   not a Python behaviour), every // and % CHECKED (ZeroDivisionError = Err 8), `yield n` = append to the result list -
   and of its wrapper get_combination_at_sorted_index.  The integer parameter k is mapped to the model's nat by Z.to_nat
   (k <= 0: nothing is yielded, in both).
   For EVERY integer index, n, k: wherever the model's own loop fuel suffices (unrank <> Err 9) the translation on any
   fuel above n + 1 equals the model ... *)
Theorem C15_model_is_source_generate_combination_at_sorted_index_any_n : forall fuel index n k,
  unrank index n (Z.to_nat k) <> Err 9 -> (S (Z.to_nat n) < fuel)%nat ->
  src_generate_combination_at_sorted_index index n k fuel = unrank index n (Z.to_nat k).
Proof. exact src_generate_is_unrank_when_model_has_fuel. Qed.
Print Assumptions C15_model_is_source_generate_combination_at_sorted_index_any_n.

(* ... and for n >= 0 (the property's domain: n is a count at every call site) C15_fuel_never_exhausted discharges that
   hypothesis: for EVERY index (in range or not) and every k the translated generator is the model *)
Theorem C15_model_is_source_generate_combination_at_sorted_index : forall fuel index n k,
  0 <= n -> (S (Z.to_nat n) < fuel)%nat ->
  src_generate_combination_at_sorted_index index n k fuel = unrank index n (Z.to_nat k).
Proof. exact src_generate_is_unrank. Qed.
Print Assumptions C15_model_is_source_generate_combination_at_sorted_index.

(* the wrapper: tuple(generate_combination_at_sorted_index(index, n, k)), calling the translated generator *)
Theorem C15_model_is_source_get_combination_at_sorted_index : forall fuel index n k,
  0 <= n -> (S (Z.to_nat n) < fuel)%nat ->
  src_get_combination_at_sorted_index index n k fuel = unrank index n (Z.to_nat k).
Proof. exact src_get_is_unrank. Qed.
Print Assumptions C15_model_is_source_get_combination_at_sorted_index.

(* no fuel hypothesis left: at the explicit fuel n + 2 the translated function IS the function all theorems below are about *)
Theorem C15_model_is_source_get_combination_at_sorted_index_no_fuel_hypothesis : forall index n (k : nat),
  0 <= n -> src_get_combination_at_sorted_index index n (Z.of_nat k) (S (S (Z.to_nat n))) = unrank index n k.
Proof. exact src_get_is_unrank_at_fuel. Qed.
Print Assumptions C15_model_is_source_get_combination_at_sorted_index_no_fuel_hypothesis.

(* clauses (a)-(c) read on the translated source: on any fuel above n + 1 and every 0 <= index < C(n,k) it returns, without
   error, a strictly descending k-tuple within [0,n) whose rank is the index *)
Theorem C15_source_unrank_ok_descending_rank : forall fuel n (k : nat) index,
  0 <= n -> 0 <= index < Cz n k -> (S (Z.to_nat n) < fuel)%nat ->
  exists c, src_get_combination_at_sorted_index index n (Z.of_nat k) fuel = Ok c /\
    length c = k /\ desc_below n c /\ rank c = index.
Proof. exact src_get_ok_descending_rank. Qed.
Print Assumptions C15_source_unrank_ok_descending_rank.

(* the binomial the statements use is the usual one *)
Theorem C15_binomial_is_factorial_quotient : forall n k, (k <= n)%nat ->
  (binom n k * (fact k * fact (n - k)) = fact n)%nat.
Proof. exact binom_fact. Qed.
Print Assumptions C15_binomial_is_factorial_quotient.

(* the product loop `n_ck *= n-i; n_ck //= i+1` computes C(n,k): every // is exact *)
Theorem C15_init_is_binomial : forall n k, 0 <= n -> init_nck n k = Cz n k.
Proof. exact init_nck_Cz. Qed.
Print Assumptions C15_init_is_binomial.

(* in every reachable state of the while loop (n_ck = C(n-1,k-1)) the line `n_ck -= n_ck % k` subtracts 0 *)
Theorem C15_mod_line_is_noop : forall n k', 1 <= n ->
  (Cz (n - 1) k' * (n - Z.of_nat (S k'))) mod Z.of_nat (S k') = 0.
Proof. exact mod_line_noop. Qed.
Print Assumptions C15_mod_line_is_noop.

(* (a) no error, (b) strictly descending k-tuple within [0,n), (c) rank (unrank i) = i *)
Theorem C15_unrank_ok_descending_rank : forall n k index,
  0 <= n -> 0 <= index < Cz n k ->
  exists c, unrank index n k = Ok c /\ length c = k /\ desc_below n c /\ rank c = index.
Proof. exact unrank_spec. Qed.
Print Assumptions C15_unrank_ok_descending_rank.

(* the model's fuel is never exhausted for n >= 0, whatever the index (in range or not): the
   while loop of the implementation terminates; the only error is the ZeroDivisionError (tag 8) *)
Theorem C15_fuel_never_exhausted : forall index n k, 0 <= n -> unrank index n k <> Err 9.
Proof. exact unrank_no_fuel_error. Qed.
Print Assumptions C15_fuel_never_exhausted.

(* ranks of descending k-tuples below n lie in [0, C(n,k)) *)
Theorem C15_rank_in_range : forall c n, desc_below n c -> 0 <= rank c < Cz n (length c).
Proof. exact rank_range. Qed.
Print Assumptions C15_rank_in_range.

(* (d) rank is strictly monotone for the tuple order, hence injective *)
Theorem C15_rank_strictly_monotone : forall a b n,
  length a = length b -> desc_below n a -> desc_below n b -> lex_lt a b -> rank a < rank b.
Proof. exact rank_lex_mono. Qed.
Print Assumptions C15_rank_strictly_monotone.

Theorem C15_rank_injective : forall a b n,
  length a = length b -> desc_below n a -> desc_below n b -> rank a = rank b -> a = b.
Proof. exact rank_injective. Qed.
Print Assumptions C15_rank_injective.

(* (e) unrank inverts rank on every descending tuple below n: onto the k-subsets *)
Theorem C15_unrank_rank : forall n c, 0 <= n -> desc_below n c -> unrank (rank c) n (length c) = Ok c.
Proof. exact unrank_rank. Qed.
Print Assumptions C15_unrank_rank.

(* ascending order of the tuples; in particular index i+1 gives a larger tuple than index i *)
Theorem C15_unrank_ascending : forall n k i j a b,
  0 <= n -> 0 <= i -> i < j -> j < Cz n k ->
  unrank i n k = Ok a -> unrank j n k = Ok b -> lex_lt a b.
Proof. exact unrank_ascending. Qed.
Print Assumptions C15_unrank_ascending.

Theorem C15_unrank_injective : forall n k i j c,
  0 <= n -> 0 <= i < Cz n k -> 0 <= j < Cz n k ->
  unrank i n k = Ok c -> unrank j n k = Ok c -> i = j.
Proof. exact unrank_injective. Qed.
Print Assumptions C15_unrank_injective.

(* the whole enumeration 0..C(n,k)-1: no error anywhere, C(n,k) tuples, sorted ascending,
   duplicate-free, and exactly the strictly descending k-tuples below n *)
Theorem C15_enumeration_sorted_complete_once : forall n k, 0 <= n ->
  exists L, enum_all n k = map Ok L /\
    length L = Z.to_nat (Cz n k) /\
    StronglySorted lex_lt L /\ NoDup L /\
    forall c, In c L <-> (desc_below n c /\ length c = k).
Proof. exact enum_all_spec. Qed.
Print Assumptions C15_enumeration_sorted_complete_once.

(* every k-element subset of {0..n-1} (duplicate-free list, any order) is produced by exactly one index *)
Theorem C15_every_subset_exactly_once : forall n s, 0 <= n -> NoDup s -> (forall x, In x s -> 0 <= x < n) ->
  exists i, (0 <= i < Cz n (length s) /\ exists c, unrank i n (length s) = Ok c /\ Permutation c s) /\
    forall j, (0 <= j < Cz n (length s) /\ exists c, unrank j n (length s) = Ok c /\ Permutation c s) -> j = i.
Proof. exact subset_hit_once. Qed.
Print Assumptions C15_every_subset_exactly_once.

(* (f) a duplicate-free list of indices in [0, C(n,3)) gives pairwise distinct in-range triples,
   and all of them when its length is C(n,3) *)
Theorem C15_triples_distinct_complete : forall n idxs, 0 <= n ->
  NoDup idxs -> (forall i, In i idxs -> 0 <= i < Cz n 3) ->
  exists ts, triples n idxs = Ok ts /\ length ts = length idxs /\ NoDup ts /\
    (forall t, In t ts -> exists a b c, t = [a; b; c] /\ 0 <= c < b /\ b < a < n) /\
    (Z.of_nat (length idxs) = Cz n 3 ->
       forall a b c, 0 <= c < b -> b < a < n -> In [a; b; c] ts).
Proof. exact triples_distinct_complete. Qed.
Print Assumptions C15_triples_distinct_complete.

(* the scorer's use site, for every answer of rng.choice obeying numpy's contract *)
Theorem C15_dbal_triples : forall draw n max_combos,
  choice_contract draw -> 3 <= n -> 1 <= max_combos ->
  exists ts, dbal_triples n max_combos draw = Ok (Cz n 3, Z.min (Cz n 3) max_combos, ts) /\
    Z.of_nat (length ts) = Z.min (Cz n 3) max_combos /\ NoDup ts /\
    (forall t, In t ts -> exists a b c, t = [a; b; c] /\ 0 <= c < b /\ b < a < n) /\
    (Cz n 3 <= max_combos -> forall a b c, 0 <= c < b -> b < a < n -> In [a; b; c] ts).
Proof. exact dbal_triples_spec. Qed.
Print Assumptions C15_dbal_triples.

Theorem C15_dbal_triples_too_few_thetas : forall draw n max_combos,
  0 <= n < 3 -> dbal_triples n max_combos draw = Err 7.
Proof. exact dbal_triples_too_few. Qed.
Print Assumptions C15_dbal_triples_too_few_thetas.

(* ---- the use site READ ON THE TRANSLATED SOURCE (gap G15.1).  C15_dbal_triples above is about the hand-written twin
   Binom.dbal_triples; the statements below are about src_kernel_triples (Generated/SrcDbal.v), the translation - regenerated
   from /repo on every run - of the very run of statements `n_plates, n_thetas, ... = predictions.shape` ..
   `idx3 = np.array(idx3)` of dbal_fast_gauss_scoring_vectorized: comb(n_thetas, 3, exact=True), the raise, min with the budget,
   rng.choice, get_combination_at_sorted_index per index, zip into the three index arrays.  (nat_triples reads the three index
   arrays as the list of their rows.) ---- *)
From Batchie Require Import Model.Dbal Generated.SrcDbal Proofs.C05Source_KernelTriples Proofs.C15UseSite.

(* scipy's comb(n, 3, exact=True), as that translation renders it, is the binomial coefficient of all the theorems above *)
Theorem C15_comb3_is_binomial : forall n, 0 <= n -> comb3 n = Cz n 3.
Proof. exact comb3_is_Cz. Qed.
Print Assumptions C15_comb3_is_binomial.

(* for n_thetas >= 3, any budget >= 1 and EVERY answer d of rng.choice obeying numpy's contract for that call: the translated
   run returns, without error, three index arrays whose rows are min(C(n,3), budget) pairwise distinct triples a > b > c
   inside range(n_thetas) - and ALL such triples whenever the budget covers C(n,3) *)
Theorem C15_source_dbal_triples : forall (pred : arr3) (mc : Z) (d : list Z) (rest : list (list Z)) np T E,
  shape3 pred = (np, T, E) -> (3 <= T)%nat -> 1 <= mc ->
  choice_ok (comb3 (Z.of_nat T)) (Z.min (comb3 (Z.of_nat T)) mc) d = true ->
  exists t3, src_kernel_triples pred mc (d :: rest) = Ok (t3, rest) /\
    Z.of_nat (length (nat_triples t3)) = Z.min (Cz (Z.of_nat T) 3) mc /\
    NoDup (nat_triples t3) /\
    (forall a b c, In (a, b, c) (nat_triples t3) -> (c < b /\ b < a /\ a < T)%nat) /\
    (Cz (Z.of_nat T) 3 <= mc -> forall a b c, (c < b /\ b < a /\ a < T)%nat -> In (a, b, c) (nat_triples t3)).
Proof. exact src_kernel_triples_distinct_complete. Qed.
Print Assumptions C15_source_dbal_triples.

(* the hand-written twin of C15_dbal_triples and the translated run deliver the same triples for the same answer *)
Theorem C15_dbal_triples_is_source : forall (pred : arr3) (mc : Z) (d : list Z) (rest : list (list Z)) np T E,
  shape3 pred = (np, T, E) -> (3 <= T)%nat -> 1 <= mc ->
  choice_ok (comb3 (Z.of_nat T)) (Z.min (comb3 (Z.of_nat T)) mc) d = true ->
  exists zts t3,
    dbal_triples (Z.of_nat T) mc (fun _ _ => d) = Ok (Cz (Z.of_nat T) 3, Z.min (Cz (Z.of_nat T) 3) mc, zts) /\
    src_kernel_triples pred mc (d :: rest) = Ok (t3, rest) /\
    nat_triples t3 = map (fun t => nat3 (tup3 t)) zts /\
    (forall t, In t zts -> exists a b c, t = [a; b; c] /\ 0 <= c < b /\ b < a < Z.of_nat T).
Proof. exact dbal_triples_is_source. Qed.
Print Assumptions C15_dbal_triples_is_source.

(* non-vacuity: 4 samples, budget 5000: the contract is satisfiable and the translated run yields all four triples *)
Example C15_source_dbal_triples_example :
  choice_ok (comb3 4) (Z.min (comb3 4) 5000) [3; 0; 1; 2] = true /\
  option_map (fun r => nat_triples (fst r))
    (match src_kernel_triples [[[]; []; []; []]] 5000 [[3; 0; 1; 2]] with Ok r => Some r | Err _ => None end)
  = Some [(3, 2, 1); (2, 1, 0); (3, 1, 0); (3, 2, 0)]%nat.
Proof. vm_compute. split; reflexivity. Qed.

(* non-vacuity *)
Example C15_unrank_example : unrank 7 5 2 = Ok [4; 1] /\ rank [4; 1] = 7 /\ Cz 5 2 = 10.
Proof. vm_compute. repeat split. Qed.
Example C15_unrank_example_k4 : unrank 500 14 4 = Ok [12; 4; 2; 0] /\ rank [12; 4; 2; 0] = 500 /\ Cz 14 4 = 1001.
Proof. vm_compute. repeat split. Qed.
Example C15_enum_example :
  enum_all 5 3 = map Ok [[2;1;0]; [3;1;0]; [3;2;0]; [3;2;1]; [4;1;0]; [4;2;0]; [4;2;1]; [4;3;0]; [4;3;1]; [4;3;2]].
Proof. vm_compute. reflexivity. Qed.
Example C15_triples_example :
  triples 5 [9; 0; 4] = Ok [[4;3;2]; [2;1;0]; [4;1;0]].
Proof. vm_compute. reflexivity. Qed.
Example C15_production_size_example : unrank 20708500000 5000 3 = Ok [4990; 4973; 2342].
Proof. vm_compute. reflexivity. Qed.
(* outside the hypotheses: an index >= C(n,k) repeats the last tuple, a negative one divides by zero *)
Example C15_out_of_range_example : unrank 10 5 2 = Ok [4; 3] /\ unrank (-1) 5 2 = Err 8 /\ unrank 0 2 3 = Err 8.
Proof. vm_compute. repeat split. Qed.
(* the translated source computes (and raises) like the implementation: the source link is not vacuous *)
Example C15_source_example :
  src_get_combination_at_sorted_index 500 14 4 16 = Ok [12; 4; 2; 0] /\
  src_get_combination_at_sorted_index (-1) 5 2 7 = Err 8 /\ src_get_combination_at_sorted_index 3 5 (-2) 7 = Ok [] /\
  src_get_combination_at_sorted_index 0 5 2 1 = Err 97.
Proof. vm_compute. repeat split. Qed.
(* the choice contract is satisfiable (first m indices), and with it the use site yields all triples *)
Example C15_choice_contract_example : choice_contract (fun _ m => map Z.of_nat (seq 0 (Z.to_nat m))).
Proof.
  intros N m Hm. split; [|split].
  - apply FinFun.Injective_map_NoDup; [intros x y; apply Nat2Z.inj | apply seq_NoDup].
  - rewrite map_length, seq_length. apply Z2Nat.id. apply Hm.
  - intros i Hi. apply in_map_iff in Hi. destruct Hi as [j [<- Hj]]. apply in_seq in Hj.
    split; [apply Nat2Z.is_nonneg|]. apply Z.lt_le_trans with (m := m); [|apply Hm].
    rewrite <- (Z2Nat.id m) by apply Hm. apply inj_lt. apply Hj.
Qed.
Example C15_dbal_triples_example :
  dbal_triples 4 5000 (fun _ m => map Z.of_nat (seq 0 (Z.to_nat m)))
  = Ok (4, 4, [[2;1;0]; [3;1;0]; [3;2;0]; [3;2;1]]).
Proof. vm_compute. reflexivity. Qed.
