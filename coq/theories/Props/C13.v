(* C13 - Generated, smoothed and initial plates satisfy their documented shape guarantees.
   Statements only; every proof is `exact <lemma from Proofs/>` (witnesses by vm_compute).
   One theorem per clause of the property, each for every oracle answer (recorded rng / heappop
   answers) for which the function returns Ok; numpy's documented contract on the answers is an
   explicit hypothesis ([ss_contract], [size_contract]) where the conclusion depends on it.
   Two clauses are false of the code as found (model parameter fixed = false): they are refuted by
   a witness, and proved of the repaired logic (fixed = true). *)
From Coq Require Import ZArith List Bool Permutation.
From Batchie Require Import Lib.Sexp Model.Encode Model.Screen Model.Retro Model.Pairwise Model.RetroInit
  Proofs.C11Lib Proofs.C11Select Proofs.C11Holdout Proofs.C13Filter Proofs.C13Optimal Proofs.C13Size
  Proofs.C13NPlate Proofs.C13SampleSeg Proofs.C13SampleSegEven Proofs.C13Shapes Proofs.C13MergeLib Proofs.C13TopBottom
  Proofs.C13MergeMin Proofs.C13MergeShapes Proofs.C13MergeMinPerSample Proofs.C13Ensemble Proofs.C11Init Proofs.C13Sparse Proofs.C13Pairwise
  Proofs.C13SparseTerm Proofs.C13PairwiseSingles Generated.SrcRetro Proofs.C11Source Generated.SrcRetroGen Proofs.C13Source Proofs.C13SourcePairwise.
Import ListNotations.

(* ---- the models are what the source says NOW (see Props/C11.v for the full list and what is trusted) ----
   `src_*` (Generated/SrcRetro.v) are whole functions of /repo's current working tree, re-translated on every run by
   harness/py2gal.py; the shape theorems below speak about [generate_plates] / [smooth_plates] (the wrappers around
   every shipped generator / smoother) and [merge_min]: each equals its translation for all inputs. *)
Theorem C13_model_is_source_generate_plates : forall rows ds,
  (forall f : inner, src_generate_plates f rows ds = wrap f rows ds) /\
  (forall g, src_generate_plates (generate_inner g) rows ds = generate_plates g rows ds).
Proof. exact src_generate_plates_is_model. Qed.
Print Assumptions C13_model_is_source_generate_plates.

Theorem C13_model_is_source_smooth_plates : forall rows ds,
  (forall f : inner, src_smooth_plates f rows ds = wrap f rows ds) /\
  (forall sm, src_smooth_plates (smooth_inner sm) rows ds = smooth_plates sm rows ds).
Proof. exact src_smooth_plates_is_model. Qed.
Print Assumptions C13_model_is_source_smooth_plates.

(* MergeMinPlateSmoother._smooth_plates with its `while True:` on explicit fuel: equal to [merge_min] (the subject of
   C13_mergemin_stop and C13_merge_same_sample) whenever the fuel exceeds the number of experiments *)
Theorem C13_model_is_source_merge_min_smooth_plates : forall min_size rows ds fuel,
  length rows < fuel ->
  src_merge_min_smooth_plates min_size rows ds fuel = merge_min min_size rows ds.
Proof. exact src_merge_min_is_model. Qed.
Print Assumptions C13_model_is_source_merge_min_smooth_plates.

(* MergeTopBottomPlateSmoother._smooth_plates: equal to [merge_tb] (the subject of C13_topbottom_halves / _counts) *)
Theorem C13_model_is_source_merge_tb_smooth_plates : forall n_iter rows,
  src_merge_tb_smooth_plates n_iter rows = merge_tb n_iter rows.
Proof. exact src_merge_tb_is_model. Qed.
Print Assumptions C13_model_is_source_merge_tb_smooth_plates.

(* ---- the shipped generators / smoothers, the initial plate and the combination filter (Generated/SrcRetroGen.v) ----
   Each `src_*` below is the WHOLE method of /repo's retrospective.py (data.py for the filter), re-translated on every run.
   Trusted: the translator and the primitives of the configurations C13_SAMPLE_SEG ... C13_COMBO_FILTER of
   harness/src_functions.py (their meanings: the last sections of Model/Retro.v and Model/RetroInit.v). *)

(* SampleSegregatingPermutationPlateGenerator._generate_plates: the loop over the samples, the size test, n_plates =
   ceil(len / float(max)), the permutation, np.array_split, both appends, the labelling loop, the final Screen(...).
   For every max >= 0, screen and answer stream it equals the model with numpy's IndexError of `plate_names[indices] = ...`
   made explicit ([sample_seg_checked]: the computed plates must consist of row numbers of the screen, tag 92); under
   numpy's permutation contract - the hypothesis of C13_sample_segregating_shape / _even - that check passes and it equals
   [sample_seg true]; so the translated wrapper around it equals [generate_plates (GSampleSeg true mx)], the subject of
   those theorems *)
Theorem C13_model_is_source_sample_segregating_generate_plates : forall mx rows ds, (0 <= mx)%Z ->
  src_sample_seg_generate_plates mx rows ds = sample_seg_checked mx rows ds /\
  (ss_contract mx rows (sample_names rows) ds -> src_sample_seg_generate_plates mx rows ds = sample_seg true mx rows ds) /\
  (ss_contract mx (unobserved rows) (sample_names (unobserved rows)) ds ->
   src_generate_plates (src_sample_seg_generate_plates mx) rows ds = generate_plates (GSampleSeg true mx) rows ds).
Proof. exact link_sample_segregating_generate_plates. Qed.
Print Assumptions C13_model_is_source_sample_segregating_generate_plates.

(* a negative max_plate_size: same outcome up to the error tag (Python draws the permutation, then np.array_split raises;
   the model raises without reading the answer, so an exhausted answer stream - not a Python behaviour - shows as tag 90
   instead of 3); on the empty screen both return it *)
Theorem C13_model_is_source_sample_segregating_generate_plates_negative_max : forall mx rows ds, (mx < 0)%Z ->
  match sample_seg true mx rows ds with
  | Ok r => src_sample_seg_generate_plates mx rows ds = Ok r
  | Err _ => exists t, src_sample_seg_generate_plates mx rows ds = Err t
  end.
Proof. exact src_sample_seg_negative_max. Qed.
Print Assumptions C13_model_is_source_sample_segregating_generate_plates_negative_max.

(* PlatePermutationPlateGenerator._generate_plates: the truthiness test of force_include_plate_names, both selection
   vectors, the np.any(~v) branch, rng.permutation of the plate names, the Screen(...) with the new names and an
   all-false mask, the `is not None` test and combine - for every force list (None and [] alike), screen, answer stream *)
Theorem C13_model_is_source_plate_permutation_generate_plates : forall force rows ds,
  src_plate_permutation_generate_plates force rows ds = plate_perm (match force with Some l => l | None => [] end) rows ds /\
  src_generate_plates (src_plate_permutation_generate_plates force) rows ds
  = generate_plates (GPerm (match force with Some l => l | None => [] end)) rows ds.
Proof. exact link_plate_permutation_generate_plates. Qed.
Print Assumptions C13_model_is_source_plate_permutation_generate_plates.

(* FixedSizeSmoother._smooth_plates: the loop over the plates with its three-way size test (< drop and continue, == keep,
   > rng.choice of plate_size of the plate's indices, np.isin, Plate(...)), the OR-loop over the results, subset().to_screen() *)
Theorem C13_model_is_source_fixed_size_smooth_plates : forall t rows ds,
  src_fixed_size_smooth_plates t rows ds = size_smooth t rows ds /\
  src_smooth_plates (src_fixed_size_smooth_plates t) rows ds = smooth_plates (SFixed t) rows ds.
Proof. exact link_fixed_size_smooth_plates. Qed.
Print Assumptions C13_model_is_source_fixed_size_smooth_plates.

(* OptimalSizeSmoother._smooth_plates: the three numpy statements choosing the size (sort of the plate sizes, argmax of
   size * (number of plates - position), the indexing; ValueError on a screen without plates), then the same loops *)
Theorem C13_model_is_source_optimal_size_smooth_plates : forall rows ds,
  src_optimal_size_smooth_plates rows ds = optimal_smooth rows ds /\
  src_smooth_plates src_optimal_size_smooth_plates rows ds = smooth_plates SOptimal rows ds.
Proof. exact link_optimal_size_smooth_plates. Qed.
Print Assumptions C13_model_is_source_optimal_size_smooth_plates.

(* NPlatePerCellLineSmoother._get_plate_sample_id (integer ids = ranks of the sample names) and ._smooth_plates: the
   counting loop `plate_counts[id] += 1` on the defaultdict, sample_names_by_id = screen.sample_mapping[0], the loop over
   the dict's items with the `<` test and the drop BY NAME screen.subset(screen.sample_names != sample_names_by_id[id]) -
   equal to the repaired model [nplate true] (the subject of C13_nplate_minimum) for every minimum and screen *)
Theorem C13_model_is_source_nplate_smooth_plates : forall m rows ds,
  (forall p, src_nplate_get_plate_sample_id rows (plate_vec p rows) = dor nm <- plate_sample p rows; Ok (sample_id_z rows nm)) /\
  src_nplate_smooth_plates m rows = nplate true m rows /\
  src_smooth_plates (fun s d => dor r <- src_nplate_smooth_plates m s; Ok (r, d)) rows ds = smooth_plates (SNPlate true m) rows ds.
Proof. exact link_nplate_smooth_plates. Qed.
Print Assumptions C13_model_is_source_nplate_smooth_plates.

(* BatchieEnsemblePlateSmoother._smooth_plates: the four calls in their order, each the translated smooth_plates wrapper
   around the translated _smooth_plates of the class the source names, with the constructor argument the source passes;
   fuel = the while-fuel of MergeMin (sufficient when it exceeds the number of experiments) *)
Theorem C13_model_is_source_ensemble_smooth_plates : forall ms n m rows ds fuel, length rows < fuel ->
  src_ensemble_smooth_plates ms n m rows ds fuel = ensemble true ms n m rows ds /\
  src_smooth_plates (fun s d => src_ensemble_smooth_plates ms n m s d fuel) rows ds = smooth_plates (SEnsemble true ms n m) rows ds.
Proof. exact link_ensemble_smooth_plates. Qed.
Print Assumptions C13_model_is_source_ensemble_smooth_plates.

(* SparseCoverPlateGenerator._generate_and_unmask_initial_plate inside the translated public wrapper
   InitialRetrospectivePlateGenerator.generate_and_unmask_initial_plate (core.py: the fully-observed check and its raise):
   the per-sample loop (both branches of `selection_vector.sum() > 0`), `while len(remaining_treatments) > 0` on explicit
   fuel, the reveal branch, the plate names and the final Screen(...) - equal to [sparse_cover] for every screen and answer
   stream whenever the fuel exceeds the number of recorded answers (each iteration reads one) OR the number of distinct
   treatment ids of the screen (each iteration covers a new one: C13_sparse_cover_loop_progress), e.g. fuel = S (ndistinct ..) *)
Theorem C13_model_is_source_sparse_cover_generate_and_unmask_initial_plate : forall ctrl reveal rows ds fuel,
  length ds < fuel \/ ndistinct (all_tids ctrl rows) < fuel ->
  (forall f : initial_inner,
     src_generate_and_unmask_initial_plate f rows ds = if negb (forallb r_mask rows) then Err 8%Z else f rows ds) /\
  src_sparse_cover ctrl reveal rows ds fuel = sparse_cover_inner ctrl reveal rows ds /\
  src_generate_and_unmask_initial_plate (fun s d => src_sparse_cover ctrl reveal s d fuel) rows ds = sparse_cover ctrl reveal rows ds.
Proof. exact link_sparse_cover_generate_and_unmask_initial_plate. Qed.
Print Assumptions C13_model_is_source_sparse_cover_generate_and_unmask_initial_plate.

(* ... and with C13_sparse_cover_terminates the fuel hypothesis is discharged: with #distinct-treatment-ids + 1 units of
   fuel the translated source returns on every fully observed screen for every contract-obeying, long enough answer stream *)
Theorem C13_model_is_source_sparse_cover_terminates : forall ctrl reveal rows ds,
  forallb r_mask rows = true ->
  sc_contract ctrl rows (sample_names rows) [] ds ->
  length (sample_names rows) + ndistinct (all_tids ctrl rows) <= length ds ->
  exists out ds',
    src_generate_and_unmask_initial_plate
      (fun s d => src_sparse_cover ctrl reveal s d (S (ndistinct (all_tids ctrl rows)))) rows ds = Ok (out, ds').
Proof. exact src_sparse_cover_terminates. Qed.
Print Assumptions C13_model_is_source_sparse_cover_terminates.

(* filter_dataset_to_treatments_that_appear_in_at_least_one_combo (data.py): the arity check and its raise, the vector of
   rows without a control entry, their ids plus the sentinel, the np.in1d / np.all row test, subset().to_screen() *)
Theorem C13_model_is_source_filter_dataset_to_treatments_that_appear_in_at_least_one_combo : forall ctrl arity rows,
  src_combo_filter ctrl arity rows = combo_filter ctrl arity rows.
Proof. exact src_combo_filter_is_model. Qed.
Print Assumptions C13_model_is_source_filter_dataset_to_treatments_that_appear_in_at_least_one_combo.

(* PairwisePlateGenerator._generate_plates: the combination / single-agent split, np.unique with counts, the anchor branch
   (argsort of the negated counts, the anchor ids, both `len // subset_size`, both permutations and array_splits, setdiff1d)
   and the plain branch, the two nested loops filling group_lookup and its sentinel entry, np.vectorize(group_lookup.get),
   n_control and the store of rng.choice(range(num_groups), size=n_control) (always empty on a combination screen), the row
   sort, hstack with the sample ids, np.unique(axis=0), the labelling loop, the Screen(...) of the combination experiments,
   the `is None` return, the loop over the samples of the single-agent experiments (count, eligible plates, the raise,
   rng.choice among them, the masked store), the second Screen(...) and combine - equal to [pairwise] for every control
   name, subset / anchor size, screen and answer stream whose first answer, when anchors are requested, is np.argsort's
   (positions of the unique-id array: [argsort_ok], a fact about every run - numpy's argsort returns a permutation of the
   positions; with anchor_size <= 0 it says nothing) *)
Theorem C13_model_is_source_pairwise_generate_plates : forall ctrl subset anchor rows ds,
  (argsort_ok anchor (length (unique_ids ctrl (filter (is_combo ctrl) rows))) ds ->
   src_pairwise_generate_plates ctrl subset anchor rows ds = pairwise ctrl subset anchor rows ds) /\
  (argsort_ok anchor (length (unique_ids ctrl (filter (is_combo ctrl) (unobserved rows)))) ds ->
   src_generate_plates (src_pairwise_generate_plates ctrl subset anchor) rows ds
   = generate_plates (GPairwise ctrl subset anchor) rows ds).
Proof. exact link_pairwise_generate_plates. Qed.
Print Assumptions C13_model_is_source_pairwise_generate_plates.

(* ---- sample-segregating generator ---- *)
Theorem C13_sample_segregating_shape : forall mx rows ds out ds',
  generate_plates (GSampleSeg true mx) rows ds = Ok (out, ds') ->
  ss_contract mx (unobserved rows) (sample_names (unobserved rows)) ds ->
  (forall r1 r2, In r1 (unobserved out) -> In r2 (unobserved out) ->
     r_plate r1 = r_plate r2 -> r_sample r1 = r_sample r2) /\
  (forall p, In p (plate_names_of (unobserved out)) ->
     (Z.of_nat (length (filter (in_plate p) (unobserved out))) <= mx)%Z).
Proof. exact sample_segregating_shape. Qed.
Print Assumptions C13_sample_segregating_shape.

(* "split across multiple equal sized plates": the generated plates of one sample are the chunks of
   np.array_split, so any two unobserved output plates holding experiments of the same sample differ in size by at
   most one (r1, r2 range over all unobserved output rows of one sample; the sizes are those of their plates) *)
Theorem C13_sample_segregating_even : forall mx rows ds out ds',
  generate_plates (GSampleSeg true mx) rows ds = Ok (out, ds') ->
  ss_contract mx (unobserved rows) (sample_names (unobserved rows)) ds ->
  forall r1 r2, In r1 (unobserved out) -> In r2 (unobserved out) -> r_sample r1 = r_sample r2 ->
    length (filter (in_plate (r_plate r1)) (unobserved out))
    <= length (filter (in_plate (r_plate r2)) (unobserved out)) + 1.
Proof. exact sample_segregating_even. Qed.
Print Assumptions C13_sample_segregating_even.

Definition w_row (s : Z) (p : name) (o : Z) : row :=
  {| r_sample := [s]; r_plate := p; r_treats := [([97], 1); ([98], 2)]%Z; r_obs := o; r_mask := false |}.
(* two samples with 2 and 3 experiments, max 3 *)
Definition w_ss : list row := [w_row 65 [112] 1; w_row 65 [112] 2; w_row 66 [112] 3; w_row 66 [112] 4; w_row 66 [112] 5]%Z.

(* the code as found: both samples end up in the single plate '' of 5 > 3 experiments *)
Theorem C13_sample_segregating_shape_refuted :
  exists mx rows ds out ds',
    generate_plates (GSampleSeg false mx) rows ds = Ok (out, ds') /\
    ss_contract mx (unobserved rows) (sample_names (unobserved rows)) ds /\
    (exists r1 r2, In r1 (unobserved out) /\ In r2 (unobserved out) /\
                   r_plate r1 = r_plate r2 /\ r_sample r1 <> r_sample r2) /\
    (exists p, In p (plate_names_of (unobserved out)) /\
               (mx < Z.of_nat (length (filter (in_plate p) (unobserved out))))%Z).
Proof.
  exists 3%Z, w_ss, [], (map (set_plate []) w_ss), [].
  split; [vm_compute; reflexivity|]. split; [vm_compute; exact I|]. split.
  - exists (set_plate [] (w_row 65 [112] 1)%Z), (set_plate [] (w_row 66 [112] 3)%Z).
    vm_compute. repeat split; try tauto. discriminate.
  - exists []. vm_compute. split; [tauto|reflexivity].
Qed.
Print Assumptions C13_sample_segregating_shape_refuted.

(* ---- pairwise generator ---- *)
(* every oracle answer the model accepts (the rng.choice answers for single-agent rows must come from
   the offered plate names, which numpy guarantees) *)
Theorem C13_pairwise_single_sample : forall ctrl subset anchor rows ds out ds',
  generate_plates (GPairwise ctrl subset anchor) rows ds = Ok (out, ds') -> one_sample (unobserved out).
Proof. exact pairwise_single_sample_w. Qed.
Print Assumptions C13_pairwise_single_sample.

(* [C13_pairwise_single_sample] is about the whole output (combination rows and single-agent rows alike).  Where the
   single-agent rows go, explicitly: every unobserved output row r - single-agent or not - sits on a plate
   generated_plate_k that holds a combination row c (no control entry) of r's own sample; so a single-agent
   experiment never opens a plate of its own and never lands on a plate of another sample *)
Theorem C13_pairwise_singles_join_combo_plates : forall ctrl subset anchor rows ds out ds',
  generate_plates (GPairwise ctrl subset anchor) rows ds = Ok (out, ds') ->
  forall r, In r (unobserved out) ->
    exists c k, In c (unobserved out) /\ is_combo ctrl c = true /\
                r_plate c = r_plate r /\ r_sample c = r_sample r /\ r_plate r = gen_name k.
Proof. exact pairwise_joins_combo_w. Qed.
Print Assumptions C13_pairwise_singles_join_combo_plates.

(* ---- sparse-cover initial plate ---- *)
(* every sample and every treatment id (None = control) of the screen occurs in an observed row; observed
   rows are labelled initial_plate and all the others carry one and the same label; nothing else changes *)
Theorem C13_sparse_cover_covers : forall ctrl reveal rows ds out ds',
  sparse_cover ctrl reveal rows ds = Ok (out, ds') ->
  (forall s, In s (sample_names rows) -> exists r, In r out /\ r_mask r = true /\ r_sample r = s) /\
  (forall t, In t (all_tids ctrl rows) -> exists r, In r out /\ r_mask r = true /\ In t (row_tids ctrl r)) /\
  (forall r, In r out -> r_plate r = if r_mask r then initial_plate else unobserved_plate) /\
  map core out = map core rows.
Proof. exact sparse_cover_covers. Qed.
Print Assumptions C13_sparse_cover_covers.

(* termination of the greedy cover.  [ndistinct l] = number of distinct treatment ids in l (None = the control
   sentinel counts as one id); [sc_remaining ctrl rows chosen] = np.setdiff1d(screen.treatment_ids, covered);
   [sc_offer_loop] / [sc_offer_sample] = the arrays handed to rng.choice.
   State by state: while ids remain the array offered by the while loop is not empty, whichever element rng.choice
   answers the number of distinct remaining ids strictly drops, and the per-sample arrays are not empty *)
Theorem C13_sparse_cover_loop_progress : forall ctrl rows chosen,
  (sc_remaining ctrl rows chosen <> [] -> sc_offer_loop ctrl rows chosen <> []) /\
  (forall i, In i (sc_offer_loop ctrl rows chosen) ->
     ndistinct (sc_remaining ctrl rows (chosen ++ [i])) < ndistinct (sc_remaining ctrl rows chosen)) /\
  (forall s, In s (sample_names rows) -> sc_offer_sample ctrl rows s chosen <> []).
Proof. exact sc_loop_progress. Qed.
Print Assumptions C13_sparse_cover_loop_progress.

(* whenever it returns: one answer per sample (used1), then at most as many while-loop iterations (used2, one answer
   each) as there are distinct treatment ids not covered by the per-sample phase, which are at most the distinct
   ids of the screen; the unused answers ds' are handed back *)
Theorem C13_sparse_cover_iterations : forall ctrl reveal rows ds out ds',
  sparse_cover ctrl reveal rows ds = Ok (out, ds') ->
  exists chosen1 used1 used2,
    ds = used1 ++ used2 ++ ds' /\
    sc_samples ctrl rows (sample_names rows) [] ds = Ok (chosen1, used2 ++ ds') /\
    length used1 = length (sample_names rows) /\
    length used2 <= ndistinct (sc_remaining ctrl rows chosen1) /\
    ndistinct (sc_remaining ctrl rows chosen1) <= ndistinct (all_tids ctrl rows).
Proof. exact sparse_cover_iterations. Qed.
Print Assumptions C13_sparse_cover_iterations.

(* for every fully observed screen (the empty one included) and every answer stream that obeys numpy's choice
   contract answer by answer ([sc_contract]: each answer asked for is one element of the array offered then) and
   holds #samples + #distinct treatment ids answers, the function returns: it never runs out of answers, never
   offers an empty array, and the final Screen(...) is accepted *)
Theorem C13_sparse_cover_terminates : forall ctrl reveal rows ds,
  forallb r_mask rows = true ->
  sc_contract ctrl rows (sample_names rows) [] ds ->
  length (sample_names rows) + ndistinct (all_tids ctrl rows) <= length ds ->
  exists out ds', sparse_cover ctrl reveal rows ds = Ok (out, ds').
Proof. exact sparse_cover_terminates. Qed.
Print Assumptions C13_sparse_cover_terminates.

(* ... having consumed between #samples and #samples + #distinct treatment ids answers *)
Theorem C13_sparse_cover_consumes : forall ctrl reveal rows ds out ds',
  sparse_cover ctrl reveal rows ds = Ok (out, ds') ->
  exists used, ds = used ++ ds' /\
    length (sample_names rows) <= length used <= length (sample_names rows) + ndistinct (all_tids ctrl rows).
Proof. exact sparse_cover_consumes. Qed.
Print Assumptions C13_sparse_cover_consumes.

(* ---- combination filter ---- *)
Theorem C13_combo_filter_exact : forall ctrl arity rows out,
  combo_filter ctrl arity rows = Ok out ->
  out = filter (keeps ctrl rows) rows /\
  forall r, keeps ctrl rows r = true <->
    forall t, In t (row_tids ctrl r) ->
      t = None \/ exists r', In r' rows /\ ~ In None (row_tids ctrl r') /\ In t (row_tids ctrl r').
Proof. intros ctrl arity rows out H. split; [exact (combo_filter_exact _ _ _ _ H)|apply keeps_spec]. Qed.
Print Assumptions C13_combo_filter_exact.

(* ---- fixed / optimal size ---- *)
Theorem C13_fixed_size_common : forall t rows ds out ds',
  smooth_plates (SFixed t) rows ds = Ok (out, ds') -> size_contract t (unobserved rows) ds ->
  forall p, In p (plate_names_of (unobserved out)) -> Z.of_nat (plate_count p (unobserved out)) = t.
Proof. exact fixed_size_common_w. Qed.
Print Assumptions C13_fixed_size_common.

Theorem C13_optimal_size_common : forall rows ds out ds',
  smooth_plates SOptimal rows ds = Ok (out, ds') ->
  size_contract (Z.of_nat (optimal_size (plate_sizes (unobserved rows)))) (unobserved rows) ds ->
  forall p, In p (plate_names_of (unobserved out)) ->
    plate_count p (unobserved out) = optimal_size (plate_sizes (unobserved rows)).
Proof. exact optimal_size_common_w. Qed.
Print Assumptions C13_optimal_size_common.

(* which plates survive, and with how many experiments (so: retained = size * #{plates >= size}) *)
Theorem C13_size_smooth_counts : forall t rows ds out ds',
  size_smooth t rows ds = Ok (out, ds') -> size_contract t rows ds ->
  forall p, In p (plate_names_of rows) ->
    Z.of_nat (plate_count p out) = if (t <=? psize p rows)%Z then t else 0%Z.
Proof. exact size_smooth_counts. Qed.
Print Assumptions C13_size_smooth_counts.

(* the optimal size retains the most experiments among all common sizes *)
Theorem C13_optimal_size_optimal : forall sizes s,
  (s * count_ge s sizes <= optimal_size sizes * count_ge (optimal_size sizes) sizes)%nat.
Proof. exact optimal_size_optimal. Qed.
Print Assumptions C13_optimal_size_optimal.

(* ---- per-sample minimum ---- *)
Theorem C13_nplate_minimum : forall m rows ds out ds',
  smooth_plates (SNPlate true m) rows ds = Ok (out, ds') ->
  forall s, In s (sample_names (unobserved out)) ->
    (m <= Z.of_nat (length (sample_plates s (unobserved out))))%Z.
Proof. exact nplate_minimum_w. Qed.
Print Assumptions C13_nplate_minimum.

(* ... and THROUGH the ensemble (MergeMin, MergeTopBottom, OptimalSize, then the per-sample minimum): the ensemble leaves no
   sample with fewer unobserved plates than configured either *)
Theorem C13_ensemble_minimum : forall ms n m rows ds out ds',
  smooth_plates (SEnsemble true ms n m) rows ds = Ok (out, ds') ->
  forall s, In s (sample_names (unobserved out)) ->
    (m <= Z.of_nat (length (sample_plates s (unobserved out))))%Z.
Proof. exact C13Ensemble.ensemble_minimum_w. Qed.
Print Assumptions C13_ensemble_minimum.

(* samples A: 1 plate, B: 3 plates, C: 1 plate; minimum 2 *)
Definition w_np : list row :=
  [w_row 65 [1] 1; w_row 66 [2] 2; w_row 66 [3] 3; w_row 66 [4] 4; w_row 67 [5] 5]%Z.

(* the code as found: A is dropped, ids are re-encoded, C's stale id 2 matches nothing: C stays with 1 < 2 plates *)
Theorem C13_nplate_minimum_refuted :
  exists m rows ds out ds',
    smooth_plates (SNPlate false m) rows ds = Ok (out, ds') /\
    exists s, In s (sample_names (unobserved out)) /\
              (Z.of_nat (length (sample_plates s (unobserved out))) < m)%Z.
Proof.
  exists 2%Z, w_np, [], (tl w_np), []. split; [vm_compute; reflexivity|].
  exists [67%Z]. vm_compute. split; [tauto|reflexivity].
Qed.
Print Assumptions C13_nplate_minimum_refuted.

(* ---- merge smoothers ---- *)
(* only plates of one sample are merged: whenever a merge smoother returns (and, for TopBottom, runs at
   least one iteration) every unobserved plate of the result holds one sample; with no iteration
   nothing is merged at all *)
Theorem C13_merge_same_sample : forall rows ds out ds',
  (forall ms, smooth_plates (SMergeMin ms) rows ds = Ok (out, ds') -> one_sample (unobserved out)) /\
  (forall n, smooth_plates (SMergeTB n) rows ds = Ok (out, ds') ->
     one_sample (unobserved out) \/ ((n <= 0)%Z /\ unobserved out = unobserved rows)).
Proof. exact merge_same_sample_w. Qed.
Print Assumptions C13_merge_same_sample.

(* min-merging stops exactly when the two smallest plates of a sample together exceed min_size:
   afterwards any two distinct unobserved plates of a sample together exceed it (for every heappop
   answer the model accepts, i.e. every answer that is a smallest plate), and if that already holds
   of the input nothing is merged *)
Theorem C13_mergemin_stop : forall ms rows ds out ds',
  smooth_plates (SMergeMin ms) rows ds = Ok (out, ds') ->
  (forall s, stop_rule s ms (unobserved out)) /\
  ((forall s, stop_rule s ms (unobserved rows)) -> unobserved out = unobserved rows).
Proof. exact mergemin_stop_w. Qed.
Print Assumptions C13_mergemin_stop.

(* one top-bottom iteration for sample s: n -> ceil(n/2) plates of s, other samples untouched;
   the loop breaks only when s has at most one plate *)
Theorem C13_topbottom_halves : forall s rows,
  match tb_iter s rows with
  | Ok (Some rows') =>
      one_sample rows' /\
      length (sample_plates s rows') = (length (sample_plates s rows) + 1) / 2 /\
      forall s', s' <> s -> sample_plates s' rows' = sample_plates s' rows
  | Ok None => one_sample rows /\ length (sample_plates s rows) <= 1
  | Err _ => True
  end.
Proof. exact tb_iter_halves. Qed.
Print Assumptions C13_topbottom_halves.

(* end to end: n_iterations halvings of the number of unobserved plates of every sample *)
Theorem C13_topbottom_counts : forall n rows ds out ds',
  smooth_plates (SMergeTB n) rows ds = Ok (out, ds') ->
  forall s, length (sample_plates s (unobserved out))
            = halve_n (Z.to_nat n) (length (sample_plates s (unobserved rows))).
Proof. exact topbottom_counts_w. Qed.
Print Assumptions C13_topbottom_counts.

(* sample A with plates of sizes 1,1,2,3 *)
Definition w_mm : list row :=
  [w_row 65 [1] 1; w_row 65 [2] 2; w_row 65 [3] 3; w_row 65 [3] 4; w_row 65 [4] 5; w_row 65 [4] 6; w_row 65 [4] 7]%Z.
(* min_size 4, heappop answers: plates 1,2 (1+1<=4: merged into plate 1), then plates {3, 4, 1+2}: pops 3 (size 2)
   and the merged plate (size 2): 2+2<=4 merged; then {4 (3), merged (4)}: 3+4>4 stop *)
Example C13_mergemin_example :
  option_map (fun r => (map r_plate (fst r), length (snd r)))
    (match smooth_plates (SMergeMin 4) w_mm
             [DInts [0]; DInts [0]; DInts [0]; DInts [1]; DInts [0]; DInts [0]] with Ok r => Some r | Err _ => None end)
  = Some ([[1]; [1]; [1]; [1]; [4]; [4]; [4]]%Z, 0).
Proof. vm_compute. reflexivity. Qed.
(* ... per sample (the other half of "exactly"): a sample whose unobserved plates ALREADY satisfy the stop rule is left
   untouched - the same plates, each with the same rows - whatever merging the other samples need.  (keeps_sample s a b unfolded.) *)
Theorem C13_mergemin_satisfied_sample_untouched : forall ms rows ds out ds',
  smooth_plates (SMergeMin ms) rows ds = Ok (out, ds') ->
  forall s, stop_rule s ms (unobserved rows) ->
    sample_plates s (unobserved out) = sample_plates s (unobserved rows) /\
    forall c, In c (sample_plates s (unobserved rows)) -> plate_vec c (unobserved out) = plate_vec c (unobserved rows).
Proof. exact C13MergeMinPerSample.mergemin_keeps_satisfied_w. Qed.
Print Assumptions C13_mergemin_satisfied_sample_untouched.
(* w_mm next to a sample B with plates of sizes 2 and 3 (2 + 3 > 4: B satisfies the rule, A does not): A is merged as above, B keeps its plates *)
Example C13_mergemin_per_sample_example :
  option_map (fun r => (map r_plate (fst r), length (snd r)))
    (match smooth_plates (SMergeMin 4) (w_mm ++ [w_row 66 [5] 8; w_row 66 [5] 9; w_row 66 [6] 10; w_row 66 [6] 11; w_row 66 [6] 12]%Z)
             [DInts [0]; DInts [0]; DInts [0]; DInts [1]; DInts [0]; DInts [0]; DInts [0]; DInts [0]] with Ok r => Some r | Err _ => None end)
  = Some ([[1]; [1]; [1]; [1]; [4]; [4]; [4]; [5]; [5]; [6]; [6]; [6]]%Z, 0).
Proof. vm_compute. reflexivity. Qed.
(* a heappop answer that is not a smallest plate is refused *)
Example C13_mergemin_bad_oracle :
  smooth_plates (SMergeMin 4) w_mm [DInts [3]; DInts [0]] = Err 93%Z.
Proof. vm_compute. reflexivity. Qed.
(* top-bottom, one iteration: 4 plates -> 2 *)
Example C13_topbottom_example :
  option_map (fun r => map r_plate (fst r))
    (match smooth_plates (SMergeTB 1) w_mm [] with Ok r => Some r | Err _ => None end)
  = Some [[1]; [2]; [2]; [2]; [1]; [1]; [1]]%Z.
Proof. vm_compute. reflexivity. Qed.

(* sparse cover on 3 fully observed rows (samples A, A, B; treatments a+b, a+control, c+b):
   answers 1, 2 for the samples, then 0 to cover treatment (b... already) - the loop needs no further answer *)
Definition w_sc : list row :=
  [ {| r_sample := [65]; r_plate := [112]; r_treats := [([97], 1); ([98], 1)]; r_obs := 1; r_mask := true |};
    {| r_sample := [65]; r_plate := [112]; r_treats := [([97], 1); ([], 0)]; r_obs := 2; r_mask := true |};
    {| r_sample := [66]; r_plate := [112]; r_treats := [([99], 1); ([98], 1)]; r_obs := 3; r_mask := true |} ]%Z.
Example C13_sparse_cover_example :
  option_map (fun r => (map r_mask (fst r), length (snd r)))
    (match sparse_cover [] false w_sc [DInts [1]; DInts [2]] with Ok r => Some r | Err _ => None end)
  = Some ([false; true; true], 0).
Proof. vm_compute. reflexivity. Qed.
(* an answer outside the offered array is refused *)
Example C13_sparse_cover_bad_oracle : sparse_cover [] false w_sc [DInts [2]; DInts [2]] = Err 94%Z.
Proof. vm_compute. reflexivity. Qed.

(* termination, non-vacuity: 2 samples + 4 distinct ids (a, b, c, control) = 6 answers; rows 0 and 2 for the samples
   leave the control id uncovered, the while loop is offered [1] only, answer 1 ends it; three answers are left *)
Definition w_sc_stream : list draw := [DInts [0]; DInts [2]; DInts [1]; DInts [7]; DInts [7]; DInts [7]].
Example C13_sparse_cover_contract_example :
  forallb r_mask w_sc = true /\ sc_contract [] w_sc (sample_names w_sc) [] w_sc_stream /\
  length (sample_names w_sc) + ndistinct (all_tids [] w_sc) = length w_sc_stream.
Proof. vm_compute. tauto. Qed.
Example C13_sparse_cover_terminates_example :
  option_map (fun r => (map r_mask (fst r), snd r))
    (match sparse_cover [] false w_sc w_sc_stream with Ok r => Some r | Err _ => None end)
  = Some ([true; true; true], [DInts [7]; DInts [7]; DInts [7]]) /\
  sc_offer_loop [] w_sc [0; 2] = [1] /\ ndistinct (sc_remaining [] w_sc [0; 2]) = 1.
Proof. vm_compute. auto. Qed.

(* the repaired logic on the same witnesses *)
Example C13_sample_segregating_fixed_witness :
  option_map (fun r => map r_plate (fst r))
    (match generate_plates (GSampleSeg true 3) w_ss [] with Ok r => Some r | Err _ => None end)
  = Some [gen_name 0; gen_name 0; gen_name 1; gen_name 1; gen_name 1].
Proof. vm_compute. reflexivity. Qed.
Example C13_nplate_fixed_witness :
  option_map (fun r => map r_sample (fst r))
    (match smooth_plates (SNPlate true 2) w_np [] with Ok r => Some r | Err _ => None end)
  = Some [[66]; [66]; [66]]%Z.
Proof. vm_compute. reflexivity. Qed.
(* a big sample is split by the recorded permutation; the contract hypothesis is satisfiable *)
Example C13_ss_contract_example :
  ss_contract 2 w_ss (sample_names w_ss) [DInts [4; 2; 3]].
Proof. vm_compute. split; [|exact I]. apply (Permutation_cons_app [2; 3] [] 4). apply Permutation_refl. Qed.
(* ... and the split itself: max 2, sample A (2 rows) keeps one plate, sample B (3 rows) is split 2 + 1 *)
Example C13_sample_segregating_even_example :
  option_map (fun r => map r_plate (fst r))
    (match generate_plates (GSampleSeg true 2) w_ss [DInts [4; 2; 3]] with Ok r => Some r | Err _ => None end)
  = Some [gen_name 0; gen_name 0; gen_name 1; gen_name 2; gen_name 1].
Proof. vm_compute. reflexivity. Qed.
(* pairwise with single-agent rows: samples A, B, each with one combination a+b and one single a; subset 1, no anchors;
   permutation answer [1; 0], empty control choice, singles assigned to the plate of their sample *)
Definition w_pw_row (s : Z) (single : bool) (o : Z) : row :=
  {| r_sample := [s]; r_plate := [112]%Z;
     r_treats := if single then [([97], 1); ([], 0)]%Z else [([97], 1); ([98], 1)]%Z; r_obs := o; r_mask := false |}.
Definition w_pw : list row := [w_pw_row 65 false 1; w_pw_row 65 true 2; w_pw_row 66 false 3; w_pw_row 66 true 4]%Z.
Example C13_pairwise_singles_example :
  option_map (fun r => (map r_sample (fst r), map r_plate (fst r), map (is_combo []) (fst r)))
    (match generate_plates (GPairwise [] 1 0) w_pw
             [DInts [1; 0]; DInts []; DNames [gen_name 0]; DNames [gen_name 1]] with Ok r => Some r | Err _ => None end)
  = Some ([[65]; [66]; [65]; [66]]%Z, [gen_name 0; gen_name 1; gen_name 0; gen_name 1], [true; true; false; false]).
Proof. vm_compute. reflexivity. Qed.
(* an assignment answer outside the plates of the sample (numpy's choice cannot give one) is refused *)
Example C13_pairwise_singles_bad_oracle :
  generate_plates (GPairwise [] 1 0) w_pw [DInts [1; 0]; DInts []; DNames [gen_name 1]; DNames [gen_name 1]] = Err 94%Z.
Proof. vm_compute. reflexivity. Qed.
(* the argsort hypothesis of the Pairwise link is satisfiable with anchors: ids 0 (a) and 1 (b), one anchor *)
Example C13_pairwise_argsort_ok_example :
  argsort_ok 1 (length (unique_ids [] (filter (is_combo []) w_pw))) [DInts [1; 0]; DInts [1]; DInts [0]; DInts []] /\
  length (unique_ids [] (filter (is_combo []) w_pw)) = 2.
Proof.
  split; [|vm_compute; reflexivity]. intros _. exists [1; 0], [DInts [1]; DInts [0]; DInts []]. split; [reflexivity|].
  vm_compute. repeat constructor.
Qed.

(* ================= the PRIMITIVES of the links above are theorems =================
   The configurations of the links above give a meaning, in the vocabulary of Model/Retro.v (a Screen = its experiments, a Plate =
   its selection vector, ids = ranks of sorted names), to the data.py helpers the smoothers call.  Those helpers are translated
   themselves (Generated/SrcViews.v, Generated/SrcPlates.v; Props/C14.v proves the translations equal to the models of
   Model/Views.v, where a Screen object carries its id arrays); the theorems below prove that each translation, read through the
   representation (rows of the Views screen = the Retro screen, selection vector of the view = the Retro plate), IS the meaning
   the primitive was given.  Side conditions are those of every reachable call: [screen_wf] / [screen_valid] hold of every
   constructed screen (C14_constructed_screens), [view_ok] of every view the constructors return, [plate_ids_fresh] /
   [sample_ids_fresh] ("the ids are what the encoder answers on the current names without a mapping") of every screen built
   without mappings and - for the plate ids - of the parent after every merge (clause 5 below). *)
From Batchie Require Import Lib.PyRt Model.Views Model.RetroHoldout Generated.SrcViews Generated.SrcPlates
  Proofs.C14Defs Proofs.C14ToScreen Proofs.C13SourceHelpers_Base Proofs.C13SourceHelpers_Merge Proofs.C13SourceHelpers_Plates
  Proofs.C13SourceHelpers_Order Proofs.C13SourceHelpers_SampleIds Proofs.C13SourceHelpers_PlateSampleIds.

(* primitive `__b.merge(__a)` -> [Retro.merge] (C13_MERGEMIN, C13_MERGETB): the translated Plate.merge on two plates of one screen
   object, of the parent's length, with a non-empty union, succeeds; the merged plate and the parent's rows afterwards are the
   two components of Retro.merge; the parent keeps its identity and everything but the rows and the plate ids; the plate ids are
   fresh again and the result is a well-formed view of the new parent *)
Theorem C13_model_is_source_plate_merge : forall self other : view,
  v_tag other = v_tag self -> view_ok self -> length (v_sel other) = length (v_sel self) ->
  screen_wf (v_parent self) -> vselect (vor (v_sel self) (v_sel other)) (s_rows (v_parent self)) <> [] ->
  exists v', src_plate_merge self other = Ok v' /\
    v_sel v' = fst (Retro.merge (v_sel self) (v_sel other) (s_rows (v_parent self))) /\
    s_rows (v_parent v') = snd (Retro.merge (v_sel self) (v_sel other) (s_rows (v_parent self))) /\
    v_tag v' = v_tag self /\ plate_ids_fresh (v_parent v') /\ screen_wf (v_parent v') /\ view_ok v' /\
    s_sids (v_parent v') = s_sids (v_parent self) /\ s_tids (v_parent v') = s_tids (v_parent self) /\
    s_arity (v_parent v') = s_arity (v_parent self) /\ s_ctrl (v_parent v') = s_ctrl (v_parent self).
Proof. exact src_plate_merge_is_retro_merge. Qed.
Print Assumptions C13_model_is_source_plate_merge.

(* primitive `__s.plates` -> [plates_of]: the translated Screen.plates of a screen object with fresh plate ids lists, in order,
   one view per sorted distinct plate NAME, whose selection vectors are plates_of's; all are views of that object *)
Theorem C13_model_is_source_plates : forall (tag : Z) (p : screen), screen_wf p -> plate_ids_fresh p ->
  exists vs, src_plates (tag, p) = Ok vs /\ map v_sel vs = plates_of (s_rows p) /\
             Forall (fun v => v_tag v = tag /\ v_parent v = p /\ view_ok v) vs.
Proof. exact src_plates_is_plates_of. Qed.
Print Assumptions C13_model_is_source_plates.

(* primitive `__p.size` -> [plate_size]; Plate.__lt__ (the order heapq uses) compares the numbers of selected rows; and what [pop]
   demands of a recorded heappop answer is exactly that no plate in the heap is smaller in that order *)
Theorem C13_model_is_source_plate_size_and_order :
  (forall v : view, screen_wf (v_parent v) -> view_ok v -> src_view_size v = Ok (plate_size (v_sel v))) /\
  (forall a b : view, view_ok a -> view_ok b -> src_plate_lt a b = Ok (vcount (v_sel a) <? vcount (v_sel b))) /\
  (forall (v : view) (heap : list view), view_ok v -> Forall view_ok heap ->
     forallb (fun w => vcount (v_sel v) <=? vcount w) (map v_sel heap) = true <->
     (forall w, In w heap -> src_plate_lt w v = Ok false)).
Proof. exact (conj src_view_size_is_plate_size (conj src_plate_lt_is_vcount_lt pop_minimality_is_plate_lt)). Qed.
Print Assumptions C13_model_is_source_plate_size_and_order.

(* primitive `__s.unique_sample_ids` -> [sample_names] (names stand for ids): with fresh sample ids the unique ids are 0 .. k-1,
   k = the number of distinct sample names, and id j selects exactly the rows of the j-th name of sample_names *)
Theorem C13_model_is_source_unique_sample_ids : forall s : pyscreen, sample_ids_fresh (snd s) ->
  let names := sample_names (s_rows (snd s)) in
  src_screen_unique_sample_ids s = Ok (map Z.of_nat (seq 0 (length names))) /\
  src_screen_n_unique_samples s = Ok (zlen names) /\
  (forall j, j < length names ->
     map (fun x => (x =? Z.of_nat j)%Z) (s_sids (snd s)) = map (in_sample (nth j names [])) (s_rows (snd s))).
Proof. exact src_unique_sample_ids_are_sample_names. Qed.
Print Assumptions C13_model_is_source_unique_sample_ids.

(* primitive `__p.unique_sample_ids` -> [plate_unique_samples] (_get_plate_sample_id): the plate's unique sample ids are the ranks,
   among the screen's sorted sample names, of plate_unique_samples - same length, same first element *)
Theorem C13_model_is_source_plate_unique_sample_ids : forall v : view, sample_ids_fresh (v_parent v) ->
  src_view_unique_sample_ids v
  = Ok (map (rank_in (sample_names (s_rows (v_parent v)))) (plate_unique_samples (v_sel v) (s_rows (v_parent v)))).
Proof. exact src_view_unique_sample_ids_are_plate_unique_samples. Qed.
Print Assumptions C13_model_is_source_plate_unique_sample_ids.

(* the side conditions are met by every constructed screen: built without mappings it has fresh plate AND sample ids *)
Theorem C13_constructed_screens_have_fresh_ids : forall rows ar ctrl tm sm og mg s,
  mk_screen rows ar ctrl tm sm og mg = Ok s -> plate_ids_fresh s /\ (sm = None -> sample_ids_fresh s).
Proof. exact mk_screen_ids_fresh. Qed.
Print Assumptions C13_constructed_screens_have_fresh_ids.

(* non-vacuity: three plates of one sample; the translated Screen.plates, then the translated merge of the second into the first,
   against Retro.plates_of / Retro.merge on the rows *)
Definition w_hp_row (p : Z) (o : Z) : row :=
  {| r_sample := [65]%Z; r_plate := [p]; r_treats := [([97], 1)]%Z; r_obs := o; r_mask := false |}.
Definition w_hp : list row := [w_hp_row 50 1; w_hp_row 49 2; w_hp_row 50 3; w_hp_row 51 4]%Z.
Example C13_helpers_example :
  match mk_screen w_hp 1 [] None None true true with
  | Ok s =>
      match (dor ps <- src_plates (7%Z, s); dor a <- list_get ps 0%Z; dor b <- list_get ps 1%Z;
             dor m <- src_plate_merge b a; Ok (map v_sel ps, m)) with
      | Ok (sels, m) =>
          sels = plates_of w_hp /\
          (v_sel m, s_rows (v_parent m)) = Retro.merge (nth 1 (plates_of w_hp) []) (nth 0 (plates_of w_hp) []) w_hp /\
          map r_plate (s_rows (v_parent m)) = [[50]; [50]; [50]; [51]]%Z /\ s_pids (v_parent m) = [0; 0; 0; 1]%Z
      | Err _ => False
      end
  | Err _ => False
  end.
Proof. vm_compute. repeat split. Qed.

(* ---- the constructors of the shipped generators / smoothers (retrospective.py; Generated/SrcInits.v, one translated __init__ per class):
   each stores its argument(s), so the attribute `self.<x>` its translated method reads - the model parameter of the links above - is
   the value the object was constructed with ---- *)
From Batchie Require Import Lib.PyRt Generated.SrcInits Proofs.C13Source_Init_SparseCover Proofs.C13Source_Init_Pairwise
  Proofs.C13Source_Init_PlatePermutation Proofs.C13Source_Init_SampleSeg Proofs.C13Source_Init_MergeMin Proofs.C13Source_Init_MergeTopBottom
  Proofs.C13Source_Init_FixedSize Proofs.C13Source_Init_NPlate Proofs.C13Source_Init_Ensemble Proofs.C13Source_ConstructedSmoothers.
Theorem C13_model_is_source_sparse_cover_init : forall reveal : bool, src_sparse_cover_init reveal = Ok reveal.
Proof. exact src_sparse_cover_init_stores. Qed.
Print Assumptions C13_model_is_source_sparse_cover_init.

Theorem C13_model_is_source_pairwise_init : forall subset_size anchor_size : Z, src_pairwise_init subset_size anchor_size = Ok (subset_size, anchor_size).
Proof. exact src_pairwise_init_stores. Qed.
Print Assumptions C13_model_is_source_pairwise_init.

Theorem C13_model_is_source_plate_permutation_init : forall force : option (list name), src_plate_permutation_init force = Ok force.
Proof. exact src_plate_permutation_init_stores. Qed.
Print Assumptions C13_model_is_source_plate_permutation_init.

Theorem C13_model_is_source_sample_segregating_init : forall max_plate_size : Z, src_sample_seg_init max_plate_size = Ok max_plate_size.
Proof. exact src_sample_seg_init_stores. Qed.
Print Assumptions C13_model_is_source_sample_segregating_init.

Theorem C13_model_is_source_merge_min_init : forall min_size : Z, src_merge_min_init min_size = Ok min_size.
Proof. exact src_merge_min_init_stores. Qed.
Print Assumptions C13_model_is_source_merge_min_init.

Theorem C13_model_is_source_merge_top_bottom_init : forall n_iterations : Z, src_merge_tb_init n_iterations = Ok n_iterations.
Proof. exact src_merge_tb_init_stores. Qed.
Print Assumptions C13_model_is_source_merge_top_bottom_init.

Theorem C13_model_is_source_fixed_size_init : forall plate_size : Z, src_fixed_size_init plate_size = Ok plate_size.
Proof. exact src_fixed_size_init_stores. Qed.
Print Assumptions C13_model_is_source_fixed_size_init.

Theorem C13_model_is_source_nplate_init : forall m : Z, src_nplate_init m = Ok m.
Proof. exact src_nplate_init_stores. Qed.
Print Assumptions C13_model_is_source_nplate_init.

Theorem C13_model_is_source_ensemble_init : forall min_size n_iterations m : Z, src_ensemble_init min_size n_iterations m = Ok (min_size, n_iterations, m).
Proof. exact src_ensemble_init_stores. Qed.
Print Assumptions C13_model_is_source_ensemble_init.

(* composed with the translated methods: a MergeMin smoother constructed with min_size merges up to that size ... *)
Theorem C13_source_constructed_merge_min : forall min_size rows ds fuel, (length rows < fuel)%nat ->
  (dor m <- src_merge_min_init min_size; src_merge_min_smooth_plates m rows ds fuel) = merge_min min_size rows ds.
Proof. exact constructed_merge_min_uses_its_min_size. Qed.
Print Assumptions C13_source_constructed_merge_min.

(* ... and the ensemble runs its four stages with the three parameters it was constructed with *)
Theorem C13_source_constructed_ensemble : forall ms n m rows ds fuel, (length rows < fuel)%nat ->
  (dor p <- src_ensemble_init ms n m; src_ensemble_smooth_plates (fst (fst p)) (snd (fst p)) (snd p) rows ds fuel)
  = ensemble true ms n m rows ds.
Proof. exact constructed_ensemble_uses_its_parameters. Qed.
Print Assumptions C13_source_constructed_ensemble.

