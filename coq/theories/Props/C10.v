(* C10 — placeholder while the model is validated against the implementation; replaced by the real statements. *)
From Coq Require Import ZArith List.
From Batchie Require Import Lib.Sexp Model.Thetas.
Theorem C10_placeholder : True.
Proof. exact I. Qed.
Print Assumptions C10_placeholder.
