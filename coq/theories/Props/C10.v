(* C10 — Posterior-sample collections persist exactly and keep chain-major order.
   Statements only; every proof is `exact <lemma from Proofs/>`.
   A sample is a pair (private parameters, shared parameters) of opaque values (P * S); a holder
   is (declared size, samples); see Model/Thetas.v. *)
From Coq Require Import ZArith List Permutation Decimal.
From Batchie Require Import Lib.Sexp Model.Thetas Proofs.C10Sort Proofs.C10Thetas Proofs.C10Witness.
From Batchie Require Import Generated.SrcThetas Proofs.C10Source.
Import ListNotations.
Open Scope Z_scope.

(* ---- tie to the code ----
   The methods of batchie.core.ThetaHolder are re-translated into Gallina from /repo's current source on every
   run (harness/py2gal.py -> Generated/SrcThetas.v: their branches, raises, arithmetic, the loop of concat, the
   attribute stores).  The translation works on holder OBJECTS o = (class id, attribute values): py_class o is
   the class (0 = ThetaHolder itself), snd o the model's holder (declared size = self._n_thetas, samples =
   self.thetas).  Each theorem states, for ALL inputs, what the translated method does in terms of the
   hand-written model's function on the attribute values, so every theorem below about get_theta / add_theta /
   is_complete / combine_holders / concat_holders is a theorem about the translated source. *)

(* ThetaHolder.__init__(n): declared size n, no samples, whatever the fresh instance was *)
Theorem C10_model_is_source_init : forall (P S : Type) (self : pyobj P S) n,
  src_init P S self n = Ok (py_class self, empty_holder P S n).
Proof. exact src_init_is_model. Qed.
Print Assumptions C10_model_is_source_init.

(* the property n_thetas reads the declared size *)
Theorem C10_model_is_source_n_thetas : forall (P S : Type) (self : pyobj P S),
  src_n_thetas P S self = Ok (h_declared (snd self)).
Proof. exact src_n_thetas_is_model. Qed.
Print Assumptions C10_model_is_source_n_thetas.

(* get_theta: the bound check, its raise, and the list indexing self.thetas[step_index] (Python semantics:
   a negative index would count from the end, an index past the end would be an IndexError - neither is
   reachable behind the check) *)
Theorem C10_model_is_source_get_theta : forall (P S : Type) (self : pyobj P S) i,
  src_get_theta P S self i = get_theta P S (snd self) i.
Proof. exact src_get_theta_is_model. Qed.
Print Assumptions C10_model_is_source_get_theta.

(* add_theta mutates self: the translation denotes the new value of self (same class) *)
Theorem C10_model_is_source_add_theta : forall (P S : Type) (self : pyobj P S) t,
  src_add_theta P S self t = (dor h <- add_theta P S (snd self) t; Ok (py_class self, h)).
Proof. exact src_add_theta_is_model. Qed.
Print Assumptions C10_model_is_source_add_theta.

Theorem C10_model_is_source_is_complete : forall (P S : Type) (self : pyobj P S),
  src_is_complete P S self = Ok (is_complete P S (snd self)).
Proof. exact src_is_complete_is_model. Qed.
Print Assumptions C10_model_is_source_is_complete.

(* combine: refuses objects of different classes (the guard the model leaves out), otherwise returns a NEW
   instance of ThetaHolder itself holding the model's combination *)
Theorem C10_model_is_source_combine : forall (P S : Type) (a b : pyobj P S),
  src_combine P S a b
  = if py_class a =? py_class b then Ok (as_obj (combine_holders P S (snd a) (snd b))) else Err 6.
Proof. exact src_combine_is_model. Qed.
Print Assumptions C10_model_is_source_combine.

(* concat (its two length tests, instances[0], the loop over instances[1:] with the class guard and
   first = first.combine(instance)) on any list of instances of ThetaHolder itself - every holder in the tree *)
Theorem C10_model_is_source_concat : forall (P S : Type) (hs : list (holder P S)),
  src_concat P S (map as_obj hs) = (dor h <- concat_holders P S hs; Ok (as_obj h)).
Proof. exact src_concat_is_model. Qed.
Print Assumptions C10_model_is_source_concat.

(* load_h5 and save_h5 are translated too, with the h5py / dict plumbing as configured primitives (the list is in
   harness/src_functions.py C10_LOAD / C10_SAVE and in the harness ASSUMPTIONS); what the translation contributes is
   the skeleton: the n_thetas attribute, the empty-holder refusal, shared parameters taken from sample 0, one group
   per enumerate index named str(i), sorted(..., key=int) over the group names, the loop in that order with
   g[name] and add_theta, the returned holder.

   load_h5 on any file whose private_params group has no two members of the same name (true of every HDF5 file) *)
Theorem C10_model_is_source_load_h5 : forall (P S : Type) (h5 : file P S),
  NoDup (map fst (f_groups h5)) ->
  src_load_h5 P S h5 = (dor h <- load P S h5; Ok (as_obj h)).
Proof. exact src_load_h5_is_model. Qed.
Print Assumptions C10_model_is_source_load_h5.

(* save_h5 returns nothing: its translation denotes what has been written (h5w); read back as a file (h5_close:
   all parts present, members in h5py's name order) it is the model's save, for every object *)
Theorem C10_model_is_source_save_h5 : forall (P S : Type) (self : pyobj P S),
  (dor w <- src_save_h5 P S self; h5_close w) = save P S (snd self).
Proof. exact src_save_h5_is_model. Qed.
Print Assumptions C10_model_is_source_save_h5.

(* the round trip through the two translated methods is the model's save_load (no side condition: the names
   save_h5 writes are distinct), so C10_load_save* are theorems about the translated source *)
Theorem C10_model_is_source_save_load : forall (P S : Type) (self : pyobj P S),
  (dor w <- src_save_h5 P S self; dor f <- h5_close w; src_load_h5 P S f)
  = (dor h <- save_load P S (snd self); Ok (as_obj h)).
Proof. exact src_save_load_is_model. Qed.
Print Assumptions C10_model_is_source_save_load.

(* ---- persistence ---- *)

(* save then load gives back the same holder: declared size, number, order and value of every
   sample, for every non-empty holder within its declared size whose samples agree on their
   shared parameters (always true when S = unit, i.e. for SparseDrugComboMCMCSample) *)
Theorem C10_load_save : forall (P S : Type) (h : holder P S),
  h_thetas h <> [] ->
  Z.of_nat (length (h_thetas h)) <= h_declared h ->
  (forall t u, In t (h_thetas h) -> In u (h_thetas h) -> snd t = snd u) ->
  save_load P S h = Ok h.
Proof. exact load_save. Qed.
Print Assumptions C10_load_save.

(* the property's wording: all n >= 1, a complete holder of n samples *)
Theorem C10_load_save_complete : forall (P S : Type) (n : nat) (ts : list (theta P S)),
  (1 <= n)%nat -> length ts = n ->
  (forall t u, In t ts -> In u ts -> snd t = snd u) ->
  save_load P S {| h_declared := Z.of_nat n; h_thetas := ts |}
  = Ok {| h_declared := Z.of_nat n; h_thetas := ts |}.
Proof. exact load_save_complete. Qed.
Print Assumptions C10_load_save_complete.

(* without the side condition: exactly what comes back *)
Theorem C10_load_save_general : forall (P S : Type) (h : holder P S) t0 r,
  h_thetas h = t0 :: r ->
  Z.of_nat (length (h_thetas h)) <= h_declared h ->
  save_load P S h
  = Ok {| h_declared := h_declared h; h_thetas := map (fun t => (fst t, snd t0)) (h_thetas h) |}.
Proof. exact save_load_general_explicit. Qed.
Print Assumptions C10_load_save_general.

Theorem C10_load_save_mixed_shared_refuted : exists h : holder Z Z,
  h_thetas h <> [] /\ Z.of_nat (length (h_thetas h)) <= h_declared h /\ save_load Z Z h <> Ok h.
Proof. exact mixed_shared_refuted. Qed.
Print Assumptions C10_load_save_mixed_shared_refuted.

Theorem C10_save_load_fixed_point : forall (P S : Type) (h h' : holder P S),
  save_load P S h = Ok h' -> save_load P S h' = Ok h'.
Proof. exact save_load_fixed_point. Qed.
Print Assumptions C10_save_load_fixed_point.

(* the file holds exactly the groups "0" .. "n-1" (in h5py's order), and int(str k) = k *)
Theorem C10_file_keys : forall (P S : Type) (h : holder P S) f,
  save P S h = Ok f ->
  Permutation (map fst (f_groups f)) (map key_of_index (seq 0 (length (h_thetas h)))) /\
  forall k, index_of_key (key_of_index k) = k.
Proof. intros P S h f H. split; [exact (file_keys P S h f H) | exact index_of_key_of_index]. Qed.
Print Assumptions C10_file_keys.

(* sorting by int(key), as load_h5 does, undoes ANY iteration order of those groups *)
Theorem C10_numeric_sort_restores_order : forall (P : Type) (xs : list P) (gs : list (Decimal.uint * P)),
  Permutation gs (map (fun it => (key_of_index (fst it), snd it)) (enumerate xs)) ->
  map snd (numsort P gs) = xs.
Proof. exact numeric_sort_restores_order. Qed.
Print Assumptions C10_numeric_sort_restores_order.

(* ---- concatenation and chain ids ---- *)

Theorem C10_concat_chain_major : forall (P S : Type) (hs : list (holder P S)),
  hs <> [] ->
  concat_holders P S hs
  = Ok {| h_declared := fold_right Z.add 0 (map h_declared hs); h_thetas := concat (map h_thetas hs) |}.
Proof. exact concat_chain_major. Qed.
Print Assumptions C10_concat_chain_major.

(* complete holders: the labels evaluate_model builds, paired with the concatenated samples, are
   exactly "every sample with the number of the chain it came from", chain by chain *)
Theorem C10_chain_ids_aligned : forall (P S : Type) (hs : list (holder P S)),
  (forall h, In h hs -> Z.of_nat (length (h_thetas h)) = h_declared h) ->
  combine (chain_ids P S hs) (concat (map h_thetas hs))
  = concat (map (fun ih => map (pair (Z.of_nat (fst ih))) (h_thetas (snd ih))) (enumerate hs)).
Proof. exact chain_ids_aligned. Qed.
Print Assumptions C10_chain_ids_aligned.

Theorem C10_chain_ids_position : forall (P S : Type) (hs : list (holder P S)) (p : nat),
  (forall h, In h hs -> Z.of_nat (length (h_thetas h)) = h_declared h) ->
  (p < length (concat (map h_thetas hs)))%nat ->
  exists c h off,
    nth_error (chain_ids P S hs) p = Some (Z.of_nat c) /\
    nth_error hs c = Some h /\
    p = (length (concat (map h_thetas (firstn c hs))) + off)%nat /\
    (off < length (h_thetas h))%nat /\
    nth_error (concat (map h_thetas hs)) p = nth_error (h_thetas h) off.
Proof. exact chain_ids_position. Qed.
Print Assumptions C10_chain_ids_position.

Theorem C10_chain_ids_aligned_partial_refuted : exists hs : list (holder Z unit),
  (forall h, In h hs -> Z.of_nat (length (h_thetas h)) <= h_declared h) /\
  combine (chain_ids Z unit hs) (concat (map h_thetas hs))
  <> concat (map (fun ih => map (pair (Z.of_nat (fst ih))) (h_thetas (snd ih))) (enumerate hs)).
Proof. exact chain_ids_partial_misaligned. Qed.
Print Assumptions C10_chain_ids_aligned_partial_refuted.

(* the pipeline of evaluate_model.main (concat, chain_ids, one prediction column per
   range(n_thetas) index via get_theta, ModelEvaluation's length check): if it succeeds, the
   columns are labelled correctly ... *)
Theorem C10_evaluate_labels : forall (P S : Type) (hs : list (holder P S)) l,
  (forall h, In h hs -> Z.of_nat (length (h_thetas h)) <= h_declared h) ->
  evaluate P S hs = Ok l ->
  l = concat (map (fun ih => map (pair (Z.of_nat (fst ih))) (h_thetas (snd ih))) (enumerate hs)).
Proof. exact evaluate_labels. Qed.
Print Assumptions C10_evaluate_labels.

(* ... on complete non-empty chains written to files and loaded back it does succeed ... *)
Theorem C10_evaluate_complete : forall (P S : Type) (hs : list (holder P S)),
  hs <> [] ->
  (forall h, In h hs -> Z.of_nat (length (h_thetas h)) = h_declared h /\ h_thetas h <> [] /\
                        forall t u, In t (h_thetas h) -> In u (h_thetas h) -> snd t = snd u) ->
  evaluate_files P S hs
  = Ok (concat (map (fun ih => map (pair (Z.of_nat (fst ih))) (h_thetas (snd ih))) (enumerate hs))).
Proof. exact evaluate_files_complete_uniform. Qed.
Print Assumptions C10_evaluate_complete.

(* ... and a partially filled chain is refused, not mislabelled *)
Theorem C10_evaluate_partial_refused : forall (P S : Type) (hs : list (holder P S)) h,
  (forall h, In h hs -> Z.of_nat (length (h_thetas h)) <= h_declared h) ->
  In h hs -> Z.of_nat (length (h_thetas h)) < h_declared h ->
  evaluate P S hs = Err 2.
Proof. exact evaluate_partial_refused. Qed.
Print Assumptions C10_evaluate_partial_refused.

(* ---- refusals ---- *)

Theorem C10_add_beyond_declared_refused : forall (P S : Type) (h : holder P S) t,
  h_declared h <= Z.of_nat (length (h_thetas h)) -> add_theta P S h t = Err 1.
Proof. exact add_beyond_declared_refused. Qed.
Print Assumptions C10_add_beyond_declared_refused.

Theorem C10_add_within_declared : forall (P S : Type) (h : holder P S) t,
  Z.of_nat (length (h_thetas h)) < h_declared h ->
  add_theta P S h t = Ok {| h_declared := h_declared h; h_thetas := h_thetas h ++ [t] |}.
Proof. exact add_within_declared. Qed.
Print Assumptions C10_add_within_declared.

Theorem C10_get_out_of_range_refused : forall (P S : Type) (h : holder P S) i,
  i < 0 \/ Z.of_nat (length (h_thetas h)) <= i -> get_theta P S h i = Err 2.
Proof. exact get_out_of_range_refused. Qed.
Print Assumptions C10_get_out_of_range_refused.

Theorem C10_get_in_range : forall (P S : Type) (h : holder P S) (i : nat) t,
  nth_error (h_thetas h) i = Some t -> get_theta P S h (Z.of_nat i) = Ok t.
Proof. exact get_in_range. Qed.
Print Assumptions C10_get_in_range.

Theorem C10_save_empty_refused : forall (P S : Type) (h : holder P S),
  h_thetas h = [] -> save P S h = Err 4.
Proof. exact save_empty_refused. Qed.
Print Assumptions C10_save_empty_refused.

Theorem C10_concat_nothing_refused : forall (P S : Type), concat_holders P S [] = Err 3.
Proof. exact concat_nothing_refused. Qed.
Print Assumptions C10_concat_nothing_refused.

(* outside the API (thetas assigned directly): more groups than the n_thetas attribute *)
Theorem C10_load_overfull_refused : forall (P S : Type) (h : holder P S),
  h_thetas h <> [] -> Z.of_nat (length (h_thetas h)) > h_declared h -> save_load P S h = Err 1.
Proof. exact save_load_overfull. Qed.
Print Assumptions C10_load_overfull_refused.

(* ---- non-vacuity: concrete instances ---- *)

Definition ex12 : holder Z Z :=
  {| h_declared := 12; h_thetas := map (fun k => (100 + Z.of_nat k, 7)) (seq 0 12) |}.

(* the saved file of 12 samples is iterated "0" "1" "10" "11" "2" ... (NOT numeric order) *)
Example C10_ex_file_order :
  match save Z Z ex12 with
  | Ok f => map (fun g => (map Z.of_nat (digits (fst g)), snd g)) (f_groups f)
  | Err _ => []
  end
  = [([0], 100); ([1], 101); ([1; 0], 110); ([1; 1], 111); ([2], 102); ([3], 103); ([4], 104);
     ([5], 105); ([6], 106); ([7], 107); ([8], 108); ([9], 109)].
Proof. vm_compute. reflexivity. Qed.

Example C10_ex_load_save_12 : save_load Z Z ex12 = Ok ex12.
Proof. vm_compute. reflexivity. Qed.

Example C10_ex_partial : save_load Z Z {| h_declared := 5; h_thetas := [(1, 0); (2, 0)] |}
                         = Ok {| h_declared := 5; h_thetas := [(1, 0); (2, 0)] |}.
Proof. vm_compute. reflexivity. Qed.

Example C10_ex_evaluate :
  evaluate_files Z Z [ {| h_declared := 2; h_thetas := [(1, 0); (2, 0)] |}; ex12;
                       {| h_declared := 1; h_thetas := [(3, 9)] |} ]
  = Ok ([(0, (1, 0)); (0, (2, 0))] ++ map (fun k => (1, (100 + Z.of_nat k, 7))) (seq 0 12) ++ [(2, (3, 9))]).
Proof. vm_compute. reflexivity. Qed.

Example C10_ex_evaluate_partial :
  evaluate_files Z Z [ {| h_declared := 3; h_thetas := [(1, 0); (2, 0)] |}; {| h_declared := 1; h_thetas := [(3, 0)] |} ]
  = Err 2.
Proof. vm_compute. reflexivity. Qed.

Example C10_ex_refusals :
  add_theta Z Z {| h_declared := 1; h_thetas := [(1, 0)] |} (2, 0) = Err 1 /\
  get_theta Z Z {| h_declared := 1; h_thetas := [(1, 0)] |} 1 = Err 2 /\
  get_theta Z Z {| h_declared := 1; h_thetas := [(1, 0)] |} (-1) = Err 2 /\
  get_theta Z Z {| h_declared := 1; h_thetas := [(1, 0)] |} 0 = Ok (1, 0) /\
  save Z Z (empty_holder Z Z 3) = Err 4.
Proof. vm_compute. repeat split; reflexivity. Qed.

(* ---- the command-line wrapper evaluate_model.main is what the source says NOW ----
   `src_cli_evaluate_model` is the whole function main of /repo's current batchie/cli/evaluate_model.py, re-translated on every run
   (configuration CLI_EVALUATE_MODEL -> Generated/SrcCli.v).  Cli.chain_ids_of: file i of --thetas, in ARGUMENT order, contributes its
   declared size (n_thetas) many copies of i; the holders are concatenated in the same order.
   Model/Cli.v: the parsed arguments are a record of the plain argparse results (get_args() is not translated), `L` is a
   record of the library functions the wrapper calls over abstract types (each component stands for the library function
   of that name with its parameter list; `*_load_*` = what loading the file at a path yields), a main() denotes the list
   of (path, content) files it writes, Err = the exception that ends it.  The links hold for EVERY such record. *)
From Batchie Require Lib.PyRt Model.Cli Generated.SrcCli Proofs.C10SourceCli.
Theorem C10_model_is_source_cli_evaluate_model : forall (Scr Th Pr PrT Ob Nm Ev : Type) (L : Cli.ev_lib Scr Th Pr PrT Ob Nm Ev) (a : Cli.ev_args),
  SrcCli.src_cli_evaluate_model Scr Th Pr PrT Ob Nm Ev L a
  = Cli.cli_evaluate_model L a.
Proof. exact C10SourceCli.src_cli_evaluate_model_is_model. Qed.
Print Assumptions C10_model_is_source_cli_evaluate_model.

Example C10_example_cli_chain_ids : Cli.chain_ids_of (fun n : Z => n) [2; 0; 3]%Z = [0; 0; 2; 2; 2]%Z.
Proof. vm_compute. reflexivity. Qed.
