(* C10 — Posterior-sample collections persist exactly and keep chain-major order.
   Statements only; every proof is `exact <lemma from Proofs/>`.
   A sample is a pair (private parameters, shared parameters) of opaque values (P * S); a holder
   is (declared size, samples); see Model/Thetas.v. *)
From Coq Require Import ZArith List Permutation Decimal.
From Batchie Require Import Lib.Sexp Model.Thetas Proofs.C10Sort Proofs.C10Thetas Proofs.C10Witness.
From Batchie Require Import Generated.SrcThetas Proofs.C10Source.
Import ListNotations.
Open Scope Z_scope.

(* ---- tie to the code ----
   The methods of batchie.core.ThetaHolder are re-translated into Gallina from /repo's current source on every
   run (harness/py2gal.py -> Generated/SrcThetas.v: their branches, raises, arithmetic, the loop of concat, the
   attribute stores).  The translation works on holder OBJECTS o = (class id, attribute values): py_class o is
   the class (0 = ThetaHolder itself), snd o the model's holder (declared size = self._n_thetas, samples =
   self.thetas).  Each theorem states, for ALL inputs, what the translated method does in terms of the
   hand-written model's function on the attribute values, so every theorem below about get_theta / add_theta /
   is_complete / combine_holders / concat_holders is a theorem about the translated source. *)

(* ThetaHolder.__init__(n): declared size n, no samples, whatever the fresh instance was *)
Theorem C10_model_is_source_init : forall (P S : Type) (self : pyobj P S) n,
  src_init P S self n = Ok (py_class self, empty_holder P S n).
Proof. exact src_init_is_model. Qed.
Print Assumptions C10_model_is_source_init.

(* the property n_thetas reads the declared size *)
Theorem C10_model_is_source_n_thetas : forall (P S : Type) (self : pyobj P S),
  src_n_thetas P S self = Ok (h_declared (snd self)).
Proof. exact src_n_thetas_is_model. Qed.
Print Assumptions C10_model_is_source_n_thetas.

(* get_theta: the bound check, its raise, and the list indexing self.thetas[step_index] (Python semantics:
   a negative index would count from the end, an index past the end would be an IndexError - neither is
   reachable behind the check) *)
Theorem C10_model_is_source_get_theta : forall (P S : Type) (self : pyobj P S) i,
  src_get_theta P S self i = get_theta P S (snd self) i.
Proof. exact src_get_theta_is_model. Qed.
Print Assumptions C10_model_is_source_get_theta.

(* add_theta mutates self: the translation denotes the new value of self (same class) *)
Theorem C10_model_is_source_add_theta : forall (P S : Type) (self : pyobj P S) t,
  src_add_theta P S self t = (dor h <- add_theta P S (snd self) t; Ok (py_class self, h)).
Proof. exact src_add_theta_is_model. Qed.
Print Assumptions C10_model_is_source_add_theta.

Theorem C10_model_is_source_is_complete : forall (P S : Type) (self : pyobj P S),
  src_is_complete P S self = Ok (is_complete P S (snd self)).
Proof. exact src_is_complete_is_model. Qed.
Print Assumptions C10_model_is_source_is_complete.

(* combine: refuses objects of different classes (the guard the model leaves out), otherwise returns a NEW
   instance of ThetaHolder itself holding the model's combination *)
Theorem C10_model_is_source_combine : forall (P S : Type) (a b : pyobj P S),
  src_combine P S a b
  = if py_class a =? py_class b then Ok (as_obj (combine_holders P S (snd a) (snd b))) else Err 6.
Proof. exact src_combine_is_model. Qed.
Print Assumptions C10_model_is_source_combine.

(* concat (its two length tests, instances[0], the loop over instances[1:] with the class guard and
   first = first.combine(instance)) on any list of instances of ThetaHolder itself - every holder in the tree *)
Theorem C10_model_is_source_concat : forall (P S : Type) (hs : list (holder P S)),
  src_concat P S (map as_obj hs) = (dor h <- concat_holders P S hs; Ok (as_obj h)).
Proof. exact src_concat_is_model. Qed.
Print Assumptions C10_model_is_source_concat.

(* load_h5 and save_h5 are translated too, with the h5py / dict plumbing as configured primitives (the list is in
   harness/src_functions.py C10_LOAD / C10_SAVE and in the harness ASSUMPTIONS); what the translation contributes is
   the skeleton: the n_thetas attribute, the empty-holder refusal, shared parameters taken from sample 0, one group
   per enumerate index named str(i), sorted(..., key=int) over the group names, the loop in that order with
   g[name] and add_theta, the returned holder.

   load_h5 on any file whose private_params group has no two members of the same name (true of every HDF5 file) *)
Theorem C10_model_is_source_load_h5 : forall (P S : Type) (h5 : file P S),
  NoDup (map fst (f_groups h5)) ->
  src_load_h5 P S h5 = (dor h <- load P S h5; Ok (as_obj h)).
Proof. exact src_load_h5_is_model. Qed.
Print Assumptions C10_model_is_source_load_h5.

(* save_h5 returns nothing: its translation denotes what has been written (h5w); read back as a file (h5_close:
   all parts present, members in h5py's name order) it is the model's save, for every object *)
Theorem C10_model_is_source_save_h5 : forall (P S : Type) (self : pyobj P S),
  (dor w <- src_save_h5 P S self; h5_close w) = save P S (snd self).
Proof. exact src_save_h5_is_model. Qed.
Print Assumptions C10_model_is_source_save_h5.

(* the round trip through the two translated methods is the model's save_load (no side condition: the names
   save_h5 writes are distinct), so C10_load_save* are theorems about the translated source *)
Theorem C10_model_is_source_save_load : forall (P S : Type) (self : pyobj P S),
  (dor w <- src_save_h5 P S self; dor f <- h5_close w; src_load_h5 P S f)
  = (dor h <- save_load P S (snd self); Ok (as_obj h)).
Proof. exact src_save_load_is_model. Qed.
Print Assumptions C10_model_is_source_save_load.

(* ---- persistence ---- *)

(* save then load gives back the same holder: declared size, number, order and value of every
   sample, for every non-empty holder within its declared size whose samples agree on their
   shared parameters (always true when S = unit, i.e. for SparseDrugComboMCMCSample) *)
Theorem C10_load_save : forall (P S : Type) (h : holder P S),
  h_thetas h <> [] ->
  Z.of_nat (length (h_thetas h)) <= h_declared h ->
  (forall t u, In t (h_thetas h) -> In u (h_thetas h) -> snd t = snd u) ->
  save_load P S h = Ok h.
Proof. exact load_save. Qed.
Print Assumptions C10_load_save.

(* the property's wording: all n >= 1, a complete holder of n samples *)
Theorem C10_load_save_complete : forall (P S : Type) (n : nat) (ts : list (theta P S)),
  (1 <= n)%nat -> length ts = n ->
  (forall t u, In t ts -> In u ts -> snd t = snd u) ->
  save_load P S {| h_declared := Z.of_nat n; h_thetas := ts |}
  = Ok {| h_declared := Z.of_nat n; h_thetas := ts |}.
Proof. exact load_save_complete. Qed.
Print Assumptions C10_load_save_complete.

(* without the side condition: exactly what comes back *)
Theorem C10_load_save_general : forall (P S : Type) (h : holder P S) t0 r,
  h_thetas h = t0 :: r ->
  Z.of_nat (length (h_thetas h)) <= h_declared h ->
  save_load P S h
  = Ok {| h_declared := h_declared h; h_thetas := map (fun t => (fst t, snd t0)) (h_thetas h) |}.
Proof. exact save_load_general_explicit. Qed.
Print Assumptions C10_load_save_general.

Theorem C10_load_save_mixed_shared_refuted : exists h : holder Z Z,
  h_thetas h <> [] /\ Z.of_nat (length (h_thetas h)) <= h_declared h /\ save_load Z Z h <> Ok h.
Proof. exact mixed_shared_refuted. Qed.
Print Assumptions C10_load_save_mixed_shared_refuted.

Theorem C10_save_load_fixed_point : forall (P S : Type) (h h' : holder P S),
  save_load P S h = Ok h' -> save_load P S h' = Ok h'.
Proof. exact save_load_fixed_point. Qed.
Print Assumptions C10_save_load_fixed_point.

(* the file holds exactly the groups "0" .. "n-1" (in h5py's order), and int(str k) = k *)
Theorem C10_file_keys : forall (P S : Type) (h : holder P S) f,
  save P S h = Ok f ->
  Permutation (map fst (f_groups f)) (map key_of_index (seq 0 (length (h_thetas h)))) /\
  forall k, index_of_key (key_of_index k) = k.
Proof. intros P S h f H. split; [exact (file_keys P S h f H) | exact index_of_key_of_index]. Qed.
Print Assumptions C10_file_keys.

(* sorting by int(key), as load_h5 does, undoes ANY iteration order of those groups *)
Theorem C10_numeric_sort_restores_order : forall (P : Type) (xs : list P) (gs : list (Decimal.uint * P)),
  Permutation gs (map (fun it => (key_of_index (fst it), snd it)) (enumerate xs)) ->
  map snd (numsort P gs) = xs.
Proof. exact numeric_sort_restores_order. Qed.
Print Assumptions C10_numeric_sort_restores_order.

(* ---- concatenation and chain ids ---- *)

Theorem C10_concat_chain_major : forall (P S : Type) (hs : list (holder P S)),
  hs <> [] ->
  concat_holders P S hs
  = Ok {| h_declared := fold_right Z.add 0 (map h_declared hs); h_thetas := concat (map h_thetas hs) |}.
Proof. exact concat_chain_major. Qed.
Print Assumptions C10_concat_chain_major.

(* complete holders: the labels evaluate_model builds, paired with the concatenated samples, are
   exactly "every sample with the number of the chain it came from", chain by chain *)
Theorem C10_chain_ids_aligned : forall (P S : Type) (hs : list (holder P S)),
  (forall h, In h hs -> Z.of_nat (length (h_thetas h)) = h_declared h) ->
  combine (chain_ids P S hs) (concat (map h_thetas hs))
  = concat (map (fun ih => map (pair (Z.of_nat (fst ih))) (h_thetas (snd ih))) (enumerate hs)).
Proof. exact chain_ids_aligned. Qed.
Print Assumptions C10_chain_ids_aligned.

Theorem C10_chain_ids_position : forall (P S : Type) (hs : list (holder P S)) (p : nat),
  (forall h, In h hs -> Z.of_nat (length (h_thetas h)) = h_declared h) ->
  (p < length (concat (map h_thetas hs)))%nat ->
  exists c h off,
    nth_error (chain_ids P S hs) p = Some (Z.of_nat c) /\
    nth_error hs c = Some h /\
    p = (length (concat (map h_thetas (firstn c hs))) + off)%nat /\
    (off < length (h_thetas h))%nat /\
    nth_error (concat (map h_thetas hs)) p = nth_error (h_thetas h) off.
Proof. exact chain_ids_position. Qed.
Print Assumptions C10_chain_ids_position.

Theorem C10_chain_ids_aligned_partial_refuted : exists hs : list (holder Z unit),
  (forall h, In h hs -> Z.of_nat (length (h_thetas h)) <= h_declared h) /\
  combine (chain_ids Z unit hs) (concat (map h_thetas hs))
  <> concat (map (fun ih => map (pair (Z.of_nat (fst ih))) (h_thetas (snd ih))) (enumerate hs)).
Proof. exact chain_ids_partial_misaligned. Qed.
Print Assumptions C10_chain_ids_aligned_partial_refuted.

(* the pipeline of evaluate_model.main (concat, chain_ids, one prediction column per
   range(n_thetas) index via get_theta, ModelEvaluation's length check): if it succeeds, the
   columns are labelled correctly ... *)
Theorem C10_evaluate_labels : forall (P S : Type) (hs : list (holder P S)) l,
  (forall h, In h hs -> Z.of_nat (length (h_thetas h)) <= h_declared h) ->
  evaluate P S hs = Ok l ->
  l = concat (map (fun ih => map (pair (Z.of_nat (fst ih))) (h_thetas (snd ih))) (enumerate hs)).
Proof. exact evaluate_labels. Qed.
Print Assumptions C10_evaluate_labels.

(* ... on complete non-empty chains written to files and loaded back it does succeed ... *)
Theorem C10_evaluate_complete : forall (P S : Type) (hs : list (holder P S)),
  hs <> [] ->
  (forall h, In h hs -> Z.of_nat (length (h_thetas h)) = h_declared h /\ h_thetas h <> [] /\
                        forall t u, In t (h_thetas h) -> In u (h_thetas h) -> snd t = snd u) ->
  evaluate_files P S hs
  = Ok (concat (map (fun ih => map (pair (Z.of_nat (fst ih))) (h_thetas (snd ih))) (enumerate hs))).
Proof. exact evaluate_files_complete_uniform. Qed.
Print Assumptions C10_evaluate_complete.

(* ... and a partially filled chain is refused, not mislabelled *)
Theorem C10_evaluate_partial_refused : forall (P S : Type) (hs : list (holder P S)) h,
  (forall h, In h hs -> Z.of_nat (length (h_thetas h)) <= h_declared h) ->
  In h hs -> Z.of_nat (length (h_thetas h)) < h_declared h ->
  evaluate P S hs = Err 2.
Proof. exact evaluate_partial_refused. Qed.
Print Assumptions C10_evaluate_partial_refused.

(* ---- refusals ---- *)

Theorem C10_add_beyond_declared_refused : forall (P S : Type) (h : holder P S) t,
  h_declared h <= Z.of_nat (length (h_thetas h)) -> add_theta P S h t = Err 1.
Proof. exact add_beyond_declared_refused. Qed.
Print Assumptions C10_add_beyond_declared_refused.

Theorem C10_add_within_declared : forall (P S : Type) (h : holder P S) t,
  Z.of_nat (length (h_thetas h)) < h_declared h ->
  add_theta P S h t = Ok {| h_declared := h_declared h; h_thetas := h_thetas h ++ [t] |}.
Proof. exact add_within_declared. Qed.
Print Assumptions C10_add_within_declared.

Theorem C10_get_out_of_range_refused : forall (P S : Type) (h : holder P S) i,
  i < 0 \/ Z.of_nat (length (h_thetas h)) <= i -> get_theta P S h i = Err 2.
Proof. exact get_out_of_range_refused. Qed.
Print Assumptions C10_get_out_of_range_refused.

Theorem C10_get_in_range : forall (P S : Type) (h : holder P S) (i : nat) t,
  nth_error (h_thetas h) i = Some t -> get_theta P S h (Z.of_nat i) = Ok t.
Proof. exact get_in_range. Qed.
Print Assumptions C10_get_in_range.

Theorem C10_save_empty_refused : forall (P S : Type) (h : holder P S),
  h_thetas h = [] -> save P S h = Err 4.
Proof. exact save_empty_refused. Qed.
Print Assumptions C10_save_empty_refused.

Theorem C10_concat_nothing_refused : forall (P S : Type), concat_holders P S [] = Err 3.
Proof. exact concat_nothing_refused. Qed.
Print Assumptions C10_concat_nothing_refused.

(* outside the API (thetas assigned directly): more groups than the n_thetas attribute *)
Theorem C10_load_overfull_refused : forall (P S : Type) (h : holder P S),
  h_thetas h <> [] -> Z.of_nat (length (h_thetas h)) > h_declared h -> save_load P S h = Err 1.
Proof. exact save_load_overfull. Qed.
Print Assumptions C10_load_overfull_refused.

(* ---- non-vacuity: concrete instances ---- *)

Definition ex12 : holder Z Z :=
  {| h_declared := 12; h_thetas := map (fun k => (100 + Z.of_nat k, 7)) (seq 0 12) |}.

(* the saved file of 12 samples is iterated "0" "1" "10" "11" "2" ... (NOT numeric order) *)
Example C10_ex_file_order :
  match save Z Z ex12 with
  | Ok f => map (fun g => (map Z.of_nat (digits (fst g)), snd g)) (f_groups f)
  | Err _ => []
  end
  = [([0], 100); ([1], 101); ([1; 0], 110); ([1; 1], 111); ([2], 102); ([3], 103); ([4], 104);
     ([5], 105); ([6], 106); ([7], 107); ([8], 108); ([9], 109)].
Proof. vm_compute. reflexivity. Qed.

Example C10_ex_load_save_12 : save_load Z Z ex12 = Ok ex12.
Proof. vm_compute. reflexivity. Qed.

Example C10_ex_partial : save_load Z Z {| h_declared := 5; h_thetas := [(1, 0); (2, 0)] |}
                         = Ok {| h_declared := 5; h_thetas := [(1, 0); (2, 0)] |}.
Proof. vm_compute. reflexivity. Qed.

Example C10_ex_evaluate :
  evaluate_files Z Z [ {| h_declared := 2; h_thetas := [(1, 0); (2, 0)] |}; ex12;
                       {| h_declared := 1; h_thetas := [(3, 9)] |} ]
  = Ok ([(0, (1, 0)); (0, (2, 0))] ++ map (fun k => (1, (100 + Z.of_nat k, 7))) (seq 0 12) ++ [(2, (3, 9))]).
Proof. vm_compute. reflexivity. Qed.

Example C10_ex_evaluate_partial :
  evaluate_files Z Z [ {| h_declared := 3; h_thetas := [(1, 0); (2, 0)] |}; {| h_declared := 1; h_thetas := [(3, 0)] |} ]
  = Err 2.
Proof. vm_compute. reflexivity. Qed.

Example C10_ex_refusals :
  add_theta Z Z {| h_declared := 1; h_thetas := [(1, 0)] |} (2, 0) = Err 1 /\
  get_theta Z Z {| h_declared := 1; h_thetas := [(1, 0)] |} 1 = Err 2 /\
  get_theta Z Z {| h_declared := 1; h_thetas := [(1, 0)] |} (-1) = Err 2 /\
  get_theta Z Z {| h_declared := 1; h_thetas := [(1, 0)] |} 0 = Ok (1, 0) /\
  save Z Z (empty_holder Z Z 3) = Err 4.
Proof. vm_compute. repeat split; reflexivity. Qed.

(* ---- the command-line wrapper evaluate_model.main is what the source says NOW ----
   `src_cli_evaluate_model` is the whole function main of /repo's current batchie/cli/evaluate_model.py, re-translated on every run
   (configuration CLI_EVALUATE_MODEL -> Generated/SrcCli.v).  Cli.chain_ids_of: file i of --thetas, in ARGUMENT order, contributes its
   declared size (n_thetas) many copies of i; the holders are concatenated in the same order.
   Model/Cli.v: the parsed arguments are a record of the plain argparse results (get_args() is not translated), `L` is a
   record of the library functions the wrapper calls over abstract types (each component stands for the library function
   of that name with its parameter list; `*_load_*` = what loading the file at a path yields), a main() denotes the list
   of (path, content) files it writes, Err = the exception that ends it.  The links hold for EVERY such record. *)
From Batchie Require Lib.PyRt Model.Cli Generated.SrcCli Proofs.C10SourceCli.
Theorem C10_model_is_source_cli_evaluate_model : forall (Scr Th Pr PrT Ob Nm Ev : Type) (L : Cli.ev_lib Scr Th Pr PrT Ob Nm Ev) (a : Cli.ev_args),
  SrcCli.src_cli_evaluate_model Scr Th Pr PrT Ob Nm Ev L a
  = Cli.cli_evaluate_model L a.
Proof. exact C10SourceCli.src_cli_evaluate_model_is_model. Qed.
Print Assumptions C10_model_is_source_cli_evaluate_model.

Example C10_example_cli_chain_ids : Cli.chain_ids_of (fun n : Z => n) [2; 0; 3]%Z = [0; 0; 2; 2; 2]%Z.
Proof. vm_compute. reflexivity. Qed.

(* ---- what a sample IS: the dict methods of the two shipped sample classes, and Theta.equals ----
   Model/Thetas.v keeps a sample opaque: a pair (private, shared) of the two dicts its class exports; the ThetaHolder links
   above took `t.private_parameters_dict()` / `t.shared_parameters_dict()` / `C.from_dicts(...)` as PRIMITIVES (fst / snd / the pair).
   Here these methods themselves are re-translated from /repo on every run (harness/src_functions.py C10D_*, Generated/SrcThetaDicts.v)
   and linked to Model/ThetaDicts.v: a parameter dict is an insertion-ordered list (key, value) with string keys (a key = the list
   of its code points; `key "W"` is that list) and values of four kinds (PArr a float ndarray, PNum a float scalar, PInts / PNums
   the exported id / value columns); A (arrays) and F (floats) are abstract, every theorem holds for ALL of them.  Error tags:
   93 TypeError of cls( **d), 94 KeyError, 95 = a dict value of another kind than the class writes under that key (outside the
   model: Python does not check; no dict obtained from a sample reaches it). *)
From Batchie Require Lib.PyRt Model.ThetaDicts Generated.SrcThetaDicts Proofs.C10SourceDicts.
Import Lib.PyRt Model.ThetaDicts Generated.SrcThetaDicts.
From Coq Require String.
Import String.StringSyntax.
Local Open Scope string_scope.
Open Scope Z_scope.

(* SparseDrugComboMCMCSample.private_parameters_dict (`return self.__dict__`: the dataclass fields in declaration order - the
   translator reads the field list from the class body): W, W0, V2, V1, V0 as arrays, alpha, precision as scalars, each under its own name *)
Theorem C10_model_is_source_sc_private_parameters_dict : forall (A F : Type) (t : sc_sample A F),
  src_sc_private_parameters_dict A F t = Ok (sc_private t).
Proof. exact C10SourceDicts.src_sc_private_is_model. Qed.
Print Assumptions C10_model_is_source_sc_private_parameters_dict.

(* Theta.shared_parameters_dict, which SparseDrugComboMCMCSample inherits (checked: it defines none): the empty dict, for an object of any class *)
Theorem C10_model_is_source_theta_shared_parameters_dict : forall (A F T : Type) (t : T),
  src_theta_shared_parameters_dict A F T t = Ok (no_shared A F).
Proof. exact C10SourceDicts.src_theta_shared_is_model. Qed.
Print Assumptions C10_model_is_source_theta_shared_parameters_dict.

(* SparseDrugComboMCMCSample.from_dicts (`cls( **private_params)`): exactly the seven field names, in any order, each value of its
   field's kind; shared_params is not read *)
Theorem C10_model_is_source_sc_from_dicts : forall (A F : Type) (p s : pdict A F),
  src_sc_from_dicts A F p s = sc_from_dicts A F p s.
Proof. exact C10SourceDicts.src_sc_from_dicts_is_model. Qed.
Print Assumptions C10_model_is_source_sc_from_dicts.

Theorem C10_model_is_source_in_private_parameters_dict : forall (A F : Type) (t : in_sample A F),
  src_in_private_parameters_dict A F t = Ok (in_private t).
Proof. exact C10SourceDicts.src_in_private_is_model. Qed.
Print Assumptions C10_model_is_source_in_private_parameters_dict.

(* SparseDrugComboInteractionMCMCSample.shared_parameters_dict: the single-effect table exported as three parallel arrays - sample
   ids, treatment ids, values - rows in the dict's iteration order *)
Theorem C10_model_is_source_in_shared_parameters_dict : forall (A F : Type) (t : in_sample A F),
  src_in_shared_parameters_dict A F t = Ok (in_shared t).
Proof. exact C10SourceDicts.src_in_shared_is_model. Qed.
Print Assumptions C10_model_is_source_in_shared_parameters_dict.

(* ... and from_dicts: dict(zip(zip(keys1, keys2), vals)) and cls(single_effect_lookup=..., **private_params) *)
Theorem C10_model_is_source_in_from_dicts : forall (A F : Type) (p s : pdict A F),
  src_in_from_dicts A F p s = in_from_dicts A F p s.
Proof. exact C10SourceDicts.src_in_from_dicts_is_model. Qed.
Print Assumptions C10_model_is_source_in_from_dicts.

(* from_dicts(private_parameters_dict(t), shared_parameters_dict(t)) = t, through the TRANSLATED methods, for every sample *)
Theorem C10_source_sc_roundtrip : forall (A F : Type) (t : sc_sample A F),
  (dor p <- src_sc_private_parameters_dict A F t;
   dor s <- src_theta_shared_parameters_dict A F (sc_sample A F) t;
   src_sc_from_dicts A F p s) = Ok t.
Proof. exact C10SourceDicts.src_sc_roundtrip. Qed.
Print Assumptions C10_source_sc_roundtrip.

(* the interaction class: for every sample whose table has distinct keys - a fact about every Python dict *)
Theorem C10_source_in_roundtrip : forall (A F : Type) (t : in_sample A F),
  NoDup (map fst (in_lookup t)) ->
  (dor p <- src_in_private_parameters_dict A F t;
   dor s <- src_in_shared_parameters_dict A F t;
   src_in_from_dicts A F p s) = Ok t.
Proof. exact C10SourceDicts.src_in_roundtrip. Qed.
Print Assumptions C10_source_in_roundtrip.

(* the empty table: three empty columns out, the empty dict back *)
Theorem C10_source_in_roundtrip_empty_table : forall (A F : Type) (w v2 : A) (pr : F),
  let t := {| in_W := w; in_V2 := v2; in_precision := pr; in_lookup := [] |} in
  in_shared t = [(key "single_effect_lookup_keys1", PInts []); (key "single_effect_lookup_keys2", PInts []);
                 (key "single_effect_lookup_vals", PNums [])]
  /\ in_from_dicts A F (in_private t) (in_shared t) = Ok t.
Proof. exact C10SourceDicts.in_roundtrip_empty_table. Qed.
Print Assumptions C10_source_in_roundtrip_empty_table.

(* the file does not keep the order of a dict's entries (reading a group gives the attributes, then the datasets by name):
   from_dicts returns the sample from ANY dicts that are the same finite maps as its two dicts ... *)
Theorem C10_from_dicts_any_entry_order : forall (A F : Type),
  (forall (t : sc_sample A F) (p s : pdict A F), dict_equiv A F p (sc_private t) -> sc_from_dicts A F p s = Ok t) /\
  (forall (t : in_sample A F) (p s : pdict A F), NoDup (map fst (in_lookup t)) ->
     dict_equiv A F p (in_private t) -> dict_equiv A F s (in_shared t) -> in_from_dicts A F p s = Ok t).
Proof. intros A F. split; [exact (C10SourceDicts.sc_from_dicts_of_equiv A F) | exact (C10SourceDicts.in_from_dicts_of_equiv A F)]. Qed.
Print Assumptions C10_from_dicts_any_entry_order.

(* ... and only from those: whatever dict from_dicts accepts is (as a finite map) the private dict of the sample it returns *)
Theorem C10_sc_from_dicts_only_of_private : forall (A F : Type) (p s : pdict A F) (t : sc_sample A F),
  sc_from_dicts A F p s = Ok t -> dict_equiv A F p (sc_private t).
Proof. exact C10SourceDicts.sc_from_dicts_only_of_private. Qed.
Print Assumptions C10_sc_from_dicts_only_of_private.

(* consistency with the ThetaHolder links: with P = S = pdict and the representation sample_theta t = (private dict, shared dict),
   the meanings C10_SAVE / C10_LOAD gave to the three calls - fst t, snd t, the pair - are what the translated methods of the
   sample's class compute (src_private_of / src_shared_of / src_from_dicts_as dispatch on the class of t, Proofs/C10SourceDicts.v) *)
Theorem C10_source_save_primitives_are_translations : forall (A F : Type) (t : sample A F),
  C10SourceDicts.src_private_of A F t = Ok (fst (sample_theta A F t)) /\
  C10SourceDicts.src_shared_of A F t = Ok (snd (sample_theta A F t)).
Proof.
  intros A F t. split; [exact (C10SourceDicts.save_prim_private_is_source A F t) | exact (C10SourceDicts.save_prim_shared_is_source A F t)].
Qed.
Print Assumptions C10_source_save_primitives_are_translations.

Theorem C10_source_load_primitive_is_translation : forall (A F : Type) (t : sample A F),
  C10SourceDicts.table_ok A F t ->
  C10SourceDicts.src_from_dicts_as A F t (fst (sample_theta A F t)) (snd (sample_theta A F t)) = Ok t.
Proof. exact C10SourceDicts.load_prim_from_dicts_is_source. Qed.
Print Assumptions C10_source_load_primitive_is_translation.

(* end to end through translated code only: a non-empty collection within its declared size whose samples share their shared
   parameters, written by the translated save_h5, read back as a file, loaded by the translated load_h5, every loaded pair turned
   into a sample by the translated from_dicts of its class: the declared size and the samples, in order *)
Theorem C10_source_samples_persist : forall (A F : Type) (n : Z) (ts : list (sample A F)),
  ts <> [] -> Z.of_nat (length ts) <= n ->
  (forall t u, In t ts -> In u ts -> sample_shared A F t = sample_shared A F u) ->
  (forall t, In t ts -> C10SourceDicts.table_ok A F t) ->
  (dor w <- src_save_h5 (pdict A F) (pdict A F) (C10SourceDicts.holder_of A F n ts);
   dor f <- h5_close w;
   dor o <- src_load_h5 (pdict A F) (pdict A F) f;
   dor back <- res_map_all (fun tt' : sample A F * theta (pdict A F) (pdict A F) =>
                              C10SourceDicts.src_from_dicts_as A F (fst tt') (fst (snd tt')) (snd (snd tt')))
                           (combine ts (attr_thetas o));
   Ok (attr_n_thetas o, back))
  = Ok (n, ts).
Proof. exact C10SourceDicts.src_samples_persist. Qed.
Print Assumptions C10_source_samples_persist.

(* Theta.equals (the class test, the two pairs of dicts, the loops over d1.items() with `k not in d2` and the three comparison
   branches, the early returns), for ANY class of samples given by its class test and its two dict methods, any array / float
   comparison functions aeqb (np.array_equal) / feqb (==) *)
Theorem C10_model_is_source_theta_equals :
  forall (A F : Type) (aeqb : A -> A -> bool) (feqb : F -> F -> bool)
         (T : Type) (same : T -> T -> bool) (priv shar : T -> result (pdict A F)) (a b : T),
  src_theta_equals A F aeqb feqb T same priv shar a b = theta_equals A F aeqb feqb same priv shar a b.
Proof. exact C10SourceDicts.src_theta_equals_is_model. Qed.
Print Assumptions C10_model_is_source_theta_equals.

(* on the shipped samples, dispatching to the translated dict methods: the model equality - field by field, the tables row by row
   in iteration order, false across classes; never an exception *)
Theorem C10_source_equals_is_sample_eqb :
  forall (A F : Type) (aeqb : A -> A -> bool) (feqb : F -> F -> bool) (a b : sample A F),
  src_theta_equals A F aeqb feqb (sample A F) (same_class A F) (C10SourceDicts.src_private_of A F) (C10SourceDicts.src_shared_of A F) a b
  = Ok (sample_eqb A F aeqb feqb a b).
Proof. exact C10SourceDicts.src_equals_is_sample_eqb. Qed.
Print Assumptions C10_source_equals_is_sample_eqb.

(* equals is true exactly when the two samples are of one class and their dict representations agree entry by entry: same
   keys in the same order, arrays agreeing under aeqb, scalars and the value column under feqb, the id columns exactly *)
Theorem C10_source_equals_true_iff_dicts_agree :
  forall (A F : Type) (aeqb : A -> A -> bool) (feqb : F -> F -> bool) (a b : sample A F),
  src_theta_equals A F aeqb feqb (sample A F) (same_class A F) (C10SourceDicts.src_private_of A F) (C10SourceDicts.src_shared_of A F) a b
  = Ok true
  <-> same_class A F a b = true
      /\ pdict_agree A F aeqb feqb (sample_private A F a) (sample_private A F b)
      /\ pdict_agree A F aeqb feqb (sample_shared A F a) (sample_shared A F b).
Proof. exact C10SourceDicts.src_equals_true_iff_agree. Qed.
Print Assumptions C10_source_equals_true_iff_dicts_agree.

(* where == and np.array_equal decide equality of the values (NOT a fact about all inputs: it excludes NaN, which equals itself
   under neither, and takes -0.0 and 0.0 as one value): equals is true exactly when the two samples have the same dict
   representation *)
Theorem C10_source_equals_true_iff_same_representation :
  forall (A F : Type) (aeqb : A -> A -> bool) (feqb : F -> F -> bool),
  (forall x y, aeqb x y = true <-> x = y) -> (forall x y, feqb x y = true <-> x = y) ->
  forall a b : sample A F,
  src_theta_equals A F aeqb feqb (sample A F) (same_class A F) (C10SourceDicts.src_private_of A F) (C10SourceDicts.src_shared_of A F) a b
  = Ok true
  <-> sample_theta A F a = sample_theta A F b.
Proof. exact C10SourceDicts.src_equals_true_iff_same_representation. Qed.
Print Assumptions C10_source_equals_true_iff_same_representation.

(* non-vacuity: arrays and floats as integers *)
Definition ex_in (v : Z) (tb : table Z) : sample Z Z := SInter {| in_W := 1; in_V2 := 2; in_precision := v; in_lookup := tb |}.
Example C10_ex_shared_dict :
  sample_shared Z Z (ex_in 5 [((0, 3), 70); ((1, -1), 10)])
  = [(key "single_effect_lookup_keys1", PInts [0; 1]); (key "single_effect_lookup_keys2", PInts [3; -1]);
     (key "single_effect_lookup_vals", PNums [70; 10])].
Proof. vm_compute. reflexivity. Qed.
Example C10_ex_equals :
  let eq := src_theta_equals Z Z Z.eqb Z.eqb (sample Z Z) (same_class Z Z) (C10SourceDicts.src_private_of Z Z) (C10SourceDicts.src_shared_of Z Z) in
  eq (ex_in 5 [((0, 3), 70)]) (ex_in 5 [((0, 3), 70)]) = Ok true /\
  eq (ex_in 5 [((0, 3), 70)]) (ex_in 6 [((0, 3), 70)]) = Ok false /\
  eq (ex_in 5 [((0, 3), 70)]) (ex_in 5 [((0, 3), 71)]) = Ok false /\
  eq (ex_in 5 [((0, 3), 70); ((1, 3), 9)]) (ex_in 5 [((1, 3), 9); ((0, 3), 70)]) = Ok false /\
  eq (ex_in 5 []) (SCombo {| sc_W := 1; sc_W0 := 1; sc_V2 := 2; sc_V1 := 1; sc_V0 := 1; sc_alpha := 1; sc_precision := 5 |}) = Ok false.
Proof. vm_compute. repeat split; reflexivity. Qed.
Example C10_ex_from_dicts_refuses :
  sc_from_dicts Z Z [(key "W", PArr 1)] [] = Err 93 /\
  in_from_dicts Z Z [(key "W", PArr 1); (key "V2", PArr 2); (key "precision", PNum 3); (key "alpha", PNum 4)]
                    (sample_shared Z Z (ex_in 5 [])) = Err 93 /\
  in_from_dicts Z Z [(key "W", PArr 1); (key "V2", PArr 2); (key "precision", PNum 3)] [] = Err 94.
Proof. vm_compute. repeat split; reflexivity. Qed.

(* ---- the remaining small functions of core.py (Generated/SrcCoreSmall.v, Generated/SrcInits.v) ---- *)
From Batchie Require Generated.SrcCoreSmall Generated.SrcInits Proofs.C10Source_Iter Proofs.C10Source_EvaluateAll
  Proofs.C10Source_Init_BayesianModel Proofs.C10Source_Init_Metric.

(* ThetaHolder.__iter__ (a generator: the list it yields): the stored samples, in their order *)
Theorem C10_model_is_source_iter : forall (P S : Type) (self : pyobj P S),
  SrcCoreSmall.src_holder_iter P S self = Ok (attr_thetas self).
Proof. exact C10Source_Iter.src_holder_iter_is_thetas. Qed.
Print Assumptions C10_model_is_source_iter.

(* Metric.evaluate_all: iterating the holder runs the translated __iter__; the abstract method evaluate is ANY function that may
   raise: the values of the stored samples in their order, the first exception aborting (np.array of the list: the same values) *)
Theorem C10_model_is_source_evaluate_all : forall (P S V : Type) (ev : theta P S -> result V) (h : pyobj P S),
  SrcCoreSmall.src_metric_evaluate_all P S V ev h = res_map_all ev (attr_thetas h).
Proof. exact C10Source_EvaluateAll.src_metric_evaluate_all_is_map. Qed.
Print Assumptions C10_model_is_source_evaluate_all.

(* BayesianModel.__init__ / Metric.__init__ store their argument (the stored object is opaque) *)
Theorem C10_model_is_source_bayesian_model_init : forall (Sp : Type) (experiment_space : Sp),
  SrcInits.src_bayesian_model_init Sp experiment_space = Ok experiment_space.
Proof. exact C10Source_Init_BayesianModel.src_bayesian_model_init_stores. Qed.
Print Assumptions C10_model_is_source_bayesian_model_init.

Theorem C10_model_is_source_metric_init : forall (Mo : Type) (model : Mo), SrcInits.src_metric_init Mo model = Ok model.
Proof. exact C10Source_Init_Metric.src_metric_init_stores. Qed.
Print Assumptions C10_model_is_source_metric_init.

(* ---- SimulationTracker (core.py; Generated/SrcTracker.v; vocabulary Model/Tracker.v).  J = a JSON-native value; the object is the
   triple of its attributes, the JSON file is None (nothing written) or Some (the object it holds).  No code of src/batchie uses
   the class. ---- *)
From Batchie Require Model.Tracker Generated.SrcTracker Proofs.C10Source_Tracker.

Theorem C10_model_is_source_tracker_init : forall (J : Type) (o : Tracker.pytracker J) (a b c : J),
  SrcTracker.src_tracker_init J o a b c = Ok (a, b, c).
Proof. exact C10Source_Tracker.src_tracker_init_stores. Qed.
Print Assumptions C10_model_is_source_tracker_init.

(* save writes ONE JSON object: the three attributes under their names *)
Theorem C10_model_is_source_tracker_save : forall (J : Type) (t : Tracker.pytracker J),
  SrcTracker.src_tracker_save J t = Ok (Some (Tracker.tracker_dict t)).
Proof. exact C10Source_Tracker.src_tracker_save_writes_dict. Qed.
Print Assumptions C10_model_is_source_tracker_save.

(* load(save(t)) = t, whatever the fresh instance cls.__new__ makes *)
Theorem C10_model_is_source_tracker_save_load : forall (J : Type) (blank t : Tracker.pytracker J),
  (dor f <- SrcTracker.src_tracker_save J t; SrcTracker.src_tracker_load J blank f) = Ok t.
Proof. exact C10Source_Tracker.src_tracker_save_load. Qed.
Print Assumptions C10_model_is_source_tracker_save_load.

(* load binds by name (any key order); it refuses an empty file (95) and an object whose keys are not exactly the three parameters
   (TypeError of cls( **data ), 93) *)
Theorem C10_model_is_source_tracker_load_any_order : forall (J : Type) (blank : Tracker.pytracker J) (a b c : J),
  SrcTracker.src_tracker_load J blank
    (Some [(Tracker.tkey_of "seed", c); (Tracker.tkey_of "plate_ids_selected", a); (Tracker.tkey_of "losses", b)]) = Ok (a, b, c).
Proof. exact C10Source_Tracker.src_tracker_load_any_order. Qed.
Print Assumptions C10_model_is_source_tracker_load_any_order.

Theorem C10_model_is_source_tracker_load_refuses : forall (J : Type) (blank : Tracker.pytracker J) (x : J),
  SrcTracker.src_tracker_load J blank None = Err 95 /\
  SrcTracker.src_tracker_load J blank (Some [(Tracker.tkey_of "seed", x); (Tracker.tkey_of "extra", x)]) = Err 93 /\
  SrcTracker.src_tracker_load J blank (Some [(Tracker.tkey_of "seed", x); (Tracker.tkey_of "losses", x)]) = Err 93.
Proof. exact C10Source_Tracker.src_tracker_load_refuses. Qed.
Print Assumptions C10_model_is_source_tracker_load_refuses.

(* ---- the two models of evaluate_model.main are one ----
   C10_evaluate_labels / _complete / _partial_refused above speak of the hand model Thetas.evaluate;
   C10_model_is_source_cli_evaluate_model links the translated main() to Cli.cli_evaluate_model for an ABSTRACT library record.
   Here the record is instantiated with the Thetas model (Proofs/C10CliInstance.v thetas_ev_lib: load = any function of the path,
   concat = concat_holders, n_thetas = the declared size, predict_viability_all = one column per get_theta(k), k in
   range(n_thetas), .T = identity on the column list, ModelEvaluation = its length check pairing chain ids with columns), so the
   chain-major theorems are theorems about the TRANSLATED main(). *)
From Batchie Require Import Model.Cli Generated.SrcCli Proofs.C10CliInstance.

Theorem C10_source_cli_evaluate_is_thetas_evaluate : forall (P S : Type) (loadf : Cli.path -> result (holder P S)) (a : Cli.ev_args),
  SrcCli.src_cli_evaluate_model _ _ _ _ _ _ _ (thetas_ev_lib P S loadf) a
  = dor hs <- res_map_all loadf (Cli.ev_thetas a); dor l <- evaluate P S hs; Ok [(Cli.ev_output a, l)].
Proof. exact src_cli_evaluate_is_thetas_evaluate. Qed.
Print Assumptions C10_source_cli_evaluate_is_thetas_evaluate.

(* the files named by --thetas being what save_h5 wrote for the chains hs, read by load_h5 in argument order: for complete
   non-empty chains the translated main() writes exactly one evaluation whose columns are all of the first chain in step order,
   then the second, ..., each labelled with the position of its chain on the command line *)
Theorem C10_source_cli_evaluate_complete : forall (P S : Type) (loadf : Cli.path -> result (holder P S)) (a : Cli.ev_args) (hs : list (holder P S)),
  res_map_all loadf (Cli.ev_thetas a) = res_map_all (save_load P S) hs ->
  hs <> [] ->
  (forall h, In h hs -> Z.of_nat (length (h_thetas h)) = h_declared h /\ h_thetas h <> [] /\
                        forall t u, In t (h_thetas h) -> In u (h_thetas h) -> snd t = snd u) ->
  SrcCli.src_cli_evaluate_model _ _ _ _ _ _ _ (thetas_ev_lib P S loadf) a
  = Ok [(Cli.ev_output a, concat (map (fun ih => map (pair (Z.of_nat (fst ih))) (h_thetas (snd ih))) (enumerate hs)))].
Proof. exact src_cli_evaluate_complete. Qed.
Print Assumptions C10_source_cli_evaluate_complete.

(* not vacuous: two chain files given in the order (second, first) *)
Example C10_source_cli_evaluate_example :
  let h1 : holder Z unit := {| h_declared := 2; h_thetas := [(10, tt); (11, tt)] |} in
  let h2 : holder Z unit := {| h_declared := 1; h_thetas := [(20, tt)] |} in
  let loadf := fun p : Cli.path => match p with [1] => Ok h1 | [2] => Ok h2 | _ => Err 30 end in
  SrcCli.src_cli_evaluate_model _ _ _ _ _ _ _ (thetas_ev_lib Z unit loadf) (Cli.mk_ev_args [] [[2]; [1]] [7])
  = Ok [([7], [(0, (20, tt)); (1, (10, tt)); (1, (11, tt))])].
Proof. vm_compute. reflexivity. Qed.
