(* C19 — The orchestration script resumes correctly after an interruption at any point.
   Statements only; every proof is `exact <lemma from Proofs/>`.

   Vocabulary (Model/Orchestrate.v):
     script_run md fixed bs n f sched   run the script from tree f along a crash schedule: one entry
                                        per call of run_next_* (how many events happen before the
                                        crash, and the adversary's publication order); the operator
                                        removes a directory exactly when the script names it
     fixed                              false = examine as it is in /repo today; true = with the one-line
                                        repair (an iteration directory without plate directories is skipped)
     completed f                        the steps whose directory holds the marker, in (iteration, plate)
                                        order, each with its files AND the command that produced them
     ideal md bs n k                    the first k steps of the execution that is never interrupted
     entry_ok e                         the order names every file kind and names the marker last

   The property as written (no hypothesis on the order, fixed = false) is FALSE of the faithful model:
   see the two `_refuted` theorems at the end; both witnesses are replayed on the real script by
   harness/c19.py.  It is proved below under exactly the two hypotheses that exclude them. *)
From Coq Require Import ZArith List Bool.
From Batchie Require Import Model.Orchestrate Proofs.C19Base Proofs.C19Canon Proofs.C19Step Proofs.C19Main.
Import ListNotations.

(* For EVERY crash schedule (any number of crashes, at any event of any call), batch size, number of
   plates and mode: the completed steps - with their launch inputs and their recorded selections -
   are exactly the first k steps of the uninterrupted execution. *)
Theorem C19_resume_correct : forall md (bs n : nat) fixed,
  (1 <= bs)%nat -> (1 <= n)%nat -> fixed = true \/ bs = 1%nat ->
  forall sched, Forall (fun e => entry_ok e = true) sched ->
  let f := fst (script_run md fixed (Z.of_nat bs) n [] sched) in
  completed f = ideal md bs n (length (completed f)) /\
  (md = Retro -> (length (completed f) <= n)%nat).
Proof. exact resume_correct. Qed.
Print Assumptions C19_resume_correct.

Theorem C19_resume_correct_retro_prefix_of_crash_free : forall (bs n : nat) fixed sched,
  (1 <= bs)%nat -> (1 <= n)%nat -> fixed = true \/ bs = 1%nat ->
  Forall (fun e => entry_ok e = true) sched ->
  let f := fst (script_run Retro fixed (Z.of_nat bs) n [] sched) in
  completed f = firstn (length (completed f)) (crash_free Retro bs n).
Proof. exact resume_correct_retro. Qed.
Print Assumptions C19_resume_correct_retro_prefix_of_crash_free.

(* One more call (or operator action) from ANY tree reachable by a crash schedule: the completed steps
   stay as they are (same files, same command) and at most the next one is added; if a command is
   launched it is the uninterrupted run's command for the first step that is not complete - never a
   completed step (nothing is executed twice), never a later index (nothing is skipped), with the
   uninterrupted run's inputs; a directory the operator is told to remove is never a completed one;
   the script never fails in a way that does not name a directory. *)
Theorem C19_step_safe : forall md (bs n : nat) fixed,
  (1 <= bs)%nat -> (1 <= n)%nat -> fixed = true \/ bs = 1%nat ->
  forall sched e, Forall (fun e => entry_ok e = true) sched -> entry_ok e = true ->
  let f := fst (script_run md fixed (Z.of_nat bs) n [] sched) in
  let r := attempt md fixed (Z.of_nat bs) n f e in
  exists c,
    completed f = ideal md bs n c /\
    (completed (fst r) = ideal md bs n c \/ completed (fst r) = ideal md bs n (S c)) /\
    match snd r with
    | GLaunch s l _ _ => s = step_of bs c /\ l = ideal_launch md bs c /\ ~ In s (map fst (completed f))
    | GNamed _ s => ~ In s (map fst (completed f))
    | GFail _ => False
    | _ => True
    end.
Proof. exact step_safe. Qed.
Print Assumptions C19_step_safe.

(* the invariant behind both: completed steps form a lexicographic prefix with the ideal contents; at
   most one incomplete directory, at the next index (or an empty next iteration directory) *)
Theorem C19_invariant : forall md (bs n : nat) fixed,
  (1 <= bs)%nat -> (1 <= n)%nat -> fixed = true \/ bs = 1%nat ->
  forall sched, Forall (fun e => entry_ok e = true) sched ->
  exists c x, fst (script_run md fixed (Z.of_nat bs) n [] sched) = canon md bs n c x
              /\ okx c x /\ (md = Retro -> (c <= n)%nat).
Proof. exact invariant. Qed.
Print Assumptions C19_invariant.

(* the closed form `crash_free` IS the run without interruption (prospective: one invocation = one batch) *)
Theorem C19_uninterrupted_is_crash_free : forall md (bs n : nat) fixed e,
  (1 <= bs)%nat -> (1 <= n)%nat -> fixed = true \/ bs = 1%nat ->
  entry_ok e = true -> (4 + length (e_order e) <= e_k e)%nat -> (md = Prosp -> (bs <= n)%nat) ->
  completed (fst (script_run md fixed (Z.of_nat bs) n []
                    (repeat e (match md with Retro => n | Prosp => bs end))))
  = crash_free md bs n.
Proof. exact uninterrupted_is_crash_free. Qed.
Print Assumptions C19_uninterrupted_is_crash_free.

(* in the uninterrupted retrospective run every step after the first starts from the advanced screen
   of its immediate predecessor; indices advance lexicographically without gaps *)
Theorem C19_inputs_from_predecessor : forall (bs c : nat),
  match ideal_launch Retro bs (S c) with
  | LFirst sp _ => sp = SFile (step_of bs c) KAdvanced
  | LNext sp _ _ => sp = SFile (step_of bs c) KAdvanced
  | _ => False
  end.
Proof. exact inputs_from_predecessor. Qed.
Print Assumptions C19_inputs_from_predecessor.

Theorem C19_step_of_successor : forall (bs n c : nat), (1 <= bs)%nat ->
  step_of bs (S c) = (if (snd (step_of bs c) >=? Z.of_nat bs - 1)%Z
                      then ((fst (step_of bs c) + 1)%Z, 0%Z)
                      else (fst (step_of bs c), (snd (step_of bs c) + 1)%Z)).
Proof. exact step_of_successor. Qed.
Print Assumptions C19_step_of_successor.

(* ---- the unrestricted statement is false of the faithful model ---- *)

(* (i) examine as it is today (fixed = false), batch size 2, 4 plates, marker last everywhere: a crash
   between the two makedirs levels leaves iter_1 empty; the 4th call launches step (0,1), which was
   complete after the 3rd, and it is not complete afterwards. *)
Theorem C19_resume_refuted_empty_iter :
  exists sched k s l ps ok,
    Forall (fun e => entry_ok e = true) sched /\
    In s (map fst (completed (fst (script_run Retro false 2 4 [] (firstn k sched))))) /\
    nth k (snd (script_run Retro false 2 4 [] sched)) GDone = GLaunch s l ps ok /\
    ~ In s (map fst (completed (fst (script_run Retro false 2 4 [] sched)))).
Proof. exact resume_refuted_empty_iter. Qed.
Print Assumptions C19_resume_refuted_empty_iter.

(* (ii) even with the repair: prospective mode, an order that respects data dependence but publishes
   the metadata (computed from the INPUT screen) first, pipeline crash after one file: step (0,0) is
   taken as complete without a selection. *)
Theorem C19_resume_refuted_marker_early :
  exists sched,
    Forall (fun e => covers (e_order e) = true /\ dep_ok (LProsp SInput) (e_order e) = true) sched /\
    let f := fst (script_run Prosp true 1 3 [] sched) in
    completed f <> ideal Prosp 1 3 (length (completed f)) /\
    exists d, In ((0, 0)%Z, d) (completed f) /\ f_selected d = None.
Proof. exact resume_refuted_marker_early. Qed.
Print Assumptions C19_resume_refuted_marker_early.

(* ---- non-vacuity ---- *)
Example C19_full_entry_ok : entry_ok full = true.
Proof. vm_compute. reflexivity. Qed.

(* a schedule with five crashes (before rmtree, between the makedirs levels, before the launch, twice
   inside the pipeline) satisfies the hypotheses, and the repaired script finishes with crash_free *)
Example C19_five_crashes :
  let sched := [full; mke 2 all_kinds; mke 0 all_kinds; mke 6 all_kinds; full; full; mke 3 all_kinds; full; full;
                mke 5 [KTest; KTraining; KThetas; KDist; KSelected; KAdvanced; KMeta]; full; full; full; full] in
  forallb entry_ok sched = true /\
  completed (fst (script_run Retro true 2 4 [] sched)) = crash_free Retro 2 4.
Proof. vm_compute. split; reflexivity. Qed.

(* the repaired examine on the witness of (i): nothing is re-run *)
Example C19_repaired_on_witness :
  completed (fst (script_run Retro true 2 4 [] (witness_empty_iter ++ [full; full]))) = crash_free Retro 2 4.
Proof. vm_compute. reflexivity. Qed.

(* the unrepaired examine is fine for batch size 1 (covered by the hypothesis `fixed = true \/ bs = 1`) *)
Example C19_unrepaired_bs1 :
  completed (fst (script_run Retro false 1 3 [] [full; mke 2 all_kinds; full; mke 2 all_kinds; full; full]))
  = crash_free Retro 1 3.
Proof. vm_compute. reflexivity. Qed.
