(* C19 — The orchestration script resumes correctly after an interruption at any point.
   Statements only; every proof is `exact <lemma from Proofs/>`.

   Vocabulary (Model/Orchestrate.v):
     script_run md fixed bs n f sched   run the script from tree f along a crash schedule: one entry
                                        per call of run_next_* (how many events happen before the
                                        crash, and the adversary's publication order); the operator
                                        removes a directory exactly when the script names it
     fixed                              false = examine without, true = with the one-line repair (an iteration
                                        directory without plate directories is skipped); which one /repo's script is
                                        is PROVED from its translation: C19_model_is_source_examine_determines_fixed
     completed f                        the steps whose directory holds the marker, in (iteration, plate)
                                        order, each with its files AND the command that produced them
     ideal md bs n k                    the first k steps of the execution that is never interrupted
     entry_ok e                         the order names every file kind and names the marker last

     invocation md fixed bs n f sched   ONE invocation of the script = the while-loop of main(): calls of
                                        run_next_* are repeated while the previous one returned True
                                        (call_returns: retrospective True after a launch / False when the
                                        last completed step's metadata says no plates remain; prospective
                                        current_plate_idx < batch_size - 1); r_end says how it ended
     op_screen md bs f                  index of the screen file the operator passes as --screen to an
                                        invocation started on tree f (prospective: one new file per batch)
     script_session md fixed bs n f s   script_run cut into invocations; every record keeps i_screen, the
                                        operator screen that invocation was given (SInput in its launches)
     launches_of recs                   every launch of a session as (step, operator screen, command)
     ideal_stamped md bs c              the c-th launch of the never-interrupted execution: step (c/bs, c mod bs),
                                        operator screen c/bs (prospective) resp. 0, command ideal_launch md bs c
     launch_key g                       Some (step, command, pipeline exit status = 0) of a launch, None otherwise

   The property as written (no hypothesis on the order, fixed = false) is FALSE of the faithful model:
   see the two `_refuted` theorems at the end; both witnesses are replayed on the real script by
   harness/c19.py.  It is proved below under exactly the two hypotheses that exclude them. *)
From Coq Require Import ZArith List Bool.
From Batchie Require Import Model.Orchestrate Proofs.C19Base Proofs.C19Canon Proofs.C19Step Proofs.C19Main
  Proofs.C19Invocation Proofs.C19InvocationThm Generated.SrcOrchestrate Proofs.C19Source
  Generated.SrcOrchMain Proofs.C19SourceMain Generated.SrcOrchCmd Proofs.C19SourceCmd
  Generated.SrcOrchInit Proofs.C19Source_ValidateInitial
  Generated.SrcOrchArgs Proofs.C19Source_GetArgs Proofs.C19Source_GetArgsMain
  Generated.SrcOrchPaths Proofs.C19Source_Paths Generated.SrcOrchCmdClosed Proofs.C19Source_CmdClosed
  Proofs.C19Progress Proofs.C19Torn Proofs.C19TornResume Proofs.C19Async
  Model.NfFiles Generated.SrcNfOutputs Proofs.C19Nf.
From Batchie Require Model.Cli Generated.SrcParser_select_next_plate.
Import ListNotations.

(* For EVERY crash schedule (any number of crashes, at any event of any call), batch size, number of
   plates and mode: the completed steps - with their launch inputs and their recorded selections -
   are exactly the first k steps of the uninterrupted execution. *)
Theorem C19_resume_correct : forall md (bs n : nat) fixed,
  (1 <= bs)%nat -> (1 <= n)%nat -> fixed = true \/ bs = 1%nat ->
  forall sched, Forall (fun e => entry_ok e = true) sched ->
  let f := fst (script_run md fixed (Z.of_nat bs) n [] sched) in
  completed f = ideal md bs n (length (completed f)) /\
  (md = Retro -> (length (completed f) <= n)%nat).
Proof. exact resume_correct. Qed.
Print Assumptions C19_resume_correct.

Theorem C19_resume_correct_retro_prefix_of_crash_free : forall (bs n : nat) fixed sched,
  (1 <= bs)%nat -> (1 <= n)%nat -> fixed = true \/ bs = 1%nat ->
  Forall (fun e => entry_ok e = true) sched ->
  let f := fst (script_run Retro fixed (Z.of_nat bs) n [] sched) in
  completed f = firstn (length (completed f)) (crash_free Retro bs n).
Proof. exact resume_correct_retro. Qed.
Print Assumptions C19_resume_correct_retro_prefix_of_crash_free.

(* One more call (or operator action) from ANY tree reachable by a crash schedule: the completed steps
   stay as they are (same files, same command) and at most the next one is added; if a command is
   launched it is the uninterrupted run's command for the first step that is not complete - never a
   completed step (nothing is executed twice), never a later index (nothing is skipped), with the
   uninterrupted run's inputs; a directory the operator is told to remove is never a completed one;
   the script never fails in a way that does not name a directory. *)
Theorem C19_step_safe : forall md (bs n : nat) fixed,
  (1 <= bs)%nat -> (1 <= n)%nat -> fixed = true \/ bs = 1%nat ->
  forall sched e, Forall (fun e => entry_ok e = true) sched -> entry_ok e = true ->
  let f := fst (script_run md fixed (Z.of_nat bs) n [] sched) in
  let r := attempt md fixed (Z.of_nat bs) n f e in
  exists c,
    completed f = ideal md bs n c /\
    (completed (fst r) = ideal md bs n c \/ completed (fst r) = ideal md bs n (S c)) /\
    match snd r with
    | GLaunch s l _ _ => s = step_of bs c /\ l = ideal_launch md bs c /\ ~ In s (map fst (completed f))
    | GNamed _ s => ~ In s (map fst (completed f))
    | GFail _ => False
    | _ => True
    end.
Proof. exact step_safe. Qed.
Print Assumptions C19_step_safe.

(* the invariant behind both: completed steps form a lexicographic prefix with the ideal contents; at
   most one incomplete directory, at the next index (or an empty next iteration directory) *)
Theorem C19_invariant : forall md (bs n : nat) fixed,
  (1 <= bs)%nat -> (1 <= n)%nat -> fixed = true \/ bs = 1%nat ->
  forall sched, Forall (fun e => entry_ok e = true) sched ->
  exists c x, fst (script_run md fixed (Z.of_nat bs) n [] sched) = canon md bs n c x
              /\ okx c x /\ (md = Retro -> (c <= n)%nat).
Proof. exact invariant. Qed.
Print Assumptions C19_invariant.

(* the closed form `crash_free` IS the run without interruption (prospective: one invocation = one batch) *)
Theorem C19_uninterrupted_is_crash_free : forall md (bs n : nat) fixed e,
  (1 <= bs)%nat -> (1 <= n)%nat -> fixed = true \/ bs = 1%nat ->
  entry_ok e = true -> (4 + length (e_order e) <= e_k e)%nat -> (md = Prosp -> (bs <= n)%nat) ->
  completed (fst (script_run md fixed (Z.of_nat bs) n []
                    (repeat e (match md with Retro => n | Prosp => bs end))))
  = crash_free md bs n.
Proof. exact uninterrupted_is_crash_free. Qed.
Print Assumptions C19_uninterrupted_is_crash_free.

(* in the uninterrupted retrospective run every step after the first starts from the advanced screen
   of its immediate predecessor; indices advance lexicographically without gaps *)
Theorem C19_inputs_from_predecessor : forall (bs c : nat),
  match ideal_launch Retro bs (S c) with
  | LFirst sp _ => sp = SFile (step_of bs c) KAdvanced
  | LNext sp _ _ => sp = SFile (step_of bs c) KAdvanced
  | _ => False
  end.
Proof. exact inputs_from_predecessor. Qed.
Print Assumptions C19_inputs_from_predecessor.

Theorem C19_step_of_successor : forall (bs n c : nat), (1 <= bs)%nat ->
  step_of bs (S c) = (if (snd (step_of bs c) >=? Z.of_nat bs - 1)%Z
                      then ((fst (step_of bs c) + 1)%Z, 0%Z)
                      else (fst (step_of bs c), (snd (step_of bs c) + 1)%Z)).
Proof. exact step_of_successor. Qed.
Print Assumptions C19_step_of_successor.

(* ---- the invocation boundary: when main() stops, and which operator screen each launch reads ---- *)

(* a session is the script_run of the same schedule cut where main() returns or dies: the theorems above
   speak about sessions (same final tree, same calls in the same order) *)
Theorem C19_session_is_script_run : forall md fixed bs n f sched,
  fst (script_session md fixed bs n f sched) = fst (script_run md fixed bs n f sched) /\
  concat (map i_calls (snd (script_session md fixed bs n f sched))) = snd (script_run md fixed bs n f sched).
Proof. exact session_is_script_run. Qed.
Print Assumptions C19_session_is_script_run.

(* For EVERY crash schedule: each launch ever made - step s, by an invocation that was given operator screen
   r, command l - is a launch of the never-interrupted execution: s = step c, l = its command, and r = the
   screen the never-interrupted execution runs step c with (prospective: step (i, j) always reads screen i).
   Prospective: all launches of one invocation belong to the iteration whose screen the operator supplied,
   i.e. the iteration that was current when the invocation started - an invocation never crosses a batch
   boundary. *)
Theorem C19_invocation_never_crosses_batch : forall (bs n : nat) fixed,
  (1 <= bs)%nat -> (1 <= n)%nat -> fixed = true \/ bs = 1%nat ->
  forall md sched, Forall (fun e => entry_ok e = true) sched ->
  let recs := snd (script_session md fixed (Z.of_nat bs) n [] sched) in
  (forall s r l, In (s, r, l) (launches_of recs) -> exists c, (s, r, l) = ideal_stamped md bs c) /\
  (md = Prosp ->
   Forall (fun rc => forall s l ps ok, In (GLaunch s l ps ok) (i_calls rc) -> fst s = i_screen rc) recs).
Proof. exact invocation_stays_in_batch. Qed.
Print Assumptions C19_invocation_never_crosses_batch.

(* on every reachable tree the operator's screen index is the iteration the script is about to work on
   (or the iteration of the directory it asks the operator to remove) *)
Theorem C19_operator_screen_is_current_iteration : forall (bs n : nat) fixed,
  (1 <= bs)%nat -> (1 <= n)%nat -> fixed = true \/ bs = 1%nat ->
  forall md sched, Forall (fun e => entry_ok e = true) sched ->
  let f := fst (script_run md fixed (Z.of_nat bs) n [] sched) in
  match examine fixed (Z.of_nat bs) f with
  | XOk (i, _, _, _) => op_screen Prosp (Z.of_nat bs) f = i
  | XNamed _ s => op_screen Prosp (Z.of_nat bs) f = fst s
  end.
Proof. exact operator_screen_is_current_iteration. Qed.
Print Assumptions C19_operator_screen_is_current_iteration.

(* the never-interrupted prospective execution of q batches: q invocations; invocation k is given screen k,
   makes exactly bs calls and returns; its launches are ideal_stamped 0 .. q*bs-1 *)
Theorem C19_uninterrupted_prospective_session : forall (bs n : nat) fixed,
  (1 <= bs)%nat -> (1 <= n)%nat -> fixed = true \/ bs = 1%nat ->
  forall e q, entry_ok e = true -> (4 + length (e_order e) <= e_k e)%nat -> (bs <= n)%nat ->
  let sr := script_session Prosp fixed (Z.of_nat bs) n [] (repeat e (q * bs)) in
  completed (fst sr) = ideal Prosp bs n (q * bs)
  /\ launches_of (snd sr) = map (ideal_stamped Prosp bs) (seq 0 (q * bs))
  /\ map i_screen (snd sr) = map Z.of_nat (seq 0 q)
  /\ Forall (fun rc => length (i_calls rc) = bs /\ i_end rc = IReturned) (snd sr).
Proof. exact uninterrupted_session_prosp. Qed.
Print Assumptions C19_uninterrupted_prospective_session.

(* prospective: from ANY reachable tree with c completed steps on which the script does not ask for a
   directory to be removed, an invocation that is not interrupted performs exactly bs - c mod bs calls -
   bs from a batch boundary, bs - j after an interruption at plate j - all successful launches of the steps
   c .. up to the end of the current batch, then returns; the remaining schedule is untouched *)
Theorem C19_invocation_finishes_batch_and_stops : forall (bs n : nat) fixed,
  (1 <= bs)%nat -> (1 <= n)%nat -> fixed = true \/ bs = 1%nat ->
  forall sched0 e rest, Forall (fun e => entry_ok e = true) sched0 ->
  entry_ok e = true -> (4 + length (e_order e) <= e_k e)%nat -> (bs <= n)%nat ->
  let f := fst (script_run Prosp fixed (Z.of_nat bs) n [] sched0) in
  let c := length (completed f) in
  let m := (bs - c mod bs)%nat in
  (forall w s, plan_of Prosp fixed (Z.of_nat bs) f <> PNamed w s) ->
  let r := invocation Prosp fixed (Z.of_nat bs) n f (repeat e m ++ rest) in
  r_end r = IReturned /\ r_rest r = rest
  /\ map launch_key (r_calls r) = map (ideal_key Prosp bs) (seq c m)
  /\ completed (r_fs r) = ideal Prosp bs n (c + m).
Proof. exact invocation_finishes_batch. Qed.
Print Assumptions C19_invocation_finishes_batch_and_stops.

(* retrospective, ANY tree: a call returns False exactly when the metadata of the last completed step, as
   examine reads it back, says that no unobserved plates remain *)
Theorem C19_retro_call_returns_false_iff_no_plates_remain : forall fixed bs n f e,
  call_returns Retro bs (snd (attempt Retro fixed bs n f e)) = Some false <->
  exists i j m scr, examine fixed bs f = XOk (i, j, Some m, scr) /\ (m <= 0)%Z.
Proof. exact retro_returns_false_iff. Qed.
Print Assumptions C19_retro_call_returns_false_iff_no_plates_remain.

(* retrospective, reachable trees: an invocation that returns has completed all n steps of the never-interrupted
   run (never before), every call before the returning one was a successful launch; and once all n steps are
   complete every invocation is a single call that returns and changes nothing *)
Theorem C19_retro_invocation_stops_iff_finished : forall (bs n : nat) fixed,
  (1 <= bs)%nat -> (1 <= n)%nat -> fixed = true \/ bs = 1%nat ->
  forall sched0 sched, Forall (fun e => entry_ok e = true) sched0 -> Forall (fun e => entry_ok e = true) sched ->
  let f := fst (script_run Retro fixed (Z.of_nat bs) n [] sched0) in
  let r := invocation Retro fixed (Z.of_nat bs) n f sched in
  (r_end r = IReturned ->
     completed (r_fs r) = crash_free Retro bs n /\
     exists pre, r_calls r = pre ++ [GDone] /\ Forall (fun g => exists s l ps, g = GLaunch s l ps true) pre) /\
  (completed f = crash_free Retro bs n -> sched <> [] ->
     r_calls r = [GDone] /\ r_end r = IReturned /\ r_fs r = f).
Proof. exact retro_invocation_stops. Qed.
Print Assumptions C19_retro_invocation_stops_iff_finished.

(* the never-interrupted retrospective invocation: n successful launches, then one call that returns False *)
Theorem C19_uninterrupted_retrospective_invocation : forall (bs n : nat) fixed,
  (1 <= bs)%nat -> (1 <= n)%nat -> fixed = true \/ bs = 1%nat ->
  forall e e' rest, entry_ok e = true -> (4 + length (e_order e) <= e_k e)%nat ->
  let r := invocation Retro fixed (Z.of_nat bs) n [] (repeat e n ++ e' :: rest) in
  completed (r_fs r) = crash_free Retro bs n /\ r_end r = IReturned /\ r_rest r = rest
  /\ map launch_key (r_calls r) = map (ideal_key Retro bs) (seq 0 n) ++ [None].
Proof. exact uninterrupted_invocation_retro. Qed.
Print Assumptions C19_uninterrupted_retrospective_invocation.

(* ---- the unrestricted statement is false of the faithful model ---- *)

(* (i) examine as it is today (fixed = false), batch size 2, 4 plates, marker last everywhere: a crash
   between the two makedirs levels leaves iter_1 empty; the 4th call launches step (0,1), which was
   complete after the 3rd, and it is not complete afterwards. *)
Theorem C19_resume_refuted_empty_iter :
  exists sched k s l ps ok,
    Forall (fun e => entry_ok e = true) sched /\
    In s (map fst (completed (fst (script_run Retro false 2 4 [] (firstn k sched))))) /\
    nth k (snd (script_run Retro false 2 4 [] sched)) GDone = GLaunch s l ps ok /\
    ~ In s (map fst (completed (fst (script_run Retro false 2 4 [] sched)))).
Proof. exact resume_refuted_empty_iter. Qed.
Print Assumptions C19_resume_refuted_empty_iter.

(* (ii) even with the repair: prospective mode, an order that respects data dependence but publishes
   the metadata (computed from the INPUT screen) first, pipeline crash after one file: step (0,0) is
   taken as complete without a selection. *)
Theorem C19_resume_refuted_marker_early :
  exists sched,
    Forall (fun e => covers (e_order e) = true /\ dep_ok (LProsp SInput) (e_order e) = true) sched /\
    let f := fst (script_run Prosp true 1 3 [] sched) in
    completed f <> ideal Prosp 1 3 (length (completed f)) /\
    exists d, In ((0, 0)%Z, d) (completed f) /\ f_selected d = None.
Proof. exact resume_refuted_marker_early. Qed.
Print Assumptions C19_resume_refuted_marker_early.

(* ---- non-vacuity ---- *)
Example C19_full_entry_ok : entry_ok full = true.
Proof. vm_compute. reflexivity. Qed.

(* a schedule with five crashes (before rmtree, between the makedirs levels, before the launch, twice
   inside the pipeline) satisfies the hypotheses, and the repaired script finishes with crash_free *)
Example C19_five_crashes :
  let sched := [full; mke 2 all_kinds; mke 0 all_kinds; mke 6 all_kinds; full; full; mke 3 all_kinds; full; full;
                mke 5 [KTest; KTraining; KThetas; KDist; KSelected; KAdvanced; KMeta]; full; full; full; full] in
  forallb entry_ok sched = true /\
  completed (fst (script_run Retro true 2 4 [] sched)) = crash_free Retro 2 4.
Proof. vm_compute. split; reflexivity. Qed.

(* the repaired examine on the witness of (i): nothing is re-run *)
Example C19_repaired_on_witness :
  completed (fst (script_run Retro true 2 4 [] (witness_empty_iter ++ [full; full]))) = crash_free Retro 2 4.
Proof. vm_compute. reflexivity. Qed.

(* the unrepaired examine is fine for batch size 1 (covered by the hypothesis `fixed = true \/ bs = 1`) *)
Example C19_unrepaired_bs1 :
  completed (fst (script_run Retro false 1 3 [] [full; mke 2 all_kinds; full; mke 2 all_kinds; full; full]))
  = crash_free Retro 1 3.
Proof. vm_compute. reflexivity. Qed.

(* ---- non-vacuity, invocation level ---- *)
(* prospective, batch size 3, 4 plates.  Invocation 0 (screen 0) completes (0,0) and is interrupted inside the
   pipeline run of (0,1); invocation 1 (screen 0) is told to remove iter_0/plate_1; invocation 2 (screen 0)
   runs exactly the 2 remaining steps (0,1), (0,2) and returns; invocation 3 is given screen 1 and runs (1,0),
   (1,1) until the schedule ends. *)
Example C19_session_after_crash_mid_batch :
  let recs := snd (script_session Prosp true 3 4 [] [full; mke 5 all_kinds; full; full; full; full; full]) in
  map i_screen recs = [0; 0; 0; 1]%Z /\
  map (fun rc => length (i_calls rc)) recs = [2; 1; 2; 2]%nat /\
  map i_end recs = [IRaised; IRaised; IReturned; IExhausted] /\
  map (fun t => (fst (fst t), snd (fst t))) (launches_of recs)
  = [((0, 0), 0); ((0, 1), 0); ((0, 1), 0); ((0, 2), 0); ((1, 0), 1); ((1, 1), 1)]%Z.
Proof. vm_compute. repeat split; reflexivity. Qed.

(* the hypothesis of C19_invocation_finishes_batch_and_stops is satisfiable in the middle of a batch, and the
   conclusion is what the model computes: after a crash before the launch of plate 1 (and the operator's
   removal of the directory) the rerun makes 3 - 1 = 2 calls *)
Example C19_rerun_mid_batch_two_calls :
  let f := fst (script_run Prosp true 3 4 [] [full; mke 3 all_kinds; full]) in
  length (completed f) = 1%nat /\ plan_of Prosp true 3 f <> PNamed 1 (0, 1)%Z /\
  let r := invocation Prosp true 3 4 f [full; full; full; full] in
  length (r_calls r) = 2%nat /\ r_end r = IReturned /\ length (r_rest r) = 2%nat.
Proof. vm_compute. repeat split; try reflexivity. discriminate. Qed.

(* retrospective, batch size 2, 3 plates: one invocation makes 3 launches and a 4th call that returns *)
Example C19_retro_invocation_returns :
  let r := invocation Retro true 2 3 [] [full; full; full; full; full] in
  map (call_returns Retro 2) (r_calls r) = [Some true; Some true; Some true; Some false] /\
  r_end r = IReturned /\ length (r_rest r) = 1%nat.
Proof. vm_compute. repeat split; reflexivity. Qed.

(* ---- source-translation links: the model IS the script ----
   src_* (Generated/SrcOrchestrate.v) are whole functions of /repo's nextflow/scripts/batchie.py, re-translated into Gallina
   by harness/py2gal.py on every run (configurations C19_* in harness/src_functions.py).  A path the script holds is the
   model value it denotes (the output directory = the tree with the set of job directories whose marker file is unreadable,
   a globbed iteration directory = (index, its plate directories), a globbed plate directory = ((i, j), its files), the job
   directory validate_job_dir_and_return_meta is given = the marker files its glob matches); exceptions live in Orchestrate.sres (SNamed = a RuntimeError naming a
   job directory, as XNamed).  Trusted: the translator and the primitives listed in harness/c19.py EXPLANATION. *)

(* examine_output_dir_to_determine_current_iteration, the whole function: the two filtered and numerically sorted globs,
   the loop over iteration directories with its `continue` on one without plate directories, `current_plate_idx = 0`,
   the enumerate loop with the two raises and the directory they name, the three Optionals, the leaked loop variable
   plate_dir that get_screen_from_job_output is applied to, the next-step arithmetic and both returns - run on a WORLD
   tf = (tree, set of job directories whose screen_metadata.json exists but cannot be read), where the translated
   validate_job_dir_and_return_meta is handed the marker files its glob finds there (marker_dir_of: a torn one, the whole one
   the tree records, none) - equal to the model's examine_t with BOTH repairs (tfix = true: an unreadable marker is a missing
   marker; fixed = true), for EVERY tree, torn set and batch size.  up_meta: the metadata the translation hands on is the
   loaded document (a dict with the key n_unobserved_plates) of the entry the model hands on; the answer is never TRaised
   (C19_torn_repaired_never_raises) *)
Theorem C19_model_is_source_examine_on_torn_worlds : forall (tf : tfs) (bs : Z),
  src_examine tf bs = sres_of_tres (tres_map up_meta (examine_t true true bs tf)).
Proof. exact src_examine_is_model_t. Qed.
Print Assumptions C19_model_is_source_examine_on_torn_worlds.

(* without torn markers: the model's examine with fixed = true *)
Theorem C19_model_is_source_examine : forall (f : fs) (bs : Z),
  src_examine (f, []) bs = sres_of_xres (xres_map up_meta (examine true bs f)).
Proof. exact src_examine_is_model. Qed.
Print Assumptions C19_model_is_source_examine.

(* the translation determines the model parameters: the source is the examine with both repairs and no other *)
Theorem C19_model_is_source_examine_determines_fixed : forall fixed,
  (forall f bs, src_examine (f, []) bs = sres_of_xres (xres_map up_meta (examine fixed bs f))) <-> fixed = true.
Proof. exact src_examine_determines_fixed. Qed.
Print Assumptions C19_model_is_source_examine_determines_fixed.

Theorem C19_model_is_source_examine_determines_repairs : forall tfix fixed,
  (forall tf bs, src_examine tf bs = sres_of_tres (tres_map up_meta (examine_t tfix fixed bs tf))) <-> tfix = true /\ fixed = true.
Proof. exact src_examine_determines_repairs. Qed.
Print Assumptions C19_model_is_source_examine_determines_repairs.

(* ... and differs from the unrepaired ones: on the tree of C19_resume_refuted_empty_iter's witness, and on the world the
   witness of C19_resume_refuted_torn_marker leaves behind (where the script before the repair raised out of examine) *)
Theorem C19_model_is_source_examine_not_unrepaired :
  src_examine (tree_empty_iter, []) 2 <> sres_of_xres (xres_map up_meta (examine false 2 tree_empty_iter)).
Proof. exact src_examine_not_unrepaired. Qed.
Print Assumptions C19_model_is_source_examine_not_unrepaired.

Theorem C19_model_is_source_examine_not_raising_on_torn_marker :
  src_examine world_torn_marker 1 <> sres_of_tres (tres_map up_meta (examine_t false true 1 world_torn_marker)) /\
  src_examine world_torn_marker 1 = SNamed 1 (1, 0)%Z.
Proof. split; [exact src_examine_not_raising_on_torn|vm_compute; reflexivity]. Qed.
Print Assumptions C19_model_is_source_examine_not_raising_on_torn_marker.

(* run_next_retrospective_step, the whole function, called with the operator's screen (SInput): it returns
   (return value, the file-system actions in program order ending in the launch) or raises - SNamed as examine did, or
   SRaised done why after the actions `done` - exactly as the model's plan says (result_of_plan reads a plan as such a
   result: PDone = `return False` before anything is touched; a plan ending in a launch = `return True` after it; a plan
   ending in AFail why = that exception after the three directory actions).  The translated function calls the translated
   examine; everything it reads from the output directory it reads from the tree as it is at that moment
   (tree_after f done), in particular the test screen and the thetas are looked for AFTER the job directory has been
   cleared and re-created.  Stated here on a world without torn markers (f, []); the general statement follows. *)
Theorem C19_model_is_source_run_next_retrospective_step : forall (f : fs) (extra : eargs) (bs : Z),
  src_run_next_retrospective_step (f, []) SInput extra bs = result_of_plan Retro bs (plan_of Retro true bs f).
Proof. exact src_run_next_retro_is_model. Qed.
Print Assumptions C19_model_is_source_run_next_retrospective_step.

(* run_next_prospective_step, the whole function: the same, its return value is current_plate_idx < batch_size - 1 *)
Theorem C19_model_is_source_run_next_prospective_step : forall (f : fs) (extra : eargs) (bs : Z),
  src_run_next_prospective_step (f, []) SInput extra bs = result_of_plan Prosp bs (plan_of Prosp true bs f).
Proof. exact src_run_next_prosp_is_model. Qed.
Print Assumptions C19_model_is_source_run_next_prospective_step.

(* both on a world with torn markers (the two theorems above are the case of the empty torn set): step_result_t - the translated
   examine decides whether a directory is named, a torn marker's like a missing marker's; if none is named the call is the
   model's plan on the tree component, exactly how attempt_t is built.  meta["n_unobserved_plates"] (KeyError / TypeError in
   jget_nup) never raises: the metadata examine hands on is a dict with that key *)
Theorem C19_model_is_source_run_next_steps_on_torn_worlds : forall md (tf : tfs) (extra : eargs) (bs : Z),
  src_run_next md tf extra bs = step_result_t true md true bs tf.
Proof. exact src_run_next_is_model_t. Qed.
Print Assumptions C19_model_is_source_run_next_steps_on_torn_worlds.

(* the value handed back to main(): whenever the model's call_returns says that a call returned b (it was not interrupted,
   the script did not raise, the pipeline's exit status was 0), b is what the translated function returns *)
Theorem C19_model_is_source_call_returns : forall md bs n f e extra b,
  call_returns md bs (snd (attempt md true bs n f e)) = Some b ->
  exists acts, src_run_next md (f, []) extra bs = SOk (b, acts).
Proof. exact call_returns_is_source. Qed.
Print Assumptions C19_model_is_source_call_returns.

Theorem C19_model_is_source_call_returns_on_torn_worlds : forall md bs n tf te extra b,
  call_returns md bs (snd (attempt_t true md true bs n tf te)) = Some b ->
  exists acts, src_run_next md tf extra bs = SOk (b, acts).
Proof. exact call_returns_is_source_t. Qed.
Print Assumptions C19_model_is_source_call_returns_on_torn_worlds.

(* non-vacuity: on the tree of the refutation witness (batch size 2, steps (0,0), (0,1) complete, iter_1 empty) the translated
   retrospective step clears and re-creates iter_1/plate_0 and launches it from the advanced screen of (0,1) *)
Example C19_source_step_on_witness :
  src_run_next_retrospective_step (tree_empty_iter, []) SInput [] 2
  = SOk (true, [ARmTree (1, 0); AMkIter 1; AMkPlate (1, 0);
                ALaunch (1, 0) (LFirst (SFile (0, 1) KAdvanced) (SFile (0, 0) KTraining))])%Z.
Proof. vm_compute. reflexivity. Qed.

(* ---- the helper functions examine and run_next_* call are the translated ones (src_examine / src_run_next_* above call
   src_get_screen_from_job_output etc., not a primitive); each equals the model definition the theorems above use.  A glob
   for one file name under a job directory is a model primitive (at most one match: the <name> level is abstracted); the
   tests for "no match", the preference of advanced_screen.h5 over training.screen.h5, the [0], the None returns, the
   loop over the selected_plate files and the ValueError come from the translation. *)
Theorem C19_model_is_source_get_screen_from_job_output : forall p : plate_path,
  src_get_screen_from_job_output p = SOk (screen_of (Some p)).
Proof. exact src_get_screen_is_model. Qed.
Print Assumptions C19_model_is_source_get_screen_from_job_output.

(* validate_job_dir_and_return_meta since the repair, for EVERY list of marker files its glob may match, whatever they hold (a
   file is the JSON document in it, or None when json.load raises ValueError): None without a match; else the first match
   decides - the document if it is a dict with the key n_unobserved_plates, None if the file is unreadable, if the document
   is no dict, if the key is missing.  The try / except ValueError, the isinstance / `in` test with its short-circuit `or` (the
   key test is an exception of the model on anything but a dict: never reached) and the returns come from the translation; in a world (tree, torn set) that is: None for a torn marker, else the metadata the tree records *)
Theorem C19_model_is_source_validate_job_dir_and_return_meta : forall d : marker_dir,
  src_validate_job_dir_and_return_meta d
  = SOk (match d with Some (JDict (Some m)) :: _ => Some (JDict (Some m)) | _ => None end).
Proof. exact src_validate_is_model. Qed.
Print Assumptions C19_model_is_source_validate_job_dir_and_return_meta.

Theorem C19_model_is_source_validate_job_dir_in_world : forall torn (p : plate_path),
  src_validate_job_dir_and_return_meta (marker_dir_of torn p)
  = SOk (if is_torn torn (fst p) then None else option_map whole_meta (f_meta (snd p))).
Proof. exact src_validate_in_world. Qed.
Print Assumptions C19_model_is_source_validate_job_dir_in_world.

Example C19_source_validate_examples :
  src_validate_job_dir_and_return_meta [] = SOk None /\
  src_validate_job_dir_and_return_meta [None] = SOk None /\                              (* torn: json.load raises *)
  src_validate_job_dir_and_return_meta [Some JOther] = SOk None /\                       (* a JSON list, number, null *)
  src_validate_job_dir_and_return_meta [Some (JDict None)] = SOk None /\                 (* a dict without the key *)
  src_validate_job_dir_and_return_meta [Some (JDict (Some 3%Z)); None] = SOk (Some (JDict (Some 3%Z))).
Proof. repeat split; reflexivity. Qed.

(* it globs for training.screen.h5 (as the model's LFirst command says) *)
Theorem C19_model_is_source_get_test_screen_from_job_output : forall (f : fs) (s : step),
  src_get_test_screen_from_job_output (f, s) = SOk (if has_training f s then Some (SFile s KTraining) else None).
Proof. exact src_get_test_screen_is_model. Qed.
Print Assumptions C19_model_is_source_get_test_screen_from_job_output.

Theorem C19_model_is_source_get_theta_and_dist_chunks : forall (done : list action) (f : fs) (s : step),
  src_get_theta_and_dist_chunks done (f, s) = if has_thetas_dist f s then SOk s else SRaised done 2.
Proof. exact src_get_thetas_is_model. Qed.
Print Assumptions C19_model_is_source_get_theta_and_dist_chunks.

(* None when no selection is recorded: the command then has no --excludes (next_cmd) *)
Theorem C19_model_is_source_get_selected_plates : forall (f : fs) (i : Z),
  src_get_selected_plates (f, i) = SOk (match selected_plates f i with [] => None | l => Some l end).
Proof. exact src_get_selected_is_model. Qed.
Print Assumptions C19_model_is_source_get_selected_plates.

(* ---- main(): the mode dispatch and the while-loop, translated (Generated/SrcOrchMain.v, configuration C19_MAIN) ----
   src_main n fuel argv extra w is main() run in the world w = (output directory, crash schedule that is left, calls so far):
   `args, remaining_args = get_args()` yields (argv, extra); args.mode selects which TRANSLATED function the variable run_next
   holds (src_run_next_retrospective_step / src_run_next_prospective_step); the while-loop (recursion on `fuel`, Orchestrate.mwhile)
   calls it in the world (world_call: the function runs on the tree as it is now, the next schedule entry decides how far it
   gets, exactly the rule of `attempt`; the value it hands back is the one the translated function returns) and leaves the loop
   when `not should_run_again`.  mres_of_ires reads the model's invocation record as main()'s outcome: MOk world when the last
   call returned False (IReturned), MEnd IRaised world when a call did not return (an exception propagates out of main()),
   MEnd IExhausted world when the observation ends. *)

(* for sufficient fuel - at least the number of times the loop body is started - main() IS the model's invocation, for EVERY
   tree, schedule, batch size, operator arguments: same final tree, same remaining schedule, same calls, same end *)
Theorem C19_model_is_source_main : forall md n fuel argv extra f sched calls0,
  a_mode argv = modename_of md ->
  (iterations (invocation md true (a_batch_size argv) n f sched) <= fuel)%nat ->
  src_main n fuel argv extra (mkw f sched calls0)
  = mres_of_ires calls0 (invocation md true (a_batch_size argv) n f sched).
Proof. exact src_main_is_invocation. Qed.
Print Assumptions C19_model_is_source_main.

(* a --mode argparse's `choices` would not admit: ValueError before any call, the world is untouched *)
Theorem C19_model_is_source_main_unknown_mode : forall n fuel argv extra w z,
  a_mode argv = NOther z -> src_main n fuel argv extra w = MEnd IRaised w.
Proof. exact src_main_unknown_mode. Qed.
Print Assumptions C19_model_is_source_main_unknown_mode.

(* the observation window bounds the loop: more fuel than schedule entries is always sufficient *)
Theorem C19_model_is_source_main_observation_window : forall md n fuel argv extra f sched calls0,
  a_mode argv = modename_of md -> (length sched < fuel)%nat ->
  src_main n fuel argv extra (mkw f sched calls0)
  = mres_of_ires calls0 (invocation md true (a_batch_size argv) n f sched).
Proof. exact src_main_is_invocation_window. Qed.
Print Assumptions C19_model_is_source_main_observation_window.

(* NO fuel hypothesis on reachable trees: from any tree a crash schedule leads to, for ANY further schedule (however long),
   fuel = call_bound (retrospective: steps not yet completed + 1 <= n + 1; prospective: what is left of the current batch
   <= batch size) suffices - the model bounds the number of calls main() makes *)
Theorem C19_model_is_source_main_fuel_discharged : forall (bs n : nat), (1 <= bs)%nat -> (1 <= n)%nat ->
  forall md sched0 sched argv extra calls0 fuel,
  Forall (fun e => entry_ok e = true) sched0 -> Forall (fun e => entry_ok e = true) sched ->
  a_mode argv = modename_of md -> a_batch_size argv = Z.of_nat bs ->
  let f := fst (script_run md true (Z.of_nat bs) n [] sched0) in
  (match md with Retro => S (n - length (completed f)) | Prosp => bs - length (completed f) mod bs end <= fuel)%nat ->
  src_main n fuel argv extra (mkw f sched calls0)
  = mres_of_ires calls0 (invocation md true (Z.of_nat bs) n f sched).
Proof. exact src_main_fuel_discharged. Qed.
Print Assumptions C19_model_is_source_main_fuel_discharged.

(* C19_invocation_finishes_batch_and_stops, said of the translated main() with fuel = the batch size: it returns normally
   after exactly bs - c mod bs calls, the successful launches of the steps c .. to the end of the current batch, and leaves the
   rest of the schedule untouched *)
Theorem C19_model_is_source_main_finishes_batch_and_stops : forall (bs n : nat), (1 <= bs)%nat -> (1 <= n)%nat ->
  forall sched0 e rest argv extra fuel,
  Forall (fun e => entry_ok e = true) sched0 -> entry_ok e = true -> (4 + length (e_order e) <= e_k e)%nat -> (bs <= n)%nat ->
  a_mode argv = NProspective -> a_batch_size argv = Z.of_nat bs -> (bs <= fuel)%nat ->
  let f := fst (script_run Prosp true (Z.of_nat bs) n [] sched0) in
  let c := length (completed f) in
  let m := (bs - c mod bs)%nat in
  (forall w s, plan_of Prosp true (Z.of_nat bs) f <> PNamed w s) ->
  exists w', src_main n fuel argv extra (mkw f (repeat e m ++ rest) []) = MOk w'
    /\ w_sched w' = rest
    /\ map launch_key (w_calls w') = map (ideal_key Prosp bs) (seq c m)
    /\ completed (w_fs w') = ideal Prosp bs n (c + m).
Proof. exact src_main_finishes_batch. Qed.
Print Assumptions C19_model_is_source_main_finishes_batch_and_stops.

(* C19_retro_invocation_stops_iff_finished, said of the translated main() with fuel = n + 1, for ANY schedule: a main() that
   returns normally has completed all n steps and every call before the returning one was a successful launch; once all n steps
   are complete main() makes one call, changes nothing and returns *)
Theorem C19_model_is_source_main_retro_stops_iff_finished : forall (bs n : nat), (1 <= bs)%nat -> (1 <= n)%nat ->
  forall sched0 sched argv extra fuel,
  Forall (fun e => entry_ok e = true) sched0 -> Forall (fun e => entry_ok e = true) sched ->
  a_mode argv = NRetrospective -> a_batch_size argv = Z.of_nat bs -> (S n <= fuel)%nat ->
  let f := fst (script_run Retro true (Z.of_nat bs) n [] sched0) in
  (forall w', src_main n fuel argv extra (mkw f sched []) = MOk w' ->
     completed (w_fs w') = crash_free Retro bs n /\
     exists pre, w_calls w' = pre ++ [GDone] /\ Forall (fun g => exists s l ps, g = GLaunch s l ps true) pre) /\
  (completed f = crash_free Retro bs n -> sched <> [] ->
     exists w', src_main n fuel argv extra (mkw f sched []) = MOk w' /\ w_fs w' = f /\ w_calls w' = [GDone]).
Proof. exact src_main_retro_stops. Qed.
Print Assumptions C19_model_is_source_main_retro_stops_iff_finished.

(* what world_call (the one primitive of main()'s configuration that is not a name) says of a call, in the model's terms: the
   model's attempt on the current tree, and the value call_returns says it hands back *)
Theorem C19_model_is_source_main_call_is_attempt : forall md n f sched calls0 extra bs,
  world_call n (src_stepfn md) (mkw f sched calls0) OutDir SInput extra bs
  = match sched with
    | [] => MEnd IExhausted (mkw f [] calls0)
    | e :: rest =>
        let a := attempt md true bs n f e in
        let w1 := mkw (fst a) rest (calls0 ++ [snd a]) in
        match call_returns md bs (snd a) with Some v => MOk (v, w1) | None => MEnd IRaised w1 end
    end.
Proof. exact world_call_is_attempt. Qed.
Print Assumptions C19_model_is_source_main_call_is_attempt.

(* non-vacuity: the translated main(), retrospective, batch size 2, 3 plates, never interrupted, fuel 4: three launches and a
   fourth call that returns False; main() returns with one schedule entry left (cf. C19_retro_invocation_returns) *)
Example C19_source_main_retro_returns :
  match src_main 3 4 (mka NRetrospective 2) [] (mkw [] [full; full; full; full; full] []) with
  | MOk w => map (call_returns Retro 2) (w_calls w) = [Some true; Some true; Some true; Some false]
             /\ length (w_sched w) = 1%nat /\ completed (w_fs w) = crash_free Retro 2 3
  | _ => False
  end.
Proof. vm_compute. repeat split; reflexivity. Qed.

(* ... prospective, batch size 3, after a crash before the launch of plate 1 and the operator's removal of the directory: the
   translated main() with fuel 3 makes 3 - 1 = 2 calls and returns (cf. C19_rerun_mid_batch_two_calls); with fuel 1 the
   fuel runs out, which is no Python behaviour *)
Example C19_source_main_rerun_mid_batch :
  let f := fst (script_run Prosp true 3 4 [] [full; mke 3 all_kinds; full]) in
  (match src_main 4 3 (mka NProspective 3) [] (mkw f [full; full; full; full] []) with
   | MOk w => length (w_calls w) = 2%nat /\ length (w_sched w) = 2%nat
   | _ => False
   end) /\
  src_main 4 1 (mka NProspective 3) [] (mkw f [full; full; full; full] []) = MNoFuel.
Proof. vm_compute. repeat split; reflexivity. Qed.

(* ---- the four run_* command builders, translated (Generated/SrcOrchCmd.v, configurations C19_RUN_INITIAL etc.) ----
   The translated run_next_* functions above CALL these translations (src_run_initial_plate ...), not a launch primitive.  A
   command line is the list of its words (string literals as their code points, get_main_nf_file(), screen paths, the job
   directory, ...); `+ extra_args`, the optional `--excludes=` word, the logged ' '.join (TypeError on a None item) and
   subprocess.check_call come from the translation.  check_call's meaning reads the words the way main.nf and the three
   workflows do (Orchestrate.launch_of_words: --mode selects the workflow, --initialize true/otherwise selects --screen vs
   --training_screen / --test_screen, --outdir is where the step's files are published, --thetas / --distance_matrix /
   --excludes feed NEXT_BATCH_PLATE).  launch_cmd done s (Some l) = the actions done so far followed by ALaunch s l;
   launch_cmd done s None = TypeError (why 9) after `done`. *)

(* `nextflow run main.nf --mode retrospective --screen S --name N --outdir D --initialize true -work-dir D/work` + extra words
   is the launch LInit S for the job directory D *)
Theorem C19_model_is_source_run_initial_plate : forall acts o scr nm extra,
  src_run_initial_plate acts o scr nm extra = launch_cmd acts o (option_map LInit scr).
Proof. exact src_run_initial_plate_is_model. Qed.
Print Assumptions C19_model_is_source_run_initial_plate.

(* --training_screen gets the training screen, --test_screen the test screen, --initialize false: LFirst training test *)
Theorem C19_model_is_source_run_first_batch_plate : forall acts o tr te nm extra,
  src_run_first_batch_plate acts o tr te nm extra = launch_cmd acts o (first_cmd tr te).
Proof. exact src_run_first_batch_plate_is_model. Qed.
Print Assumptions C19_model_is_source_run_first_batch_plate.

Theorem C19_model_is_source_run_first_prospective_batch_plate : forall acts o scr nm extra,
  src_run_first_prospective_batch_plate acts o scr nm extra = launch_cmd acts o (option_map LProsp scr).
Proof. exact src_run_first_prospective_batch_plate_is_model. Qed.
Print Assumptions C19_model_is_source_run_first_prospective_batch_plate.

(* --mode next_plate --reveal true --screen S --thetas <t>/*/thetas*.h5 --distance_matrix <t>/*/distance_matrix_chunk*.h5
   ... [--excludes=ids]: LNext S t ids (no --excludes word when excludes is None).  Both glob patterns are those of ONE
   directory t: at the two call sites they are the two entries of the dict get_theta_and_dist_chunks(t) returned *)
Theorem C19_model_is_source_run_subsequent_batch_plate : forall acts o scr t nm extra excl,
  src_run_subsequent_batch_plate acts o scr (TGlob t) (DGlob t) nm extra excl = launch_cmd acts o (next_cmd scr t excl).
Proof. exact src_run_subsequent_batch_plate_is_model. Qed.
Print Assumptions C19_model_is_source_run_subsequent_batch_plate.

(* non-vacuity: a concrete command line; and what check_call's meaning is sensitive to - thetas and distance chunks of two
   different directories are no launch of the model *)
Example C19_source_run_subsequent_example :
  src_run_subsequent_batch_plate [AMkIter 1] (1, 2) (Some SInput) (TGlob (1, 0)) (DGlob (1, 0)) tt [7; 8] (Some [3; 4])
  = SOk [AMkIter 1; ALaunch (1, 2) (LNext SInput (1, 0) [3; 4])]
  /\ src_run_subsequent_batch_plate [] (1, 2) (Some SInput) (TGlob (1, 0)) (DGlob (0, 0)) tt [] None = SRaised [] 8
  /\ src_run_subsequent_batch_plate [] (1, 2) None (TGlob (1, 0)) (DGlob (1, 0)) tt [] None = SRaised [] 9.
Proof. vm_compute. repeat split; reflexivity. Qed.

(* ---- dir_sort_key, translated: `int(os.path.basename(x).split("_")[1])` over path NAMES (list of components, each a string).
   examine's configuration gives `dir_sort_key(x)` and `sorted(l, key=dir_sort_key)` the meaning iter_index / plate_index on
   the model value of the path; these theorems tie that primitive to the source: on the name "<out>/iter_<i>" (resp.
   "<out>/iter_<i>/plate_<j>", <i> the decimal numeral of a natural number) the translated function returns that index *)
Theorem C19_model_is_source_dir_sort_key : forall (dir : fspath) (pre : str) (i : nat),
  Forall (fun c => c <> 95%Z) pre -> src_dir_sort_key (dir ++ [numbered pre i]) = SOk (Z.of_nat i).
Proof. exact src_dir_sort_key_numbered. Qed.
Print Assumptions C19_model_is_source_dir_sort_key.

Theorem C19_model_is_source_dir_sort_key_iter_index : forall (out : fspath) (d : iter_path),
  (0 <= fst d)%Z -> src_dir_sort_key (iter_pathname out d) = SOk (iter_index d).
Proof. exact src_dir_sort_key_is_iter_index. Qed.
Print Assumptions C19_model_is_source_dir_sort_key_iter_index.

Theorem C19_model_is_source_dir_sort_key_plate_index : forall (out : fspath) (p : plate_path),
  (0 <= snd (fst p))%Z -> src_dir_sort_key (plate_pathname out p) = SOk (plate_index p).
Proof. exact src_dir_sort_key_is_plate_index. Qed.
Print Assumptions C19_model_is_source_dir_sort_key_plate_index.

(* non-vacuity: "out/iter_12" has key 12 (numeric, two digits); a name without "_" is an IndexError, "iter_x" a ValueError *)
Example C19_source_dir_sort_key_examples :
  src_dir_sort_key [[111; 117; 116]; [105; 116; 101; 114; 95; 49; 50]]%Z = SOk 12%Z
  /\ src_dir_sort_key [[105; 116; 101; 114]]%Z = SRaised [] 98%Z
  /\ src_dir_sort_key [[105; 116; 101; 114; 95; 120]]%Z = SRaised [] 7%Z
  /\ iter_pathname [[111; 117; 116]]%Z (12%Z, []) = [[111; 117; 116]; [105; 116; 101; 114; 95; 49; 50]]%Z.
Proof. vm_compute. repeat split; reflexivity. Qed.

(* ---- validate_initial_output_dir_and_get_result_files_as_dict, the whole function (Generated/SrcOrchInit.v, configuration
   C19_VALIDATE_INITIAL; proofs: Proofs/C19Source_ValidateInitial.v).  It is handed the job directory of the initial step; the
   three globs are model primitives as for the other helpers, everything else - `len(training) == 0 or len(metadata) == 0`,
   the three [0] reads in their order, the `with open ... json.load`, which value sits under which key of the dict - comes from
   the translation.  The model value: None when training.screen.h5 or screen_metadata.json is missing; an IndexError
   (SRaised [] 98) when those two are there and test.screen.h5 is not; otherwise the record of the three. *)
Theorem C19_model_is_source_validate_initial_output_dir : forall p : plate_path,
  src_validate_initial p = validate_initial p.
Proof. exact src_validate_initial_is_model. Qed.
Print Assumptions C19_model_is_source_validate_initial_output_dir.

(* which files must exist: the translated function returns the dict EXACTLY when test.screen.h5, training.screen.h5 and
   screen_metadata.json (Orchestrate.initial_required) are all in the directory, and the dict names that directory's own two
   screens and carries the metadata stored there *)
Theorem C19_model_is_source_validate_initial_accepts_iff : forall (p : plate_path) (r : initial_files),
  src_validate_initial p = SOk (Some r) <->
  forallb (produced (snd p)) [KTest; KTraining; KMeta] = true /\ if_test r = SFile (fst p) KTest
  /\ if_training r = SFile (fst p) KTraining /\ f_meta (snd p) = Some (if_meta r).
Proof. exact src_validate_initial_accepts_iff. Qed.
Print Assumptions C19_model_is_source_validate_initial_accepts_iff.

(* what it raises: nothing but the IndexError of `test_screen_glob[0]`, exactly when only the test screen is missing, before
   anything is touched; a missing training screen or metadata file is the None return; it never names a directory *)
Theorem C19_model_is_source_validate_initial_raises_iff : forall (p : plate_path) done why,
  src_validate_initial p = SRaised done why <->
  produced (snd p) KTraining && produced (snd p) KMeta = true /\ produced (snd p) KTest = false /\ done = [] /\ why = 98%Z.
Proof. exact src_validate_initial_raises_iff. Qed.
Print Assumptions C19_model_is_source_validate_initial_raises_iff.

Theorem C19_model_is_source_validate_initial_none_iff : forall p : plate_path,
  src_validate_initial p = SOk None <-> produced (snd p) KTraining && produced (snd p) KMeta = false.
Proof. exact src_validate_initial_none_iff. Qed.
Print Assumptions C19_model_is_source_validate_initial_none_iff.

Theorem C19_model_is_source_validate_initial_never_names : forall (p : plate_path) w s,
  src_validate_initial p <> SNamed w s.
Proof. exact src_validate_initial_never_names. Qed.
Print Assumptions C19_model_is_source_validate_initial_never_names.

(* the model's notion of a complete initial step: a run of the initial workflow that the model counts as complete
   (complete_run: every file `expected` of LInit published - the three required ones are among them) leaves a directory the
   translated function accepts ... *)
Theorem C19_model_is_source_validate_initial_complete_run : forall md sc (p : plate_path),
  complete_run md (LInit sc) (snd p) = true ->
  exists m, f_meta (snd p) = Some m /\
            src_validate_initial p = SOk (Some (mkif (SFile (fst p) KTest) (SFile (fst p) KTraining) m)).
Proof. exact src_validate_initial_complete_run. Qed.
Print Assumptions C19_model_is_source_validate_initial_complete_run.

(* ... and on EVERY tree the retrospective script reaches (any crash schedule, marker last, repaired examine or batch size 1)
   a job directory iter_0/plate_0 that carries the completion marker is accepted: the dict names its test and training screen
   and says n - 1 plates are unobserved - never None, never the IndexError *)
Theorem C19_model_is_source_validate_initial_on_reachable_trees : forall (bs n : nat) fixed,
  (1 <= bs)%nat -> (1 <= n)%nat -> fixed = true \/ bs = 1%nat ->
  forall sched, Forall (fun e => entry_ok e = true) sched ->
  let f := fst (script_run Retro fixed (Z.of_nat bs) n [] sched) in
  forall p : plate_path, In p (completed f) -> fst p = (0, 0)%Z ->
  src_validate_initial p = SOk (Some (mkif (SFile (0, 0)%Z KTest) (SFile (0, 0)%Z KTraining) (Z.of_nat n - 1)%Z)).
Proof. exact src_validate_initial_on_reachable_trees. Qed.
Print Assumptions C19_model_is_source_validate_initial_on_reachable_trees.

(* each required file missing in turn, the others present *)
Example C19_source_validate_initial_each_missing :
  let d tr te me := (((0, 0)%Z, mkp tr te true true (Some 0%Z) (Some [1; 2]%Z) me None) : plate_path) in
  src_validate_initial (d (Some [0; 1; 2]%Z) true (Some 2%Z))
    = SOk (Some (mkif (SFile (0, 0)%Z KTest) (SFile (0, 0)%Z KTraining) 2%Z)) /\
  src_validate_initial (d None true (Some 2%Z)) = SOk None /\
  src_validate_initial (d (Some [0; 1; 2]%Z) true None) = SOk None /\
  src_validate_initial (d (Some [0; 1; 2]%Z) false (Some 2%Z)) = SRaised [] 98%Z /\
  src_validate_initial (d None false None) = SOk None.
Proof. vm_compute. repeat split; reflexivity. Qed.

(* ---- get_args(), the whole function (Generated/SrcOrchArgs.v, configuration C19_GET_ARGS; proofs: Proofs/C19Source_GetArgs.v and,
   for the composition with main(), Proofs/C19Source_GetArgsMain.v).  The parser object is its option table: each
   parser.add_argument(...) call appends the entry its own arguments denote (option string, type= / choices=, required=, default=);
   parser.parse_known_args() is the model of argparse, Orchestrate.parse_known_args, applied to the table BUILT BY THE TRANSLATION
   and the command line.  Strings are lists of code points.  why = 64: an argparse error (usage message, exit status 2);
   why = 90: a spelling of argparse the model does not represent (--opt=value, abbreviations, -h, negative numbers, ...; not a
   Python behaviour). *)

(* the table the four add_argument calls build is Orchestrate.orch_options - --screen str required, --batch-size int default 1,
   --mode choices [retrospective; prospective] required, --outdir str required - and get_args is argparse on it, for EVERY
   command line *)
Theorem C19_model_is_source_get_args : forall cmdline : list str,
  src_get_args cmdline = parse_known_args orch_options cmdline.
Proof. exact src_get_args_is_model. Qed.
Print Assumptions C19_model_is_source_get_args.

(* the tie to main(): every args.<x> the translated main() reads - args.mode and args.batch_size (fields of C19_MAIN),
   args.outdir and args.screen (under os.path.abspath) - is an attribute of EVERY namespace the translated get_args returns, with
   the type the model of main() assumes: mode is one of the two names main() dispatches on, batch_size an int (1 when
   --batch-size is not on the command line), outdir and screen strings; and the namespace has exactly the attributes argparse
   derives from the four option strings *)
Theorem C19_model_is_source_get_args_gives_main_args : forall cmdline ns extra,
  src_get_args cmdline = SOk (ns, extra) ->
  exists (md : mode) (b : Z) (scr out : str),
    margs_of_ns ns = Some (mka (modename_of md) b)
    /\ ns_get D_screen ns = Some (VStr scr) /\ ns_get D_outdir ns = Some (VStr out)
    /\ map fst ns = map o_dest orch_options
    /\ (~ In L_batch_size cmdline -> b = 1%Z).
Proof. exact src_get_args_gives_main_args. Qed.
Print Assumptions C19_model_is_source_get_args_gives_main_args.

(* the remaining arguments (handed to nextflow as extra_args): each stood on the command line and none is one of the script's
   own option strings - what launch_of_words assumes of the operator's extra words *)
Theorem C19_model_is_source_get_args_remaining : forall cmdline ns extra,
  src_get_args cmdline = SOk (ns, extra) ->
  forall w, In w extra -> In w cmdline /\ ~ In w (map o_flag orch_options).
Proof. exact src_get_args_remaining. Qed.
Print Assumptions C19_model_is_source_get_args_remaining.

(* get_args composed with main(): C19_model_is_source_main* take the parsed arguments as given and assume
   a_mode argv = modename_of md.  Whatever the command line, when the translated get_args returns, the record main() reads off
   the namespace satisfies that hypothesis for some mode md, and main() (fuel > schedule length) IS the model's invocation in
   mode md with the batch size of the command line (1 by default) *)
Theorem C19_model_is_source_get_args_then_main : forall cmdline ns remaining,
  src_get_args cmdline = SOk (ns, remaining) ->
  exists (md : mode) (argv : margs),
    margs_of_ns ns = Some argv /\ a_mode argv = modename_of md
    /\ (~ In L_batch_size cmdline -> a_batch_size argv = 1%Z)
    /\ forall n fuel extra f sched calls0, (length sched < fuel)%nat ->
         src_main n fuel argv extra (mkw f sched calls0)
         = mres_of_ires calls0 (invocation md true (a_batch_size argv) n f sched).
Proof. exact src_get_args_then_main. Qed.
Print Assumptions C19_model_is_source_get_args_then_main.

(* so the `else: raise ValueError("Unknown mode")` of main() (C19_model_is_source_main_unknown_mode) cannot be reached from a
   command line *)
Theorem C19_model_is_source_get_args_mode_known : forall cmdline ns remaining argv z,
  src_get_args cmdline = SOk (ns, remaining) -> margs_of_ns ns = Some argv -> a_mode argv <> NOther z.
Proof. exact src_get_args_mode_known. Qed.
Print Assumptions C19_model_is_source_get_args_mode_known.

Section GetArgsExamples.
Import Coq.Strings.String.
Local Open Scope string_scope.
Local Definition cl (l : list string) : list str := map lit l.
(* options in any order, the operator's extra words handed on in order; --batch-size defaults to 1 *)
Example C19_source_get_args_examples :
  src_get_args (cl ["-resume"; "--outdir"; "out"; "--mode"; "prospective"; "--max_cpus"; "8"; "--screen"; "s.h5"])
    = SOk ([(D_screen, VStr (lit "s.h5")); (D_batch_size, VInt 1); (D_mode, VStr L_prospective); (D_outdir, VStr (lit "out"))],
           cl ["-resume"; "--max_cpus"; "8"]) /\
  src_get_args (cl ["--screen"; "a"; "--batch-size"; "3"; "--screen"; "b"; "--mode"; "retrospective"; "--outdir"; "o"])
    = SOk ([(D_screen, VStr (lit "b")); (D_batch_size, VInt 3); (D_mode, VStr L_retrospective); (D_outdir, VStr (lit "o"))], []) /\
  src_get_args (cl ["--screen"; "a"; "--mode"; "next_plate"; "--outdir"; "o"]) = SRaised [] 64%Z /\      (* not one of the choices *)
  src_get_args (cl ["--screen"; "a"; "--mode"; "prospective"]) = SRaised [] 64%Z /\                       (* --outdir is required *)
  src_get_args (cl ["--screen"; "a"; "--mode"; "prospective"; "--outdir"; "o"; "--batch-size"; "two"]) = SRaised [] 64%Z /\
  src_get_args (cl ["--screen"; "a"; "--mode"; "prospective"; "--outdir"]) = SRaised [] 64%Z /\           (* expected one argument *)
  src_get_args (cl ["--screen"; "a"; "--mode=prospective"; "--outdir"; "o"]) = SRaised [] 90%Z.           (* not represented *)
Proof. vm_compute. repeat split; reflexivity. Qed.
End GetArgsExamples.

(* ---- the path helpers (Generated/SrcOrchPaths.v, configurations C19_PATH_*; proofs: Proofs/C19Source_Paths.v).  An absolute path
   is the list of its components; __file__ is a parameter (the path os.path.realpath resolves it to); os.path.dirname / join /
   abspath are model primitives (all but the last component / append the relative names / drop "." and let ".." remove the
   component before it); the literals "..", "nextflow.config", "main.nf", the nesting of the calls and which helper builds on
   which come from the translation (a helper calling another calls its translation). *)
Theorem C19_model_is_source_get_script_location : forall f : pyfile, src_get_script_location f = SOk (script_location f).
Proof. exact src_get_script_location_is_model. Qed.
Print Assumptions C19_model_is_source_get_script_location.

Theorem C19_model_is_source_get_nextflow_dir : forall f : pyfile, src_get_nextflow_dir f = SOk (nextflow_dir f).
Proof. exact src_get_nextflow_dir_is_model. Qed.
Print Assumptions C19_model_is_source_get_nextflow_dir.

Theorem C19_model_is_source_get_base_config : forall f : pyfile, src_get_base_config f = SOk (base_config f).
Proof. exact src_get_base_config_is_model. Qed.
Print Assumptions C19_model_is_source_get_base_config.

Theorem C19_model_is_source_get_repository_root : forall f : pyfile, src_get_repository_root f = SOk (repository_root f).
Proof. exact src_get_repository_root_is_model. Qed.
Print Assumptions C19_model_is_source_get_repository_root.

Theorem C19_model_is_source_get_main_nf_file : forall f : pyfile, src_get_main_nf_file f = SOk (main_nf_file f).
Proof. exact src_get_main_nf_file_is_model. Qed.
Print Assumptions C19_model_is_source_get_main_nf_file.

(* where they point: for a script that lies where the repository keeps it, root/nextflow/scripts/batchie.py (root any path as
   realpath returns one: no ".", "..", empty component), the translated helpers give root/nextflow/scripts, root/nextflow,
   root/nextflow.config, root itself and root/main.nf *)
Theorem C19_model_is_source_paths_in_checkout : forall root : fspath, clean_path root ->
  src_get_script_location (script_in root) = SOk (root ++ [S_nextflow; S_scripts]) /\
  src_get_nextflow_dir (script_in root) = SOk (root ++ [S_nextflow]) /\
  src_get_base_config (script_in root) = SOk (root ++ [S_nextflow_config]) /\
  src_get_repository_root (script_in root) = SOk root /\
  src_get_main_nf_file (script_in root) = SOk (root ++ [S_main_nf]).
Proof. exact src_paths_in_checkout. Qed.
Print Assumptions C19_model_is_source_paths_in_checkout.

(* ---- the command builders once more, CLOSED over the translated path helpers (Generated/SrcOrchCmdClosed.v, configurations
   C19_RUN_*_CLOSED; proofs: Proofs/C19Source_CmdClosed.v): get_main_nf_file() and get_repository_root() are calls of the
   translations above; a path put on the command line is the word word_of_file root (WMainNf exactly for root/main.nf, the
   pipeline the model describes).  For a script that lies in the checkout at root the builders denote the model's launches: no
   opaque word for main.nf is left. *)
Theorem C19_model_is_source_run_initial_plate_closed : forall root : fspath, clean_path root ->
  forall acts o scr nm extra,
  src_run_initial_plate_closed root (script_in root) acts o scr nm extra = launch_cmd acts o (option_map LInit scr).
Proof. exact src_run_initial_plate_closed_is_model. Qed.
Print Assumptions C19_model_is_source_run_initial_plate_closed.

Theorem C19_model_is_source_run_first_batch_plate_closed : forall root : fspath, clean_path root ->
  forall acts o tr te nm extra,
  src_run_first_batch_plate_closed root (script_in root) acts o tr te nm extra = launch_cmd acts o (first_cmd tr te).
Proof. exact src_run_first_batch_plate_closed_is_model. Qed.
Print Assumptions C19_model_is_source_run_first_batch_plate_closed.

Theorem C19_model_is_source_run_first_prospective_batch_plate_closed : forall root : fspath, clean_path root ->
  forall acts o scr nm extra,
  src_run_first_prospective_batch_plate_closed root (script_in root) acts o scr nm extra = launch_cmd acts o (option_map LProsp scr).
Proof. exact src_run_first_prospective_batch_plate_closed_is_model. Qed.
Print Assumptions C19_model_is_source_run_first_prospective_batch_plate_closed.

Theorem C19_model_is_source_run_subsequent_batch_plate_closed : forall root : fspath, clean_path root ->
  forall acts o scr t nm extra excl,
  src_run_subsequent_batch_plate_closed root (script_in root) acts o scr (TGlob t) (DGlob t) nm extra excl
  = launch_cmd acts o (next_cmd scr t excl).
Proof. exact src_run_subsequent_batch_plate_closed_is_model. Qed.
Print Assumptions C19_model_is_source_run_subsequent_batch_plate_closed.

Section PathExamples.
Import Coq.Strings.String.
Local Open Scope string_scope.
(* the hypothesis is satisfiable; and it matters where the script lies: from one directory deeper the third word is another
   file and the command is no launch of the model (why = 8) *)
Example C19_source_paths_example :
  clean_path (map lit ["srv"; "batchie"]) /\
  src_get_main_nf_file (script_in (map lit ["srv"; "batchie"])) = SOk (map lit ["srv"; "batchie"; "main.nf"]) /\
  src_get_base_config (script_in (map lit ["srv"; "batchie"])) = SOk (map lit ["srv"; "batchie"; "nextflow.config"]) /\
  src_run_initial_plate_closed [] (S_scripts :: script_in []) [] (0, 0)%Z (Some SInput) tt [] = SRaised [] 8%Z.
Proof. split; [repeat constructor; discriminate | vm_compute; repeat split; reflexivity]. Qed.
End PathExamples.

(* ---- progress of the retrospective mode after a crash ("rerunning it ... continues the simulation") ---- *)

(* From ANY tree a crash schedule leads to, with c completed steps: after m further calls that are not interrupted (any
   marker-last orders) at least min n (c + m - 1) steps are complete - every call completes the next step, except that the
   first may be spent on naming the incomplete directory, which the operator removes - and the completed steps are still
   exactly the first ones of the never-interrupted run. *)
Theorem C19_retro_progress : forall (bs n : nat) fixed,
  (1 <= bs)%nat -> (1 <= n)%nat -> fixed = true \/ bs = 1%nat ->
  forall sched0 es, Forall (fun e => entry_ok e = true) sched0 ->
  Forall (fun e => entry_ok e = true /\ (4 + length (e_order e) <= e_k e)%nat) es ->
  let f := fst (script_run Retro fixed (Z.of_nat bs) n [] sched0) in
  let f' := fst (script_run Retro fixed (Z.of_nat bs) n f es) in
  completed f' = ideal Retro bs n (length (completed f')) /\
  (Nat.min n (length (completed f) + length es - 1) <= length (completed f') <= n)%nat.
Proof. exact retro_progress. Qed.
Print Assumptions C19_retro_progress.

(* ... so n - c + 1 uninterrupted calls after ANY crash history end in the never-interrupted run *)
Theorem C19_retro_rerun_finishes : forall (bs n : nat) fixed,
  (1 <= bs)%nat -> (1 <= n)%nat -> fixed = true \/ bs = 1%nat ->
  forall sched0 es, Forall (fun e => entry_ok e = true) sched0 ->
  Forall (fun e => entry_ok e = true /\ (4 + length (e_order e) <= e_k e)%nat) es ->
  let f := fst (script_run Retro fixed (Z.of_nat bs) n [] sched0) in
  (n + 1 <= length (completed f) + length es)%nat ->
  completed (fst (script_run Retro fixed (Z.of_nat bs) n f es)) = crash_free Retro bs n.
Proof. exact retro_rerun_finishes. Qed.
Print Assumptions C19_retro_rerun_finishes.

(* the hypotheses are satisfiable after a crash inside the pipeline run of step (0,1): 1 completed, the first rerun names
   iter_0/plate_1, four more finish *)
Example C19_retro_progress_after_crash :
  let f := fst (script_run Retro true 2 4 [] [full; mke 6 all_kinds]) in
  length (completed f) = 1%nat /\
  map (fun g => match g with GNamed _ _ => 1 | GLaunch _ _ _ true => 2 | _ => 0 end)
      (snd (script_run Retro true 2 4 f [full; full; full; full])) = [1; 2; 2; 2].
Proof. vm_compute. split; reflexivity. Qed.

(* ---- torn completion markers: a published file does NOT appear atomically (Model/Orchestrate.v, section "torn completion
   markers") ----
   script_run_t tfix ...  the run on worlds (tree, set of steps whose screen_metadata.json exists but cannot be read) along
   entries that may say "the interruption comes while the last file is being published".  tfix = true is the script of /repo
   (an unreadable marker counts as no marker: validate_job_dir_and_return_meta catches json.load's ValueError) - PROVED from
   its translation: C19_model_is_source_examine_determines_repairs; tfix = false is the script before that repair (json.load's
   exception escapes from examine), kept for the refutation witness. *)

(* conservative extension: no torn marker and no tearing entry = the model above *)
Theorem C19_torn_model_conservative : forall tfix md fixed bs n sched f,
  script_run_t tfix md fixed bs n (f, []) (map whole sched) =
  let r := script_run md fixed bs n f sched in ((fst r, []), snd r).
Proof. exact script_run_t_conservative. Qed.
Print Assumptions C19_torn_model_conservative.

(* THE PROPERTY on worlds with torn markers, for the script as it is (tfix = true), at full strength: for EVERY schedule -
   any number of interruptions, at any event of any call, each possibly DURING the publication of a file - batch size, number
   of plates and mode: the completed steps, with their launch inputs and recorded selections, are exactly the first k steps of
   the uninterrupted execution, and no call ever ends in an exception that names no directory *)
Theorem C19_torn_resume_correct : forall md (bs n : nat) fixed,
  (1 <= bs)%nat -> (1 <= n)%nat -> fixed = true \/ bs = 1%nat ->
  forall sched, Forall (fun te => entry_ok (te_e te) = true) sched ->
  let r := script_run_t true md fixed (Z.of_nat bs) n ([], []) sched in
  completed (fst (fst r)) = ideal md bs n (length (completed (fst (fst r)))) /\
  (md = Retro -> (length (completed (fst (fst r))) <= n)%nat) /\
  (forall w, ~ In (GFail w) (snd r)).
Proof. exact resume_correct_t. Qed.
Print Assumptions C19_torn_resume_correct.

(* C19_step_safe on worlds with torn markers: one more call from ANY world such a schedule leads to keeps the completed steps,
   adds at most the next one, launches only the uninterrupted run's command for the first step that is not complete, names
   only directories that are not complete, never fails without naming one *)
Theorem C19_torn_step_safe : forall md (bs n : nat) fixed,
  (1 <= bs)%nat -> (1 <= n)%nat -> fixed = true \/ bs = 1%nat ->
  forall sched te, Forall (fun te => entry_ok (te_e te) = true) sched -> entry_ok (te_e te) = true ->
  let tf := fst (script_run_t true md fixed (Z.of_nat bs) n ([], []) sched) in
  let r := attempt_t true md fixed (Z.of_nat bs) n tf te in
  exists c,
    completed (fst tf) = ideal md bs n c /\
    (completed (fst (fst r)) = ideal md bs n c \/ completed (fst (fst r)) = ideal md bs n (S c)) /\
    match snd r with
    | GLaunch s l _ _ => s = step_of bs c /\ l = ideal_launch md bs c /\ ~ In s (map fst (completed (fst tf)))
    | GNamed _ s => ~ In s (map fst (completed (fst tf)))
    | GFail _ => False
    | _ => True
    end.
Proof. exact step_safe_t. Qed.
Print Assumptions C19_torn_step_safe.

(* a torn marker costs one call: a world such a schedule leads to holds at most one torn marker, in the directory of the first
   step that is not complete, and the next call - whatever its entry - names exactly that directory as "invalid structure";
   the operator removes it, no torn marker is left, no completed step is lost *)
Theorem C19_torn_marker_is_named : forall md (bs n : nat) fixed,
  (1 <= bs)%nat -> (1 <= n)%nat -> fixed = true \/ bs = 1%nat ->
  forall sched te, Forall (fun te => entry_ok (te_e te) = true) sched ->
  let tf := fst (script_run_t true md fixed (Z.of_nat bs) n ([], []) sched) in
  snd tf = [] \/
  (exists c, snd tf = [step_of bs c] /\ completed (fst tf) = ideal md bs n c /\
             let r := attempt_t true md fixed (Z.of_nat bs) n tf te in
             snd r = GNamed 1 (step_of bs c) /\ snd (fst r) = [] /\ completed (fst (fst r)) = ideal md bs n c).
Proof. exact torn_marker_is_named. Qed.
Print Assumptions C19_torn_marker_is_named.

(* "rerunning it continues the simulation" on worlds with torn markers (C19_retro_progress / C19_retro_rerun_finishes): after m
   further calls that are not interrupted at least min n (c + m - 1) steps are complete - the one call that names the torn
   directory is the call an incomplete directory costs anyway - and no torn marker is left; n - c + 1 such calls end in the
   never-interrupted run *)
Theorem C19_torn_retro_progress : forall (bs n : nat) fixed,
  (1 <= bs)%nat -> (1 <= n)%nat -> fixed = true \/ bs = 1%nat ->
  forall sched0 es, Forall (fun te => entry_ok (te_e te) = true) sched0 ->
  Forall (fun e => entry_ok e = true /\ (4 + length (e_order e) <= e_k e)%nat) es ->
  let tf := fst (script_run_t true Retro fixed (Z.of_nat bs) n ([], []) sched0) in
  let tf' := fst (script_run_t true Retro fixed (Z.of_nat bs) n tf (map whole es)) in
  completed (fst tf') = ideal Retro bs n (length (completed (fst tf'))) /\
  (Nat.min n (length (completed (fst tf)) + length es - 1) <= length (completed (fst tf')) <= n)%nat /\
  (es <> [] -> snd tf' = []).
Proof. exact retro_progress_t. Qed.
Print Assumptions C19_torn_retro_progress.

Theorem C19_torn_retro_rerun_finishes : forall (bs n : nat) fixed,
  (1 <= bs)%nat -> (1 <= n)%nat -> fixed = true \/ bs = 1%nat ->
  forall sched0 es, Forall (fun te => entry_ok (te_e te) = true) sched0 ->
  Forall (fun e => entry_ok e = true /\ (4 + length (e_order e) <= e_k e)%nat) es ->
  let tf := fst (script_run_t true Retro fixed (Z.of_nat bs) n ([], []) sched0) in
  (n + 1 <= length (completed (fst tf)) + length es)%nat ->
  completed (fst (fst (script_run_t true Retro fixed (Z.of_nat bs) n tf (map whole es)))) = crash_free Retro bs n.
Proof. exact retro_rerun_finishes_t. Qed.
Print Assumptions C19_torn_retro_rerun_finishes.

(* with the repair an unreadable marker IS a missing marker: on a well-formed world examine answers as the model's examine on
   the tree component (so the torn directory is named and removed, and the theorems of the atomic model apply to what
   follows); whatever the world, it answers so or names a directory holding a torn marker, and never raises *)
Theorem C19_torn_repaired_is_missing_marker : forall fixed bs tf, torn_wf tf ->
  examine_t true fixed bs tf = tres_of_xres (examine fixed bs (fst tf)).
Proof. exact examine_t_repaired_is_missing. Qed.
Print Assumptions C19_torn_repaired_is_missing_marker.

Theorem C19_torn_repaired_names_torn_or_is_examine : forall fixed bs tf,
  examine_t true fixed bs tf = tres_of_xres (examine fixed bs (fst tf)) \/
  exists s, examine_t true fixed bs tf = TNamed 1 s /\ is_torn (snd tf) s = true.
Proof. exact examine_t_repaired_cases. Qed.
Print Assumptions C19_torn_repaired_names_torn_or_is_examine.

Theorem C19_torn_repaired_never_raises : forall fixed bs tf w, examine_t true fixed bs tf <> TRaised w.
Proof. exact examine_t_repaired_never_raises. Qed.
Print Assumptions C19_torn_repaired_never_raises.

(* the witness of the refutation below under the repair: the torn directory is named, the run completes *)
Example C19_torn_witness_repaired :
  let r := script_run_t true Retro true 1 3 ([], []) (witness_torn ++ [full_t; full_t; full_t; full_t]) in
  snd (fst r) = [] /\ completed (fst (fst r)) = crash_free Retro 1 3 /\ nth 2 (snd r) GDone = GNamed 1 (1, 0)%Z.
Proof. exact torn_witness_repaired. Qed.

(* an interruption in the pipeline's own wrap-up AFTER its last publication (tearing entry with k - 4 = number of files + 1): the
   step counts as complete, the call does not return (exit status not 0), the rerun goes on with the next step *)
Example C19_torn_late_death :
  let r := script_run_t true Retro true 1 3 ([], []) [full_t; mkte (mke 10 canon_order) true; full_t; full_t] in
  completed (fst (fst r)) = crash_free Retro 1 3 /\ snd (fst r) = [] /\
  map (call_returns Retro 1) (snd r) = [Some true; None; Some true; Some false].
Proof. vm_compute. repeat split; reflexivity. Qed.

(* -- the script BEFORE the repair (tfix = false), kept as the witness of what the repair removed -- *)

(* on a well-formed world the old script raises (JSONDecodeError, names nothing) EXACTLY when the first problem examine
   meets is a directory with a torn marker - where a missing marker would have been named "invalid structure" *)
Theorem C19_torn_examine_raises_iff : forall fixed bs tf w, torn_wf tf ->
  (examine_t false fixed bs tf = TRaised w <->
   w = 70%Z /\ exists s, examine fixed bs (fst tf) = XNamed 1 s /\ is_torn (snd tf) s = true).
Proof. exact examine_t_raises_iff. Qed.
Print Assumptions C19_torn_examine_raises_iff.

(* a raising examine strands the script: every further call, whatever its entry, raises again, touches nothing, names nothing *)
Theorem C19_torn_raise_is_permanent : forall tfix md fixed bs n tf w,
  examine_t tfix fixed bs tf = TRaised w ->
  forall sched, script_run_t tfix md fixed bs n tf sched = (tf, repeat (GFail w) (length sched)).
Proof. exact torn_stuck. Qed.
Print Assumptions C19_torn_raise_is_permanent.

(* REFUTED for the script before the repair: "interrupted during a pipeline run with partially published outputs, rerunning
   continues the simulation".  Retrospective, batch size 1, 3 plates, marker last in every order: the run of step (1,0) is
   interrupted while its last file, the marker, is being published.  From then on EVERY rerun (any number k) fails with the
   same exception, no directory is ever named, step (1,0) is never completed.  (C19_torn_resume_correct is the statement this
   witness contradicts, with tfix = false for true.) *)
Theorem C19_resume_refuted_torn_marker :
  exists sched,
    Forall (fun te => entry_ok (te_e te) = true) sched /\
    forall k,
      let r := script_run_t false Retro true 1 3 ([], []) (sched ++ repeat (whole full) k) in
      snd (fst r) = [(1, 0)%Z] /\
      completed (fst (fst r)) = ideal Retro 1 3 1 /\
      skipn 2 (snd r) = repeat (GFail 70) k /\
      (forall w s, ~ In (GNamed w s) (snd r)).
Proof. exists witness_torn. exact torn_marker_strands. Qed.
Print Assumptions C19_resume_refuted_torn_marker.

(* the prospective variant of the witness (batch size 2, the marker of (0,1) torn) *)
Example C19_torn_witness_prospective :
  let r := script_run_t false Prosp true 2 3 ([], []) ([full_t; mkte (mke 7 canon_order) true] ++ repeat full_t 3) in
  snd (fst r) = [(0, 1)%Z] /\ skipn 2 (snd r) = repeat (GFail 70) 3.
Proof. exact torn_witness_prospective. Qed.

(* ---- the marker published before advanced_screen.h5 (asynchronous publishing; outside `entry_ok`) ---- *)

(* REFUTED without marker_last in RETROSPECTIVE mode too: every file kind is published, the order puts the marker before
   advanced_screen.h5, the run of (0,0) is interrupted between the two.  (0,0) counts as complete; get_screen_from_job_output
   falls back to training.screen.h5, so step (1,0) is started from the screen BEFORE plate 0 was revealed - not the output of
   its predecessor - and records the selection of plate 0 a second time. *)
Theorem C19_resume_refuted_marker_before_advanced :
  exists sched,
    Forall (fun e => covers (e_order e) = true) sched /\
    let r := script_run Retro true 1 3 [] sched in
    nth 1 (snd r) GDone = GLaunch (1, 0)%Z (LFirst (SFile (0, 0)%Z KTraining) (SFile (0, 0)%Z KTraining))
                                   [KThetas; KDist; KSelected; KAdvanced; KMeta] true /\
    ideal_launch Retro 1 1 = LFirst (SFile (0, 0)%Z KAdvanced) (SFile (0, 0)%Z KTraining) /\
    (exists d0 d1, get_plate (fst r) (0, 0)%Z = Some d0 /\ get_plate (fst r) (1, 0)%Z = Some d1 /\
                   f_selected d0 = Some 0%Z /\ f_selected d1 = Some 0%Z /\ f_advanced d0 = None) /\
    completed (fst r) <> ideal Retro 1 3 (length (completed (fst r))).
Proof. exact resume_refuted_marker_before_advanced. Qed.
Print Assumptions C19_resume_refuted_marker_before_advanced.

(* the same inside a batch (batch size 2, plate 1): no screen is found at all, the call raises a TypeError that names nothing,
   and however often the script is rerun no further step is ever completed *)
Theorem C19_marker_before_advanced_strands :
  Forall (fun e => covers (e_order e) = true) stuck_sched /\
  nth 2 (snd (script_run Retro true 2 4 [] stuck_sched)) GDone = GFail 9 /\
  forall m, map fst (completed (fst (script_run Retro true 2 4 [] (stuck_sched ++ repeat full m)))) = [(0, 0); (0, 1)]%Z.
Proof. exact marker_before_advanced_strands. Qed.
Print Assumptions C19_marker_before_advanced_strands.

(* ---- the nextflow side, read from /repo/nextflow on every run (harness/nf_reader.py -> Generated/SrcNfOutputs.v) ----
   nf_outputs      (process, pattern of its output: block under ${prefix}/, file name its script block writes)
   script_globs    what the translated helpers glob for, taken from the primitives of their configurations
   kind_pattern / kind_process / kind_levels (Model/NfFiles.v): the file name, process and depth the model's kinds denote *)

(* every file kind of the model is published by the process the model attributes it to: the module's output pattern matches the
   name its script block writes, and the pattern the script globs for matches that name too *)
Theorem C19_nf_outputs_are_what_the_script_globs : forall k,
  exists pat written, In (kind_process k, pat, written) nf_outputs /\
                      NfFiles.glob_match pat written = true /\ NfFiles.glob_match (kind_pattern k) written = true.
Proof. exact nf_outputs_are_what_the_script_globs. Qed.
Print Assumptions C19_nf_outputs_are_what_the_script_globs.

(* a published name is matched by the glob of ONE kind only *)
Theorem C19_nf_written_names_unambiguous : forall proc pat written k1 k2,
  In (proc, pat, written) nf_outputs ->
  NfFiles.glob_match (kind_pattern k1) written = true -> NfFiles.glob_match (kind_pattern k2) written = true -> k1 = k2.
Proof. exact nf_written_names_unambiguous. Qed.
Print Assumptions C19_nf_written_names_unambiguous.

(* the globs of the translated helpers are exactly the model's patterns, at the model's directory depth, and every kind is globbed for *)
Theorem C19_script_globs_are_kind_patterns :
  (forall pat code lv, In (pat, code, lv) script_globs ->
     exists k, kind_of_code code = Some k /\ pat = kind_pattern k /\ lv = kind_levels k) /\
  (forall k, exists code, kind_of_code code = Some k /\ In (kind_pattern k, code, kind_levels k) script_globs).
Proof. split; [exact script_globs_are_kind_patterns|exact script_globs_cover_every_kind]. Qed.
Print Assumptions C19_script_globs_are_kind_patterns.

(* every configuration that sets publishDir sets it to the --outdir the script passes; every module writes one level below it *)
Theorem C19_nf_publish_dir_is_outdir :
  nf_publish_dirs <> [] /\ Forall (fun c => snd c = publish_setting) nf_publish_dirs /\ nf_prefix = publish_prefix.
Proof. exact nf_publish_dir_is_outdir. Qed.
Print Assumptions C19_nf_publish_dir_is_outdir.

(* how --excludes=a,b reaches the policy: split on the separator the script joins with; handed on as the tuple element the
   sub-workflow picks for SELECT_NEXT_PLATE's `excludes` input; passed blank-separated after a flag that select_next_plate's own
   parser (Generated/SrcParser_select_next_plate.v) declares with nargs='+' type=int, dest batch_plate_id *)
Theorem C19_nf_excludes_chain :
  nf_excludes_tokenize = excludes_sep /\
  (exists pos, index_of nf_excludes_index nf_select_picks 0 = Some pos /\ nth_str pos nf_select_inputs = S_excludes) /\
  nf_excludes_join = S_blank /\
  match flag_option (Cli.str_of_string nf_excludes_flag) SrcParser_select_next_plate.src_parser_select_next_plate with
  | Some o => Cli.o_type o = Some Cli.TInt /\ Cli.o_nargs o = Some Cli.NPlus /\ Cli.o_action o = Cli.ActStore /\
              Cli.opt_dest o = Cli.str_of_string S_batch_plate_id
  | None => False
  end.
Proof. exact nf_excludes_chain. Qed.
Print Assumptions C19_nf_excludes_chain.
