(* C09 — Predictions are pure, row-wise, treatment-order-symmetric and control-neutral.
   Statements only; every proof is `exact <lemma from Proofs/>`.  All statements hold for every
   parameter value, every row list and EVERY oracle [orc] (expit / exp / ln), unless a hypothesis
   about the oracle is written out.  Index validity is part of the model's top-level functions
   (an invalid index is [Err ERR_INDEX], as numpy raises IndexError), so the statements about
   [theta_predict] need no separate validity hypothesis.  Purity is checked by the harness. *)
From Coq Require Import ZArith List QArith Qcanon.
From Batchie Require Import Lib.Sexp Lib.Num Model.Predict Generated.SrcPredict
  Proofs.C09Lists Proofs.C09Predict Proofs.C09Main Proofs.C09Source.
Import ListNotations.
Open Scope Qc_scope.

(* --- row-wise: the vectorised code (column gathers, zeroing, elementwise products, row sums) is
   the map of a one-experiment formula over the rows *)
Theorem C09_rowwise_sparse2 : forall t rows, sp_mean2 t rows = map (sp_mean_row2 t) rows.
Proof. exact sp_mean2_rowwise. Qed.
Print Assumptions C09_rowwise_sparse2.

Theorem C09_rowwise_sparse1 : forall t rows, sp_mean1 t rows = map (sp_mean_row1 t) rows.
Proof. exact sp_mean1_rowwise. Qed.
Print Assumptions C09_rowwise_sparse1.

Theorem C09_rowwise_inter : forall orc t rows,
  in_mean2 t rows = map (in_mean_row2 t) rows /\ in_viab2 orc t rows = map (in_viab_row2 orc t) rows.
Proof. exact rowwise_inter. Qed.
Print Assumptions C09_rowwise_inter.

(* --- hence: predicting on any boolean-mask subset (Screen.subset, ScreenSubset.subset) of a
   screen that can be predicted gives the masked entries of the whole-screen prediction; any
   sample type, any of mean / viability / variance, any arity *)
Theorem C09_subset : forall orc k t scr mask v,
  theta_predict orc k t scr = Ok v ->
  theta_predict orc k t (scr_select mask scr) = Ok (select mask v).
Proof. exact predict_subset. Qed.
Print Assumptions C09_subset.

(* --- and on any list of row indices (permutations, repeats) *)
Theorem C09_take : forall orc k t scr idx v,
  Forall (fun i => (i < scr_size scr)%nat) idx ->
  theta_predict orc k t scr = Ok v ->
  theta_predict orc k t (scr_take idx scr) = Ok (take_idx 0 idx v).
Proof. exact predict_take. Qed.
Print Assumptions C09_take.

(* --- treatment-order symmetry, one experiment and whole screens (errors included) *)
Theorem C09_swap_row : forall ts ti s a b,
  sp_mean_row2 ts (s, a, b) = sp_mean_row2 ts (s, b, a) /\
  in_mean_row2 ti (s, a, b) = in_mean_row2 ti (s, b, a) /\
  in_single ti (s, a, b) = in_single ti (s, b, a).
Proof. exact swap_row_both. Qed.
Print Assumptions C09_swap_row.

Theorem C09_swap : forall orc k t scr, theta_predict orc k t (scr_swap scr) = theta_predict orc k t scr.
Proof. exact predict_swap. Qed.
Print Assumptions C09_swap.

(* --- control neutrality, sparse type.  The sentinel -1 gathers the LAST embedding row, which is
   zeroed in the copy: whatever that row holds, a pair with control predicts as the single agent.
   [sparse_wfb D t]: the embedding arrays are rectangular of width D (a numpy invariant). *)
Theorem C09_control_neutral_sparse : forall D t s a,
  sparse_wfb D t = true ->
  sp_mean_row2 t (s, a, CONTROL) = sp_mean_row1 t (s, a) /\
  sp_mean_row2 t (s, CONTROL, a) = sp_mean_row1 t (s, a).
Proof. exact control_neutral_sparse. Qed.
Print Assumptions C09_control_neutral_sparse.

(* screen level, mean (viab = false) and viability (viab = true): if the (agent, control) screen
   can be predicted then so can the single-agent screen, with the same values *)
Theorem C09_control_neutral_screen : forall orc D viab t rows v,
  sparse_wfb D t = true ->
  sp_predict orc viab t (Scr2 (map pad_control rows)) = Ok v ->
  sp_predict orc viab t (Scr1 rows) = Ok v.
Proof. exact control_neutral_screen. Qed.
Print Assumptions C09_control_neutral_screen.

Theorem C09_control_only_sparse : forall t s,
  sp_mean_row2 t (s, CONTROL, CONTROL) = salpha t + py_get 0 (sW0 t) s /\
  sp_mean_row1 t (s, CONTROL) = salpha t + py_get 0 (sW0 t) s.
Proof. exact control_only_sparse. Qed.
Print Assumptions C09_control_only_sparse.

(* --- control neutrality, interaction type: the interaction mean vanishes; the viability is the
   clipped product of the two looked-up single effects (the table holds 1 for the control) *)
Theorem C09_control_neutral_inter : forall t s a,
  in_mean_row2 t (s, a, CONTROL) = 0 /\ in_mean_row2 t (s, CONTROL, a) = 0.
Proof. exact control_neutral_inter. Qed.
Print Assumptions C09_control_neutral_inter.

Theorem C09_control_viability_inter : forall orc : oracle,
  (forall x, 0 < x -> orc ORC_EXP (orc ORC_LN x) = x) ->
  forall t s a,
    in_viab_row2 orc t (s, a, CONTROL) = clip_viab (lookup0 (ilookup t) s a * lookup0 (ilookup t) s CONTROL) /\
    in_viab_row2 orc t (s, CONTROL, a) = clip_viab (lookup0 (ilookup t) s CONTROL * lookup0 (ilookup t) s a).
Proof. exact control_viability_inter. Qed.
Print Assumptions C09_control_viability_inter.

(* --- viability *)
Theorem C09_viability_is_clipped_logistic : forall orc t scr v,
  sp_predict orc true t scr = Ok v ->
  exists m, sp_predict orc false t scr = Ok m /\ v = map (fun x => clip_viab (orc ORC_EXPIT x)) m.
Proof. exact sp_viability_is_clipped_logistic. Qed.
Print Assumptions C09_viability_is_clipped_logistic.

Theorem C09_viability_range : forall orc t scr v,
  theta_predict orc KViab t scr = Ok v -> Forall (fun x => VIAB_LO <= x /\ x <= VIAB_HI) v.
Proof. exact viability_range. Qed.
Print Assumptions C09_viability_range.

(* the clause "viability is the logistic of the modelled mean" is false of the interaction type,
   for the real functions and for any oracle with exp (ln x) = x (x > 0) and expit 0 = 1/2 *)
Theorem C09_inter_viability_not_logistic_refuted : forall orc : oracle,
  (forall x, 0 < x -> orc ORC_EXP (orc ORC_LN x) = x) ->
  orc ORC_EXPIT 0 = Q2Qc (1 # 2) ->
  exists t scr v m,
    theta_predict orc KViab (TI t) scr = Ok v /\ theta_predict orc KMean (TI t) scr = Ok m /\
    v <> map (viab_of_mean orc) m.
Proof. exact inter_viability_not_logistic'. Qed.
Print Assumptions C09_inter_viability_not_logistic_refuted.

(* --- variance: the reciprocal precision for every experiment, positive when the precision is *)
Theorem C09_variance : forall orc t scr v,
  theta_predict orc KVar t scr = Ok v ->
  v = repeat (1 / theta_prec t) (scr_size scr) /\
  (0 < theta_prec t -> Forall (fun x => 0 < x) v).
Proof. exact variance_spec. Qed.
Print Assumptions C09_variance.

(* --- stacked and averaged helpers *)
Theorem C09_all_rows : forall orc k h scr rows,
  predict_all orc k h scr = Ok rows ->
  length rows = h_n h /\
  forall i, (i < h_n h)%nat ->
    exists t, nth_error (h_thetas h) i = Some t /\ theta_predict orc k t scr = Ok (nth i rows []).
Proof. exact predict_all_rows. Qed.
Print Assumptions C09_all_rows.

Theorem C09_avg_exact : forall orc k h scr v,
  k <> KVar ->
  predict_avg orc k h scr = Ok v ->
  exists rows,
    predict_all orc k h scr = Ok rows /\ length v = scr_size scr /\
    forall j, (j < scr_size scr)%nat ->
      nth j v 0 = qsum (map (fun r => nth j r 0) rows) / qofnat (h_n h).
Proof. exact predict_avg_exact. Qed.
Print Assumptions C09_avg_exact.

(* ---------------------------------------------------------------- non-vacuity *)

Definition q (n : Z) (d : positive) : Qc := Q2Qc (n # d).

(* 2 samples, 2 treatments, width 2; the LAST embedding rows (the ones -1 gathers) are non-zero *)
Definition ex_sparse : sparse_theta :=
  {| sW := [[q 1 2; 1]; [0; q 3 1]]; sW0 := [1; q 2 1];
     sV2 := [[1; 1]; [q 5 1; q 7 1]]; sV1 := [[q 1 4; 0]; [q 9 1; q 9 1]]; sV0 := [q 1 8; q 11 1];
     salpha := q 1 2; sprec := q 4 1 |}.
Definition ex_inter : inter_theta :=
  {| iW := [[q 1 2; 1]; [0; q 3 1]]; iV2 := [[1; 1]; [q 5 1; q 7 1]]; iprec := q 2 1;
     ilookup := [(0%Z, (-1)%Z, 1); (0%Z, 0%Z, q 1 2); (0%Z, 1%Z, q 3 4);
                 (1%Z, (-1)%Z, 1); (1%Z, 0%Z, q 1 4); (1%Z, 1%Z, q 2 1)] |}.
Definition ex_rows : list (Z * Z * Z) := [(0, 0, -1); (1, -1, -1); (1, 0, 0); (0, 0, 1); (0, 1, 0); (1, -1, 1)]%Z.

Example C09_ex_wf : sparse_wfb 2 ex_sparse = true /\ inter_wfb 2 ex_inter = true.
Proof. vm_compute. split; reflexivity. Qed.

Example C09_ex_valid :
  forallb (sp_valid_row2 ex_sparse) ex_rows = true /\ forallb (in_valid_row2 ex_inter) ex_rows = true /\
  forallb (in_haskey_row2 ex_inter) ex_rows = true.
Proof. vm_compute. repeat split; reflexivity. Qed.

(* results are shown through [this] (the reduced fraction), which vm_compute can compare *)
Definition qs (r : result (list Qc)) : result (list Q) :=
  match r with Ok l => Ok (map this l) | Err e => Err e end.
Definition qss (r : result (list (list Qc))) : result (list (list Q)) :=
  match r with Ok l => Ok (map (map this) l) | Err e => Err e end.

Example C09_ex_last_row_nonzero :
  map this (py_get [] (sV2 ex_sparse) CONTROL) = [5 # 1; 7 # 1]%Q /\
  map this (py_get [] (sV1 ex_sparse) CONTROL) = [9 # 1; 9 # 1]%Q /\
  this (py_get 0 (sV0 ex_sparse) CONTROL) = (11 # 1)%Q.
Proof. vm_compute. repeat split; reflexivity. Qed.

(* the whole-screen mean: rows 0 / 5 are (agent, control) / (control, agent), row 1 is all-control
   (= alpha + W0[1]), rows 3 and 4 are the two orders of the same pair *)
Example C09_ex_mean :
  qs (theta_predict toy_orc KMean (TS ex_sparse) (Scr2 ex_rows))
  = Ok [7 # 4; 5 # 2; 23 # 4; 143 # 4; 143 # 4; 81 # 2]%Q.
Proof. vm_compute. reflexivity. Qed.

Example C09_ex_single_agent :
  qs (theta_predict toy_orc KMean (TS ex_sparse) (Scr1 [(0, 0); (1, 1)]%Z)) = Ok [7 # 4; 81 # 2]%Q.
Proof. vm_compute. reflexivity. Qed.

Example C09_ex_subset_and_order :
  qs (theta_predict toy_orc KMean (TS ex_sparse) (scr_select [true; false; false; true; false; true] (Scr2 ex_rows)))
  = Ok [7 # 4; 143 # 4; 81 # 2]%Q /\
  qs (theta_predict toy_orc KMean (TS ex_sparse) (scr_take [5; 0; 0; 3]%nat (Scr2 ex_rows)))
  = Ok [81 # 2; 7 # 4; 7 # 4; 143 # 4]%Q.
Proof. vm_compute. split; reflexivity. Qed.

Example C09_ex_inter :
  qs (theta_predict toy_orc KMean (TI ex_inter) (Scr2 ex_rows)) = Ok [0; 0; 3 # 1; 19 # 2; 19 # 2; 0]%Q /\
  qs (theta_predict toy_orc KViab (TI ex_inter) (Scr2 ex_rows))
  = Ok [1 # 2; 99 # 100; 99 # 100; 99 # 100; 99 # 100; 99 # 100]%Q.
Proof. vm_compute. split; reflexivity. Qed.

Example C09_ex_variance :
  qs (theta_predict toy_orc KVar (TS ex_sparse) (Scr2 ex_rows)) = Ok (repeat (1 # 4)%Q 6).
Proof. vm_compute. reflexivity. Qed.

Example C09_ex_holder :
  let h := {| h_n := 2; h_thetas := [TI ex_inter; TS ex_sparse] |} in
  let scr := Scr2 [(0, 0, -1); (0, 0, 1)]%Z in
  qss (predict_all toy_orc KMean h scr) = Ok [[0; 19 # 2]; [7 # 4; 143 # 4]]%Q /\
  qs (predict_avg toy_orc KMean h scr) = Ok [7 # 8; 181 # 8]%Q /\
  qss (predict_all toy_orc KVar h scr) = Ok [[1 # 2; 1 # 2]; [1 # 4; 1 # 4]]%Q.
Proof. vm_compute. repeat split; reflexivity. Qed.

(* the oracle hypotheses of C09_control_viability_inter / ..._refuted are satisfiable *)
Example C09_ex_oracle :
  (forall x, 0 < x -> toy_orc ORC_EXP (toy_orc ORC_LN x) = x) /\ toy_orc ORC_EXPIT 0 = Q2Qc (1 # 2).
Proof. exact toy_orc_ok. Qed.

(* index validity is a real restriction: out-of-range ids, and the sentinel itself on an
   embedding without rows, are IndexError *)
Example C09_ex_invalid :
  theta_predict toy_orc KMean (TS ex_sparse) (Scr2 [(0, 2, 0)]%Z) = Err ERR_INDEX /\
  py_valid 0 CONTROL = false /\
  theta_predict toy_orc KMean (TS ex_sparse) (ScrN 3 1) = Err ERR_ARITY /\
  theta_predict toy_orc KMean (TI ex_inter) (Scr1 [(0, 0)]%Z) = Err ERR_ARITY.
Proof. vm_compute. repeat split; reflexivity. Qed.

(* ---------------------------------------------------------------- the model is the source
   Generated/SrcPredict.v is re-translated from /repo's common.py, data.py and models/sparse_combo.py on every run
   (harness/py2gal.py, configurations C09_* of harness/src_functions.py).  The model's screens stand for the ScreenBase
   objects [pydata_of] gives: sample_ids of shape (n,), treatment_ids of shape (n, arity). *)

(* copy_array_with_control_treatments_set_to_zero, for an array whose axis-0 entries have ANY type A (z = the zeros of
   an entry's shape) and any default d: IndexError iff some id is outside [-n, n), else the gathered copy with the
   entries at the sentinel's positions zeroed; at rows and at numbers these are the model's gather_zero2 / gather_zero1 *)
Theorem C09_model_is_source_copy_zero : forall (A : Type) (z : A -> A) (d : A) arr ids,
  src_copy_zero A z arr ids
  = if forallb (py_valid (length arr)) ids then Ok (zero_where z ids (gather d arr ids)) else Err ERR_INDEX.
Proof. exact @src_copy_zero_is_model. Qed.
Print Assumptions C09_model_is_source_copy_zero.

Theorem C09_model_is_source_copy_zero_shapes : forall (V2 : list (list Qc)) (V0 : list Qc) ids,
  src_copy_zero vec zrow V2 ids = (if forallb (py_valid (length V2)) ids then Ok (gather_zero2 V2 ids) else Err ERR_INDEX) /\
  src_copy_zero qnum zscal V0 ids = (if forallb (py_valid (length V0)) ids then Ok (gather_zero1 V0 ids) else Err ERR_INDEX).
Proof. exact src_copy_zero_shapes. Qed.
Print Assumptions C09_model_is_source_copy_zero_shapes.

(* sparse_combo.predict on any arity-2 data and predict_single_drug on any arity-1 data, mean and viability, errors included *)
Theorem C09_model_is_source_predict : forall orc t rows viab,
  src_predict orc t (pydata_of (Scr2 rows)) viab = sp_predict orc viab t (Scr2 rows).
Proof. exact src_predict_is_model. Qed.
Print Assumptions C09_model_is_source_predict.

Theorem C09_model_is_source_predict_single_drug : forall orc t rows viab,
  src_predict_single_drug orc t (pydata_of (Scr1 rows)) viab = sp_predict orc viab t (Scr1 rows).
Proof. exact src_predict_single_drug_is_model. Qed.
Print Assumptions C09_model_is_source_predict_single_drug.

(* ScreenBase.size / treatment_arity *)
Theorem C09_model_is_source_size_arity : forall scr,
  src_data_size (pydata_of scr) = Ok (Z.of_nat (scr_size scr)) /\
  src_data_treatment_arity (pydata_of scr) = Ok (Z.of_nat (scr_arity scr)).
Proof. exact src_size_arity_is_model. Qed.
Print Assumptions C09_model_is_source_size_arity.

(* the methods of SparseDrugComboMCMCSample: the arity dispatch (1 -> predict_single_drug, 2 -> predict, else
   NotImplementedError) and the variance np.repeat(1 / precision, repeats=data.size).  [scr_okb]: the model's [ScrN a n]
   ("any other arity") is only meant for a other than 1 and 2 - an invariant of the model's screen type, true of every
   screen the harness or a theorem's non-vacuity example builds *)
Theorem C09_model_is_source_predict_viability : forall orc t scr, scr_okb scr = true ->
  src_sp_predict_viability orc t (pydata_of scr) = theta_predict orc KViab (TS t) scr.
Proof. exact src_sp_predict_viability_is_model. Qed.
Print Assumptions C09_model_is_source_predict_viability.

Theorem C09_model_is_source_predict_conditional_mean : forall orc t scr, scr_okb scr = true ->
  src_sp_predict_conditional_mean orc t (pydata_of scr) = theta_predict orc KMean (TS t) scr.
Proof. exact src_sp_predict_conditional_mean_is_model. Qed.
Print Assumptions C09_model_is_source_predict_conditional_mean.

Theorem C09_model_is_source_predict_conditional_variance : forall orc t scr,
  src_sp_predict_conditional_variance t (pydata_of scr) = theta_predict orc KVar (TS t) scr.
Proof. exact src_sp_predict_conditional_variance_is_model. Qed.
Print Assumptions C09_model_is_source_predict_conditional_variance.

(* the methods of SparseDrugComboInteractionMCMCSample (models/sparse_combo_interaction.py): the arity guard (ValueError),
   the gathered interaction, the single-effect comprehension over zip(sample_ids, column 0, column 1) with its KeyError,
   exp / log / both clips, the variance *)
Theorem C09_model_is_source_inter_predict_conditional_mean : forall orc t scr, scr_okb scr = true ->
  src_in_predict_conditional_mean t (pydata_of scr) = theta_predict orc KMean (TI t) scr.
Proof. exact src_in_predict_conditional_mean_is_model. Qed.
Print Assumptions C09_model_is_source_inter_predict_conditional_mean.

Theorem C09_model_is_source_inter_predict_viability : forall orc t scr, scr_okb scr = true ->
  src_in_predict_viability orc t (pydata_of scr) = theta_predict orc KViab (TI t) scr.
Proof. exact src_in_predict_viability_is_model. Qed.
Print Assumptions C09_model_is_source_inter_predict_viability.

Theorem C09_model_is_source_inter_predict_conditional_variance : forall orc t scr,
  src_in_predict_conditional_variance t (pydata_of scr) = theta_predict orc KVar (TI t) scr.
Proof. exact src_in_predict_conditional_variance_is_model. Qed.
Print Assumptions C09_model_is_source_inter_predict_conditional_variance.

(* hence the model's Theta interface IS the six translated methods ([py_theta_predict]: the dispatch on the sample's
   class and the method name) *)
Theorem C09_model_is_source_theta_predict : forall orc k t scr, scr_okb scr = true ->
  py_theta_predict orc k t (pydata_of scr) = theta_predict orc k t scr.
Proof. exact py_theta_predict_is_model. Qed.
Print Assumptions C09_model_is_source_theta_predict.

(* models/main.py.  The translations take the three Theta methods as a parameter pm (kind -> sample -> data -> result):
   for ANY implementation that agrees with the model on the samples the holder stores ... *)
Theorem C09_model_is_source_predict_viability_all : forall orc pm scr h,
  (forall t, In t (h_thetas h) -> pm KViab t (pydata_of scr) = theta_predict orc KViab t scr) ->
  src_predict_viability_all pm (pydata_of scr) h = predict_all orc KViab h scr.
Proof. exact src_predict_viability_all_is_model. Qed.
Print Assumptions C09_model_is_source_predict_viability_all.

Theorem C09_model_is_source_predict_mean_all : forall orc pm scr h,
  (forall t, In t (h_thetas h) -> pm KMean t (pydata_of scr) = theta_predict orc KMean t scr) ->
  src_predict_mean_all pm (pydata_of scr) h = predict_all orc KMean h scr.
Proof. exact src_predict_mean_all_is_model. Qed.
Print Assumptions C09_model_is_source_predict_mean_all.

Theorem C09_model_is_source_predict_variance_all : forall orc pm scr h,
  (forall t, In t (h_thetas h) -> pm KVar t (pydata_of scr) = theta_predict orc KVar t scr) ->
  src_predict_variance_all pm (pydata_of scr) h = predict_all orc KVar h scr.
Proof. exact src_predict_variance_all_is_model. Qed.
Print Assumptions C09_model_is_source_predict_variance_all.

Theorem C09_model_is_source_predict_mean_avg : forall orc pm scr h,
  (forall t, In t (h_thetas h) -> pm KMean t (pydata_of scr) = theta_predict orc KMean t scr) ->
  src_predict_mean_avg pm (pydata_of scr) h = predict_avg orc KMean h scr.
Proof. exact src_predict_mean_avg_is_model. Qed.
Print Assumptions C09_model_is_source_predict_mean_avg.

Theorem C09_model_is_source_predict_viability_avg : forall orc pm scr h,
  (forall t, In t (h_thetas h) -> pm KViab t (pydata_of scr) = theta_predict orc KViab t scr) ->
  src_predict_viability_avg pm (pydata_of scr) h = predict_avg orc KViab h scr.
Proof. exact src_predict_viability_avg_is_model. Qed.
Print Assumptions C09_model_is_source_predict_viability_avg.

(* ... in particular for the translated methods themselves: no hypothesis about the methods is left *)
Theorem C09_model_is_source_main : forall orc scr h, scr_okb scr = true ->
  src_predict_viability_all (py_theta_predict orc) (pydata_of scr) h = predict_all orc KViab h scr /\
  src_predict_mean_all (py_theta_predict orc) (pydata_of scr) h = predict_all orc KMean h scr /\
  src_predict_variance_all (py_theta_predict orc) (pydata_of scr) h = predict_all orc KVar h scr /\
  src_predict_mean_avg (py_theta_predict orc) (pydata_of scr) h = predict_avg orc KMean h scr /\
  src_predict_viability_avg (py_theta_predict orc) (pydata_of scr) h = predict_avg orc KViab h scr.
Proof. exact src_main_is_model. Qed.
Print Assumptions C09_model_is_source_main.

(* non-vacuity of the links: the translated functions computed on the example screens *)
Example C09_ex_source :
  qs (src_predict toy_orc ex_sparse (pydata_of (Scr2 ex_rows)) false)
  = Ok [7 # 4; 5 # 2; 23 # 4; 143 # 4; 143 # 4; 81 # 2]%Q /\
  qs (src_in_predict_viability toy_orc ex_inter (pydata_of (Scr2 ex_rows)))
  = Ok [1 # 2; 99 # 100; 99 # 100; 99 # 100; 99 # 100; 99 # 100]%Q /\
  (let h := {| h_n := 2; h_thetas := [TI ex_inter; TS ex_sparse] |} in
   qs (src_predict_mean_avg (py_theta_predict toy_orc) (pydata_of (Scr2 [(0, 0, -1); (0, 0, 1)]%Z)) h) = Ok [7 # 8; 181 # 8]%Q) /\
  src_predict toy_orc ex_sparse (pydata_of (Scr2 [(0, 2, 0)]%Z)) false = Err ERR_INDEX /\
  scr_okb (Scr2 ex_rows) = true /\ scr_okb (ScrN 3 1) = true.
Proof. vm_compute. repeat split; reflexivity. Qed.
