(* C05 — A plate's DBAL score depends on that plate alone and equals the direct estimator.
   Statements only; every proof is `exact <lemma from Proofs/>`.  All theorems hold OF THE MODEL (Model/Dbal.v) for every
   oracle [orc] (ln = orc 0, exp = orc 1), every number of posterior samples T > 0 (the code needs T >= 3), every plate list
   (empty, one plate, size-0/size-1 plates included), all means, all variances, all matrices, every distance_factor.
   DOMAIN (gap G5.6) - read this before reading "all" as a claim about the code.  The model is total over exact rationals and
   agrees with numpy only where numpy computes with finite numbers:
     * variances > 0.  Then every alpha is > 0 (C05_domain_alpha_positive, padded cells included).  For alpha = 0 the model's
       1 / alpha is Qc's 0 while numpy gives inf / NaN; zero or negative variances can make alpha 0 or negative.
     * matrix entries >= 0.  Then every summed triple distance is >= 0 (C05_domain_distance_term): np.log sees 0 (-inf, modelled
       as None) or a positive number.  For a negative sum numpy gives NaN, the model the oracle's value.
     * distance_factor > 0.  The model reads df * -inf as -inf for every df; numpy gives NaN for df = 0 and +inf for df < 0.
     * no NaN / inf among means, variances, distances; NaN occurs only as the padding value of the variance array.
   These are the property's own quantifier (positive variances, symmetric non-negative matrices; distance_factor is 1 in the
   scorer); the differential run generates only such inputs.  Outside them the theorems are statements about the model alone.
   Floating-point rounding is not in the model (it computes the real-number value; the harness compares to 1e-9).
   plate_wf T pl : means and variances of pl are both T x n_exp arrays.
   triple_valid T t : the three sample indices of t are < T (what the unranking produces). *)
From Coq Require Import ZArith List QArith Qcanon Permutation Lia.
From Batchie Require Import Lib.Sexp Lib.Num Lib.PyRt Model.Unrank Model.Dbal
  Proofs.C05Pad Proofs.C05Lse Proofs.C05Kernel Proofs.C05Scorer Proofs.C05Inv Proofs.C05Relabel
  Proofs.C05Checked Generated.SrcDbal Proofs.C05Source Proofs.C05Dtype.
Import ListNotations.

(* the vectorised kernel on the 0-padded means / NaN-padded variances of a list of plates =
   the direct, unpadded double loop on each plate alone *)
Theorem C05_vectorised_eq_direct : forall orc T plates D df ts,
  (0 < T)%nat -> Forall (plate_wf T) plates -> Forall (triple_valid T) ts ->
  kernel orc (pad_means (map fst plates)) (pad_vars (map snd plates)) D df ts
  = map (direct orc D df ts) plates.
Proof. exact hetero_eq_direct. Qed.
Print Assumptions C05_vectorised_eq_direct.

(* padding-independence in general: ANY dense arrays that hold the plates (plate p in cells
   (p, i, e), e < n_exp; 0 / NaN in the other cells of the first T rows; any width >= the widest
   plate, any number of rows) give the same scores *)
Theorem C05_kernel_on_padding : forall orc T plates pred vars D df ts,
  represents T plates pred vars -> Forall (triple_valid T) ts ->
  kernel orc pred vars D df ts = map (direct orc D df ts) plates.
Proof. exact kernel_represents. Qed.
Print Assumptions C05_kernel_on_padding.

(* the code's padding is such a representation *)
Theorem C05_padding_represents : forall T plates,
  (0 < T)%nat -> Forall (plate_wf T) plates ->
  represents T plates (pad_means (map fst plates)) (pad_vars (map snd plates)).
Proof. exact pad_represents. Qed.
Print Assumptions C05_padding_represents.

(* the score at a plate's position in any plate list = its score when it is scored alone *)
Theorem C05_alone_in_list : forall orc T D df ts before pl after,
  (0 < T)%nat -> Forall (plate_wf T) (before ++ pl :: after) -> Forall (triple_valid T) ts ->
  nth (length before) (hetero orc (before ++ pl :: after) D df ts) None
  = nth 0 (hetero orc [pl] D df ts) None.
Proof. exact hetero_alone. Qed.
Print Assumptions C05_alone_in_list.

(* the order in which the triples are enumerated is irrelevant *)
Theorem C05_triple_order_irrelevant : forall orc D df ts ts' pl,
  Permutation ts ts' -> direct orc D df ts pl = direct orc D df ts' pl.
Proof. exact direct_perm_triples. Qed.
Print Assumptions C05_triple_order_irrelevant.

(* the scorer: whatever max_chunk >= 1 (sub-grouping by array_split), whatever the other plates,
   whatever the per-group draws (each a permutation of one reference enumeration ts0), every key
   is paired with the direct estimator of its own plate, in key order *)
Theorem C05_alone : forall orc T mc plates D draws ts0,
  (0 < T)%nat -> (0 < mc)%nat ->
  Forall (fun kp => plate_wf T (snd kp)) plates ->
  Forall (triple_valid T) ts0 ->
  length draws = ceil_div (length plates) mc ->
  Forall (Permutation ts0) draws ->
  scorer orc mc plates D draws = map (fun kp => (fst kp, direct orc D 1%Qc ts0 (snd kp))) plates.
Proof. exact scorer_eq_direct. Qed.
Print Assumptions C05_alone.

(* hence: the same plate under the same key in two different scorer calls (other plates, their
   sizes, max_chunk, plate order, draws all different) receives the same score *)
Theorem C05_alone_pairwise : forall orc T D ts0 mc1 plates1 draws1 mc2 plates2 draws2 k pl s1 s2,
  (0 < T)%nat -> Forall (triple_valid T) ts0 ->
  (0 < mc1)%nat -> Forall (fun kp => plate_wf T (snd kp)) plates1 ->
  length draws1 = ceil_div (length plates1) mc1 -> Forall (Permutation ts0) draws1 ->
  (0 < mc2)%nat -> Forall (fun kp => plate_wf T (snd kp)) plates2 ->
  length draws2 = ceil_div (length plates2) mc2 -> Forall (Permutation ts0) draws2 ->
  NoDup (map fst plates1) -> NoDup (map fst plates2) ->
  In (k, pl) plates1 -> In (k, pl) plates2 ->
  In (k, s1) (scorer orc mc1 plates1 D draws1) -> In (k, s2) (scorer orc mc2 plates2 D draws2) ->
  s1 = s2.
Proof. exact scorer_alone. Qed.
Print Assumptions C05_alone_pairwise.

(* homoscedastic wrapper = heteroscedastic wrapper on the row-constant variance arrays, as coded *)
Theorem C05_wrappers_agree : forall orc preds variances D df ts,
  length preds = length variances ->
  homo orc preds variances D df ts = hetero orc (homo_plates preds variances) D df ts.
Proof. exact homo_eq_hetero. Qed.
Print Assumptions C05_wrappers_agree.

Theorem C05_homo_eq_direct : forall orc T preds variances D df ts,
  (0 < T)%nat -> length preds = length variances ->
  Forall (plate_wf T) (homo_plates preds variances) -> Forall (triple_valid T) ts ->
  homo orc preds variances D df ts = map (direct orc D df ts) (homo_plates preds variances).
Proof. exact homo_eq_direct. Qed.
Print Assumptions C05_homo_eq_direct.

(* permuting the experiments (columns of means and variances alike) of one plate changes nothing *)
Theorem C05_perm_experiments : forall orc T D df ts before pl after pi,
  (0 < T)%nat -> Forall (plate_wf T) (before ++ pl :: after) -> Forall (triple_valid T) ts ->
  Permutation pi (seq 0 (n_exp pl)) ->
  hetero orc (before ++ permute_plate pi pl :: after) D df ts = hetero orc (before ++ pl :: after) D df ts.
Proof. exact hetero_perm_experiments. Qed.
Print Assumptions C05_perm_experiments.

Theorem C05_perm_experiments_direct : forall orc T D df ts pl pi,
  (0 < T)%nat -> plate_wf T pl -> Forall (triple_valid T) ts ->
  Permutation pi (seq 0 (n_exp pl)) ->
  direct orc D df ts (permute_plate pi pl) = direct orc D df ts pl.
Proof. exact direct_perm_experiments. Qed.
Print Assumptions C05_perm_experiments_direct.

(* the score is -inf exactly when every enumerated triple has zero summed distance *)
Theorem C05_finite_iff : forall orc D df ts pl,
  direct orc D df ts pl <> None <-> exists t, In t ts /\ k_dsum D t <> 0%Qc.
Proof. exact direct_finite_iff. Qed.
Print Assumptions C05_finite_iff.

(* relabelling the posterior samples by any permutation sg (new sample i = old sample sg[i]),
   consistently in means, variances and a symmetric matrix, leaves every score unchanged when
   both runs enumerate every triple a > b > c exactly once (in any order) *)
Theorem C05_relabel : forall orc T sg plates D df ts ts',
  (0 < T)%nat -> Permutation sg (seq 0 T) -> Forall (plate_wf T) plates -> sym_on T D ->
  complete T ts -> complete T ts' ->
  hetero orc (map (relabel_plate sg) plates) (relabel_matrix sg D) df ts' = hetero orc plates D df ts.
Proof. exact hetero_relabel. Qed.
Print Assumptions C05_relabel.

Theorem C05_relabel_direct : forall orc T sg D df ts ts' pl,
  (0 < T)%nat -> Permutation sg (seq 0 T) -> plate_wf T pl -> sym_on T D ->
  complete T ts -> complete T ts' ->
  direct orc (relabel_matrix sg D) df ts' (relabel_plate sg pl) = direct orc D df ts pl.
Proof. exact direct_relabel. Qed.
Print Assumptions C05_relabel_direct.

(* on well-formed input none of the ValueErrors fires: the entry point returns the pure value
   on the triples obtained from the recorded draw by the modelled unranking *)
Theorem C05_checked_ok : forall orc T plates D df idxs,
  (3 <= T)%nat -> plates <> [] -> Forall (plate_wf T) plates -> rect T T D ->
  hetero_checked orc plates D df idxs
  = res_bind (triples_of_draw T idxs) (fun ts => Ok (hetero orc plates D df ts)).
Proof. exact hetero_checked_ok. Qed.
Print Assumptions C05_checked_ok.

(* likewise the scorer as run through the wire (checks + unranking of one recorded draw per
   sub-group) returns the pure scorer value of C05_alone *)
Theorem C05_scorer_checked_ok : forall orc T D, (3 <= T)%nat -> rect T T D ->
  forall mc plates draws_idx draws_ts,
  (0 < mc)%nat -> plates <> [] ->
  Forall (fun kp => plate_wf T (snd kp)) plates ->
  Forall2 (fun idxs ts => triples_of_draw T idxs = Ok ts) draws_idx draws_ts ->
  scorer_checked orc mc plates D draws_idx = Ok (scorer orc mc plates D draws_ts).
Proof. exact scorer_checked_ok. Qed.
Print Assumptions C05_scorer_checked_ok.

(* ==== composition (gaps G5.3 / G15.1): the premise "all triples are enumerated" is DISCHARGED, not assumed ====
   What the source links provide about a call is a recorded rng.choice answer d obeying numpy's contract
   (choice_ok n k d: k distinct values of range(n)).  When the budget covers C(T,3) the call is
   rng.choice(C(T,3), size=C(T,3), replace=False); property C15's bijection then makes the unranked triples a complete
   enumeration, and C05_alone / C05_vectorised_eq_direct apply.  comb3 T = C(T,3) (C15_comb3_is_binomial). *)
From Batchie Require Import Model.Binom Proofs.C15UseSite Proofs.C05Compose Proofs.C05Domain.

(* a full draw unranks WITHOUT ERROR to every triple a > b > c below T exactly once, all of them valid *)
Theorem C05_full_draw_complete : forall (T : nat) (d : list Z),
  (3 <= T)%nat -> choice_ok (comb3 (Z.of_nat T)) (comb3 (Z.of_nat T)) d = true ->
  exists ts, triples_of_draw T d = Ok ts /\ complete T ts /\ Forall (triple_valid T) ts.
Proof. exact full_draw_complete. Qed.
Print Assumptions C05_full_draw_complete.

(* any contract-obeying draw (sub-sampled budgets included) unranks without error to k distinct valid triples: the
   hypothesis `triples_of_draw T idxs = Ok ts` of C05_checked_ok / C05_scorer_checked_ok always holds *)
Theorem C05_draw_valid : forall (T : nat) (k : Z) (d : list Z),
  choice_ok (comb3 (Z.of_nat T)) k d = true ->
  exists ts, triples_of_draw T d = Ok ts /\ Z.of_nat (length ts) = k /\ NoDup ts /\ Forall (triple_valid T) ts.
Proof. exact sub_draw_valid. Qed.
Print Assumptions C05_draw_valid.

(* END TO END on the translated GaussianDBALScorer.score: T >= 3 samples, a square T x T matrix, any max_chunk >= 1, any dict
   of well-formed plates, every recorded answer a full draw (budget >= C(T,3)): the translation returns - no error - each key
   with the direct estimator of ITS OWN plate on one reference enumeration ts0 (any complete one).  The right-hand side
   mentions neither max_chunk, nor the other plates, nor the draws: that is the independence the property states *)
Theorem C05_source_score_full_enumeration : forall orc (T mc : nat) (plates : list (Z * pyplate)) (D : arr2) (draws : list (list Z)) ts0,
  (3 <= T)%nat -> rect T T D -> (0 < mc)%nat ->
  NoDup (map fst plates) -> sel_uniform plates ->
  Forall (fun kp => plate_wf T (snd (snd kp))) plates ->
  (ceil_div (length plates) mc <= length draws)%nat ->
  Forall (fun d => choice_ok (comb3 (Z.of_nat T)) (comb3 (Z.of_nat T)) d = true) draws ->
  complete T ts0 ->
  src_score orc (Z.of_nat mc) plates D draws
  = Ok (map (fun kp => (fst kp, direct orc D 1%Qc ts0 (snd (snd kp)))) plates).
Proof. exact src_score_full_enumeration. Qed.
Print Assumptions C05_source_score_full_enumeration.

(* the same for the translated heteroscedastic wrapper ... *)
Theorem C05_source_hetero_full_enumeration : forall orc (T : nat) (plates : list plate) (D : arr2) df idxs ts0,
  (3 <= T)%nat -> rect T T D -> plates <> [] -> Forall (plate_wf T) plates ->
  choice_ok (comb3 (Z.of_nat T)) (comb3 (Z.of_nat T)) idxs = true -> complete T ts0 ->
  src_hetero orc (map fst plates) (map snd plates) D df idxs = Ok (map (direct orc D df ts0) plates).
Proof. exact src_hetero_full_enumeration. Qed.
Print Assumptions C05_source_hetero_full_enumeration.

(* ... and for the vectorised kernel through its TRANSLATED shape checks and its TRANSLATED index-to-triple run with a budget
   max_combos >= C(T,3) (then tensor expressions `kernel`, not translated) on the padded arrays of any plate list *)
Theorem C05_source_kernel_full_enumeration : forall orc (T : nat) (plates : list plate) (D : arr2) df (mc : Z) (d : list Z) rest ts0,
  (3 <= T)%nat -> rect T T D -> plates <> [] -> Forall (plate_wf T) plates ->
  (comb3 (Z.of_nat T) <= mc)%Z ->
  choice_ok (comb3 (Z.of_nat T)) (comb3 (Z.of_nat T)) d = true -> complete T ts0 ->
  (dor _ <- src_kernel_checks (pad_means (map fst plates)) (pad_vars (map snd plates)) D;
   dor r <- src_kernel_triples (pad_means (map fst plates)) mc (d :: rest);
   Ok (kernel orc (pad_means (map fst plates)) (pad_vars (map snd plates)) D df (nat_triples (fst r))))
  = Ok (map (direct orc D df ts0) plates).
Proof. exact src_kernel_full_enumeration. Qed.
Print Assumptions C05_source_kernel_full_enumeration.

(* ==== the domain on which the model's totalisations are never reached (gap G5.6; see the header) ==== *)
(* positive variances: alpha > 0 on every cell the kernel computes with (NaN-padded cells carry variance 1) *)
Theorem C05_domain_alpha_positive : forall (vars : arr3n) p t e, vars_pos vars -> (0 < k_alpha vars p t e)%Qc.
Proof. exact k_alpha_pos. Qed.
Print Assumptions C05_domain_alpha_positive.
Theorem C05_domain_alpha_positive_direct : forall v1 v2 v3 : Qc,
  (0 < v1 -> 0 < v2 -> 0 < v3 -> 0 < v1 * v2 + v2 * v3 + v1 * v3)%Qc.
Proof. exact triple_alpha_pos. Qed.
Print Assumptions C05_domain_alpha_positive_direct.
(* non-negative matrix: the log-distance term is -inf exactly at summed distance 0, else df * ln of a POSITIVE number *)
Theorem C05_domain_distance_term : forall orc (D : arr2) df t, matrix_nonneg D ->
  (k_dsum D t = 0%Qc /\ k_ltd orc D df t = None) \/
  ((0 < k_dsum D t)%Qc /\ k_ltd orc D df t = Some (df * ln orc (k_dsum D t))%Qc).
Proof. exact k_ltd_domain. Qed.
Print Assumptions C05_domain_distance_term.

(* ---- non-vacuity: concrete instances, oracle = simple rational functions ---- *)
Definition ex_orc : oracle := fun code x => if Z.eqb code 0 then (x - 1)%Qc else (1 + x * Q2Qc (1 # 2))%Qc.
Definition q (n : Z) (d : positive) : Qc := Q2Qc (n # d).
(* T = 4; plate A has 2 experiments, plate B has 1 (so B is padded) *)
Definition ex_A : plate :=
  ([[q 1 2; q 0 1]; [q 1 1; q (-1) 4]; [q 3 2; q 1 8]; [q 0 1; q 2 1]],
   [[q 1 1; q 2 1]; [q 1 4; q 1 1]; [q 4 1; q 1 2]; [q 1 1; q 8 1]]).
Definition ex_B : plate :=
  ([[q 1 1]; [q (-1) 2]; [q 1 4]; [q 3 1]], [[q 2 1]; [q 1 8]; [q 1 1]; [q 1 2]]).
Definition ex_D : list (list Qc) :=
  [[q 0 1; q 1 1; q 0 1; q 2 1]; [q 1 1; q 0 1; q 0 1; q 1 2]; [q 0 1; q 0 1; q 0 1; q 0 1]; [q 2 1; q 1 2; q 0 1; q 0 1]].
Definition ex_ts : list triple := [(3, 2, 1); (2, 1, 0); (3, 1, 0); (3, 2, 0)]%nat.
Definition show (l : list ext) : list (option Q) := map (option_map this) l.

Example C05_ex_draw : triples_of_draw 4 [3; 0; 1; 2]%Z = Ok ex_ts.
Proof. vm_compute. reflexivity. Qed.

Example C05_ex_wf : Forall (plate_wf 4) [ex_A; ex_B] /\ Forall (triple_valid 4) ex_ts.
Proof.
  split.
  - repeat constructor; [exists 2%nat|exists 1%nat]; repeat constructor.
  - repeat constructor.
Qed.

(* padded arrays really are padded, the two plates get different finite scores, and they are the
   direct one-plate values *)
Example C05_ex_padding : map (map (map (option_map this))) (pad_vars (map snd [ex_A; ex_B]))
  = [[[Some (1#1); Some (2#1)]; [Some (1#4); Some (1#1)]; [Some (4#1); Some (1#2)]; [Some (1#1); Some (8#1)]];
     [[Some (2#1); None]; [Some (1#8); None]; [Some (1#1); None]; [Some (1#2); None]]]%Q.
Proof. vm_compute. reflexivity. Qed.

Example C05_ex_scores :
  show (hetero ex_orc [ex_A; ex_B] ex_D 1%Qc ex_ts) = show (map (direct ex_orc ex_D 1%Qc ex_ts) [ex_A; ex_B])
  /\ show (hetero ex_orc [ex_A; ex_B] ex_D 1%Qc ex_ts) = show [direct ex_orc ex_D 1%Qc ex_ts ex_A; direct ex_orc ex_D 1%Qc ex_ts ex_B]
  /\ show [direct ex_orc ex_D 1%Qc ex_ts ex_A] <> show [direct ex_orc ex_D 1%Qc ex_ts ex_B]
  /\ direct ex_orc ex_D 1%Qc ex_ts ex_A <> None.
Proof. vm_compute. repeat split; discriminate. Qed.

(* scorer: 3 keys, max_chunk 2 -> groups of sizes 2 and 1, each with its own draw order *)
Example C05_ex_scorer :
  map (fun ks => (fst ks, option_map this (snd ks)))
      (scorer ex_orc 2 [(7%Z, ex_B); (3%Z, ex_A); (5%Z, ex_B)] ex_D [ex_ts; rev ex_ts])
  = map (fun kp => (fst kp, option_map this (direct ex_orc ex_D 1%Qc ex_ts (snd kp))))
        [(7%Z, ex_B); (3%Z, ex_A); (5%Z, ex_B)].
Proof. vm_compute. reflexivity. Qed.

(* an all-zero matrix gives -inf; one positive pair makes the score finite *)
Example C05_ex_neg_inf :
  hetero ex_orc [ex_A; ex_B] (repeat (repeat 0%Qc 4) 4) 1%Qc ex_ts = [None; None].
Proof. vm_compute. reflexivity. Qed.

(* the premise "all triples enumerated" matters: two different sub-samples of the triples
   give different scores, so the theorems above are not true for trivial reasons *)
Example C05_ex_subsample_matters :
  option_map this (direct ex_orc ex_D 1%Qc [(3, 2, 1)]%nat ex_A)
  <> option_map this (direct ex_orc ex_D 1%Qc [(3, 1, 0)]%nat ex_A).
Proof. vm_compute. discriminate. Qed.

(* complete enumerations exist (T = 3: the single triple), and relabelling is exercised *)
Example C05_ex_complete : complete 3 [(2, 1, 0)]%nat.
Proof.
  split; [repeat constructor; intros []|].
  intros a b c. split.
  - intros [H|[]]. inversion H. lia.
  - intros H. left. assert (a = 2 /\ b = 1 /\ c = 0)%nat as (-> & -> & ->) by lia. reflexivity.
Qed.

Definition ex_C : plate := ([[q 1 2; q 0 1]; [q 1 1; q (-1) 4]; [q 3 2; q 1 8]], [[q 1 1; q 2 1]; [q 1 4; q 1 1]; [q 4 1; q 1 2]]).
Definition ex_D3 : list (list Qc) := [[q 0 1; q 1 1; q 3 1]; [q 1 1; q 0 1; q 1 2]; [q 3 1; q 1 2; q 0 1]].
Example C05_ex_relabel :
  relabel_plate [2; 0; 1]%nat ex_C <> ex_C
  /\ show (hetero ex_orc [relabel_plate [2; 0; 1]%nat ex_C] (relabel_matrix [2; 0; 1]%nat ex_D3) 1%Qc [(2, 1, 0)]%nat)
     = show (hetero ex_orc [ex_C] ex_D3 1%Qc [(2, 1, 0)]%nat)
  /\ hetero ex_orc [ex_C] ex_D3 1%Qc [(2, 1, 0)]%nat <> [None].
Proof. vm_compute. repeat split; discriminate. Qed.

(* ==== source-translation links ====
   The src_* functions are the Gallina translations of the functions of /repo's scoring/gaussian_dbal.py, regenerated
   on every run (Generated/SrcDbal.v; harness/py2gal.py with the configurations C05_* of harness/src_functions.py).
   Float arrays are lists of lists of exact rationals, NaN = None; a ScreenSubset is (selection_vector, (means,
   variances)) = what predict_mean_all / predict_variance_all return for it; `draws` are the recorded rng.choice answers. *)

(* GaussianDBALScorer.score, whole method, for EVERY integer max_chunk: the translation equals the model scorer (with
   the ZeroDivisionError / np.array_split ValueError of a non-positive max_chunk in front: scorer_py).  Hypotheses, all
   facts about every reachable call: the plates dict has distinct keys (it is a dict); the plates' selection vectors have
   one common length (they are views of one screen; they only feed a mask nothing reads); one recorded rng.choice answer
   is available per sub-group (the kernel is called once per sub-group). *)
Theorem C05_model_is_source_score : forall orc (max_chunk : Z) (plates : list (Z * pyplate)) (D : arr2) (draws : list (list Z)),
  NoDup (map fst plates) -> sel_uniform plates ->
  (ceil_div (length plates) (Z.to_nat max_chunk) <= length draws)%nat ->
  src_score orc max_chunk plates D draws = scorer_py orc max_chunk (forget_sel plates) D draws.
Proof. exact src_score_is_model. Qed.
Print Assumptions C05_model_is_source_score.

(* for a positive max_chunk that is the model scorer of C05_scorer_checked_ok / C05_alone itself *)
Theorem C05_model_is_source_score_positive_chunk : forall orc (mc : nat) (plates : list (Z * pyplate)) D draws,
  (0 < mc)%nat -> NoDup (map fst plates) -> sel_uniform plates ->
  (ceil_div (length plates) mc <= length draws)%nat ->
  src_score orc (Z.of_nat mc) plates D draws = scorer_checked orc mc (forget_sel plates) D draws.
Proof. exact src_score_is_scorer_checked. Qed.
Print Assumptions C05_model_is_source_score_positive_chunk.

(* pad_ragged_arrays_to_dense_array, whole function, any element type, any pad value, ALL inputs: np.max of no arrays
   raises, otherwise the model's pad_ragged *)
Theorem C05_model_is_source_pad_ragged_arrays_to_dense_array : forall (A : Type) (arrays : list (list (list A))) (pad : A),
  src_pad A arrays pad = match arrays with [] => Err 27%Z | _ => Ok (pad_ragged pad arrays) end.
Proof. exact src_pad_is_model. Qed.
Print Assumptions C05_model_is_source_pad_ragged_arrays_to_dense_array.

(* the two padding calls the scorer and the wrappers make (primitives of their translations) ARE that translation *)
Theorem C05_model_is_source_pad_means : forall ms, pad_means_py ms = src_pad Qc ms 0%Qc.
Proof. exact pad_means_py_is_source. Qed.
Print Assumptions C05_model_is_source_pad_means.
Theorem C05_model_is_source_pad_vars : forall vs, pad_vars_py vs = src_pad (option Qc) (map (map (map Some)) vs) None.
Proof. exact pad_vars_py_is_source. Qed.
Print Assumptions C05_model_is_source_pad_vars.

(* dbal_fast_gaussian_scoring_heteroscedastic, whole function, on the means / variances of ANY plate list *)
Theorem C05_model_is_source_heteroscedastic : forall orc (plates : list plate) D df idxs,
  src_hetero orc (map fst plates) (map snd plates) D df idxs
  = match plates with [] => Err 27%Z | _ => hetero_checked orc plates D df idxs end.
Proof. exact src_hetero_is_model. Qed.
Print Assumptions C05_model_is_source_heteroscedastic.

(* dbal_fast_gaussian_scoring_homoscedastic, whole function, ALL inputs *)
Theorem C05_model_is_source_homoscedastic : forall orc (preds : list arr2) (variances : arr2) D df idxs,
  src_homo orc preds variances D df idxs
  = match preds with
    | [] => match variances with [] => Err 27%Z | _ => Err 25%Z end
    | _ => homo_checked orc preds variances D df idxs
    end.
Proof. exact src_homo_is_model. Qed.
Print Assumptions C05_model_is_source_homoscedastic.

(* dbal_fast_gauss_scoring_vectorized: its three shape checks (a run of top-level statements), ALL inputs *)
Theorem C05_model_is_source_kernel_checks : forall (pred : arr3) (vars : arr3n) (D : arr2),
  src_kernel_checks pred vars D
  = let '(np, T, E) := shape3 pred in
    let '(np', T', E') := shape3 vars in
    if negb (Nat.eqb np np' && Nat.eqb T T' && Nat.eqb E E') then Err 20%Z
    else if negb (Nat.eqb (fst (shape2 D)) (snd (shape2 D))) then Err 21%Z
    else if negb (Nat.eqb (fst (shape2 D)) T) then Err 22%Z
    else Ok tt.
Proof. exact src_kernel_checks_spec. Qed.
Print Assumptions C05_model_is_source_kernel_checks.

(* its index-to-triple run (n_combos = comb(n_thetas, 3), the raise below 3 samples, min with the budget, rng.choice,
   get_combination_at_sorted_index per index, the three index arrays), for a budget >= 1 and a recorded answer d that
   obeys numpy's contract for rng.choice(comb, size=min(comb, budget), replace=False) *)
Theorem C05_model_is_source_kernel_triples : forall (pred : arr3) (mc : Z) (d : list Z) (rest : list (list Z)) np T E,
  shape3 pred = (np, T, E) -> (1 <= mc)%Z ->
  choice_ok (comb3 (Z.of_nat T)) (Z.min (comb3 (Z.of_nat T)) mc) d = true ->
  src_kernel_triples pred mc (d :: rest)
  = if (T <? 3)%nat then Err 23%Z
    else dor zs <- res_map_all (fun i => unrank3 i (Z.of_nat T)) d;
         dor t3 <- unzip3 zs;
         Ok (t3, rest).
Proof. exact src_kernel_triples_spec. Qed.
Print Assumptions C05_model_is_source_kernel_triples.

(* hence the model's checked kernel (what every theorem above about hetero_checked / scorer_checked runs) IS: the
   translated checks, then the translated index run on the recorded answer, then the tensor expressions [kernel]
   (not translated: correspondence only) on the triples that run delivers *)
Theorem C05_model_is_source_kernel : forall orc (pred : arr3) (vars : arr3n) (D : arr2) df (mc : Z) (d : list Z) rest,
  (1 <= mc)%Z ->
  (let T := Z.of_nat (snd (fst (shape3 pred))) in choice_ok (comb3 T) (Z.min (comb3 T) mc) d = true) ->
  kernel_checked orc pred vars D df d
  = dor _ <- src_kernel_checks pred vars D;
    dor r <- src_kernel_triples pred mc (d :: rest);
    Ok (kernel orc pred vars D df (nat_triples (fst r))).
Proof. exact kernel_checked_is_source. Qed.
Print Assumptions C05_model_is_source_kernel.

(* non-vacuity of the links' hypotheses: a dict of three plates with distinct keys and selection vectors of one length,
   two recorded draws obeying the contract; the translation runs to a value (no error), the one of C05_ex_scorer *)
Definition ex_py : list (Z * pyplate) :=
  [(7%Z, ([true; false; false], ex_B)); (3%Z, ([false; true; true], ex_A)); (5%Z, ([true; false; false], ex_B))].
Example C05_ex_source_hyps :
  NoDup (map fst ex_py) /\ sel_uniform ex_py /\ (ceil_div (length ex_py) (Z.to_nat 2) <= length [[3; 0; 1; 2]; [2; 1; 0; 3]]%Z)%nat
  /\ choice_ok (comb3 4) (Z.min (comb3 4) 5000) [3; 0; 1; 2]%Z = true.
Proof.
  split; [|split; [|split]].
  - repeat constructor; cbn; intuition discriminate.
  - exists 3%nat. repeat constructor.
  - vm_compute. lia.
  - vm_compute. reflexivity.
Qed.
Example C05_ex_source_score :
  option_map (map (fun ks => (fst ks, option_map this (snd ks))))
    (match src_score ex_orc 2 ex_py ex_D [[3; 0; 1; 2]; [2; 1; 0; 3]]%Z with Ok r => Some r | Err _ => None end)
  = Some (map (fun ks => (fst ks, option_map this (snd ks)))
              (scorer ex_orc 2 [(7%Z, ex_B); (3%Z, ex_A); (5%Z, ex_B)] ex_D [ex_ts; rev ex_ts])).
Proof. vm_compute. reflexivity. Qed.

(* ---- the constructor of GaussianDBALScorer (Generated/SrcInits.v): __init__ stores max_chunk and max_triples (defaults 50 / 5000,
   checked against the signature), the attributes the translated score reads / hands to the kernel as max_combos ---- *)
From Batchie Require Generated.SrcInits Proofs.C05Source_Init_DBALScorer.
Theorem C05_model_is_source_init : forall max_chunk max_triples : Z, SrcInits.src_dbal_scorer_init max_chunk max_triples = Ok (max_chunk, max_triples).
Proof. exact C05Source_Init_DBALScorer.src_dbal_scorer_init_stores. Qed.
Print Assumptions C05_model_is_source_init.

(* non-vacuity of the composition: T = 4, the recorded answers of C05_ex_source_hyps ARE full draws (C(4,3) = 4 <= 5000),
   ex_ts is a complete enumeration, the plates are well-formed, the matrix is 4 x 4 *)
Example C05_ex_full_enumeration_hyps :
  Forall (fun d => choice_ok (comb3 4) (comb3 4) d = true) [[3; 0; 1; 2]; [2; 1; 0; 3]]%Z
  /\ rect 4 4 ex_D /\ Forall (fun kp : Z * pyplate => plate_wf 4 (snd (snd kp))) ex_py.
Proof.
  split; [repeat constructor|]. split; [repeat constructor|].
  repeat constructor; [exists 1%nat|exists 2%nat|exists 1%nat]; repeat constructor.
Qed.
Example C05_ex_full_draw : exists ts, triples_of_draw 4 [3; 0; 1; 2]%Z = Ok ts /\ complete 4 ts.
Proof.
  destruct (C05_full_draw_complete 4 [3; 0; 1; 2]%Z ltac:(lia) eq_refl) as (ts & E & Hc & _). now exists ts.
Qed.

(* ---- the dtype of the dense array (repair fx2: np.result_type over ALL the arrays and the pad value) ----
   The theorems above read a plate's values out of the dense array unchanged.  At the level of numpy dtypes that needs the dense
   array to hold every plate's dtype; [pad_dtype] is the dtype the repaired allocation takes (floating-point arrays by precision;
   checked against the real function on every run, wire op 5). *)
(* no plate is rounded when it is stored: the dense dtype holds the dtype of EVERY plate of the call, wherever it stands *)
Theorem C05_pad_dtype_holds_every_plate : forall ds dense,
  pad_dtype ds = Ok dense -> forall d, In d ds -> dt_le d dense = true.
Proof. exact pad_dtype_holds_every_plate. Qed.
Print Assumptions C05_pad_dtype_holds_every_plate.

Theorem C05_pad_dtype_stored_exactly : forall ds dense k,
  pad_dtype ds = Ok dense -> stored_exactly dense ds k = true.
Proof. exact pad_dtype_stored_exactly. Qed.
Print Assumptions C05_pad_dtype_stored_exactly.

(* and nothing is widened beyond need: the dense dtype is the dtype of one of the plates (an all-float32 call stays float32) *)
Theorem C05_pad_dtype_is_a_plate_dtype : forall ds dense, pad_dtype ds = Ok dense -> In dense ds.
Proof. exact pad_dtype_is_a_plate_dtype. Qed.
Print Assumptions C05_pad_dtype_is_a_plate_dtype.

(* the order of the plates (which plate stands first) does not matter *)
Theorem C05_pad_dtype_order_irrelevant : forall ds ds', Permutation ds ds' -> pad_dtype ds = pad_dtype ds'.
Proof. exact pad_dtype_perm. Qed.
Print Assumptions C05_pad_dtype_order_irrelevant.

(* the code BEFORE the repair (dtype of the first plate): a float64 plate behind a float32 plate was rounded, and the two orders
   of the same two plates were stored at different precisions *)
Theorem C05_pad_dtype_first_plate_refuted : exists ds dense k,
  pad_dtype_of true ds = Ok dense /\ stored_exactly dense ds k = false.
Proof. exact pad_dtype_first_only_rounds. Qed.
Print Assumptions C05_pad_dtype_first_plate_refuted.

Theorem C05_pad_dtype_first_plate_order_refuted : exists ds ds',
  Permutation ds ds' /\ pad_dtype_of true ds <> pad_dtype_of true ds'.
Proof. exact pad_dtype_first_only_order. Qed.
Print Assumptions C05_pad_dtype_first_plate_order_refuted.

Example C05_ex_pad_dtype : pad_dtype [F32; F64; F16] = Ok F64 /\ pad_dtype [F32; F16] = Ok F32 /\ pad_dtype [] = Err 27%Z
  /\ pad_dtype_of true [F32; F64; F16] = Ok F32.
Proof. vm_compute. repeat split. Qed.
