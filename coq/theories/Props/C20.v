(* C20 — Evaluation metrics and synergy values equal their definitions.
   Statements only; every proof is `exact <lemma from Proofs/>`.  The "code" side of each
   equation is the transcription of the numpy expression (Model/Metrics.v, Model/Synergy.v,
   Model/Corr.v); the "definition" side is the loop / explicit-sum form of Proofs/C20Spec.v.
   NaN (mean of an empty array, 0/0) is Err E_NAN / None on the code side. *)
From Coq Require Import ZArith List QArith Qcanon Sorted.
From Batchie Require Import Lib.Sexp Lib.Num Model.Metrics Model.Synergy Model.Corr
  Proofs.C20Spec Proofs.C20Base Proofs.C20Metrics Proofs.C20Synergy Proofs.C20Corr
  Generated.SrcSynergy Proofs.C20Source Generated.SrcMetrics Proofs.C20SourceMetrics Generated.SrcSpace Proofs.C20SourceSpace.
Import ListNotations.

(* ---- ModelEvaluation ----  e is any evaluation the constructor accepts: n = length P experiments,
   m posterior samples *)

(* overall MSE = (1/(n m)) sum_i sum_j (P[i][j] - o[i])^2 ; NaN when n = 0 or m = 0 *)
Theorem C20_mse_def : forall m P o ch nm e,
  mk_eval m P o ch nm = Ok e ->
  ev_mse e = if Nat.eqb (length P) 0 || Nat.eqb m 0 then Err E_NAN
             else Ok (mse_def P o (length P) m).
Proof. exact mse_eq. Qed.
Print Assumptions C20_mse_def.

(* its variance = population variance across EXPERIMENTS of the per-experiment MSE *)
Theorem C20_mse_variance_def : forall m P o ch nm e,
  mk_eval m P o ch nm = Ok e ->
  ev_mse_variance e = if Nat.eqb (length P) 0 || Nat.eqb m 0 then Err E_NAN
                      else Ok (mse_variance_def P o (length P) m).
Proof. exact mse_variance_eq. Qed.
Print Assumptions C20_mse_variance_def.

(* inter-chain variance = population variance, over the distinct chain ids, of the per-chain MSE
   (any labelling: unequal chain lengths, interleaved, non-contiguous labels) *)
Theorem C20_inter_chain_def : forall m P o ch nm e,
  mk_eval m P o ch nm = Ok e ->
  ev_inter_chain e = if Nat.eqb (length P) 0 || Nat.eqb m 0 then Err E_NAN
                     else Ok (inter_chain_def P o ch (length P) m).
Proof. exact inter_chain_eq. Qed.
Print Assumptions C20_inter_chain_def.

Theorem C20_inter_chain_one_chain : forall m P o ch nm e c,
  mk_eval m P o ch nm = Ok e -> (0 < length P)%nat -> (0 < m)%nat ->
  Forall (fun x => x = c) ch -> ev_inter_chain e = Ok 0%Qc.
Proof. exact inter_chain_one_chain. Qed.
Print Assumptions C20_inter_chain_one_chain.

(* mean predictions: entry i = (1/m) sum_j P[i][j] *)
Theorem C20_mean_predictions_def : forall m P o ch nm e,
  mk_eval m P o ch nm = Ok e ->
  ev_mean_predictions e = if negb (Nat.eqb (length P) 0) && Nat.eqb m 0 then Err E_NAN
                          else Ok (map (mean_prediction_def P m) (seq 0 (length P))).
Proof. exact mean_predictions_eq. Qed.
Print Assumptions C20_mean_predictions_def.

(* an evaluation file reloads unchanged — for EVERY evaluation the constructor accepts,
   including those with zero experiments and / or zero posterior samples *)
Theorem C20_eval_save_load : forall m P o ch nm e,
  mk_eval m P o ch nm = Ok e -> ev_load (ev_save e) = Ok e.
Proof. exact eval_save_load. Qed.
Print Assumptions C20_eval_save_load.

(* retrospective.calculate_mse = (1/n) sum_i ((1/T) sum_theta p[theta][i] - o[i])^2 *)
Theorem C20_calculate_mse_def : forall pt o,
  Forall (fun r => length r = length o) pt ->
  calculate_mse pt o = if Nat.eqb (length pt) 0 || Nat.eqb (length o) 0 then Err E_NAN
                       else Ok (calculate_mse_def pt o (length pt) (length o)).
Proof. exact calculate_mse_eq. Qed.
Print Assumptions C20_calculate_mse_def.

(* ---- single-agent effects ----  well-formed input: arity >= 2 columns, one sample id and one
   observation per row, ids >= -1 (what Screen produces) *)

(* the dict: for every sample s and id t occurring in the arrays, the effect is 1 if t is control,
   else the mean of s's observations in whose row t occurs with every other column control;
   no entry when there is no such observation, and no entry for anything else *)
Theorem C20_single_effect_def : forall arity sids tids obs,
  (2 <= arity)%nat -> length sids = length tids -> length obs = length tids ->
  Forall (fun r => length r = arity) tids -> Forall (Forall valid_id) tids ->
  exists m, effect_map arity sids tids obs = Ok m /\
    forall s t, map_lookup m s t
                = if existsb (Z.eqb s) sids && existsb (Z.eqb t) (concat tids)
                  then single_effect_def sids tids obs s t else None.
Proof. exact effect_map_eq. Qed.
Print Assumptions C20_single_effect_def.

Theorem C20_effect_map_rejects : forall arity sids tids obs,
  ((arity < 2)%nat -> effect_map arity sids tids obs = Err E_VALUE) /\
  ((2 <= arity)%nat -> (length obs <> length tids \/ length sids <> length tids) ->
   effect_map arity sids tids obs = Err E_INDEX).
Proof. exact effect_map_rejects. Qed.
Print Assumptions C20_effect_map_rejects.

(* the array: entry (i, j) = the effect of (sample_i, id_ij); KeyError iff some entry has none *)
Theorem C20_effect_array_def : forall arity sids tids obs,
  (2 <= arity)%nat -> length sids = length tids -> length obs = length tids ->
  Forall (fun r => length r = arity) tids -> Forall (Forall valid_id) tids ->
  effect_array arity sids tids obs = effect_array_def sids tids obs.
Proof. exact effect_array_eq. Qed.
Print Assumptions C20_effect_array_def.

(* ---- Bliss synergy ----  for every row that is not a single-agent row, in row order:
   (sample, non-control ids, product over ALL columns of the single-agent effects - observation);
   a row lacking a single-agent measurement is skipped, or refused (Err) in strict mode;
   np.array of id rows of different lengths is refused *)
Theorem C20_synergy_def : forall arity sids tids obs,
  (2 <= arity)%nat -> length sids = length tids -> length obs = length tids ->
  Forall (fun r => length r = arity) tids -> Forall (Forall valid_id) tids ->
  forall strict, calculate_synergy strict arity sids tids obs = synergy_def sids tids obs strict.
Proof. exact synergy_eq. Qed.
Print Assumptions C20_synergy_def.

(* ---- combinatoric space and correlation matrix ---- *)

(* itertools.combinations(rows, k): the rows at every strictly increasing k-tuple of positions,
   each exactly once (lexicographic order is the order of [combs] itself) *)
Theorem C20_combs_every_subset_once : forall (A : Type) (l : list A) (d : A) (k : nat),
  combs l k = map (map (fun p => nth p l d)) (combs (seq 0 (length l)) k)
  /\ NoDup (combs (seq 0 (length l)) k)
  /\ forall idx, In idx (combs (seq 0 (length l)) k)
                 <-> (length idx = k /\ StronglySorted lt idx /\ Forall (fun p => (p < length l)%nat) idx).
Proof. exact @combs_every_subset_once. Qed.
Print Assumptions C20_combs_every_subset_once.

(* the space's id rows are the screen's own ids of those mapping rows (keyed lookup in the
   screen's mapping, unique keys), one row per combination; its sample id is the requested one *)
Theorem C20_space_all_combinations : forall mapping smap arity s ss tids,
  NoDup (map fst mapping) ->
  full_space mapping smap arity s = Ok (ss, tids) ->
  tids = map (map snd) (combs mapping arity)
  /\ exists sid, ss = map (fun _ => sid) (combs mapping arity) /\ (NoDup (map fst smap) -> sid = s).
Proof. exact full_space_eq. Qed.
Print Assumptions C20_space_all_combinations.

(* symmetric, for ANY sqrt oracle, all positions (out-of-range positions read None) *)
Theorem C20_corr_symmetric : forall orc f mapping smap arity nthetas rows index M i j,
  correlation_matrix orc f mapping smap arity nthetas rows = Ok (index, M) ->
  mat_get M i j = mat_get M j i.
Proof. exact correlation_matrix_symmetric. Qed.
Print Assumptions C20_corr_symmetric.

(* unit diagonal wherever the entry is defined.  x is row i of X = P - mean(P, axis=0).  The
   square-root property is needed only at this row's sum of squares (the global statement
   "sqrt x * sqrt x = x for all x >= 0" has no model over the rationals, so it is not used). *)
Theorem C20_corr_unit_diag : forall orc P ncols i x,
  nth_error (centered P ncols) i = Some x ->
  sumsq x <> 0%Qc ->
  (orc ORC_SQRT (sumsq x) * orc ORC_SQRT (sumsq x) = sumsq x)%Qc ->
  mat_get (corr_of orc P ncols) i i = Some 1%Qc.
Proof. exact corr_of_unit_diag. Qed.
Print Assumptions C20_corr_unit_diag.

(* ... and NaN exactly when the sample's average predictions equal the across-sample mean *)
Theorem C20_corr_nan_diag : forall orc P ncols i x,
  nth_error (centered P ncols) i = Some x -> sumsq x = 0%Qc ->
  mat_get (corr_of orc P ncols) i i = None.
Proof. exact corr_of_nan_diag. Qed.
Print Assumptions C20_corr_nan_diag.

(* "non-constant row" is not the right condition: one sample, non-constant predictions, NaN *)
Theorem C20_corr_unit_diag_nonconstant_rows_refuted :
  exists orc f mapping smap arity nthetas rows index,
    correlation_matrix orc f mapping smap arity nthetas rows = Ok (index, [[None]])
    /\ qeqb (avg_pred f nthetas 0%Z [0%Z; 1%Z]) (avg_pred f nthetas 0%Z [0%Z; 2%Z]) = false.
Proof. exact corr_unit_diag_nonconstant_rows_refuted. Qed.
Print Assumptions C20_corr_unit_diag_nonconstant_rows_refuted.

(* entry (i, j) = sum_k X[i][k] X[j][k] / (sqrt S_i * sqrt S_j), X[i][k] = P[i][k] - (1/n) sum_i' P[i'][k],
   S_i = sum_k X[i][k]^2; NaN when S_i = 0 or S_j = 0 *)
Theorem C20_corr_entry_def : forall orc P ncols,
  Forall (fun r => length r = ncols) P -> forall i j, (i < length P)%nat -> (j < length P)%nat ->
  mat_get (corr_of orc P ncols) i j = corr_entry_def orc P (length P) ncols i j.
Proof. exact corr_of_entry_def. Qed.
Print Assumptions C20_corr_entry_def.

(* the matrix is that of the average predictions (over the thetas) at every combination of the
   full space, one row per distinct sample id of the screen in increasing id order *)
Theorem C20_corr_over_full_space : forall orc f mapping smap arity T rows index M,
  NoDup (map fst mapping) -> NoDup (map fst smap) ->
  correlation_matrix orc f mapping smap arity (S T) rows = Ok (index, M) ->
  let space := map (map snd) (combs mapping arity) in
  M = corr_of orc (map (fun s => map (fun ids => avg_pred f (S T) s ids) space)
                       (sorted_unique (map fst rows)))
              (length space).
Proof. exact correlation_matrix_over_full_space. Qed.
Print Assumptions C20_corr_over_full_space.

(* ---- source-translation links ----  Generated/SrcSynergy.v is re-translated from /repo on every run (harness/py2gal.py,
   configurations C20_* of harness/src_functions.py); arity = treatment_ids.shape[1].  No side condition. *)

(* data.py create_single_treatment_effect_map (arity raise, the mask, the three masked arrays, both loops over np.unique,
   the control entry, the mask of matching single-agent rows, np.any, the mean, the dict stores) = Synergy.effect_map *)
Theorem C20_model_is_source_create_single_treatment_effect_map :
  forall (arity : nat) (sids : list Z) (tids : list (list Z)) (obs : list Qc),
  src_create_single_treatment_effect_map arity sids tids obs = effect_map arity sids tids obs.
Proof. exact src_effect_map_is_model. Qed.
Print Assumptions C20_model_is_source_create_single_treatment_effect_map.

(* data.py create_single_treatment_effect_array (the translated map, np.ones_like, both enumerate loops, the dict read
   with its KeyError, the store result[idx, treatment_idx] = ...) = Synergy.effect_array *)
Theorem C20_model_is_source_create_single_treatment_effect_array :
  forall (arity : nat) (sids : list Z) (tids : list (list Z)) (obs : list Qc),
  src_create_single_treatment_effect_array arity sids tids obs = effect_array arity sids tids obs.
Proof. exact src_effect_array_is_model. Qed.
Print Assumptions C20_model_is_source_create_single_treatment_effect_array.

(* synergy.py calculate_synergy (the three raises, the translated map, the mask and its negation, the loop over the
   multi-treatment rows, the inner loop with the strict raise / lenient continue, the length comparison, np.prod minus
   the observation, the three appends, np.array of the results) = Synergy.calculate_synergy *)
Theorem C20_model_is_source_calculate_synergy :
  forall (arity : nat) (sids : list Z) (tids : list (list Z)) (obs : list Qc) (strict : bool),
  src_calculate_synergy arity sids tids obs strict = calculate_synergy strict arity sids tids obs.
Proof. exact src_calculate_synergy_is_model. Qed.
Print Assumptions C20_model_is_source_calculate_synergy.

(* hence the definitional theorems are theorems about the translated source *)
Theorem C20_source_synergy_def : forall arity sids tids obs,
  (2 <= arity)%nat -> length sids = length tids -> length obs = length tids ->
  Forall (fun r => length r = arity) tids -> Forall (Forall valid_id) tids ->
  forall strict, src_calculate_synergy arity sids tids obs strict = synergy_def sids tids obs strict.
Proof. exact src_synergy_is_definition. Qed.
Print Assumptions C20_source_synergy_def.

Theorem C20_source_effect_array_def : forall arity sids tids obs,
  (2 <= arity)%nat -> length sids = length tids -> length obs = length tids ->
  Forall (fun r => length r = arity) tids -> Forall (Forall valid_id) tids ->
  src_create_single_treatment_effect_array arity sids tids obs = effect_array_def sids tids obs.
Proof. exact src_effect_array_is_definition. Qed.
Print Assumptions C20_source_effect_array_def.

(* models/main.py ModelEvaluation.mse / mse_variance / inter_chain_mse_variance (Generated/SrcMetrics.v), through the
   translated properties predictions / observations / chain_ids.  e is any object the constructor builds (the hypothesis
   holds of every reachable ModelEvaluation: __init__ is the only way to make one), m = predictions.shape[1]. *)
Theorem C20_model_is_source_mse : forall m P o ch nm e,
  mk_eval m P o ch nm = Ok e -> src_ev_mse e = ev_mse e.
Proof. exact src_ev_mse_is_model. Qed.
Print Assumptions C20_model_is_source_mse.

Theorem C20_model_is_source_mse_variance : forall m P o ch nm e,
  mk_eval m P o ch nm = Ok e -> src_ev_mse_variance e = ev_mse_variance e.
Proof. exact src_ev_mse_variance_is_model. Qed.
Print Assumptions C20_model_is_source_mse_variance.

Theorem C20_model_is_source_inter_chain_mse_variance : forall m P o ch nm e,
  mk_eval m P o ch nm = Ok e -> src_ev_inter_chain_mse_variance m e = ev_inter_chain e.
Proof. exact src_ev_inter_chain_is_model. Qed.
Print Assumptions C20_model_is_source_inter_chain_mse_variance.

(* ModelEvaluation.__init__ = the model's constructor: the objects of the hypotheses above are exactly what the translated
   constructor returns (dtype guards: true of the arrays the wire carries) *)
Theorem C20_model_is_source_init : forall (self : evaluation) (ncols : nat) P o ch nm,
  src_ev_init self ncols P o ch nm = mk_eval ncols P o ch nm.
Proof. exact src_ev_init_is_model. Qed.
Print Assumptions C20_model_is_source_init.

Theorem C20_model_is_source_mean_predictions : forall m P o ch nm e,
  mk_eval m P o ch nm = Ok e -> src_ev_mean_predictions e = ev_mean_predictions e.
Proof. exact src_ev_mean_predictions_is_model. Qed.
Print Assumptions C20_model_is_source_mean_predictions.

(* models/main.py predict_viability_avg and retrospective.py calculate_mse (Generated/SrcMetrics.v): the thetas are the
   list of the prediction vectors they give on the screen, the observed screen is its observations.  No side condition. *)
Theorem C20_model_is_source_predict_viability_avg : forall (size : nat) (pt : list (list Qc)),
  src_predict_viability_avg size pt
  = if negb (forallb (fun r => Nat.eqb (length r) size) pt) then Err E_VALUE
    else match pt, size with
         | [], O => Ok []
         | [], _ => Err E_NAN
         | _, _ => Ok (predict_avg size pt)
         end.
Proof. exact src_predict_viability_avg_is_model. Qed.
Print Assumptions C20_model_is_source_predict_viability_avg.

Theorem C20_model_is_source_calculate_mse : forall (pt : list (list Qc)) (obs : list Qc),
  src_calculate_mse pt obs = calculate_mse pt obs.
Proof. exact src_calculate_mse_is_model. Qed.
Print Assumptions C20_model_is_source_calculate_mse.

(* models/main.py combination_count and generate_full_combinatoric_space (Generated/SrcSpace.v).  The translation works on
   mapping rows ((name, dose), id); the model on rows (key, id): [key] is any numbering of the (name, dose) pairs that is
   injective on the pairs of the mapping's rows (the harness numbers the distinct pairs). *)
Theorem C20_model_is_source_combination_count : forall n k : nat,
  src_combination_count (Z.of_nat n) (Z.of_nat k) = combination_count n k.
Proof. exact src_combination_count_is_model. Qed.
Print Assumptions C20_model_is_source_combination_count.

Theorem C20_model_is_source_generate_full_combinatoric_space : forall (key : Z * Z -> Z) (tm : tmap3),
  (forall a b, In a (map fst tm) -> In b (map fst tm) -> key a = key b -> a = b) ->
  forall (sm : list (Z * Z)) (arity : nat) (sample_id : Z),
  src_generate_full_combinatoric_space tm sm arity sample_id = full_space (key_rows key tm) sm arity sample_id.
Proof. exact src_full_space_is_model. Qed.
Print Assumptions C20_model_is_source_generate_full_combinatoric_space.

(* ---- non-vacuity: concrete instances (vm_compute) ---- *)
Definition q (n : Z) (d : positive) : Qc := Q2Qc (n # d).

(* a 2 x 3 evaluation, chains of unequal length labelled 0,0,3: mse 1/4, variance across
   experiments 1/144, inter-chain variance 9/256, mean predictions 1/2, 2/3 *)
Example C20_eval_example :
  of_result (fun e => SL [of_result of_Qc (ev_mse e); of_result of_Qc (ev_mse_variance e);
                          of_result of_Qc (ev_inter_chain e); of_result (of_list of_Qc) (ev_mean_predictions e)])
            (mk_eval 3 [[q 1 1; q 0 1; q 1 2]; [q 0 1; q 1 1; q 1 1]] [q 1 2; q 1 1] [0; 0; 3]%Z [[97%Z]; [98%Z]])
  = SL [SZ 0; SL [SL [SZ 0; SL [SZ 1; SZ 4]]; SL [SZ 0; SL [SZ 1; SZ 144]]; SL [SZ 0; SL [SZ 9; SZ 256]];
                  SL [SZ 0; SL [SL [SZ 1; SZ 2]; SL [SZ 2; SZ 3]]]]].
Proof. vm_compute. reflexivity. Qed.

(* the evaluation with 0 experiments and 2 posterior samples (the witness of the formerly refuted
   clause: it used to save but not load) now reloads, and so does the 0 x 0 one *)
Example C20_empty_evaluation_reloads :
  (dor e <- mk_eval 2 [] [] [0; 0]%Z []; ev_load (ev_save e))
  = Ok {| ev_preds := []; ev_obs := []; ev_chains := [0; 0]%Z; ev_names := [] |}
  /\ (dor e <- mk_eval 0 [] [] [] []; ev_load (ev_save e))
     = Ok {| ev_preds := []; ev_obs := []; ev_chains := []; ev_names := [] |}.
Proof. split; vm_compute; reflexivity. Qed.

(* repeated single-agent measurement (1/2 and 1/4 -> 3/8), control in either column, a second
   sample without single-agent data: lenient mode skips its row, strict mode refuses *)
Definition ex_s := [0; 0; 0; 0; 1]%Z.
Definition ex_t := [[-1; 0]; [0; -1]; [-1; 1]; [0; 1]; [0; 1]]%Z.
Definition ex_o := [q 1 2; q 1 4; q 1 2; q 1 8; q 1 8].
Example C20_effect_map_example :
  of_result (of_list (fun kv => SL [SZ (fst (fst kv)); SZ (snd (fst kv)); of_Qc (snd kv)])) (effect_map 2 ex_s ex_t ex_o)
  = SL [SZ 0; SL [SL [SZ 0; SZ (-1); SL [SZ 1; SZ 1]]; SL [SZ 0; SZ 0; SL [SZ 3; SZ 8]];
                  SL [SZ 0; SZ 1; SL [SZ 1; SZ 2]]; SL [SZ 1; SZ (-1); SL [SZ 1; SZ 1]]]].
Proof. vm_compute. reflexivity. Qed.
Example C20_synergy_example :
  of_result (fun r => SL [of_list SZ (fst (fst r)); of_list (of_list SZ) (snd (fst r)); of_list of_Qc (snd r)])
            (calculate_synergy false 2 ex_s ex_t ex_o)
  = SL [SZ 0; SL [SL [SZ 0]; SL [SL [SZ 0; SZ 1]]; SL [SL [SZ 1; SZ 16]]]]
  /\ calculate_synergy true 2 ex_s ex_t ex_o = Err E_VALUE
  /\ effect_array 2 ex_s ex_t ex_o = Err E_KEY.
Proof. repeat split; vm_compute; reflexivity. Qed.

(* a mapping with two control rows and a supplied (non-canonical) sample mapping *)
Example C20_space_example :
  full_space [(10, -1); (11, 0); (12, -1); (13, 1)]%Z [(5, 0); (6, 1)]%Z 2 1%Z
  = Ok ([1; 1; 1; 1; 1; 1]%Z, [[-1; 0]; [-1; -1]; [-1; 1]; [0; -1]; [0; 1]; [-1; 1]]%Z).
Proof. vm_compute. reflexivity. Qed.

(* the unit-diagonal hypotheses are satisfiable: two samples, S_i = 1/4, sqrt(1/4) = 1/2 *)
Definition ex_orc : oracle := fun _ x => if qeqb x (q 1 4) then q 1 2 else 0%Qc.
Example C20_corr_example :
  of_list (of_list (of_option of_Qc)) (corr_of ex_orc [[q 1 1]; [q 0 1]] 1)
  = SL [SL [SL [SL [SZ 1; SZ 1]]; SL [SL [SZ (-1); SZ 1]]]; SL [SL [SL [SZ (-1); SZ 1]]; SL [SL [SZ 1; SZ 1]]]].
Proof. vm_compute. reflexivity. Qed.

Example C20_calculate_mse_example :
  of_result of_Qc (calculate_mse [[q 1 1; q 0 1]; [q 0 1; q 1 1]] [q 1 2; q 1 1]) = SL [SZ 0; SL [SZ 1; SZ 8]].
Proof. vm_compute. reflexivity. Qed.

(* the source links are not vacuous: the translated functions compute the values of the examples above, and the key
   hypothesis of the space link is satisfiable (names 10, 11, 13; doses 1, 2, 5; key = 100 * name + dose) *)
Definition ex_tm : tmap3 := [((10, 1), -1); ((11, 5), 0); ((10, 2), -1); ((13, 1), 1)]%Z.
Definition ex_key (p : Z * Z) : Z := (100 * fst p + snd p)%Z.
Example C20_source_examples :
  src_calculate_synergy 2 ex_s ex_t ex_o false = calculate_synergy false 2 ex_s ex_t ex_o
  /\ src_calculate_synergy 2 ex_s ex_t ex_o true = Err E_VALUE
  /\ src_create_single_treatment_effect_array 2 ex_s ex_t ex_o = Err E_KEY
  /\ (forall a b, In a (map fst ex_tm) -> In b (map fst ex_tm) -> ex_key a = ex_key b -> a = b)
  /\ key_rows ex_key ex_tm = [(1001, -1); (1105, 0); (1002, -1); (1301, 1)]%Z
  /\ src_generate_full_combinatoric_space ex_tm [(5, 0); (6, 1)]%Z 2 1%Z
     = Ok ([1; 1; 1; 1; 1; 1]%Z, [[-1; 0]; [-1; -1]; [-1; 1]; [0; -1]; [0; 1]; [-1; 1]]%Z).
Proof.
  repeat split; try (vm_compute; reflexivity).
  intros a b Ha Hb. cbn in Ha, Hb.
  repeat match goal with H : _ \/ _ |- _ => destruct H as [H|H] end; try contradiction; subst; vm_compute; intros E; try reflexivity; discriminate.
Qed.

(* ---- source-translation links, persistence: ModelEvaluation.save_h5 / load_h5 (Generated/SrcEvalIO.v, configurations
   C20_EVIO_* of harness/src_functions.py), with the helpers encode_string_array / decode_string_array and the property
   sample_names translated too.  The translations work on the raw HDF5 content [evraw] (datasets by name, last part of
   Model/Metrics.v); [evraw_close] is the representation map to the model's file (with the stored predictions.shape[1]). ---- *)
From Batchie Require Import Generated.SrcEvalIO Proofs.C20SourceIO.

(* what the translated save_h5 has written, read back by name, is the model's file of e, its 2-d predictions carrying
   shape[1] = ncols.  All evaluations, all ncols. *)
Theorem C20_model_is_source_save_h5 : forall (ncols : nat) (e : evaluation),
  (dor w <- src_ev_save_h5 ncols e; evraw_close w) = Ok (ncols, ev_save e).
Proof. exact src_ev_save_h5_is_model. Qed.
Print Assumptions C20_model_is_source_save_h5.

(* on EVERY raw file that holds the four datasets, the translated load_h5 is the model's ev_load when the stored shape[1]
   of the predictions is the number of stored chain ids, and the constructor's ValueError otherwise.  No hypothesis on the
   content. *)
Theorem C20_model_is_source_load_h5 : forall (w : evraw) (ncols : nat) (f : eval_file),
  evraw_close w = Ok (ncols, f) ->
  src_ev_load_h5 w = if Nat.eqb (length (snd (fst f))) ncols then ev_load f else Err E_VALUE.
Proof. exact src_ev_load_h5_is_model. Qed.
Print Assumptions C20_model_is_source_load_h5.

(* the codec helpers as translated are the identity on every 1-d string array, with or without elements *)
Theorem C20_model_is_source_string_codec :
  (forall a : list pyname, src_ev_encode_string_array a = Ok a) /\ (forall a : list bstr, src_ev_decode_string_array a = Ok a).
Proof. exact (conj src_ev_encode_string_array_is_identity src_ev_decode_string_array_is_identity). Qed.
Print Assumptions C20_model_is_source_string_codec.

(* hence C20_eval_save_load is a theorem about the translated source: for every evaluation the constructor builds
   (m = predictions.shape[1]), the translated load_h5 applied to what the translated save_h5 wrote returns it unchanged *)
Theorem C20_source_eval_save_load : forall m P o ch nm e,
  mk_eval m P o ch nm = Ok e ->
  (dor w <- src_ev_save_h5 m e; src_ev_load_h5 w) = Ok e.
Proof. exact src_ev_round_trip. Qed.
Print Assumptions C20_source_eval_save_load.

(* not vacuous: the evaluation with 0 experiments and 2 posterior samples (the witness of the defect repaired in /repo
   6d95451), a square 2 x 2 one, and a file whose stored shape disagrees with its chain ids *)
Example C20_source_eval_io_examples :
  (dor e <- mk_eval 2 [] [] [0; 0]%Z []; dor w <- src_ev_save_h5 2 e; src_ev_load_h5 w)
  = Ok {| ev_preds := []; ev_obs := []; ev_chains := [0; 0]%Z; ev_names := [] |}
  /\ (dor e <- mk_eval 2 [[q 1 1; q 0 1]; [q 1 2; q 1 4]] [q 1 2; q 1 1] [0; 1]%Z [[97%Z]; [98%Z]];
      dor w <- src_ev_save_h5 2 e; src_ev_load_h5 w)
     = Ok {| ev_preds := [[q 1 1; q 0 1]; [q 1 2; q 1 4]]; ev_obs := [q 1 2; q 1 1]; ev_chains := [0; 1]%Z;
             ev_names := [[97%Z]; [98%Z]] |}
  /\ src_ev_load_h5 (evraw_of_file 3 ([], [], [0; 0]%Z, [])) = Err E_VALUE
  /\ src_ev_load_h5 [] = Err 30%Z.
Proof. repeat split; vm_compute; reflexivity. Qed.

(* ---- source-translation link: models/main.py correlation_matrix (Generated/SrcCorr.v, configurations C20_CORR /
   C20_PREDICT_AVG_NAN of harness/src_functions.py; vocabulary: last part of Model/Corr.v).  In the translation a float is
   option Qc (None = NaN) and every numpy operator is lifted to it; the screen is (tm, sm, arity, rows) with tm the
   mapping rows ((name, dose), id) as in the link of generate_full_combinatoric_space, rows the (sample id, sample name)
   pairs of the experiments; the thetas are the model's function f. ---- *)
From Batchie Require Import Generated.SrcCorr Proofs.C20SourceCorr.

(* predict_viability_avg, translated once more with NaN as a value, on the model's thetas and a screen with one sample id
   and one id row per experiment (true of every Screen): entry by entry the model's avg_pred; without thetas 0 / 0 = NaN *)
Theorem C20_model_is_source_predict_viability_avg_nan : forall (f : nat -> Z -> list Z -> Qc) (n : nat) (sp : list Z * list (list Z)),
  length (fst sp) = length (snd sp) ->
  src_predict_viability_avg_nan (length (fst sp)) (thetas_on f n sp)
  = Ok (map (fun st => match n with O => None | S _ => Some (avg_pred f n (fst st) (snd st)) end) (combine (fst sp) (snd sp))).
Proof. exact src_predict_avg_nan_on. Qed.
Print Assumptions C20_model_is_source_predict_viability_avg_nan.

(* the WHOLE function correlation_matrix = the model, wrapped as the DataFrame (index, columns, values) with the sample
   names on both axes.  Hypotheses: the sqrt oracle vanishes exactly at 0 on non-negative arguments (true of the real and
   of the IEEE square root; the model tests the sum of squares, numpy divides by its root), and - as for
   generate_full_combinatoric_space - key is injective on the mapping's (name, dose) pairs.  All screens, all thetas. *)
Theorem C20_model_is_source_correlation_matrix : forall (orc : oracle),
  (forall x : Qc, (0 <= x)%Qc -> (orc ORC_SQRT x = 0%Qc <-> x = 0%Qc)) ->
  forall (f : nat -> Z -> list Z -> Qc) (key : Z * Z -> Z) (tm : tmap3),
  (forall a b, In a (map fst tm) -> In b (map fst tm) -> key a = key b -> a = b) ->
  forall (sm : list (Z * Z)) (arity nthetas : nat) (rows : list (Z * Z)),
  src_correlation_matrix orc f tm sm arity nthetas rows
  = dor r <- correlation_matrix orc f (key_rows key tm) sm arity nthetas rows; Ok (mk_frame (snd r) (fst r) (fst r)).
Proof. exact src_correlation_matrix_is_model. Qed.
Print Assumptions C20_model_is_source_correlation_matrix.

(* hence C20_corr_symmetric about the translated source; and the frame's columns are its index *)
Theorem C20_source_corr_symmetric : forall (orc : oracle),
  (forall x : Qc, (0 <= x)%Qc -> (orc ORC_SQRT x = 0%Qc <-> x = 0%Qc)) ->
  forall (f : nat -> Z -> list Z -> Qc) (key : Z * Z -> Z) (tm : tmap3),
  (forall a b, In a (map fst tm) -> In b (map fst tm) -> key a = key b -> a = b) ->
  forall sm arity nthetas rows index columns M i j,
  src_correlation_matrix orc f tm sm arity nthetas rows = Ok (index, columns, M) ->
  columns = index /\ mat_get M i j = mat_get M j i.
Proof. exact src_correlation_matrix_symmetric. Qed.
Print Assumptions C20_source_corr_symmetric.

(* not vacuous: an oracle with the hypothesis (sqrt 0 = 0, sqrt(1/4) = 1/2, 1 elsewhere); two samples whose averages
   differ at one combination: [[1, -1], [-1, 1]] with the names 5, 6 on both axes; no theta: all NaN; one sample: NaN;
   no experiment: np.stack raises *)
Definition ex_orc2 : oracle := fun _ x => if qeqb x 0 then 0%Qc else if qeqb x (q 1 4) then q 1 2 else 1%Qc.
Definition ex_f (th : nat) (s : Z) (ids : list Z) : Qc :=
  match ids with [a; b] => if ((s =? 0) && (a =? -1) && (b =? 0))%Z then 1%Qc else 0%Qc | _ => 0%Qc end.
Definition show_frame (r : result corr_frame) : sexp :=
  of_result (fun fr => SL [of_list SZ (fst (fst fr)); of_list SZ (snd (fst fr)); of_list (of_list (of_option of_Qc)) (snd fr)]) r.
Example C20_source_corr_examples :
  (forall x : Qc, (0 <= x)%Qc -> (ex_orc2 ORC_SQRT x = 0%Qc <-> x = 0%Qc))
  /\ show_frame (src_correlation_matrix ex_orc2 ex_f ex_tm [(5, 0); (6, 1)]%Z 2 3 [(0, 5); (1, 6); (0, 5)]%Z)
     = SL [SZ 0; SL [SL [SZ 5; SZ 6]; SL [SZ 5; SZ 6];
                     SL [SL [SL [SL [SZ 1; SZ 1]]; SL [SL [SZ (-1); SZ 1]]]; SL [SL [SL [SZ (-1); SZ 1]]; SL [SL [SZ 1; SZ 1]]]]]]
  /\ show_frame (src_correlation_matrix ex_orc2 ex_f ex_tm [(5, 0); (6, 1)]%Z 2 0 [(0, 5); (1, 6); (0, 5)]%Z)
     = SL [SZ 0; SL [SL [SZ 5; SZ 6]; SL [SZ 5; SZ 6]; SL [SL [SL []; SL []]; SL [SL []; SL []]]]]
  /\ show_frame (src_correlation_matrix ex_orc2 ex_f ex_tm [(5, 0); (6, 1)]%Z 2 3 [(1, 6)]%Z)
     = SL [SZ 0; SL [SL [SZ 6]; SL [SZ 6]; SL [SL [SL []]]]]
  /\ src_correlation_matrix ex_orc2 ex_f ex_tm [(5, 0); (6, 1)]%Z 2 3 [] = Err E_VALUE.
Proof.
  split; [|repeat split; vm_compute; reflexivity].
  intros x _. unfold ex_orc2. destruct (Qc_eq_dec x 0) as [->|N].
  - split; reflexivity.
  - unfold qeqb. destruct (Qc_eq_dec x 0) as [E|_]; [contradiction|].
    split; [|intros E; contradiction]. destruct (Qc_eq_dec x (q 1 4)); intros H; apply (f_equal this) in H; vm_compute in H; discriminate.
Qed.

(* ---- the reporting site: cli/analyze_model_evaluation.main (Generated/SrcCliAnalyze.v, configuration CLI_ANALYZE of
   harness/src_functions.py; model Model/CliAnalyze.v: a run = the list of its effects on the output directory).  "The
   REPORTED overall MSE ..." of the property is a statement about this function. ---- *)
From Batchie Require Import Lib.PyRt Model.Cli Model.CliAnalyze Generated.SrcCliAnalyze Proofs.C20SourceCli_Analyze.

(* the WHOLE main() as translated = the model, for every library record and all parsed arguments *)
Theorem C20_model_is_source_cli_analyze :
  forall (Scr Th Ev Co F : Type) (L : an_lib Scr Th Ev Co F) (a : an_args),
  src_cli_analyze Scr Th Ev Co F L a = cli_analyze L a.
Proof. exact src_cli_analyze_is_model. Qed.
Print Assumptions C20_model_is_source_cli_analyze.

(* what a run whose loads succeed reports, in order: the similarity matrix of the loaded --screen and the concatenation of
   ALL --thetas files (argument order); five plots (the two that bootstrap a regression band with seed=--seed, see C18); the
   summary of the loaded --model-evaluation, each metric under its key *)
Theorem C20_source_report_contents :
  forall (Scr Th Ev Co F : Type) (L : an_lib Scr Th Ev Co F) (a : an_args) hs th scr e c,
  res_map_all (an_load_thetas L) (an_thetas a) = Ok hs ->
  an_concat_thetas L hs = Ok th ->
  an_load_screen L (an_screen a) = Ok scr ->
  an_load_eval L (an_model_evaluation a) = Ok e ->
  an_correlation_matrix L scr th = Ok c ->
  src_cli_analyze Scr Th Ev Co F L a
  = Ok [AnMkdir (an_output_dir a);
        AnHeat c (an_output_dir a, N_heat);
        AnScatter e (an_output_dir a, N_scatter) (Some (an_seed a));
        AnScatterSample e (an_output_dir a, N_scatter_sample) (Some (an_seed a));
        AnViolin e (an_output_dir a, N_violin) None;
        AnViolin e (an_output_dir a, N_violin99) (Some 99%Z);
        AnSummary (mk_an_summary (an_mse L e) (an_mse_variance L e) (an_inter_chain L e)) (an_output_dir a, N_summary)].
Proof. exact src_cli_analyze_reports. Qed.
Print Assumptions C20_source_report_contents.

(* the REPORTED numbers are the definitions: with the TRANSLATED metric methods as the library's, at an evaluation the
   constructor built (what the translated load_h5 returns), any summary the translated main() writes holds the mean squared
   error over all pairs, its variance across experiments and the variance of the per-chain MSEs (NaN without experiments
   or posterior samples) *)
Theorem C20_source_reported_summary_def :
  forall (Scr Th Co : Type) (L : an_lib Scr Th evaluation Co (result Qc)) (a : an_args) m P o ch nm e s,
  an_load_eval L (an_model_evaluation a) = Ok e ->
  mk_eval m P o ch nm = Ok e ->
  an_mse L e = src_ev_mse e -> an_mse_variance L e = src_ev_mse_variance e ->
  an_inter_chain L e = src_ev_inter_chain_mse_variance m e ->
  reported_summary (src_cli_analyze Scr Th evaluation Co (result Qc) L a) = Some s ->
  let nan := Nat.eqb (length P) 0 || Nat.eqb m 0 in
  sum_mse s = (if nan then Err E_NAN else Ok (mse_def P o (length P) m))
  /\ sum_mse_variance s = (if nan then Err E_NAN else Ok (mse_variance_def P o (length P) m))
  /\ sum_inter_chain s = (if nan then Err E_NAN else Ok (inter_chain_def P o ch (length P) m)).
Proof. exact reported_summary_is_definition. Qed.
Print Assumptions C20_source_reported_summary_def.

(* not vacuous: a library over unit screens / holders whose evaluation file holds a 2 x 2 evaluation with two chains; the run
   reports mse 1/4, variance across experiments 1/16, inter-chain variance 1/16 *)
Definition ex_an_eval : evaluation :=
  {| ev_preds := [[q 1 1; q 0 1]; [q 1 2; q 1 2]]; ev_obs := [q 1 1; q 1 2]; ev_chains := [0; 1]%Z; ev_names := [[97%Z]; [98%Z]] |}.
Definition ex_an_lib : an_lib unit (list unit) evaluation nat (result Qc) :=
  {| an_load_thetas := fun _ => Ok [tt]; an_concat_thetas := fun l => Ok (List.concat l); an_load_screen := fun _ => Ok tt;
     an_load_eval := fun _ => Ok ex_an_eval; an_correlation_matrix := fun _ th => Ok (length th);
     an_mse := src_ev_mse; an_mse_variance := src_ev_mse_variance; an_inter_chain := src_ev_inter_chain_mse_variance 2 |}.
Example C20_source_report_example :
  mk_eval 2 (ev_preds ex_an_eval) (ev_obs ex_an_eval) (ev_chains ex_an_eval) (ev_names ex_an_eval) = Ok ex_an_eval
  /\ match src_cli_analyze _ _ _ _ _ ex_an_lib (mk_an_args [1%Z] [2%Z] [[3%Z]; [4%Z]; [5%Z]] [6%Z] 7%Z) with
     | Ok [AnMkdir [6%Z]; AnHeat 3%nat _; AnScatter _ _ (Some 7%Z); AnScatterSample _ _ (Some 7%Z); AnViolin _ _ None; AnViolin _ _ (Some 99%Z);
           AnSummary s ([6%Z], N_summary)] =>
         sum_mse s = Ok (q 1 4) /\ sum_mse_variance s = Ok (q 1 16) /\ sum_inter_chain s = Ok (q 1 16)
     | _ => False
     end.
Proof. split; [vm_compute; reflexivity|]. vm_compute. repeat split. Qed.
