(* C17 — Sampling follows the burn-in/thinning schedule; each chain gets its own stream.
   Statements only; every proof is `exact <lemma from Proofs/C17Sampling.v>`.
   `sample kind seed n_chains chain_index n_burnin thin n_thetas len0 returned` is the model of
   batchie.sampling.sample (kind 0 = MCMCModel, 1 = VIModel); it returns the trace of calls and the final
   length of the results holder.  All theorems are for every seed >= 0 (numpy refuses negative seeds),
   every n_chains and 0 <= chain_index < n_chains, b >= 0, t >= 1 and n >= 0 (the property asks n >= 1). *)
From Coq Require Import ZArith List.
(* the real sampler object (for "resets the model"); imported first: Model.Sampling's names (sample, ...) take precedence below *)
From Coq Require Import QArith Qcanon.
From Batchie Require Import Lib.PyRt Lib.Num Model.Gibbs Generated.SrcGibbsObj Proofs.C17Reset.
From Batchie Require Import Lib.Sexp Model.Sampling Proofs.C17Sampling.
From Batchie Require Import Generated.SrcSampling Proofs.C17Source.
From Batchie Require Import Proofs.C17Vi.
Import ListNotations.
Open Scope Z_scope.

(* The model is what the source says NOW: `src_sample` is the whole function batchie.sampling.sample of /repo's
   current working tree, re-translated statement by statement on every run (harness/py2gal.py ->
   Generated/SrcSampling.v: the match on the model class, the four None checks, the seed-sequence / generator
   construction, the burn-in loop, the thinning loop with its `(step_index + 1) % thin == 0` test, the VI
   branch with its two None checks and the same seed-sequence / generator construction); started with no call issued yet, it equals the hand-written model for ALL arguments, so every
   theorem below is a theorem about the translated source. *)
Theorem C17_model_is_source : forall kind seed n_chains chain_index n_burnin thin n_thetas len0 returned,
  src_sample kind seed n_chains chain_index n_burnin thin n_thetas ([], len0) returned
  = sample kind seed n_chains chain_index n_burnin thin n_thetas len0 returned.
Proof. exact src_sample_is_model. Qed.
Print Assumptions C17_model_is_source.

(* the whole trace in closed form: reset, set-rng with key (seed, [chain_index]), b steps, then n times
   (t steps, one record); the holder, empty on entry, ends with n entries *)
Theorem C17_trace : forall seed nc ci b t n,
  0 <= seed -> 0 <= ci < nc -> 0 <= b -> 1 <= t -> 0 <= n ->
  sample 0 seed (Some nc) (Some ci) (Some b) (Some t) n 0 0%nat
  = Ok (Reset :: SetRng seed [ci] ::
        repeat Step (Z.to_nat b) ++ concat (repeat (repeat Step (Z.to_nat t) ++ [Record]) (Z.to_nat n)), n).
Proof. exact c17_trace. Qed.
Print Assumptions C17_trace.

(* exactly b + n*t steps *)
Theorem C17_step_count : forall seed nc ci b t n tr len,
  0 <= seed -> 0 <= ci < nc -> 0 <= b -> 1 <= t -> 0 <= n ->
  sample 0 seed (Some nc) (Some ci) (Some b) (Some t) n 0 0%nat = Ok (tr, len) ->
  n_steps tr = b + n * t.
Proof. exact c17_step_count. Qed.
Print Assumptions C17_step_count.

(* [record_marks 0 tr] lists, for every Record in the trace, how many Steps precede it:
   they are exactly b+t, b+2t, ..., b+n*t (so there is no record anywhere else) *)
Theorem C17_record_marks : forall seed nc ci b t n tr len,
  0 <= seed -> 0 <= ci < nc -> 0 <= b -> 1 <= t -> 0 <= n ->
  sample 0 seed (Some nc) (Some ci) (Some b) (Some t) n 0 0%nat = Ok (tr, len) ->
  record_marks 0 tr = map (fun i => b + (Z.of_nat i + 1) * t) (seq 0 (Z.to_nat n)).
Proof. exact c17_record_marks. Qed.
Print Assumptions C17_record_marks.

(* the run is never refused, records n states and leaves the (initially empty) collection complete *)
Theorem C17_collection_complete : forall seed nc ci b t n,
  0 <= seed -> 0 <= ci < nc -> 0 <= b -> 1 <= t -> 0 <= n ->
  exists tr len, sample 0 seed (Some nc) (Some ci) (Some b) (Some t) n 0 0%nat = Ok (tr, len) /\
                 n_records tr = n /\ len = n /\ is_complete n len = true.
Proof. exact c17_complete. Qed.
Print Assumptions C17_collection_complete.

(* the generator handed to the model: whatever b, t, n and the holder are, a successful run starts with
   Reset, SetRng (rng_key seed n_chains chain_index) and then only steps and records ... *)
Theorem C17_key_in_trace : forall seed nc ci b t n len0 tr len,
  sample 0 seed (Some nc) (Some ci) (Some b) (Some t) n len0 0%nat = Ok (tr, len) ->
  exists k rest, rng_key seed nc ci = Ok k /\ tr = Reset :: SetRng (fst k) (snd k) :: rest /\
                 forall e, In e rest -> e = Step \/ e = Record.
Proof. exact c17_key_in_trace. Qed.
Print Assumptions C17_key_in_trace.

(* ... and that key is (entropy = seed, spawn_key = [chain_index]): a function of the triple in which
   n_chains only bounds the index *)
Theorem C17_key_fun : forall seed nc ci, 0 <= seed -> 0 <= ci < nc -> rng_key seed nc ci = Ok (seed, [ci]).
Proof. exact c17_key_fun. Qed.
Print Assumptions C17_key_fun.

Theorem C17_key_injective : forall seed1 nc1 ci1 seed2 nc2 ci2 k,
  0 <= ci1 < nc1 -> 0 <= ci2 < nc2 ->
  rng_key seed1 nc1 ci1 = Ok k -> rng_key seed2 nc2 ci2 = Ok k -> seed1 = seed2 /\ ci1 = ci2.
Proof. exact c17_key_injective. Qed.
Print Assumptions C17_key_injective.

(* PARTIAL: every other chain index gets a different SeedSequence key.  That different keys give
   non-overlapping PCG64 streams is numpy's guarantee and cannot be proved here. *)
Theorem C17_streams_distinct_partial : forall seed nc ci1 ci2,
  0 <= seed -> 0 <= ci1 < nc -> 0 <= ci2 < nc -> ci1 <> ci2 -> rng_key seed nc ci1 <> rng_key seed nc ci2.
Proof. exact c17_streams_distinct. Qed.
Print Assumptions C17_streams_distinct_partial.

(* variational models: reset, the generator of (seed, n_chains, chain_index) built as for MCMC models, asked exactly once
   for exactly n samples, which are all stored (when the model honours its contract and returns n of them); n_burnin and
   thin are ignored *)
Theorem C17_vi_once : forall seed nc ci b t n,
  0 <= seed -> 0 <= ci < nc -> 0 <= n ->
  sample 1 seed (Some nc) (Some ci) b t n 0 (Z.to_nat n)
  = Ok (Reset :: SetRng seed [ci] :: SampleVI n :: repeat Record (Z.to_nat n), n) /\ is_complete n n = true.
Proof. exact c17_vi_once. Qed.
Print Assumptions C17_vi_once.

Theorem C17_not_a_model_refused : forall kind seed nc ci b t n len0 ret,
  kind <> 0 -> kind <> 1 -> sample kind seed nc ci b t n len0 ret = Err 6.
Proof. exact c17_not_a_model_refused. Qed.
Print Assumptions C17_not_a_model_refused.

Theorem C17_none_refused : forall seed nc ci b t n len0 ret,
  nc = None \/ ci = None \/ b = None \/ t = None -> sample 0 seed nc ci b t n len0 ret = Err 5.
Proof. exact c17_none_refused. Qed.
Print Assumptions C17_none_refused.

(* ... and a None for n_chains or chain_index for VI models (the generator is derived from them) *)
Theorem C17_vi_none_refused : forall seed nc ci b t n len0 ret,
  nc = None \/ ci = None -> sample 1 seed nc ci b t n len0 ret = Err 5.
Proof. exact c17_vi_none_refused. Qed.
Print Assumptions C17_vi_none_refused.

(* observation outside the property's quantifier: a negative chain index is not refused, python list
   indexing makes chain_index = -1 share the stream of chain n_chains - 1 *)
Theorem C17_negative_index_aliases : forall seed nc,
  0 <= seed -> 1 <= nc -> rng_key seed nc (-1) = rng_key seed nc (nc - 1).
Proof. exact c17_negative_index_aliases. Qed.
Print Assumptions C17_negative_index_aliases.

(* ---- the generator clauses on whole runs, per model class (gap review g5, C17 gap 2) ---- *)

(* MCMC models: two successful runs for different chain indices below n_chains hand different keys to set_rng, whatever
   b, t, n and the holders are.  PARTIAL for the same reason as C17_streams_distinct_partial (keys, not streams). *)
Theorem C17_mcmc_chains_distinct_partial : forall seed nc ci1 ci2 b1 t1 n1 l1 b2 t2 n2 l2 tr1 len1 tr2 len2,
  0 <= ci1 < nc -> 0 <= ci2 < nc -> ci1 <> ci2 ->
  sample 0 seed (Some nc) (Some ci1) (Some b1) (Some t1) n1 l1 0%nat = Ok (tr1, len1) ->
  sample 0 seed (Some nc) (Some ci2) (Some b2) (Some t2) n2 l2 0%nat = Ok (tr2, len2) ->
  handed_key tr1 <> handed_key tr2.
Proof. exact c17_mcmc_chains_distinct. Qed.
Print Assumptions C17_mcmc_chains_distinct_partial.

(* VI models (repaired in /repo, fix PENDING; KNOWN_FINDINGS vi-chains-share-generator is `fixed`): whatever n, the holder and
   the number of samples the model returns are, a successful run is Reset, SetRng (rng_key seed n_chains chain_index) - the key
   C17_key_fun / C17_key_injective / C17_streams_distinct_partial speak about -, one SampleVI n, then only records *)
Theorem C17_vi_key_in_trace : forall seed nc ci b t n len0 ret tr len,
  sample 1 seed (Some nc) (Some ci) b t n len0 ret = Ok (tr, len) ->
  exists k rest, rng_key seed nc ci = Ok k /\ tr = Reset :: SetRng (fst k) (snd k) :: SampleVI n :: rest /\
                 forall e, In e rest -> e = Record.
Proof. exact c17_vi_key_in_trace. Qed.
Print Assumptions C17_vi_key_in_trace.

Theorem C17_vi_handed_key : forall seed nc ci b t n len0 ret tr len,
  sample 1 seed (Some nc) (Some ci) b t n len0 ret = Ok (tr, len) ->
  exists k, rng_key seed nc ci = Ok k /\ handed_key tr = Some k.
Proof. exact c17_vi_handed_key. Qed.
Print Assumptions C17_vi_handed_key.

(* two successful VI runs for different chain indices below n_chains hand different keys to set_rng.
   PARTIAL for the same reason as C17_streams_distinct_partial (keys, not streams). *)
Theorem C17_vi_chains_distinct_partial : forall seed nc ci1 ci2 b1 t1 n1 l1 r1 b2 t2 n2 l2 r2 tr1 len1 tr2 len2,
  0 <= ci1 < nc -> 0 <= ci2 < nc -> ci1 <> ci2 ->
  sample 1 seed (Some nc) (Some ci1) b1 t1 n1 l1 r1 = Ok (tr1, len1) ->
  sample 1 seed (Some nc) (Some ci2) b2 t2 n2 l2 r2 = Ok (tr2, len2) ->
  handed_key tr1 <> handed_key tr2.
Proof. exact c17_vi_chains_distinct. Qed.
Print Assumptions C17_vi_chains_distinct_partial.

(* the same triple gives a VI model and an MCMC model the same key: one rule for every model class *)
Theorem C17_vi_key_as_mcmc : forall seed nc ci b t n len0 ret tr len b' t' n' len0' tr' len',
  sample 1 seed (Some nc) (Some ci) b t n len0 ret = Ok (tr, len) ->
  sample 0 seed (Some nc) (Some ci) (Some b') (Some t') n' len0' 0%nat = Ok (tr', len') ->
  handed_key tr = handed_key tr'.
Proof. exact c17_vi_key_as_mcmc. Qed.
Print Assumptions C17_vi_key_as_mcmc.

(* n_burnin and thin are still not read for a VI model *)
Theorem C17_vi_ignores_schedule : forall seed nc ci b t b' t' n len0 ret,
  sample 1 seed nc ci b t n len0 ret = sample 1 seed nc ci b' t' n len0 ret.
Proof. exact c17_vi_ignores_schedule. Qed.
Print Assumptions C17_vi_ignores_schedule.

(* REFUTED for the PRE-REPAIR variant only (Model.Sampling.sample_pre_repair: default_rng(seed) whatever the chain; it is no
   longer what the source says - C17_model_is_source is about `sample`): the clause "a different stream for every other chain
   index" failed inside the property's quantifier - seed 0, n_chains 2, chain indices 0 and 1, n = 1.  The same witness on the
   repaired model is C17_vi_repaired_witness_example below and corpus/C17/vi-chains-share-generator.json on the code. *)
Theorem C17_vi_streams_distinct_refuted :
  exists seed nc ci1 ci2 n tr1 len1 tr2 len2,
    0 <= seed /\ 1 <= n /\ 0 <= ci1 < nc /\ 0 <= ci2 < nc /\ ci1 <> ci2 /\
    sample_pre_repair 1 seed (Some nc) (Some ci1) (Some 0) (Some 1) n 0 (Z.to_nat n) = Ok (tr1, len1) /\
    sample_pre_repair 1 seed (Some nc) (Some ci2) (Some 0) (Some 1) n 0 (Z.to_nat n) = Ok (tr2, len2) /\
    handed_key tr1 = handed_key tr2.
Proof. exact c17_vi_streams_distinct_refuted. Qed.
Print Assumptions C17_vi_streams_distinct_refuted.

(* ---- "resets the model": what the reset_model that sample() calls does on the real sampler (C17 gap 1) ----
   In the model above Reset is an event; for LegacySparseDrugComboImpl (the object SparseDrugCombo.reset_model forwards to,
   C08_model_is_source_sdc_reset_model) the method is re-translated from /repo on every run: *)
Theorem C17_real_reset_is_source : forall o, src_impl_reset_model o = Ok (set_pi_st o (reset_st (pi_st o))).
Proof. exact c17_real_reset_is_source. Qed.
Print Assumptions C17_real_reset_is_source.

(* PARTIAL: on a state with the shapes __init__ allocates it restores the embeddings, intercept, observation precision, cache *)
Theorem C17_real_reset_restores_embeddings_partial : forall g s, shapes g s ->
  W (reset_st s) = W (init_st g) /\ W0 (reset_st s) = W0 (init_st g) /\ V2 (reset_st s) = V2 (init_st g) /\
  V1 (reset_st s) = V1 (init_st g) /\ V0 (reset_st s) = V0 (init_st g) /\ alpha (reset_st s) = alpha (init_st g) /\
  prec (reset_st s) = prec (init_st g) /\ Mu (reset_st s) = Mu (init_st g).
Proof. exact c17_real_reset_restores_embeddings. Qed.
Print Assumptions C17_real_reset_restores_embeddings_partial.

(* ... and keeps every horseshoe / gamma-process precision and the step counter of the previous chain *)
Theorem C17_real_reset_keeps_precisions : forall o o', src_impl_reset_model o = Ok o' ->
  tau (pi_st o') = tau (pi_st o) /\ tau0 (pi_st o') = tau0 (pi_st o) /\
  phi2 (pi_st o') = phi2 (pi_st o) /\ phi1 (pi_st o') = phi1 (pi_st o) /\ phi0 (pi_st o') = phi0 (pi_st o) /\
  eta2 (pi_st o') = eta2 (pi_st o) /\ eta1 (pi_st o') = eta1 (pi_st o) /\ eta0 (pi_st o') = eta0 (pi_st o) /\
  gam (pi_st o') = gam (pi_st o) /\ pi_steps o' = pi_steps o.
Proof. exact c17_real_reset_keeps_precisions. Qed.
Print Assumptions C17_real_reset_keeps_precisions.

(* so the reset state is the constructed one exactly when those precisions still have their initial values *)
Theorem C17_real_reset_restores_iff : forall g s, shapes g s ->
  (reset_st s = init_st g <->
   tau s = tau (init_st g) /\ tau0 s = tau0 (init_st g) /\ phi2 s = phi2 (init_st g) /\ phi1 s = phi1 (init_st g) /\
   phi0 s = phi0 (init_st g) /\ eta2 s = eta2 (init_st g) /\ eta1 s = eta1 (init_st g) /\ eta0 s = eta0 (init_st g) /\
   gam s = gam (init_st g)).
Proof. exact c17_real_reset_restores_iff. Qed.
Print Assumptions C17_real_reset_restores_iff.

(* REFUTED (a finding, KNOWN_FINDINGS reset-model-keeps-hyperparameters; the harness kind `real` runs it on the real objects):
   "reset_model restores the constructed parameter state" *)
Theorem C17_real_reset_restores_refuted : exists g s, shapes g s /\ reset_st s <> init_st g.
Proof. exact c17_real_reset_restores_refuted. Qed.
Print Assumptions C17_real_reset_restores_refuted.

(* non-vacuity *)
Example C17_trace_example :
  sample 0 5 (Some 3) (Some 1) (Some 1) (Some 2) 2 0 0%nat
  = Ok ([Reset; SetRng 5 [1]; Step; Step; Step; Record; Step; Step; Record], 2).
Proof. vm_compute. reflexivity. Qed.
Example C17_t1_b0_example :
  sample 0 0 (Some 1) (Some 0) (Some 0) (Some 1) 3 0 0%nat
  = Ok ([Reset; SetRng 0 [0]; Step; Record; Step; Record; Step; Record], 3).
Proof. vm_compute. reflexivity. Qed.
Example C17_marks_example :
  record_marks 0 [Reset; SetRng 5 [1]; Step; Step; Step; Record; Step; Step; Record] = [3; 5].
Proof. vm_compute. reflexivity. Qed.
Example C17_full_holder_refused_example :
  sample 0 5 (Some 3) (Some 1) (Some 1) (Some 2) 2 1 0%nat = Err 1.
Proof. vm_compute. reflexivity. Qed.
Example C17_vi_example :
  sample 1 7 (Some 3) (Some 1) None None 2 0 2%nat = Ok ([Reset; SetRng 7 [1]; SampleVI 2; Record; Record], 2).
Proof. vm_compute. reflexivity. Qed.
Example C17_vi_none_example : sample 1 7 None None None None 2 0 2%nat = Err 5.
Proof. vm_compute. reflexivity. Qed.
(* the former witness (seed 0, two chains, n = 1) on the repaired model: different keys *)
Example C17_vi_repaired_witness_example :
  sample 1 0 (Some 2) (Some 0) (Some 0) (Some 1) 1 0 1%nat = Ok ([Reset; SetRng 0 [0]; SampleVI 1; Record], 1) /\
  sample 1 0 (Some 2) (Some 1) (Some 0) (Some 1) 1 0 1%nat = Ok ([Reset; SetRng 0 [1]; SampleVI 1; Record], 1).
Proof. vm_compute. split; reflexivity. Qed.
Example C17_handed_key_example :
  handed_key [Reset; SetRng 5 [1]; Step; Record] = Some (5, [1]).
Proof. vm_compute. reflexivity. Qed.
Example C17_index_out_of_range_example : rng_key 5 3 3 = Err 4.
Proof. vm_compute. reflexivity. Qed.
