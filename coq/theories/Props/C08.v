(* C08 — Each Gibbs block draws from the exact full conditional of the documented model.
   Statements only; every proof is `exact <lemma from Proofs/>`.
   Model: Model/Gibbs.v (the sampler), Model/Mvn.v; specification: Model/GibbsSpec.v
   (energy = -2 log joint of the documented model given the horseshoe precisions, energy_hs = -2 log
   of the complete joint including the horseshoe hyper-priors, for an arbitrary function ln). *)
From Coq Require Import String.
From Coq Require Import ZArith List QArith Qcanon.
From Batchie Require Import Lib.Sexp Lib.Num Generated.Consts Generated.ConstsMcmc Model.Gibbs Model.GibbsSpec Model.Mvn
  Proofs.C08Sums Proofs.C08Gauss Proofs.C08Cache Proofs.C08Misc Proofs.C08Mgp Proofs.C08Mvn Proofs.C08Final
  Proofs.C08HorseshoeAlg Proofs.C08Horseshoe Generated.SrcGibbs Proofs.C08Source
  Generated.SrcMvn Generated.SrcGibbsObj Proofs.C08SourceObj.
Import ListNotations.
Open Scope Qc_scope.

(* ------------------------------------------------------------------ order of the sweep *)
(* the model's hard-wired order is the call order read from the source of mcmc_step; every step
   function occurs exactly once; the sweep is the composition in that order *)
Theorem C08_order :
  map (fun b => (blk_name b, ""%string)) step_order = MCMC_STEP_ORDER /\
  NoDup step_order /\ (forall b : blk, In b step_order) /\ hd_error step_order = Some BReconstruct /\
  forall g d orc s, mcmc_step g d orc s = run_blocks g d orc step_order s.
Proof. exact (conj order_matches_source (conj order_nodup (conj order_complete (conj order_reconstruct_first (fun _ _ _ _ => eq_refl))))). Qed.
Print Assumptions C08_order.

(* ------------------------------------------------------------------ Gaussian blocks *)
(* scalar blocks: the draw N(m, v) satisfies  energy(b := x) - energy(b := 0) = (x^2 - 2 m x)/v,
   i.e. the conditional density of the block given everything else is N(m, v) *)
Theorem C08_gauss_block_W0 : forall ln g d s c m v k,
  ValidData d -> cache_ok g d s -> (c < c_ncl g)%nat -> (c < length (W0 s))%nat ->
  block_W0 d s c = (DNormal m v, k) -> v <> 0 ->
  forall x, energy ln g d (upd_W0 s c x) - energy ln g d (upd_W0 s c 0) = (x * x - qofZ 2 * m * x) / v.
Proof. exact gauss_block_W0. Qed.
Print Assumptions C08_gauss_block_W0.

Theorem C08_gauss_block_V0 : forall ln g d s m mu v k,
  ValidData d -> NoSelfCombo d -> cache_ok g d s -> (m < c_ndd g)%nat -> (m < length (V0 s))%nat ->
  block_V0 d s m = (DNormal mu v, k) -> v <> 0 ->
  forall x, energy ln g d (upd_V0 s m x) - energy ln g d (upd_V0 s m 0) = (x * x - qofZ 2 * mu * x) / v.
Proof. exact gauss_block_V0. Qed.
Print Assumptions C08_gauss_block_V0.

(* vector blocks: the draw (Q, b) handed to sample_mvn_from_precision satisfies
   energy(b := x) - energy(b := 0) = x'Qx - 2 b'x, i.e. the conditional is N(Q^-1 b, Q^-1) *)
Theorem C08_gauss_block_W : forall ln g d s c Q b k,
  ValidData d -> cache_ok g d s -> (c < c_ncl g)%nat -> (c < length (W s))%nat ->
  block_W g d s c = (DMvn Q b, k) ->
  forall x, energy ln g d (upd_W s c x) - energy ln g d (upd_W s c []) = quad (c_D g) Q x - qofZ 2 * vdot (c_D g) b x.
Proof. exact gauss_block_W. Qed.
Print Assumptions C08_gauss_block_W.

Theorem C08_gauss_block_V2 : forall ln g d s m Q b k,
  ValidData d -> NoSelfCombo d -> cache_ok g d s -> (m < c_ndd g)%nat -> (m < length (V2 s))%nat ->
  block_V2 g d s m = (DMvn Q b, k) ->
  forall x, energy ln g d (upd_V2 s m x) - energy ln g d (upd_V2 s m []) = quad (c_D g) Q x - qofZ 2 * vdot (c_D g) b x.
Proof. exact gauss_block_V2. Qed.
Print Assumptions C08_gauss_block_V2.

Theorem C08_gauss_block_V1 : forall ln g d s m Q b k,
  ValidData d -> NoSelfCombo d -> cache_ok g d s -> (m < c_ndd g)%nat -> (m < length (V1 s))%nat ->
  block_V1 g d s m = (DMvn Q b, k) ->
  forall x, energy ln g d (upd_V1 s m x) - energy ln g d (upd_V1 s m []) = quad (c_D g) Q x - qofZ 2 * vdot (c_D g) b x.
Proof. exact gauss_block_V1. Qed.
Print Assumptions C08_gauss_block_V1.

(* the generic lemma carrying all five: sum_i (rho_i - X_i.x)^2 - rho_i^2, weighted by the noise
   precision, plus a diagonal prior, is the quadratic form of (gramQ, xtr) - any rows, any dimension *)
Theorem C08_gauss_generic : forall D (p : Qc) (rows : rowsT) (lam x : list Qc),
  p * qsum (map (fun r => hterm (fst r) (vdot D (snd r) x)) rows) + sumn D (fun k => vnth lam k * qsq (vnth x k))
  = quad D (gramQ D p rows lam) x - qofZ 2 * vdot D (xtr D p rows) x.
Proof. exact gauss_rows. Qed.
Print Assumptions C08_gauss_generic.

(* blocks without data draw from the prior: scalar N(0, 1/precision); vector N(0, diag 1/precision)
   with energy difference sum_k precision_k x_k^2 *)
Theorem C08_prior_draw_scalar : forall d s,
  (forall c, positions (Z.of_nat c) (d_cl d) = [] -> fst (block_W0 d s c) = DNormal 0 (/ tau0 s)) /\
  (forall m, positions (Z.of_nat m) (d_dd1 d) = [] -> positions (Z.of_nat m) (d_dd2 d) = [] ->
             fst (block_V0 d s m) = DNormal 0 (/ (vnth (phi0 s) m * eta0 s))).
Proof. exact prior_draw_scalar. Qed.
Print Assumptions C08_prior_draw_scalar.

Theorem C08_prior_draw_W : forall ln g d s c vars k,
  ValidData d -> cache_ok g d s -> (c < c_ncl g)%nat -> (c < length (W s))%nat ->
  block_W g d s c = (DNormalVec vars, k) ->
  vars = map Qcinv (tau s) /\
  forall x, energy ln g d (upd_W s c x) - energy ln g d (upd_W s c []) = sumn (c_D g) (fun j => vnth (tau s) j * qsq (vnth x j)).
Proof. exact prior_block_W. Qed.
Print Assumptions C08_prior_draw_W.

Theorem C08_prior_draw_V2 : forall ln g d s m vars k,
  ValidData d -> NoSelfCombo d -> cache_ok g d s -> (m < c_ndd g)%nat -> (m < length (V2 s))%nat ->
  block_V2 g d s m = (DNormalVec vars, k) ->
  vars = map Qcinv (lam_V2 g s m) /\
  forall x, energy ln g d (upd_V2 s m x) - energy ln g d (upd_V2 s m []) = sumn (c_D g) (fun j => vnth (lam_V2 g s m) j * qsq (vnth x j)).
Proof. exact prior_block_V2. Qed.
Print Assumptions C08_prior_draw_V2.

Theorem C08_prior_draw_V1 : forall ln g d s m vars k,
  ValidData d -> NoSelfCombo d -> cache_ok g d s -> (m < c_ndd g)%nat -> (m < length (V1 s))%nat ->
  block_V1 g d s m = (DNormalVec vars, k) ->
  vars = map Qcinv (lam_V1 g s m) /\
  forall x, energy ln g d (upd_V1 s m x) - energy ln g d (upd_V1 s m []) = sumn (c_D g) (fun j => vnth (lam_V1 g s m) j * qsq (vnth x j)).
Proof. exact prior_block_V1. Qed.
Print Assumptions C08_prior_draw_V1.

(* the drawn value is what the block stores *)
Theorem C08_draw_stored : forall g d s,
  (forall c x, W0 (snd (block_W0 d s c) (VQ x)) = set_nth c x (W0 s)) /\
  (forall m x, V0 (snd (block_V0 d s m) (VQ x)) = set_nth m x (V0 s)) /\
  (forall c x, W (snd (block_W g d s c) (VV x)) = set_nth c x (W s)) /\
  (forall m x, V2 (snd (block_V2 g d s m) (VV x)) = set_nth m x (V2 s)) /\
  (forall m x, V1 (snd (block_V1 g d s m) (VV x)) = set_nth m x (V1 s)).
Proof. exact stored_all. Qed.
Print Assumptions C08_draw_stored.

(* ------------------------------------------------------------------ alpha *)
Theorem C08_alpha_mean : forall d s, nobs d <> 0%nat -> alpha (alpha_step d s) = qmean (d_y d).
Proof. exact alpha_is_mean. Qed.
Print Assumptions C08_alpha_mean.

(* ------------------------------------------------------------------ conjugate gamma blocks *)
(* the draw Gamma(a, r): a - 1 and r are the coefficients of -2 ln t and 2 t in the energy as a
   function of the precision t (for every function ln, so the coefficients are identified) *)
Theorem C08_gamma_block_prec_obs : forall ln orc g d s a r k,
  ValidData d -> cache_ok g d s -> nobs d <> 0%nat ->
  prog_prec_obs g d orc s = Draw (DGamma a r) k ->
  forall t t', energy ln g d (set_prec s t) - energy ln g d (set_prec s t')
               = - (qofZ 2 * (a - 1) * (ln t - ln t')) + qofZ 2 * r * (t - t').
Proof. exact gamma_block_prec_obs. Qed.
Print Assumptions C08_gamma_block_prec_obs.

Theorem C08_gamma_block_tau0 : forall ln orc g d s a r k,
  length (W0 s) = c_ncl g ->
  prog_prec_W0 g d orc s = Draw (DGamma a r) k ->
  forall t t', energy ln g d (set_tau0 s t) - energy ln g d (set_tau0 s t')
               = - (qofZ 2 * (a - 1) * (ln t - ln t')) + qofZ 2 * r * (t - t').
Proof. exact gamma_block_tau0. Qed.
Print Assumptions C08_gamma_block_tau0.

(* multiplicative gamma process: with tau = cumprod gam, for a logarithm that is additive on
   positive numbers, positive gam and positive candidates *)
Theorem C08_gamma_block_gam : forall (ln : Qc -> Qc),
  (forall a b, 0 < a -> 0 < b -> ln (a * b) = ln a + ln b) ->
  forall g d s dd,
  Forall (fun x => 0 < x) (gam s) -> length (gam s) = c_D g -> (dd < c_D g)%nat ->
  forall t t', 0 < t -> 0 < t' ->
    energy ln g d (upd_gam s dd t) - energy ln g d (upd_gam s dd t')
    = - (qofZ 2 * (gam_shape g dd - 1) * (ln t - ln t')) + qofZ 2 * (1 + gam_half_ss g s dd + jitter) * (t - t').
Proof. exact gamma_block_gam. Qed.
Print Assumptions C08_gamma_block_gam.

Theorem C08_gamma_block_gam_is_the_draw : forall g d orc dd r s,
  exists k, prog_gam g d orc (dd :: r) s = Draw (DGamma (gam_shape g dd) (1 + gam_half_ss g s dd + jitter)) k.
Proof. exact prog_gam_head. Qed.
Print Assumptions C08_gamma_block_gam_is_the_draw.

(* ------------------------------------------------------------------ horseshoe steps *)
(* _prec_V0_step, _prec_V2_step, _prec_V1_step: auxiliary of phi, phi, auxiliary of eta, eta.
   energy_hs ln j = -2 log of the complete joint: energy + the half-Cauchy hyper-priors of the
   scales 1/sqrt(phi), 1/sqrt(eta) in their gamma-mixture form (p | a ~ Gamma(1/2, rate a),
   a ~ Gamma(1/2, rate 1), normalising constants included) + the stability tilt 2 j p on every
   horseshoe precision p.  A vectorised draw Gamma(sh, rates) of a whole group x is the full
   conditional when  energy_hs(x) - energy_hs(x') = sum_i gform sh rates_i x_i x'_i  for all x, x'
   (gform c r t t' = -2 (c-1) (ln t - ln t') + 2 r (t - t')): the conditional density factorises
   over the entries and entry i is Gamma(sh, rates_i). *)

(* each step is exactly four gamma draws, with shapes 1, 1, 1, (1 + n_drugdoses)/2 *)
Theorem C08_horseshoe_draws_V0 : forall g d orc s,
  exists r1 k1, prog_prec_V0 g d orc s = Draw (DGammaVec 1 r1) k1 /\ forall v1,
  exists r2 k2, k1 v1 = Draw (DGammaVec 1 r2) k2 /\ forall v2,
  exists r3 k3, k2 v2 = Draw (DGamma 1 r3) k3 /\ forall v3,
  exists r4 k4, k3 v3 = Draw (DGamma (half * (1 + qnat (c_ndd g))) r4) k4 /\ forall v4,
  exists sfin, k4 v4 = Ret sfin.
Proof. exact hs_shape0. Qed.
Print Assumptions C08_horseshoe_draws_V0.

Theorem C08_horseshoe_draws_V2 : forall g d orc s,
  exists r1 k1, prog_prec_V2 g d orc s = Draw (DGammaMat 1 r1) k1 /\ forall v1,
  exists r2 k2, k1 v1 = Draw (DGammaMat 1 r2) k2 /\ forall v2,
  exists r3 k3, k2 v2 = Draw (DGammaVec 1 r3) k3 /\ forall v3,
  exists r4 k4, k3 v3 = Draw (DGammaVec (half * (1 + qnat (c_ndd g))) r4) k4 /\ forall v4,
  exists sfin, k4 v4 = Ret sfin.
Proof. exact hs_shape2. Qed.
Print Assumptions C08_horseshoe_draws_V2.

Theorem C08_horseshoe_draws_V1 : forall g d orc s,
  exists r1 k1, prog_prec_V1 g d orc s = Draw (DGammaMat 1 r1) k1 /\ forall v1,
  exists r2 k2, k1 v1 = Draw (DGammaMat 1 r2) k2 /\ forall v2,
  exists r3 k3, k2 v2 = Draw (DGammaVec 1 r3) k3 /\ forall v3,
  exists r4 k4, k3 v3 = Draw (DGammaVec (half * (1 + qnat (c_ndd g))) r4) k4 /\ forall v4,
  exists sfin, k4 v4 = Ret sfin.
Proof. exact hs_shape1. Qed.
Print Assumptions C08_horseshoe_draws_V1.

(* --- V0 family (one global precision eta0) --- *)
(* first draw: the auxiliaries of phi0 (any j: the tilt does not involve them) *)
Theorem C08_horseshoe_phiaux0 : forall ln g d orc j s sh rates k,
  length (phi0 s) = c_ndd g ->
  prog_prec_V0 g d orc s = Draw (DGammaVec sh rates) k ->
  forall u x x',
    energy_hs ln j g d s (set_a_phi0 u x) - energy_hs ln j g d s (set_a_phi0 u x')
    = sumn (c_ndd g) (fun m => gform ln sh (vnth rates m) (vnth x m) (vnth x' m)).
Proof. exact hs_phiaux0. Qed.
Print Assumptions C08_horseshoe_phiaux0.

(* second draw: phi0 given the drawn auxiliaries a *)
Theorem C08_horseshoe_phi0 : forall (ln : Qc -> Qc) g d orc,
  (forall a b, 0 < a -> 0 < b -> ln (a * b) = ln a + ln b) ->
  forall s d1 k1 a sh rates k2,
  prog_prec_V0 g d orc s = Draw d1 k1 -> k1 (VV a) = Draw (DGammaVec sh rates) k2 ->
  0 < eta0 s ->
  forall u x x', (forall m, (m < c_ndd g)%nat -> 0 < vnth x m) -> (forall m, (m < c_ndd g)%nat -> 0 < vnth x' m) ->
    energy_hs ln jitter g d (set_phi0 s x) (set_a_phi0 u a) - energy_hs ln jitter g d (set_phi0 s x') (set_a_phi0 u a)
    = sumn (c_ndd g) (fun m => gform ln sh (vnth rates m) (vnth x m) (vnth x' m)).
Proof. exact hs_phi0. Qed.
Print Assumptions C08_horseshoe_phi0.

(* third draw: the auxiliary of eta0, in any state with the same eta0 (the phi0 update in between
   does not matter) *)
Theorem C08_horseshoe_etaaux0 : forall ln g d orc j s d1 k1 v1 d2 k2 v2 sh r k3,
  prog_prec_V0 g d orc s = Draw d1 k1 -> k1 v1 = Draw d2 k2 -> k2 v2 = Draw (DGamma sh r) k3 ->
  forall s1 u t t', eta0 s1 = eta0 s ->
    energy_hs ln j g d s1 (set_a_eta0 u t) - energy_hs ln j g d s1 (set_a_eta0 u t') = gform ln sh r t t'.
Proof. exact hs_etaaux0. Qed.
Print Assumptions C08_horseshoe_etaaux0.

(* fourth draw: eta0 given the drawn auxiliary b, in the state sfin the step returns (it holds the
   new, clipped phi0; its eta0 slot is overwritten by the candidate) *)
Theorem C08_horseshoe_eta0 : forall (ln : Qc -> Qc) g d orc,
  (forall a b, 0 < a -> 0 < b -> ln (a * b) = ln a + ln b) ->
  forall s d1 k1 v1 d2 k2 v2 d3 k3 b sh r k4 v4 sfin,
  prog_prec_V0 g d orc s = Draw d1 k1 -> k1 v1 = Draw d2 k2 -> k2 v2 = Draw d3 k3 ->
  k3 (VQ b) = Draw (DGamma sh r) k4 -> k4 v4 = Ret sfin ->
  (forall m, (m < c_ndd g)%nat -> 0 < vnth (phi0 sfin) m) ->
  forall u t t', 0 < t -> 0 < t' ->
    energy_hs ln jitter g d (set_eta0 sfin t) (set_a_eta0 u b) - energy_hs ln jitter g d (set_eta0 sfin t') (set_a_eta0 u b)
    = gform ln sh r t t'.
Proof. exact hs_eta0. Qed.
Print Assumptions C08_horseshoe_eta0.

(* what the step stores: the clipped draws x (phi0) and y (eta0); nothing else the joint reads changes *)
Theorem C08_horseshoe_stored0 : forall g d orc s d1 k1 v1 d2 k2 x d3 k3 v3 d4 k4 y sfin,
  prog_prec_V0 g d orc s = Draw d1 k1 -> k1 v1 = Draw d2 k2 -> k2 (VV x) = Draw d3 k3 ->
  k3 v3 = Draw d4 k4 -> k4 (VQ y) = Ret sfin ->
  eta0 sfin = clipC orc (nobs d) y /\ length (phi0 sfin) = c_ndd g /\
  (forall m, (m < c_ndd g)%nat -> vnth (phi0 sfin) m = clipC orc (n_occ d m) (vnth x m)) /\ off0 sfin s.
Proof. exact hs_stored0. Qed.
Print Assumptions C08_horseshoe_stored0.

(* --- V2 family (one global precision per embedding dimension) --- *)
Theorem C08_horseshoe_phiaux2 : forall ln g d orc j s sh rates k,
  length (phi2 s) = c_ndd g -> (forall m, (m < c_ndd g)%nat -> length (rnth (phi2 s) m) = c_D g) ->
  prog_prec_V2 g d orc s = Draw (DGammaMat sh rates) k ->
  forall u x x',
    energy_hs ln j g d s (set_a_phi2 u x) - energy_hs ln j g d s (set_a_phi2 u x')
    = sumn (c_ndd g) (fun m => sumn (c_D g) (fun i => gform ln sh (vnth (rnth rates m) i) (vnth (rnth x m) i) (vnth (rnth x' m) i))).
Proof. exact hs_phiaux2. Qed.
Print Assumptions C08_horseshoe_phiaux2.

Theorem C08_horseshoe_phi2 : forall (ln : Qc -> Qc) g d orc,
  (forall a b, 0 < a -> 0 < b -> ln (a * b) = ln a + ln b) ->
  forall s d1 k1 a sh rates k2,
  prog_prec_V2 g d orc s = Draw d1 k1 -> k1 (VM a) = Draw (DGammaMat sh rates) k2 ->
  (forall i, (i < c_D g)%nat -> 0 < vnth (eta2 s) i) ->
  forall u x x',
    (forall m i, (m < c_ndd g)%nat -> (i < c_D g)%nat -> 0 < vnth (rnth x m) i) ->
    (forall m i, (m < c_ndd g)%nat -> (i < c_D g)%nat -> 0 < vnth (rnth x' m) i) ->
    energy_hs ln jitter g d (set_phi2 s x) (set_a_phi2 u a) - energy_hs ln jitter g d (set_phi2 s x') (set_a_phi2 u a)
    = sumn (c_ndd g) (fun m => sumn (c_D g) (fun i => gform ln sh (vnth (rnth rates m) i) (vnth (rnth x m) i) (vnth (rnth x' m) i))).
Proof. exact hs_phi2. Qed.
Print Assumptions C08_horseshoe_phi2.

Theorem C08_horseshoe_etaaux2 : forall ln g d orc j s d1 k1 v1 d2 k2 v2 sh rates k3,
  length (eta2 s) = c_D g ->
  prog_prec_V2 g d orc s = Draw d1 k1 -> k1 v1 = Draw d2 k2 -> k2 v2 = Draw (DGammaVec sh rates) k3 ->
  forall s1 u t t', eta2 s1 = eta2 s ->
    energy_hs ln j g d s1 (set_a_eta2 u t) - energy_hs ln j g d s1 (set_a_eta2 u t')
    = sumn (c_D g) (fun i => gform ln sh (vnth rates i) (vnth t i) (vnth t' i)).
Proof. exact hs_etaaux2. Qed.
Print Assumptions C08_horseshoe_etaaux2.

Theorem C08_horseshoe_eta2 : forall (ln : Qc -> Qc) g d orc,
  (forall a b, 0 < a -> 0 < b -> ln (a * b) = ln a + ln b) ->
  forall s d1 k1 v1 d2 k2 v2 d3 k3 b sh rates k4 v4 sfin,
  prog_prec_V2 g d orc s = Draw d1 k1 -> k1 v1 = Draw d2 k2 -> k2 v2 = Draw d3 k3 ->
  k3 (VV b) = Draw (DGammaVec sh rates) k4 -> k4 v4 = Ret sfin ->
  (forall m i, (m < c_ndd g)%nat -> (i < c_D g)%nat -> 0 < vnth (rnth (phi2 sfin) m) i) ->
  forall u t t', (forall i, (i < c_D g)%nat -> 0 < vnth t i) -> (forall i, (i < c_D g)%nat -> 0 < vnth t' i) ->
    energy_hs ln jitter g d (set_eta2 sfin t) (set_a_eta2 u b) - energy_hs ln jitter g d (set_eta2 sfin t') (set_a_eta2 u b)
    = sumn (c_D g) (fun i => gform ln sh (vnth rates i) (vnth t i) (vnth t' i)).
Proof. exact hs_eta2. Qed.
Print Assumptions C08_horseshoe_eta2.

Theorem C08_horseshoe_stored2 : forall g d orc s d1 k1 v1 d2 k2 x d3 k3 v3 d4 k4 y sfin,
  prog_prec_V2 g d orc s = Draw d1 k1 -> k1 v1 = Draw d2 k2 -> k2 (VM x) = Draw d3 k3 ->
  k3 v3 = Draw d4 k4 -> k4 (VV y) = Ret sfin ->
  (forall i, (i < c_D g)%nat -> vnth (eta2 sfin) i = clipC orc (nobs d) (vnth y i)) /\
  (forall m i, (m < c_ndd g)%nat -> (i < c_D g)%nat -> vnth (rnth (phi2 sfin) m) i = clipC orc (n_occ d m) (vnth (rnth x m) i)) /\
  off2 sfin s.
Proof. exact hs_stored2. Qed.
Print Assumptions C08_horseshoe_stored2.

(* --- V1 family --- *)
Theorem C08_horseshoe_phiaux1 : forall ln g d orc j s sh rates k,
  length (phi1 s) = c_ndd g -> (forall m, (m < c_ndd g)%nat -> length (rnth (phi1 s) m) = c_D g) ->
  prog_prec_V1 g d orc s = Draw (DGammaMat sh rates) k ->
  forall u x x',
    energy_hs ln j g d s (set_a_phi1 u x) - energy_hs ln j g d s (set_a_phi1 u x')
    = sumn (c_ndd g) (fun m => sumn (c_D g) (fun i => gform ln sh (vnth (rnth rates m) i) (vnth (rnth x m) i) (vnth (rnth x' m) i))).
Proof. exact hs_phiaux1. Qed.
Print Assumptions C08_horseshoe_phiaux1.

Theorem C08_horseshoe_phi1 : forall (ln : Qc -> Qc) g d orc,
  (forall a b, 0 < a -> 0 < b -> ln (a * b) = ln a + ln b) ->
  forall s d1 k1 a sh rates k2,
  prog_prec_V1 g d orc s = Draw d1 k1 -> k1 (VM a) = Draw (DGammaMat sh rates) k2 ->
  (forall i, (i < c_D g)%nat -> 0 < vnth (eta1 s) i) ->
  forall u x x',
    (forall m i, (m < c_ndd g)%nat -> (i < c_D g)%nat -> 0 < vnth (rnth x m) i) ->
    (forall m i, (m < c_ndd g)%nat -> (i < c_D g)%nat -> 0 < vnth (rnth x' m) i) ->
    energy_hs ln jitter g d (set_phi1 s x) (set_a_phi1 u a) - energy_hs ln jitter g d (set_phi1 s x') (set_a_phi1 u a)
    = sumn (c_ndd g) (fun m => sumn (c_D g) (fun i => gform ln sh (vnth (rnth rates m) i) (vnth (rnth x m) i) (vnth (rnth x' m) i))).
Proof. exact hs_phi1. Qed.
Print Assumptions C08_horseshoe_phi1.

Theorem C08_horseshoe_etaaux1 : forall ln g d orc j s d1 k1 v1 d2 k2 v2 sh rates k3,
  length (eta1 s) = c_D g ->
  prog_prec_V1 g d orc s = Draw d1 k1 -> k1 v1 = Draw d2 k2 -> k2 v2 = Draw (DGammaVec sh rates) k3 ->
  forall s1 u t t', eta1 s1 = eta1 s ->
    energy_hs ln j g d s1 (set_a_eta1 u t) - energy_hs ln j g d s1 (set_a_eta1 u t')
    = sumn (c_D g) (fun i => gform ln sh (vnth rates i) (vnth t i) (vnth t' i)).
Proof. exact hs_etaaux1. Qed.
Print Assumptions C08_horseshoe_etaaux1.

Theorem C08_horseshoe_eta1 : forall (ln : Qc -> Qc) g d orc,
  (forall a b, 0 < a -> 0 < b -> ln (a * b) = ln a + ln b) ->
  forall s d1 k1 v1 d2 k2 v2 d3 k3 b sh rates k4 v4 sfin,
  prog_prec_V1 g d orc s = Draw d1 k1 -> k1 v1 = Draw d2 k2 -> k2 v2 = Draw d3 k3 ->
  k3 (VV b) = Draw (DGammaVec sh rates) k4 -> k4 v4 = Ret sfin ->
  (forall m i, (m < c_ndd g)%nat -> (i < c_D g)%nat -> 0 < vnth (rnth (phi1 sfin) m) i) ->
  forall u t t', (forall i, (i < c_D g)%nat -> 0 < vnth t i) -> (forall i, (i < c_D g)%nat -> 0 < vnth t' i) ->
    energy_hs ln jitter g d (set_eta1 sfin t) (set_a_eta1 u b) - energy_hs ln jitter g d (set_eta1 sfin t') (set_a_eta1 u b)
    = sumn (c_D g) (fun i => gform ln sh (vnth rates i) (vnth t i) (vnth t' i)).
Proof. exact hs_eta1. Qed.
Print Assumptions C08_horseshoe_eta1.

Theorem C08_horseshoe_stored1 : forall g d orc s d1 k1 v1 d2 k2 x d3 k3 v3 d4 k4 y sfin,
  prog_prec_V1 g d orc s = Draw d1 k1 -> k1 v1 = Draw d2 k2 -> k2 (VM x) = Draw d3 k3 ->
  k3 v3 = Draw d4 k4 -> k4 (VV y) = Ret sfin ->
  (forall i, (i < c_D g)%nat -> vnth (eta1 sfin) i = clipC orc (nobs d) (vnth y i)) /\
  (forall m i, (m < c_ndd g)%nat -> (i < c_D g)%nat -> vnth (rnth (phi1 sfin) m) i = clipC orc (n_occ d m) (vnth (rnth x m) i)) /\
  off1 sfin s.
Proof. exact hs_stored1. Qed.
Print Assumptions C08_horseshoe_stored1.

(* the complete joint extends the conditional one: a move that leaves the horseshoe precisions
   alone has the same energy difference under energy_hs and energy, so every Gaussian / gamma block
   theorem above is a statement about the complete joint as well *)
Theorem C08_horseshoe_joint_extends : forall ln g d j s1 s2 u,
  phi0 s1 = phi0 s2 -> eta0 s1 = eta0 s2 -> phi2 s1 = phi2 s2 -> eta2 s1 = eta2 s2 ->
  phi1 s1 = phi1 s2 -> eta1 s1 = eta1 s2 ->
  energy_hs ln j g d s1 u - energy_hs ln j g d s2 u = energy ln g d s1 - energy ln g d s2.
Proof. exact energy_hs_extends. Qed.
Print Assumptions C08_horseshoe_joint_extends.

(* what the "+ 1e-3 for stability" means: energy_hs with j = jitter is the plain horseshoe model
   (j = 0) tilted by exp(-jitter * (sum of all horseshoe precisions)); against the plain model the
   phi / eta draws therefore have the exact shape and a rate larger by exactly 0.001 *)
Theorem C08_horseshoe_jitter_is_tilt : forall ln g d j s u,
  energy_hs ln j g d s u = energy_hs ln 0 g d s u + qofZ 2 * j * hs_total g s.
Proof. exact energy_hs_tilt. Qed.
Print Assumptions C08_horseshoe_jitter_is_tilt.

(* ------------------------------------------------------------------ clipping *)
(* after its own step every precision lies in [1/sqrt(1+k), 1e6] (k = n_obs, or the number of
   occurrences of the treatment for phi), for any sqrt whose bound does not exceed 1e6 *)
Theorem C08_clip_bounds : forall orc g d s, LoOk orc ->
  all_rets (fun s' => in_bounds (clip_lo orc (nobs d)) (tau0 s')) (prog_prec_W0 g d orc s) /\
  (nobs d <> 0%nat -> all_rets (fun s' => in_bounds (clip_lo orc (nobs d)) (prec s')) (prog_prec_obs g d orc s)) /\
  all_rets (fun s' => in_bounds (clip_lo orc (nobs d)) (eta0 s') /\
                      forall m, (m < c_ndd g)%nat -> in_bounds (clip_lo orc (n_occ d m)) (vnth (phi0 s') m))
           (prog_prec_V0 g d orc s) /\
  all_rets (fun s' => (forall k, (k < c_D g)%nat -> in_bounds (clip_lo orc (nobs d)) (vnth (eta2 s') k)) /\
                      forall m k, (m < c_ndd g)%nat -> (k < c_D g)%nat -> in_bounds (clip_lo orc (n_occ d m)) (vnth (rnth (phi2 s') m) k))
           (prog_prec_V2 g d orc s) /\
  all_rets (fun s' => (forall k, (k < c_D g)%nat -> in_bounds (clip_lo orc (nobs d)) (vnth (eta1 s') k)) /\
                      forall m k, (m < c_ndd g)%nat -> (k < c_D g)%nat -> in_bounds (clip_lo orc (n_occ d m)) (vnth (rnth (phi1 s') m) k))
           (prog_prec_V1 g d orc s) /\
  all_rets (fun s' => Forall (in_bounds (clip_lo orc (nobs d))) (tau s')) (prog_prec_W g d orc s).
Proof.
  exact (fun orc g d s H => conj (clip_tau0 orc g d s H) (conj (clip_prec orc g d s H) (conj (clip_V0 orc g d s H)
          (conj (clip_V2 orc g d s H) (conj (clip_V1 orc g d s H) (clip_tau orc g d s H)))))).
Qed.
Print Assumptions C08_clip_bounds.

(* refuted clause: with no observation _prec_obs_step returns before clipping *)
Theorem C08_prec_unclipped_without_data_refuted :
  exists orc g d s v k, nobs d = 0%nat /\ (exists dr, prog_prec_obs g d orc s = Draw dr k) /\
                        exists s', k v = Ret s' /\ prec_hi < prec s'.
Proof. exact prec_unclipped_without_data. Qed.
Print Assumptions C08_prec_unclipped_without_data_refuted.

(* ------------------------------------------------------------------ the fitted-value cache *)
(* after every step function of any sequence (every prefix of a sweep, any number of sweeps) and
   for every result of every draw, Mu = reconstruct(state) - when no row has the same treatment
   in both columns *)
Theorem C08_cache_invariant : forall g d orc bs s,
  ValidData d -> NoSelfCombo d -> Inv g d s -> all_rets (Inv g d) (run_blocks g d orc bs s).
Proof. exact cache_invariant. Qed.
Print Assumptions C08_cache_invariant.

Theorem C08_cache_invariant_steps : forall g d orc k s,
  ValidData d -> NoSelfCombo d -> Inv g d s -> all_rets (Inv g d) (run_blocks g d orc (concat (repeat step_order k)) s).
Proof. exact cache_invariant_steps. Qed.
Print Assumptions C08_cache_invariant_steps.

(* ... and inside a step function, after every single block *)
Theorem C08_cache_invariant_blocks : forall g d,
  ValidData d -> NoSelfCombo d ->
  (forall s c v, Inv g d s -> (c < c_ncl g)%nat -> Inv g d (snd (block_W0 d s c) v)) /\
  (forall s m v, Inv g d s -> (m < c_ndd g)%nat -> Inv g d (snd (block_V0 d s m) v)) /\
  (forall s c v, Inv g d s -> (c < c_ncl g)%nat -> Inv g d (snd (block_W g d s c) v)) /\
  (forall s m v, Inv g d s -> (m < c_ndd g)%nat -> Inv g d (snd (block_V2 g d s m) v)) /\
  (forall s m v, Inv g d s -> (m < c_ndd g)%nat -> Inv g d (snd (block_V1 g d s m) v)).
Proof.
  exact (fun g d Hv Hns =>
    conj (fun s c v Hi Hc => cache_block_W0 g d s c v Hv Hi Hc)
   (conj (fun s m v Hi Hm => cache_block_V0 g d s m v Hv Hns Hi Hm)
   (conj (fun s c v Hi Hc => cache_block_W g d s c v Hv Hi Hc)
   (conj (fun s m v Hi Hm => cache_block_V2 g d s m v Hv Hns Hi Hm)
         (fun s m v Hi Hm => cache_block_V1 g d s m v Hv Hns Hi Hm))))).
Qed.
Print Assumptions C08_cache_invariant_blocks.

(* refuted without NoSelfCombo: a row with the same (non-control) treatment in both columns *)
Theorem C08_cache_refuted :
  exists g d s v, ValidData d /\ Inv g d s /\ ~ NoSelfCombo d /\ ~ cache_ok g d (snd (block_V0 d s 0) v).
Proof. exact cache_refuted. Qed.
Print Assumptions C08_cache_refuted.

(* ------------------------------------------------------------------ export *)
Theorem C08_export : forall g d s,
  (predict_training g d (export s) = reconstruct g d s /\ sm_precision (export s) = prec s) /\
  (cache_ok g d s -> predict_training g d (export s) = Mu s).
Proof. exact (fun g d s => conj (export_predicts g d s) (fun H => proj1 (export_predicts_cache g d s H))). Qed.
Print Assumptions C08_export.

(* ------------------------------------------------------------------ the multivariate normal draw *)
(* L lower triangular, non-zero diagonal, L L^T = Q:  Q m = b for m = the result at z = 0, and
   L^T (x - m) = z for the result x *)
Theorem C08_mvn_mean_cov : forall D (L : list (list Qc)),
  (forall j k, (j < k)%nat -> (k < D)%nat -> vnth (rnth L j) k = 0) ->
  (forall j, (j < D)%nat -> vnth (rnth L j) j <> 0) ->
  length L = D ->
  forall Q : list (list Qc),
  (forall j k, (j < D)%nat -> (k < D)%nat -> vnth (rnth Q j) k = sumn D (fun t => vnth (rnth L j) t * vnth (rnth L k) t)) ->
  forall z b, length b = D ->
  (forall j, (j < D)%nat -> sumn D (fun k => vnth (rnth Q j) k * vnth (mvn_mean D L b) k) = vnth b j) /\
  (forall j, (j < D)%nat ->
     sumn D (fun k => vnth (rnth L k) j * (vnth (sample_mvn D L z b) k - vnth (mvn_mean D L b) k)) = vnth z j).
Proof.
  exact (fun D L Hlow Hdiag Hlen Q HQ z b Hb =>
    conj (fun j Hj => mvn_mean_solves D L Hlow Hdiag Hlen Q HQ b j Hb Hj)
         (fun j Hj => mvn_sample_law D L Hlow Hdiag z b j Hj)).
Qed.
Print Assumptions C08_mvn_mean_cov.

(* ------------------------------------------------------------------ non-vacuity *)
Definition ex_cfg : cfg := {| c_D := 2; c_ndd := 2; c_ncl := 2; c_a0 := Q2Qc (11 # 10); c_b0 := Q2Qc (11 # 10);
                              c_minMu := - qofZ 10; c_maxMu := qofZ 10 |}.
(* a combination, a single agent in the second column, a single agent in the first column *)
Definition ex_data : data :=
  {| d_y := [1; - (1); Q2Qc (1 # 2)]; d_cl := [0; 1; 0]%Z; d_dd1 := [0; -1; 1]%Z; d_dd2 := [1; 0; -1]%Z |}.
Definition ex_state : st :=
  {| W := [[0; 0]; [0; 0]]; W0 := [0; 0]; V2 := [[0; 0]; [0; 0]]; V1 := [[0; 0]; [0; 0]]; V0 := [0; 0];
     alpha := 0; prec := qofZ 100; tau := [qofZ 100; qofZ 100]; tau0 := qofZ 100;
     phi2 := [[qofZ 100; qofZ 100]; [qofZ 100; qofZ 100]]; phi1 := [[qofZ 100; qofZ 100]; [qofZ 100; qofZ 100]];
     phi0 := [qofZ 100; qofZ 100]; eta2 := [1; 1]; eta1 := [1; 1]; eta0 := 1; gam := [1; 1]; Mu := [0; 0; 0] |}.
Definition ex_orc : oracle := fun _ x => x.
Definition hq : Qc := Q2Qc (1 # 2).
Definition ex_vals : list val :=
  [VQ hq; VQ (- hq);                       (* W0 *)
   VQ 1; VQ hq;                            (* V0 *)
   VV [hq; 1]; VV [- (1); hq];             (* W *)
   VV [1; hq]; VFail;                      (* V2, second draw raises *)
   VV [hq; hq]; VV [1; - (1)];             (* V1 *)
   VQ (qofZ 2);                            (* tau0 *)
   VV [1; 1]; VV [hq; qofZ 3]; VQ 1; VQ (qofZ 2);                                    (* V0 precisions *)
   VQ (qofZ 4);                            (* prec *)
   VM [[1; 1]; [1; 1]]; VM [[hq; 1]; [qofZ 2; 1]]; VV [1; 1]; VV [qofZ 2; hq];        (* V2 precisions *)
   VM [[1; 1]; [1; 1]]; VM [[1; hq]; [1; qofZ 2]]; VV [1; 1]; VV [hq; qofZ 2];        (* V1 precisions *)
   VQ (qofZ 2); VQ hq].                    (* gam *)

Example C08_example_hypotheses : ValidData ex_data /\ NoSelfCombo ex_data /\ Inv ex_cfg ex_data ex_state.
Proof.
  split; [apply valid_datab_ok; vm_compute; reflexivity|]. split; [apply no_self_combob_ok; vm_compute; reflexivity|].
  split; [apply qeq_list_ok; vm_compute; reflexivity|repeat split].
Qed.

(* one complete sweep on the example: all 26 draws are consumed and the cache is exact at the end *)
Example C08_example_sweep :
  match snd (run_prog (mcmc_step ex_cfg ex_data ex_orc ex_state) ex_vals) with
  | Some s' => qeq_list (Mu s') (reconstruct ex_cfg ex_data s') && negb (qeq_list (Mu s') [0; 0; 0])
               && Nat.eqb (length (fst (run_prog (mcmc_step ex_cfg ex_data ex_orc ex_state) ex_vals))) 26
  | None => false
  end = true.
Proof. vm_compute. reflexivity. Qed.

(* the first W block of that sweep really is a data block handing (Q, b) to the MVN sampler *)
Example C08_example_W_block :
  match fst (block_W ex_cfg ex_data ex_state 0) with DMvn Q b => Nat.eqb (length Q) 2 | _ => false end = true.
Proof. vm_compute. reflexivity. Qed.

(* the refutation witness, executed: after the V0 block the cache holds 1, the recomputation 2 *)
Example C08_example_refutation :
  let s' := snd (block_V0 wit_data wit_state 0) (VQ 1) in
  (qeq_list (Mu s') [1] && qeq_list (reconstruct wit_cfg wit_data s') [qofZ 2]) = true.
Proof. vm_compute. reflexivity. Qed.

(* sample_mvn on L = [[2,0],[1,3]], z = (1, 1/2), b = (4, 5): x = (5/4, 1/2), mean (5/6, 1/3) *)
Example C08_example_mvn :
  (qeq_list (sample_mvn 2 [[qofZ 2; 0]; [1; qofZ 3]] [1; hq] [qofZ 4; qofZ 5]) [Q2Qc (5 # 4); hq]
   && qeq_list (mvn_mean 2 [[qofZ 2; 0]; [1; qofZ 3]] [qofZ 4; qofZ 5]) [Q2Qc (5 # 6); Q2Qc (1 # 3)]) = true.
Proof. vm_compute. reflexivity. Qed.

(* horseshoe theorems: their hypotheses hold on the example state (initial horseshoe values of the
   code: phi = 100, eta = 1), for a function ln that is additive on positives *)
Example C08_example_horseshoe_hypotheses :
  length (phi0 ex_state) = c_ndd ex_cfg /\ 0 < eta0 ex_state /\
  (length (phi2 ex_state) = c_ndd ex_cfg /\ (forall m, (m < c_ndd ex_cfg)%nat -> length (rnth (phi2 ex_state) m) = c_D ex_cfg) /\
   length (eta2 ex_state) = c_D ex_cfg /\ forall i, (i < c_D ex_cfg)%nat -> 0 < vnth (eta2 ex_state) i) /\
  (length (phi1 ex_state) = c_ndd ex_cfg /\ (forall m, (m < c_ndd ex_cfg)%nat -> length (rnth (phi1 ex_state) m) = c_D ex_cfg) /\
   length (eta1 ex_state) = c_D ex_cfg /\ forall i, (i < c_D ex_cfg)%nat -> 0 < vnth (eta1 ex_state) i) /\
  (forall a b : Qc, 0 < a -> 0 < b -> (fun _ : Qc => 0) (a * b) = (fun _ : Qc => 0) a + (fun _ : Qc => 0) b).
Proof.
  repeat split; try (apply below2; reflexivity); reflexivity.
Qed.

(* _prec_V0_step executed on the example with V0 = (1, 2) and drawn values aux = (1, 1),
   phi0 = (1/2, 3), etaaux = 1, eta0 = 2:
     Gamma(1, 1 + 100) twice;  Gamma(1, 1 + 1*1/2 + 0.001), Gamma(1, 1 + 1*4/2 + 0.001);
     Gamma(1, 1 + 1);  Gamma(3/2, 1 + (1/2 * 1 + 3 * 4)/2 + 0.001);
   the stored phi0 is positive, so the hypothesis of C08_horseshoe_eta0 holds there *)
Example C08_example_horseshoe_step :
  let res := run_prog (prog_prec_V0 ex_cfg ex_data ex_orc (set_V0 ex_state [1; qofZ 2]))
                      [VV [1; 1]; VV [hq; qofZ 3]; VQ 1; VQ (qofZ 2)] in
  match res with
  | ([DGammaVec s1 r1; DGammaVec s2 r2; DGamma s3 r3; DGamma s4 r4], Some sfin) =>
      qeq_list (s1 :: r1) [1; qofZ 101; qofZ 101] && qeq_list (s2 :: r2) [1; Q2Qc (1501 # 1000); Q2Qc (3001 # 1000)]
      && qeq_list [s3; r3; s4; r4] [1; qofZ 2; Q2Qc (3 # 2); Q2Qc (7251 # 1000)]
      && qeq_list (phi0 sfin) [hq; qofZ 3] && qeq_list [eta0 sfin] [qofZ 2]
      && forallb (fun p => qltb 0 p) (phi0 sfin)
  | _ => false
  end = true.
Proof. vm_compute. reflexivity. Qed.

(* ------------------------------------------------------------------ source-translation links
   Generated/SrcGibbs.v holds the methods of LegacySparseDrugComboImpl re-translated from /repo on every run
   (harness/py2gal.py, configurations C08_* of harness/src_functions.py) as programs in the free monad [gprog] over the
   model's draws: every np.random.normal / np.random.gamma call is a node carrying the call's arguments and the method
   goes on with the drawn value.  [to_prog] reads such a program as a model program; [prog_eq] is equality of programs up
   to the extensionality of their continuations (same draw arguments at every node, equal continuations for every drawn
   value; no axiom).  The hypotheses are shape facts that hold in every reachable state (the parameter arrays keep the
   sizes __init__ gives them; Mu has one entry per observation after _reconstruct_Mu, with which every sweep starts). *)

(* programs equal in this sense answer every stream of drawn values alike *)
Theorem C08_model_is_source_observable : forall p q, prog_eq p q -> forall vals, run_prog p vals = run_prog q vals.
Proof. exact prog_eq_run. Qed.
Print Assumptions C08_model_is_source_observable.

(* mcmc_step: whatever the block methods do ([run]), the translated method calls each of them once, in the model's order,
   threading the state ... *)
Theorem C08_model_is_source_mcmc_step_order : forall (run : blk -> st -> gprog st) n s,
  prog_eq (to_prog (src_mcmc_step run n s)) (run_blocks_with (fun b s' => to_prog (run b s')) step_order s).
Proof. exact src_mcmc_step_order. Qed.
Print Assumptions C08_model_is_source_mcmc_step_order.

(* ... hence with block methods that behave as the model's step functions it is the model's sweep *)
Theorem C08_model_is_source_mcmc_step : forall g d orc (run : blk -> st -> gprog st) n s,
  (forall b s', prog_eq (to_prog (run b s')) (step_prog g d orc b s')) ->
  prog_eq (to_prog (src_mcmc_step run n s)) (mcmc_step g d orc s).
Proof. exact src_mcmc_step_is_model. Qed.
Print Assumptions C08_model_is_source_mcmc_step.

Theorem C08_model_is_source_n_obs : forall d, src_n_obs d = GRet (Z.of_nat (nobs d)).
Proof. exact src_n_obs_is_model. Qed.
Print Assumptions C08_model_is_source_n_obs.

(* get(attr, ix) on an array of numbers / of rows is the model's get_v / get_r at every index *)
Theorem C08_model_is_source_get : forall (v : list Qc) (M : list (list Qc)) ix,
  src_get Qc 0 v ix = GRet (map (get_v v) ix) /\ src_get (list Qc) [] M ix = GRet (map (get_r M) ix).
Proof. exact (fun v M ix => conj (src_get_numbers v ix) (src_get_rows M ix)). Qed.
Print Assumptions C08_model_is_source_get.

(* _alpha_step with the default option fake_intercept = True (the other branch is translated too, not modelled) *)
Theorem C08_model_is_source_alpha_step : forall g d s, src_alpha_step g d true s = GRet (alpha_step d s).
Proof. exact src_alpha_step_is_model. Qed.
Print Assumptions C08_model_is_source_alpha_step.

Theorem C08_model_is_source_prec_obs_step : forall g d orc s, length (Mu s) = nobs d ->
  prog_eq (to_prog (src_prec_obs_step g d orc s)) (step_prog g d orc BPrecObs s).
Proof. exact src_prec_obs_step_is_model. Qed.
Print Assumptions C08_model_is_source_prec_obs_step.

Theorem C08_model_is_source_prec_W0_step : forall g d orc s,
  prog_eq (to_prog (src_prec_W0_step g d orc s)) (step_prog g d orc BPrecW0 s).
Proof. exact src_prec_W0_step_is_model. Qed.
Print Assumptions C08_model_is_source_prec_W0_step.

(* the scalar Gaussian blocks: the loop over samples / treatments, the index lists, the residual, the prior-only branch,
   the draw's mean and variance, the stored value and the incremental cache update *)
Theorem C08_model_is_source_W0_step : forall g d orc s, length (W0 s) = c_ncl g ->
  prog_eq (to_prog (src_W0_step g d s)) (step_prog g d orc BW0 s).
Proof. exact src_W0_step_is_model. Qed.
Print Assumptions C08_model_is_source_W0_step.

Theorem C08_model_is_source_V0_step : forall g d orc s, length (V0 s) = c_ndd g ->
  prog_eq (to_prog (src_V0_step g d s)) (step_prog g d orc BV0 s).
Proof. exact src_V0_step_is_model. Qed.
Print Assumptions C08_model_is_source_V0_step.

(* the horseshoe precision steps with the default option local_shrinkage = True (the vectorised gamma draws of the
   auxiliaries and precisions, the counts N1 + N2, both clippings); the drawn arrays are read at the shape of the scale
   argument, as numpy returns them *)
Theorem C08_model_is_source_prec_V0_step : forall g d orc s, length (phi0 s) = c_ndd g -> length (V0 s) = c_ndd g ->
  prog_eq (to_prog (src_prec_V0_step g d orc true s)) (step_prog g d orc BPrecV0 s).
Proof. exact src_prec_V0_step_is_model. Qed.
Print Assumptions C08_model_is_source_prec_V0_step.

Theorem C08_model_is_source_prec_V2_step : forall g d orc s,
  shape2 (V2 s) (c_ndd g) (c_D g) -> shape2 (phi2 s) (c_ndd g) (c_D g) -> length (eta2 s) = c_D g ->
  prog_eq (to_prog (src_prec_V2_step g d orc true s)) (step_prog g d orc BPrecV2 s).
Proof. exact src_prec_V2_step_is_model. Qed.
Print Assumptions C08_model_is_source_prec_V2_step.

Theorem C08_model_is_source_prec_V1_step : forall g d orc s,
  shape2 (V1 s) (c_ndd g) (c_D g) -> shape2 (phi1 s) (c_ndd g) (c_D g) -> length (eta1 s) = c_D g ->
  prog_eq (to_prog (src_prec_V1_step g d orc true s)) (step_prog g d orc BPrecV1 s).
Proof. exact src_prec_V1_step_is_model. Qed.
Print Assumptions C08_model_is_source_prec_V1_step.

(* the multiplicative gamma process with the default option mult_gamma_proc = True: component 0, the loop over the
   components 1 .. D-1 (slices of cumprod(gam) and of W**2, shape 2 resp. 3 + n_clines (D - d) / 2), tau = cumprod(gam),
   clipping.  D = 0 makes the code fail at gam[0]. *)
Theorem C08_model_is_source_prec_W_step : forall g d orc s,
  shape2 (W s) (c_ncl g) (c_D g) -> length (gam s) = c_D g -> (0 < c_D g)%nat ->
  prog_eq (to_prog (src_prec_W_step g d orc true s)) (step_prog g d orc BPrecW s).
Proof. exact src_prec_W_step_is_model. Qed.
Print Assumptions C08_model_is_source_prec_W_step.

(* the vector Gaussian block of the samples: the loop, the prior-only branch N(0, diag 1/tau), the design matrix from the four
   get calls, old contribution, residual, Xt @ resid * prec, Xt @ X * prec with tau on the diagonal, the try/except around
   sample_mvn_from_precision (a raising call = the answer VFail: state unchanged), store, incremental cache update *)
Theorem C08_model_is_source_W_step : forall g d orc s,
  length (W s) = c_ncl g -> shape2 (V2 s) (c_ndd g) (c_D g) -> shape2 (V1 s) (c_ndd g) (c_D g) ->
  prog_eq (to_prog (src_W_step g d s)) (step_prog g d orc BW s).
Proof. exact src_W_step_is_model. Qed.
Print Assumptions C08_model_is_source_W_step.

(* the vector Gaussian blocks of the treatments: the two slices (m first / m second), their design rows W[cline] * get(V2, other)
   resp. W[cline], concatenation, prior phi[m] * eta, try/except, store, cache update with the concatenated index.  The rows
   of V2 / V1 redrawn earlier in the loop may have any length (all drawn values are quantified over). *)
Theorem C08_model_is_source_V2_step : forall g d orc s,
  length (V2 s) = c_ndd g -> shape2 (W s) (c_ncl g) (c_D g) -> shape2 (phi2 s) (c_ndd g) (c_D g) -> length (eta2 s) = c_D g ->
  prog_eq (to_prog (src_V2_step g d s)) (step_prog g d orc BV2 s).
Proof. exact src_V2_step_is_model. Qed.
Print Assumptions C08_model_is_source_V2_step.

Theorem C08_model_is_source_V1_step : forall g d orc s,
  length (V1 s) = c_ndd g -> shape2 (W s) (c_ncl g) (c_D g) -> shape2 (phi1 s) (c_ndd g) (c_D g) -> length (eta1 s) = c_D g ->
  prog_eq (to_prog (src_V1_step g d s)) (step_prog g d orc BV1 s).
Proof. exact src_V1_step_is_model. Qed.
Print Assumptions C08_model_is_source_V1_step.

(* _reconstruct_Mu(clip): the early return without data, the three gathers per term, row sums, the optional clip *)
Theorem C08_model_is_source_reconstruct_Mu : forall g d clip s,
  length (d_cl d) = nobs d -> length (d_dd1 d) = nobs d -> length (d_dd2 d) = nobs d ->
  shape2 (W s) (c_ncl g) (c_D g) -> shape2 (V2 s) (c_ndd g) (c_D g) -> shape2 (V1 s) (c_ndd g) (c_D g) ->
  src_reconstruct_Mu g d clip s = GRet (reconstruct_Mu g d clip s).
Proof. exact src_reconstruct_Mu_is_model. Qed.
Print Assumptions C08_model_is_source_reconstruct_Mu.

(* the observation store: the block links read the index dicts as `positions k keys` (primitive of their configurations);
   _update - the only method that writes them - keeps exactly that representation, starting from the empty store, and
   encode_obs returns the four lists *)
Theorem C08_model_is_source_update : forall o d y cl dd1 dd2,
  obs_rep o d -> length (d_cl d) = nobs d -> length (d_dd1 d) = nobs d -> length (d_dd2 d) = nobs d ->
  exists o', src_update o y cl dd1 dd2 = Ok o' /\ obs_rep o' (data_snoc d y cl dd1 dd2).
Proof. exact src_update_is_model. Qed.
Print Assumptions C08_model_is_source_update.

Theorem C08_model_is_source_update_empty : obs_rep obs_empty data_empty.
Proof. exact obs_rep_empty. Qed.
Print Assumptions C08_model_is_source_update_empty.

Theorem C08_model_is_source_encode_obs : forall o d, obs_rep o d -> src_encode_obs o = Ok (d_y d, d_cl d, d_dd1 d, d_dd2 d).
Proof. exact src_encode_obs_is_model. Qed.
Print Assumptions C08_model_is_source_encode_obs.

(* ------------------------------------------------------------------ source-translation links, second part
   (Generated/SrcMvn.v, Generated/SrcGibbsObj.v; proofs: Proofs/C08SourceObj.v) *)

(* fast_mvn.sample_mvn_from_precision, the WHOLE function for every argument combination.  It may raise and it draws: it
   denotes a program of draws whose result is a [result] (Model/Mvn.v: mprog).  [chol] = np.linalg.cholesky is ANY function
   (Err = LinAlgError), [lin_solve] = np.linalg.solve (only reached for a masked array) any function.  [geq] is equality of
   such programs up to the extensionality of their continuations. *)
Theorem C08_model_is_source_sample_mvn_from_precision : forall chol lin_solve Q mu mu_part chol_factor rng,
  geq (src_sample_mvn_from_precision chol lin_solve Q mu mu_part chol_factor rng) (mvn_general chol Q mu mu_part chol_factor).
Proof. exact src_sample_mvn_general. Qed.
Print Assumptions C08_model_is_source_sample_mvn_from_precision.

(* ... as the Gibbs blocks call it - sample_mvn_from_precision(Q, mu_part=b) - it is Model/Mvn.v's sample_mvn on the factor
   chol returned and the drawn standard-normal vector, or the exception chol raised *)
Theorem C08_model_is_source_sample_mvn : forall chol lin_solve Q b rng,
  geq (src_sample_mvn_from_precision chol lin_solve Q None (Some b) false rng) (mvn_prog chol Q b).
Proof. exact src_sample_mvn_is_model. Qed.
Print Assumptions C08_model_is_source_sample_mvn.

(* the MVN draw node of the block links becomes the translated function: programs equal with abstract DMvn nodes stay equal
   when each such node is replaced by the translated sample_mvn_from_precision (left) resp. the model's mvn_prog (right) *)
Theorem C08_model_is_source_mvn_node : forall chol lin_solve p q, prog_eq p q ->
  prog_eq (expand_mvn (src_mvn_call chol lin_solve) p) (expand_mvn (fun Q b => mvn_call (mvn_prog chol Q b)) q).
Proof. exact src_mvn_node. Qed.
Print Assumptions C08_model_is_source_mvn_node.

(* under np.linalg.cholesky's contract the model's mvn_prog is one standard-normal draw z of the size of Q and returns x with
   Q m = b, L^T (x - m) = z  (C08_mvn_mean_cov at the size of Q) *)
Theorem C08_model_is_source_mvn_law : forall chol Q L b, chol_contract chol -> chol Q = Ok L -> length b = length Q ->
  let D := length Q in let m := mvn_mean D L b in
  mvn_prog chol Q b = GDraw (DNormalVec (repeat 1 D)) (fun v => GRet (Ok (sample_mvn D L (val_v v) b))) /\
  (forall j, (j < D)%nat -> sumn D (fun k => vnth (rnth Q j) k * vnth m k) = vnth b j) /\
  (forall z j, (j < D)%nat -> sumn D (fun k => vnth (rnth L k) j * (vnth (sample_mvn D L z b) k - vnth m k)) = vnth z j).
Proof. exact mvn_prog_law. Qed.
Print Assumptions C08_model_is_source_mvn_law.

(* LegacySparseDrugComboImpl.__init__, the WHOLE constructor on the whole object (every attribute it assigns), for any
   previous content of the object: sizes, options, hyper-parameters recorded, an empty observation store, the initial state
   init_st (shapes and values of all 17 state attributes).  mult_gamma_proc = False would leave `gam` unassigned. *)
Theorem C08_model_is_source_init : forall self0 D ndd ncl ic fi ie ls a0 b0 mn mx,
  src_impl_init self0 (Z.of_nat D) (Z.of_nat ndd) (Z.of_nat ncl) ic fi ie true ls a0 b0 mn mx
  = Ok (init_obj D ndd ncl ic fi ie true ls a0 b0 mn mx).
Proof. exact src_impl_init_is_model. Qed.
Print Assumptions C08_model_is_source_init.

Theorem C08_model_is_source_init_negative : forall self0 nd ndd ncl ic fi ie mgp ls a0 b0 mn mx,
  (nd < 0 \/ ndd < 0 \/ ncl < 0)%Z -> src_impl_init self0 nd ndd ncl ic fi ie mgp ls a0 b0 mn mx = Err 7%Z.
Proof. exact src_impl_init_negative. Qed.
Print Assumptions C08_model_is_source_init_negative.

(* after __init__ every shape hypothesis of the block links C08_model_is_source_*_step holds, and the cache is empty *)
Theorem C08_model_is_source_init_shapes : forall g, shapes g (init_st g) /\ Mu (init_st g) = [].
Proof. exact init_shapes. Qed.
Print Assumptions C08_model_is_source_init_shapes.

(* reset_model, the WHOLE method: W, W0, V2, V1, V0 times 0.0, alpha = 0, prec = 100, Mu = the empty array; nothing else *)
Theorem C08_model_is_source_reset_model : forall o, src_impl_reset_model o = Ok (set_pi_st o (reset_st (pi_st o))).
Proof. exact src_impl_reset_is_model. Qed.
Print Assumptions C08_model_is_source_reset_model.

Theorem C08_model_is_source_reset_shapes : forall g s, shapes g s -> shapes g (reset_st s) /\ Mu (reset_st s) = [].
Proof. exact reset_shapes. Qed.
Print Assumptions C08_model_is_source_reset_shapes.

(* every step function keeps the shapes and the cache's length, for well-shaped answers to its draws; a whole sweep started
   with a (possibly stale, shorter) cache ends with them *)
Theorem C08_model_is_source_blocks_keep_shapes : forall g d orc b s,
  in_sweep g d s -> all_rets_ws (in_sweep g d) (step_prog g d orc b s).
Proof. exact step_keeps. Qed.
Print Assumptions C08_model_is_source_blocks_keep_shapes.

Theorem C08_model_is_source_sweep_keeps_shapes : forall g d orc s,
  sweep_ready g d s -> all_rets_ws (in_sweep g d) (mcmc_step g d orc s).
Proof. exact sweep_keeps. Qed.
Print Assumptions C08_model_is_source_sweep_keeps_shapes.

(* all thirteen block links at once, their shape hypotheses replaced by [shapes] (default options; D > 0: with D = 0 the
   code fails at gam[0]) *)
Theorem C08_model_is_source_block : forall g d orc b s,
  data_ok d -> (0 < c_D g)%nat -> shapes g s -> (b = BReconstruct \/ length (Mu s) = nobs d) ->
  prog_eq (to_prog (src_run true true true g d orc b s)) (step_prog g d orc b s).
Proof. exact src_block_is_model. Qed.
Print Assumptions C08_model_is_source_block.

(* programs equal on well-shaped answers answer every well-shaped stream alike *)
Theorem C08_model_is_source_observable_ws : forall p q, prog_eq_ws p q ->
  forall vals, answers_ok p vals -> run_prog p vals = run_prog q vals.
Proof. exact prog_eq_ws_run. Qed.
Print Assumptions C08_model_is_source_observable_ws.

(* every reachable state (after __init__, _update calls, whole sweeps on well-shaped answers, reset_model calls, in any
   order) is ready for a sweep, and the data are well-formed *)
Theorem C08_model_is_source_reachable_ready : forall g orc d s, reach g orc d s -> sweep_ready g d s /\ data_ok d.
Proof. exact reach_ready. Qed.
Print Assumptions C08_model_is_source_reachable_ready.

(* THE COMPOSITE.  The object built by the translated __init__ (default options), fed by any number of translated _update
   calls: the translated mcmc_step, running the thirteen translated block methods with the object's own option flags, is
   the model's sweep on the data the store represents - same draw arguments at every node, equal continuations for every
   well-shaped drawn value.  No shape hypothesis is left. *)
Theorem C08_model_is_source_sweep : forall self0 D ndd ncl ic ie a0 b0 mn mx rows orc n, (0 < D)%nat ->
  exists o o', src_impl_init self0 (Z.of_nat D) (Z.of_nat ndd) (Z.of_nat ncl) ic true ie true true a0 b0 mn mx = Ok o /\
    src_updates (pi_obs o) rows = Ok o' /\
    exists d, obs_rep o' d /\ reach (cfg_of o) orc d (pi_st o) /\
      prog_eq_ws (to_prog (src_mcmc_step (src_run (pi_fake_intercept o) (pi_local_shrinkage o) (pi_mult_gamma_proc o) (cfg_of o) d orc) n (pi_st o)))
                 (mcmc_step (cfg_of o) d orc (pi_st o)).
Proof. exact src_sweep_from_init. Qed.
Print Assumptions C08_model_is_source_sweep.

(* ... and from every reachable state, e.g. the second sweep, or a sweep after more data and a reset *)
Theorem C08_model_is_source_sweep_reachable : forall g orc d s n, reach g orc d s -> (0 < c_D g)%nat ->
  prog_eq_ws (to_prog (src_mcmc_step (src_run true true true g d orc) n s)) (mcmc_step g d orc s).
Proof. exact src_sweep_reachable. Qed.
Print Assumptions C08_model_is_source_sweep_reachable.

(* ... with every MVN node expanded into the translated sample_mvn_from_precision (chol keeps the size of its argument) *)
Theorem C08_model_is_source_sweep_mvn : forall chol lin_solve g orc d s n,
  (forall Q L, chol Q = Ok L -> length L = length Q) -> reach g orc d s -> (0 < c_D g)%nat ->
  prog_eq_ws (expand_mvn (src_mvn_call chol lin_solve) (to_prog (src_mcmc_step (src_run true true true g d orc) n s)))
             (expand_mvn (fun Q b => mvn_call (mvn_prog chol Q b)) (mcmc_step g d orc s)).
Proof. exact src_sweep_mvn. Qed.
Print Assumptions C08_model_is_source_sweep_mvn.

(* the wrapper class SparseDrugCombo *)
Theorem C08_model_is_source_sdc_init : forall self0 nS nT D fi ie ls a0 b0 mn mx rng pint ilt ic,
  src_sdc_init self0 (Z.of_nat nS) (Z.of_nat nT) (Z.of_nat D) fi ie true ls a0 b0 mn mx rng pint ilt ic
  = Ok (sdc_init_obj nS nT D fi ie true ls a0 b0 mn mx rng pint ilt ic).
Proof. exact src_sdc_init_is_model. Qed.
Print Assumptions C08_model_is_source_sdc_init.

(* get_model_state exports exactly the model's [export] of the wrapped object's state (C08_export is about that) *)
Theorem C08_model_is_source_get_model_state : forall o, src_sdc_get_model_state o = Ok (export (pi_st (sdc_wrapped o))).
Proof. exact src_sdc_get_model_state_is_model. Qed.
Print Assumptions C08_model_is_source_get_model_state.

Theorem C08_model_is_source_sdc_n_obs : forall o d, obs_rep (pi_obs (sdc_wrapped o)) d -> src_sdc_n_obs o = Ok (Z.of_nat (nobs d)).
Proof. exact src_sdc_n_obs_is_model. Qed.
Print Assumptions C08_model_is_source_sdc_n_obs.

Theorem C08_model_is_source_sdc_reset_model : forall o,
  src_sdc_reset_model o = Ok (sdc_with_state o (reset_st (pi_st (sdc_wrapped o)))).
Proof. exact src_sdc_reset_is_model. Qed.
Print Assumptions C08_model_is_source_sdc_reset_model.

Theorem C08_model_is_source_sdc_set_rng : forall o r,
  src_sdc_set_rng o r = Ok (set_sdc_rng o (Some r)) /\ src_sdc_rng o = Ok (sdc_rng o).
Proof. exact src_sdc_set_rng_is_model. Qed.
Print Assumptions C08_model_is_source_sdc_set_rng.

(* step = one mcmc_step of the wrapped object; read on its state, the model's sweep from every reachable state *)
Theorem C08_model_is_source_sdc_step : forall run o,
  geq (src_sdc_step run o)
      (gbind (src_mcmc_step run (pi_steps (sdc_wrapped o)) (pi_st (sdc_wrapped o))) (fun s => GRet (sdc_with_state o s))).
Proof. exact src_sdc_step_is_model. Qed.
Print Assumptions C08_model_is_source_sdc_step.

Theorem C08_model_is_source_sdc_step_sweep : forall g orc d o, reach g orc d (pi_st (sdc_wrapped o)) -> (0 < c_D g)%nat ->
  prog_eq_ws (to_prog (gbind (src_sdc_step (src_run true true true g d orc) o) (fun o' => GRet (pi_st (sdc_wrapped o')))))
             (mcmc_step g d orc (pi_st (sdc_wrapped o))).
Proof. exact src_sdc_step_sweep. Qed.
Print Assumptions C08_model_is_source_sdc_step_sweep.

(* non-vacuity: the translated functions, executed.  sample_mvn_from_precision with chol answering L = [[2,0],[1,3]] and the
   drawn z = (1, 1/2), b = (4, 5) returns the x = (5/4, 1/2) of C08_example_mvn after ONE draw of two standard normals ... *)
Example C08_example_src_mvn :
  match src_sample_mvn_from_precision (fun _ => Ok [[qofZ 2; 0]; [1; qofZ 3]]) (fun _ z => z)
          [[qofZ 4; qofZ 2]; [qofZ 2; qofZ 10]] None (Some [qofZ 4; qofZ 5]) false None with
  | GDraw (DNormalVec vars) k =>
      qeq_list vars [1; 1] && match k (VV [1; hq]) with GRet (Ok x) => qeq_list x [Q2Qc (5 # 4); hq] | _ => false end
  | _ => false
  end = true.
Proof. vm_compute. reflexivity. Qed.

(* ... a raising Cholesky is the answer VFail of the block's try/except ... *)
Example C08_example_src_mvn_raises :
  match src_mvn_call (fun _ => Err 5%Z) (fun _ z => z) [[1]] [1] with GRet VFail => true | _ => false end = true.
Proof. vm_compute. reflexivity. Qed.

(* ... and the translated constructor on (n_dims, n_drugdoses, n_clines) = (2, 2, 2) builds the example state (with an empty
   cache), whose first sweep on the example data consumes the 26 well-shaped answers of C08_example_sweep *)
Example C08_example_src_init :
  match src_impl_init pi_blank 2 2 2 true true true true true (c_a0 ex_cfg) (c_b0 ex_cfg) (c_minMu ex_cfg) (c_maxMu ex_cfg) with
  | Ok o => qeq_list (W0 (pi_st o)) (W0 ex_state) && qeq_list (tau (pi_st o)) (tau ex_state) && qeq_list (phi0 (pi_st o)) (phi0 ex_state)
            && qeq_list (eta2 (pi_st o)) (eta2 ex_state) && qeq_list (gam (pi_st o)) (gam ex_state) && qeq_list (Mu (pi_st o)) []
            && match snd (run_prog (mcmc_step ex_cfg ex_data ex_orc (pi_st o)) ex_vals) with Some _ => true | None => false end
  | Err _ => false
  end = true.
Proof. vm_compute. reflexivity. Qed.

(* ------------------------------------------------------------------ reachable states satisfy the invariant
   The Gaussian-block and cache theorems above assume the cache exact at the start (cache_ok / Inv).  After __init__,
   after _update and after reset_model it is stale.  The first block of every sweep, _reconstruct_Mu, establishes the
   invariant from the shapes alone; so the theorems above are not vacuous on the first sweep of a chain, after new data or
   after a reset.  (ValidData: the ids are those C01 produces, samples >= 0, treatments >= -1; reach does not constrain them.) *)
From Batchie Require Import Proofs.C08Reach.

(* a state that is ready for a sweep (right shapes, cache no longer than the data): after _reconstruct_Mu the invariant holds *)
Theorem C08_reconstruct_establishes_invariant : forall g d s,
  sweep_ready g d s -> Inv g d (reconstruct_Mu g d false s).
Proof. exact ready_reconstruct_inv. Qed.
Print Assumptions C08_reconstruct_establishes_invariant.

(* from every REACHABLE state, for every sequence of step functions that starts with _reconstruct_Mu, for all answers of
   all draws: the cache is exact and the arrays have their sizes *)
Theorem C08_reachable_cache_invariant : forall g d orc bs s,
  reach g orc d s -> ValidData d -> NoSelfCombo d ->
  all_rets (Inv g d) (run_blocks g d orc (BReconstruct :: bs) s).
Proof. exact reach_cache_invariant. Qed.
Print Assumptions C08_reachable_cache_invariant.

(* in particular after every non-empty prefix of the documented sweep, also after j further whole sweeps, and after the
   whole sweep itself *)
Theorem C08_reachable_cache_invariant_prefix : forall g d orc j k s,
  reach g orc d s -> ValidData d -> NoSelfCombo d -> (1 <= k)%nat ->
  all_rets (Inv g d) (run_blocks g d orc (firstn k step_order ++ concat (repeat step_order j)) s)
  /\ all_rets (Inv g d) (run_blocks g d orc (step_order ++ concat (repeat step_order j) ++ firstn k step_order) s).
Proof. exact reach_cache_invariant_prefix. Qed.
Print Assumptions C08_reachable_cache_invariant_prefix.

Theorem C08_reachable_sweep_invariant : forall g d orc s,
  reach g orc d s -> ValidData d -> NoSelfCombo d -> all_rets (Inv g d) (mcmc_step g d orc s).
Proof. exact reach_sweep_invariant. Qed.
Print Assumptions C08_reachable_sweep_invariant.

(* the bridging corollary: from a reachable state, after _reconstruct_Mu and any further step functions `pre`, whichever
   Gaussian step function b in {W0, V0, W, V2, V1} runs next, EVERY per-index draw inside it is computed in a state where the
   draw arguments are those of the full conditional (the conclusions of C08_gauss_block_W0 ... _V1, with no cache or
   length hypothesis left) *)
Theorem C08_reachable_gauss_draws_are_conditionals : forall g d orc ln pre b s,
  reach g orc d s -> ValidData d -> NoSelfCombo d ->
  all_rets (all_block_starts (fun s2 => W0_conditional g d ln s2 /\ V0_conditional g d ln s2 /\ W_conditional g d ln s2 /\
                                        V2_conditional g d ln s2 /\ V1_conditional g d ln s2) (gauss_blocks g d b))
           (run_blocks g d orc (BReconstruct :: pre) s).
Proof. exact reach_gauss_draws_are_conditionals. Qed.
Print Assumptions C08_reachable_gauss_draws_are_conditionals.

(* ... where a Gaussian step function IS the sequence of its per-index blocks *)
Theorem C08_gauss_step_is_its_blocks : forall g d orc b s,
  In b [BW0; BV0; BW; BV2; BV1] -> step_prog g d orc b s = seq_blocks (gauss_blocks g d b) s.
Proof. exact gauss_blocks_step. Qed.
Print Assumptions C08_gauss_step_is_its_blocks.

(* not vacuous: the state __init__ creates, one observation added (stale empty cache: NOT Inv), is reachable, and after
   _reconstruct_Mu it satisfies the invariant *)
Example C08_reachable_not_vacuous :
  let g := {| c_D := 1; c_ndd := 2; c_ncl := 1; c_a0 := 1; c_b0 := 1; c_minMu := - qofZ 10; c_maxMu := qofZ 10 |} in
  let d := data_snoc data_empty (Q2Qc (1 # 2)) 0%Z 0%Z 1%Z in
  (forall orc, reach g orc d (init_st g)) /\ ~ cache_ok g d (init_st g) /\ NoSelfCombo d
  /\ cache_ok g d (reconstruct_Mu g d false (init_st g)).
Proof.
  cbv zeta. repeat split.
  - intros orc. apply R_update. apply R_init.
  - unfold cache_ok. vm_compute. discriminate.
  - intros i Hi. vm_compute in Hi. assert (i = 0%nat) as -> by (destruct i; [reflexivity|apply le_S_n in Hi; inversion Hi]).
    right. vm_compute. discriminate.
Qed.
