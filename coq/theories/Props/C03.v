(* C03 — Identifiers stay stable through the whole simulation lifecycle.
   Statements only; every proof is `exact <lemma from Proofs/>`.

   Vocabulary (Proofs/C03Frozen.v, Model/Reveal.v, Model/Holdout.v):
     holdout_split p sel          the (training, test) pair the hold-out code constructs from parent p and the
                                  recorded selection vector sel
     history v ops s              fold_left (step v) ops s in the result monad
     lifecycle v p sel test ops   split, then the history on the chosen half
     variant v                    which of reveal_plates / mask_screen / unmask_screen pass the parent's mappings
                                  to Screen(...):  carry_mappings false = the code as it stands,
                                                   carry_mappings true  = the repaired construction
     frozen_to p s                s carries p's treatment and sample mapping verbatim, and every sample id /
                                  treatment id of s is p's mapping entry for that row's name / (name, dose)
   predict_stable (posterior samples predict the same for the same experiments at every stage) is a corollary
   and not stated separately: the models index their embeddings by exactly these ids (sparse_combo.py:675-713)
   and C09 proves predictions row-wise in the ids. *)
From Coq Require Import ZArith List Bool.
From Batchie Require Import Lib.Sexp Generated.Consts Generated.SrcArithC03 Model.Encode Model.Screen Model.Reveal Model.Holdout
  Proofs.C03Base Proofs.C03Screen Proofs.C12Reveal Proofs.C03Frozen Proofs.C03Witness Generated.SrcReveal
  Proofs.C12Source_Base Proofs.C12Source_Reveal Proofs.C12Source_Variant.
Import ListNotations.
Open Scope Z_scope.

(* both halves of ANY split carry the parent's mappings and number their rows by them — true of the code today *)
Theorem C03_split_keeps_mappings : forall p sel pr test,
  holdout_split p sel = Ok pr -> frozen_to p (half test pr).
Proof. exact split_frozen. Qed.
Print Assumptions C03_split_keeps_mappings.

(* the parent's own ids are its mapping's entries (so "frozen to p" means "same ids as p") *)
Theorem C03_parent_ids_are_its_mapping : forall p, constructed p -> frozen_to p p.
Proof. exact parent_frozen. Qed.
Print Assumptions C03_parent_ids_are_its_mapping.

(* REPAIRED construction: after any history on either half, mappings and ids are the parent's *)
(* the variant of the model that the theorems below prove frozen IS the one the source implements:
   the three booleans are read from the Screen(...) call sites of reveal_plates / mask_screen /
   unmask_screen on every run (do they pass treatment_mapping=screen.treatment_mapping and
   sample_mapping=screen.sample_mapping?) *)
Theorem C03_source_carries_mappings :
  {| carry_reveal := SRC_reveal_plates_carries_mappings; carry_mask := SRC_mask_screen_carries_mappings;
     carry_unmask := SRC_unmask_screen_carries_mappings |} = carry_mappings true.
Proof. reflexivity. Qed.
Print Assumptions C03_source_carries_mappings.

(* the same fact DERIVED FROM THE TRANSLATION of the three functions (Generated/SrcReveal.v, see Props/C12.v
   the C12_model_is_source theorems): Screen(...) is the model's constructor applied to the keyword arguments the call site passes,
   so a call site that stopped passing treatment_mapping= / sample_mapping= would translate to None there.
   src_step s o / src_lifecycle p sel test ops (Proofs/C12Source.v) run the TRANSLATED reveal_plates / mask_screen /
   unmask_screen (save+load and the split as in the model). *)
Theorem C03_model_is_source_step : forall s o, src_step s o = step (carry_mappings true) s o.
Proof. exact src_step_is_model. Qed.
Print Assumptions C03_model_is_source_step.

Theorem C03_model_is_source_lifecycle : forall p sel test ops,
  src_lifecycle p sel test ops = lifecycle (carry_mappings true) p sel test ops.
Proof. exact src_lifecycle_is_model. Qed.
Print Assumptions C03_model_is_source_lifecycle.

(* the translation DETERMINES the variant: the model equals the translated source on all inputs for exactly one
   variant, and that is the one the call-site constants above name - the constants are consistent with the
   translation (and no longer needed to know which variant the source is) *)
Theorem C03_source_variant_unique : forall v,
  (forall s o, src_step s o = step v s o) <->
  v = {| carry_reveal := SRC_reveal_plates_carries_mappings; carry_mask := SRC_mask_screen_carries_mappings;
         carry_unmask := SRC_unmask_screen_carries_mappings |}.
Proof. exact source_variant_unique. Qed.
Print Assumptions C03_source_variant_unique.

(* ids_frozen stated of the translated source functions themselves *)
Theorem C03_ids_frozen_of_source : forall p sel test ops s,
  src_lifecycle p sel test ops = Ok s -> frozen_to p s.
Proof. exact ids_frozen_of_source. Qed.
Print Assumptions C03_ids_frozen_of_source.

Theorem C03_ids_frozen : forall p sel test ops s,
  lifecycle (carry_mappings true) p sel test ops = Ok s -> frozen_to p s.
Proof. exact ids_frozen. Qed.
Print Assumptions C03_ids_frozen.

(* any variant: a history that only uses operations whose call site passes the mappings (save+load always
   does) keeps them — so today's code is safe exactly for histories of save / load alone *)
Theorem C03_ids_frozen_per_op : forall v p sel pr test ops s,
  holdout_split p sel = Ok pr ->
  (forall o, In o ops -> carries v o = true) ->
  history v ops (half test pr) = Ok s -> frozen_to p s.
Proof. exact ids_frozen_per_op. Qed.
Print Assumptions C03_ids_frozen_per_op.

(* same name => same id, same (treatment, dose) => same id, between any two stages of any two histories *)
Theorem C03_same_name_same_id : forall p s1 s2,
  frozen_to p s1 -> frozen_to p s2 ->
  (forall i j, (i < length (s_rows s1))%nat -> (j < length (s_rows s2))%nat ->
               sample_at s1 i = sample_at s2 j -> sample_id_at s1 i = sample_id_at s2 j) /\
  (forall i c j d, (i < length (s_rows s1))%nat -> (c < s_arity s1)%nat ->
                   (j < length (s_rows s2))%nat -> (d < s_arity s2)%nat ->
                   treat_at s1 i c = treat_at s2 j d -> treat_id_at s1 i c = treat_id_at s2 j d).
Proof. exact same_name_same_id. Qed.
Print Assumptions C03_same_name_same_id.

(* the experiment-space sizes (embedding sizes) of every stage equal the parent's: they never shrink *)
Theorem C03_sizes_never_shrink : forall p sel test ops s,
  lifecycle (carry_mappings true) p sel test ops = Ok s ->
  space_n_samples s = space_n_samples p /\ space_n_treatments s = space_n_treatments p.
Proof. exact sizes_never_shrink. Qed.
Print Assumptions C03_sizes_never_shrink.

(* TODAY'S construction (no mappings passed): ids_frozen is FALSE.  There is a prepared simulation whose
   training half has sample ids 1 1 2 2 (the parent's) and after ONE reveal_plates has 0 0 1 1 for the same
   experiments; treatment ids likewise; the mappings differ from the parent's; the embedding sizes shrink. *)
Theorem C03_ids_frozen_refuted :
  exists rows sel p tr te s',
    mk_screen rows 1 [] None None true true = Ok p /\
    holdout_split p sel = Ok (tr, te) /\
    history (carry_mappings false) [Reveal [0]] tr = Ok s' /\
    map r_sample (s_rows s') = map r_sample (s_rows tr) /\
    s_sids tr = [1; 1; 2; 2] /\ s_sids s' = [0; 0; 1; 1] /\
    s_tids tr = [[1]; [1]; [2]; [2]] /\ s_tids s' = [[0]; [0]; [1]; [1]] /\
    s_smap s' <> s_smap p /\ s_tmap s' <> s_tmap p /\
    ~ frozen_to p s' /\
    (space_n_samples s' < space_n_samples p) /\ (space_n_treatments s' < space_n_treatments p).
Proof. exact reveal_refuted. Qed.
Print Assumptions C03_ids_frozen_refuted.

(* the same with a single mask_screen / a single unmask_screen in place of the reveal *)
Theorem C03_mask_refuted : refutes Mask.
Proof. exact mask_refuted. Qed.
Print Assumptions C03_mask_refuted.

Theorem C03_unmask_refuted : refutes Unmask.
Proof. exact unmask_refuted. Qed.
Print Assumptions C03_unmask_refuted.

(* non-vacuity: the witness simulation under the repaired construction runs a five-step history to the end
   (reveal, mask, unmask, save+load, reveal two plates) and keeps the ids 1 1 2 2 *)
Example C03_repaired_example :
  option_map s_sids (match lifecycle (carry_mappings true) w_parent w_sel false
                             [Reveal [0]; Mask; Unmask; SaveLoad; Reveal [1; 0]] with
                     | Ok s => Some s | Err _ => None end) = Some [1; 1; 2; 2].
Proof. vm_compute. reflexivity. Qed.
Example C03_test_half_example :
  option_map s_sids (match lifecycle (carry_mappings true) w_parent w_sel true [Mask; Reveal [0]] with
                     | Ok s => Some s | Err _ => None end) = Some [0; 0]
  /\ option_map s_sids (match lifecycle (carry_mappings false) w_parent w_sel true [SaveLoad; SaveLoad] with
                        | Ok s => Some s | Err _ => None end) = Some [0; 0].
Proof. vm_compute. split; reflexivity. Qed.

(* ---- the command-line wrappers prepare_retrospective_simulation.main and reveal_plate.main is what the source says NOW ----
   `src_cli_prepare` / `src_cli_reveal_plate` are the whole functions main of /repo's current
   batchie/cli/prepare_retrospective_simulation.py / reveal_plate.py, re-translated on every run (configurations CLI_PREPARE /
   CLI_REVEAL_PLATE -> Generated/SrcCli.v).  Cli.cli_prepare fixes the ORDER: filter, generator from --seed, initial plate or mask, plate
   generator, random reveal when there is no initial generator, smoother, the hold-out split LAST (on the smoothed screen), both saves;
   every drawing step receives the generator state its predecessor left.
   Model/Cli.v: the parsed arguments are a record of the plain argparse results (get_args() is not translated), `L` is a
   record of the library functions the wrapper calls over abstract types (each component stands for the library function
   of that name with its parameter list; `*_load_*` = what loading the file at a path yields), a main() denotes the list
   of (path, content) files it writes, Err = the exception that ends it.  The links hold for EVERY such record. *)
From Batchie Require Lib.PyRt Model.Cli Generated.SrcCli Proofs.C03SourceCli Proofs.C12SourceCli.
Theorem C03_model_is_source_cli_prepare_retrospective_simulation : forall (Scr Pl Ig Pg Ps : Type) (L : Cli.pr_lib Scr Pl Ig Pg Ps) (mix : Z -> Z) (a : Cli.pr_args),
  SrcCli.src_cli_prepare Scr Pl Ig Pg Ps L mix a
  = Cli.cli_prepare L mix a.
Proof. exact C03SourceCli.src_cli_prepare_is_model. Qed.
Print Assumptions C03_model_is_source_cli_prepare_retrospective_simulation.

Theorem C03_model_is_source_cli_reveal_plate : forall (Scr : Type) (L : Cli.rp_lib Scr) (a : Cli.rp_args),
  SrcCli.src_cli_reveal_plate Scr L a
  = Cli.cli_reveal_plate L a.
Proof. exact C12SourceCli.src_cli_reveal_plate_is_model. Qed.
Print Assumptions C03_model_is_source_cli_reveal_plate.

(* ---- the argument-handling glue of prepare_retrospective_simulation is what the source says NOW ----
   `src_pr_get_args` is the WHOLE function get_args of /repo's current batchie/cli/prepare_retrospective_simulation.py (parser.parse_args() is the primitive that
   yields the raw namespace; the statements after it - class lookup by name, required-argument annotations, cast of the KEY=VALUE
   parameters - are translated), `src_cli_prepare_cmd` is main() once more as a whole command, in which get_args() is the translated
   get_args and each `args.<x>_cls( **args.<x>_params)` is its `construct` on the two namespace attributes; both re-translated on every run (configurations
   ARGS_GET_ARGS_PR / ARGS_CMD_PR -> Generated/SrcCliArgs.v).  Model: the last part of Model/Cli.v; `I` = introspection.get_class /
   get_required_init_args_with_annotations (linked to their own translations in Props/C18.v), `P` = s.lower(), int(s), float(s), the call of
   another annotation object; cast_dict_to_type is the translated function (Props/C18.v).  The statements hold for EVERY such record. *)
From Batchie Require Proofs.C03SourceArgs Proofs.C18SourceIntrospect Generated.SrcCliArgs.
(* three class-valued options, resolved in source order (plate generator, initial plate generator, plate smoother), each only when
   given, each cast with the annotations of ITS OWN class; the plain arguments (--holdout-fraction among them) pass through unchanged *)
Theorem C03_model_is_source_cli_args_get_args : forall (Cls F O : Type) (I : Cli.introspect Cls) (P : Cli.pyprims F O)
  (raw : Cli.pr_ns Cls F O),
  SrcCliArgs.src_pr_get_args Cls F O I P raw = Cli.pr_get_args I P raw.
Proof. exact C03SourceArgs.src_pr_get_args_is_model. Qed.
Print Assumptions C03_model_is_source_cli_args_get_args.

Theorem C03_model_is_source_cli_args_prepare_retrospective_simulation :
  forall (Cls F O : Type) (I : Cli.introspect Cls) (P : Cli.pyprims F O) (Scr Pl Ig Pg Ps : Type)
         (construct_ig : Cls -> list (Cli.str * Cli.pval F O) -> result Ig)
         (construct_pg : Cls -> list (Cli.str * Cli.pval F O) -> result Pg)
         (construct_ps : Cls -> list (Cli.str * Cli.pval F O) -> result Ps) (L : Cli.pr_lib Scr Pl Ig Pg Ps) (mix : Z -> Z)
         (raw : Cli.pr_ns Cls F O),
  SrcCliArgs.src_cli_prepare_cmd Cls F O I P Scr Pl Ig Pg Ps construct_ig construct_pg construct_ps L mix raw
  = Cli.cli_prepare_cmd I P construct_ig construct_pg construct_ps L mix raw.
Proof. exact C03SourceArgs.src_cli_prepare_cmd_is_model. Qed.
Print Assumptions C03_model_is_source_cli_args_prepare_retrospective_simulation.

Theorem C03_model_is_source_cli_args_prepare_retrospective_simulation_world :
  forall (Mod Obj F O : Type) (W : Cli.pyworld Mod Obj) (P : Cli.pyprims F O) (Scr Pl Ig Pg Ps : Type)
         (construct_ig : Obj -> list (Cli.str * Cli.pval F O) -> result Ig)
         (construct_pg : Obj -> list (Cli.str * Cli.pval F O) -> result Pg)
         (construct_ps : Obj -> list (Cli.str * Cli.pval F O) -> result Ps) (L : Cli.pr_lib Scr Pl Ig Pg Ps) (mix : Z -> Z)
         (raw : Cli.pr_ns Obj F O),
  SrcCliArgs.src_cli_prepare_cmd Obj F O (C18SourceIntrospect.introspect_src W) P Scr Pl Ig Pg Ps construct_ig construct_pg construct_ps L mix raw
  = Cli.cli_prepare_cmd (Cli.introspect_of W) P construct_ig construct_pg construct_ps L mix raw.
Proof. exact C03SourceArgs.src_cli_prepare_cmd_world. Qed.
Print Assumptions C03_model_is_source_cli_args_prepare_retrospective_simulation_world.

Theorem C03_model_is_source_cli_args_plain_arguments_unchanged :
  forall (Cls F O : Type) (I : Cli.introspect Cls) (P : Cli.pyprims F O) (raw a : Cli.pr_ns Cls F O),
  SrcCliArgs.src_pr_get_args Cls F O I P raw = Ok a -> Cli.pr_plain a = Cli.pr_plain raw.
Proof. exact C03SourceArgs.src_pr_get_args_plain. Qed.
Print Assumptions C03_model_is_source_cli_args_plain_arguments_unchanged.

(* ---- the argparse option tables: get_parser() of prepare_retrospective_simulation / reveal_plate, re-read from /repo on every run by the fail-closed reader
   harness/argparse_reader.py (Generated/SrcParser_<command>.v; a get_parser that is not a plain sequence of literal
   parser.add_argument calls is refused and these theorems stop compiling).  What the argument records of Model/Cli.v assume of
   the namespace parse_args() yields - the premise of the C??_model_is_source_cli_* links - is provided by the declared options:
   Cli.declares = the attribute is the dest of EXACTLY ONE option, which stores the assumed kind of value and can be None exactly
   where the record has an option type; Cli.dests_derived = the dest the reader computed is argparse's derivation from the flags;
   Cli.dests_distinct = no dest and no flag is declared twice; Cli.seed_declared = --seed is an int option with a non-negative int
   default (get_prng_from_seed_argument never sees None); Cli.coordinates_int = --n-chunks / --chunk-index / --n-chains /
   --chain-index are int options that are never None; Cli.params_kv = every --*-param option accumulates through KVAppendAction;
   Cli.fraction_declared = --holdout-fraction is a float option with a default in [0, 1]. ---- *)

From Batchie Require Model.Cli Proofs.C18Parser Generated.SrcParser_prepare_retrospective_simulation Proofs.C18SourceParser_prepare_retrospective_simulation Generated.SrcParser_reveal_plate Proofs.C18SourceParser_reveal_plate.
Theorem C03_source_parser_prepare_retrospective_simulation_fields :
  forall f, In f (Cli.pr_fields ++ Cli.logging_fields) -> Cli.declares SrcParser_prepare_retrospective_simulation.src_parser_prepare_retrospective_simulation f.
Proof. exact C18SourceParser_prepare_retrospective_simulation.parser_prepare_retrospective_simulation_fields. Qed.
Print Assumptions C03_source_parser_prepare_retrospective_simulation_fields.

Theorem C03_source_parser_prepare_retrospective_simulation_dests_derived :
  Cli.dests_derived SrcParser_prepare_retrospective_simulation.src_parser_prepare_retrospective_simulation.
Proof. exact C18SourceParser_prepare_retrospective_simulation.parser_prepare_retrospective_simulation_dests_derived. Qed.
Print Assumptions C03_source_parser_prepare_retrospective_simulation_dests_derived.

Theorem C03_source_parser_prepare_retrospective_simulation_dests_distinct :
  Cli.dests_distinct SrcParser_prepare_retrospective_simulation.src_parser_prepare_retrospective_simulation.
Proof. exact C18SourceParser_prepare_retrospective_simulation.parser_prepare_retrospective_simulation_dests_distinct. Qed.
Print Assumptions C03_source_parser_prepare_retrospective_simulation_dests_distinct.

Theorem C03_source_parser_prepare_retrospective_simulation_seed :
  Cli.seed_declared SrcParser_prepare_retrospective_simulation.src_parser_prepare_retrospective_simulation.
Proof. exact C18SourceParser_prepare_retrospective_simulation.parser_prepare_retrospective_simulation_seed. Qed.
Print Assumptions C03_source_parser_prepare_retrospective_simulation_seed.

Theorem C03_source_parser_prepare_retrospective_simulation_params :
  Cli.params_kv SrcParser_prepare_retrospective_simulation.src_parser_prepare_retrospective_simulation.
Proof. exact C18SourceParser_prepare_retrospective_simulation.parser_prepare_retrospective_simulation_params. Qed.
Print Assumptions C03_source_parser_prepare_retrospective_simulation_params.

Theorem C03_source_parser_reveal_plate_fields :
  forall f, In f (Cli.rp_fields ++ Cli.logging_fields) -> Cli.declares SrcParser_reveal_plate.src_parser_reveal_plate f.
Proof. exact C18SourceParser_reveal_plate.parser_reveal_plate_fields. Qed.
Print Assumptions C03_source_parser_reveal_plate_fields.

Theorem C03_source_parser_reveal_plate_dests_derived :
  Cli.dests_derived SrcParser_reveal_plate.src_parser_reveal_plate.
Proof. exact C18SourceParser_reveal_plate.parser_reveal_plate_dests_derived. Qed.
Print Assumptions C03_source_parser_reveal_plate_dests_derived.

Theorem C03_source_parser_reveal_plate_dests_distinct :
  Cli.dests_distinct SrcParser_reveal_plate.src_parser_reveal_plate.
Proof. exact C18SourceParser_reveal_plate.parser_reveal_plate_dests_distinct. Qed.
Print Assumptions C03_source_parser_reveal_plate_dests_distinct.

(* ---- "posterior samples learned on one stage produce identical predictions for the same experiments on every later stage" ----
   frozen ids composed with C09's prediction model (Model/Predict.v: both shipped sample types, mean / viability / variance,
   every oracle).  pred_view s = the screen as the prediction code reads it (sample_ids and the columns of treatment_ids of s);
   sample_at / treat_at = WHICH experiment a row is (sample name, (treatment name, dose) per column). *)
From Coq Require Import QArith Qcanon.
From Batchie Require Lib.Num Model.Predict Generated.SrcPredict Proofs.C09Source.
From Batchie Require Import Proofs.C03Predict Proofs.C03PredictSource Proofs.C03PredictWitness.

(* any two screens frozen to one parent: the same experiment gets the same prediction from the same posterior sample *)
Theorem C03_predict_stable : forall (orc : Num.oracle) k th p s1 s2 i j v1 v2,
  frozen_to p s1 -> frozen_to p s2 -> s_arity s1 = s_arity s2 ->
  (i < length (s_rows s1))%nat -> (j < length (s_rows s2))%nat ->
  sample_at s1 i = sample_at s2 j ->
  (forall c, (c < s_arity s1)%nat -> treat_at s1 i c = treat_at s2 j c) ->
  Predict.theta_predict orc k th (pred_view s1) = Ok v1 ->
  Predict.theta_predict orc k th (pred_view s2) = Ok v2 ->
  nth i v1 0%Qc = nth j v2 0%Qc.
Proof. exact predict_stable. Qed.
Print Assumptions C03_predict_stable.

(* a whole later stage s2 whose row j is experiment idx[j] of stage s1 (any order, repeats, any subset): if s1 can be
   predicted, s2 can (no IndexError appears at a later stage) and its prediction is the corresponding entries of s1's *)
Theorem C03_predict_stable_stage : forall (orc : Num.oracle) k th p s1 s2 idx v1,
  frozen_to p s1 -> frozen_to p s2 -> s_arity s1 = s_arity s2 ->
  length idx = length (s_rows s2) ->
  Forall (fun i => (i < length (s_rows s1))%nat) idx ->
  (forall j, (j < length (s_rows s2))%nat ->
     sample_at s1 (nth j idx 0%nat) = sample_at s2 j /\
     forall c, (c < s_arity s1)%nat -> treat_at s1 (nth j idx 0%nat) c = treat_at s2 j c) ->
  Predict.theta_predict orc k th (pred_view s1) = Ok v1 ->
  Predict.theta_predict orc k th (pred_view s2) = Ok (Predict.take_idx 0%Qc idx v1).
Proof. exact predict_stable_stage. Qed.
Print Assumptions C03_predict_stable_stage.

(* pred_view is not a second hand model of the screen: for every constructed screen of arity 1 or 2 it stands (under C09's
   representation map Predict.pydata_of) for the object whose sample_ids / treatment_ids arrays are s_sids / s_tids *)
Theorem C03_pred_view_is_id_arrays : forall s, constructed s -> (s_arity s = 1 \/ s_arity s = 2)%nat ->
  Predict.pydata_of (pred_view s) = ids_object s.
Proof. exact pred_view_pydata. Qed.
Print Assumptions C03_pred_view_is_id_arrays.

(* any two stages (either half, any two histories) of one prepared simulation, repaired construction *)
Theorem C03_predict_stable_lifecycle : forall (orc : Num.oracle) k th p sel t1 ops1 t2 ops2 s1 s2 i j v1 v2,
  lifecycle (carry_mappings true) p sel t1 ops1 = Ok s1 ->
  lifecycle (carry_mappings true) p sel t2 ops2 = Ok s2 ->
  (i < length (s_rows s1))%nat -> (j < length (s_rows s2))%nat ->
  sample_at s1 i = sample_at s2 j ->
  (forall c, (c < s_arity p)%nat -> treat_at s1 i c = treat_at s2 j c) ->
  Predict.theta_predict orc k th (pred_view s1) = Ok v1 ->
  Predict.theta_predict orc k th (pred_view s2) = Ok v2 ->
  nth i v1 0%Qc = nth j v2 0%Qc.
Proof. exact predict_stable_lifecycle. Qed.
Print Assumptions C03_predict_stable_lifecycle.

(* the same stated of the TRANSLATED source on both sides: stages made by the translated reveal_plates / mask_screen /
   unmask_screen (Generated/SrcReveal.v), predictions by the translated predict_* methods of both sample types
   (Generated/SrcPredict.v; py_theta_predict = dispatch on the sample's class and the method) reading each stage's own id arrays *)
Theorem C03_predict_stable_of_source : forall (orc : Num.oracle) k th p sel t1 ops1 t2 ops2 s1 s2 i j v1 v2,
  src_lifecycle p sel t1 ops1 = Ok s1 ->
  src_lifecycle p sel t2 ops2 = Ok s2 ->
  (s_arity p = 1 \/ s_arity p = 2)%nat ->
  (i < length (s_rows s1))%nat -> (j < length (s_rows s2))%nat ->
  sample_at s1 i = sample_at s2 j ->
  (forall c, (c < s_arity p)%nat -> treat_at s1 i c = treat_at s2 j c) ->
  C09Source.py_theta_predict orc k th (ids_object s1) = Ok v1 ->
  C09Source.py_theta_predict orc k th (ids_object s2) = Ok v2 ->
  nth i v1 0%Qc = nth j v2 0%Qc.
Proof. exact predict_stable_of_source. Qed.
Print Assumptions C03_predict_stable_of_source.

(* the construction WITHOUT the mappings (the code before the repair) violates the clause: one posterior sample, one
   experiment, two stages of one simulation, two different predictions (witness of Proofs/C03Witness.v) *)
Theorem C03_predict_stable_refuted_without_mappings : forall orc : Num.oracle,
  exists rows sel p tr te s' th v1 v2,
    mk_screen rows 1 [] None None true true = Ok p /\
    holdout_split p sel = Ok (tr, te) /\
    history (carry_mappings false) [Reveal [0]] tr = Ok s' /\
    sample_at tr 0 = sample_at s' 0 /\ treat_at tr 0 0 = treat_at s' 0 0 /\
    Predict.theta_predict orc Predict.KMean th (pred_view tr) = Ok v1 /\
    Predict.theta_predict orc Predict.KMean th (pred_view s') = Ok v2 /\
    nth 0 v1 0%Qc <> nth 0 v2 0%Qc.
Proof. exact predict_stable_refuted_without_mappings. Qed.
Print Assumptions C03_predict_stable_refuted_without_mappings.

(* non-vacuity: the repaired construction on the same simulation - both stages are read as the same id rows and predicted alike *)
Example C03_predict_stable_example : forall orc : Num.oracle,
  pred_view w_train = Predict.Scr1 [(1, 1); (1, 1); (2, 2); (2, 2)] /\
  pred_view w_repaired = Predict.Scr1 [(1, 1); (1, 1); (2, 2); (2, 2)] /\
  Predict.theta_predict orc Predict.KMean w_theta (pred_view w_train) = Ok [qz 22; qz 22; qz 34; qz 34] /\
  Predict.theta_predict orc Predict.KMean w_theta (pred_view w_repaired) = Ok [qz 22; qz 22; qz 34; qz 34].
Proof. exact predict_stable_example. Qed.

(* ---- the hold-out split linked to the source at the ID / MAPPING level (gap review g1, C03 gap 2) ----
   `src_balanced_holdout_ids` is the WHOLE function create_plate_balanced_holdout_set_among_masked_plates of /repo's current
   retrospective.py, re-translated on every run (configuration C03_BALANCED_HOLDOUT -> Generated/SrcHoldoutIds.v) with `screen` the
   model Screen (rows, ids, mappings) and the two Screen(...) calls the model's constructor applied to the keyword arguments THE CALL
   SITES pass (a call site that stopped passing treatment_mapping= / sample_mapping= translates to None there and the link fails).
   Holdout.balanced_holdout_ids = the selection vector the loop computes from the recorded rng.choice answers (C11's model of the
   loop), then Holdout.holdout_split: the hand model every theorem above is about. *)
From Batchie Require Model.Retro Model.RetroHoldout Generated.SrcHoldoutIds Proofs.C03Source_Holdout Proofs.C03Source_HoldoutLifecycle.
Theorem C03_model_is_source_holdout : forall num den counts p ds,
  SrcHoldoutIds.src_balanced_holdout_ids num den counts p ds = balanced_holdout_ids num den counts p ds.
Proof. exact C03Source_Holdout.src_balanced_holdout_ids_is_model. Qed.
Print Assumptions C03_model_is_source_holdout.

(* whatever the translated hold-out returns is holdout_split of the parent for a selection vector of the screen's length *)
Theorem C03_source_holdout_is_split : forall num den counts p ds pr ds',
  SrcHoldoutIds.src_balanced_holdout_ids num den counts p ds = Ok (pr, ds') ->
  exists sel, length sel = length (s_rows p) /\ holdout_split p sel = Ok pr.
Proof. exact C03Source_Holdout.src_holdout_is_split. Qed.
Print Assumptions C03_source_holdout_is_split.

(* both halves the translated hold-out returns carry the parent's mappings and number their rows by them *)
Theorem C03_source_holdout_keeps_mappings : forall num den counts p ds pr ds' test,
  SrcHoldoutIds.src_balanced_holdout_ids num den counts p ds = Ok (pr, ds') -> frozen_to p (half test pr).
Proof. exact C03Source_Holdout.src_holdout_frozen. Qed.
Print Assumptions C03_source_holdout_keeps_mappings.

(* ids_frozen with EVERY step a translated source function: translated hold-out, then any history of the translated
   reveal_plates / mask_screen / unmask_screen (and save + load) on either half *)
Theorem C03_ids_frozen_of_source_full : forall num den counts p ds test ops s,
  C03Source_HoldoutLifecycle.src_lifecycle_full num den counts p ds test ops = Ok s -> frozen_to p s.
Proof. exact C03Source_HoldoutLifecycle.ids_frozen_of_source_full. Qed.
Print Assumptions C03_ids_frozen_of_source_full.

(* non-vacuity: the translated hold-out on the witness parent (fraction 1, rng.choice answered [1; 0] for the one unobserved plate)
   returns the halves with the parent's sample ids 1 1 2 2 / 0 0 *)
Example C03_source_holdout_example :
  option_map (fun x => (s_sids (fst (fst x)), s_sids (snd (fst x)), snd x))
             (match SrcHoldoutIds.src_balanced_holdout_ids 1 1 None w_parent [Retro.DInts [1%nat; 0%nat]] with Ok x => Some x | Err _ => None end)
  = Some ([1; 1; 2; 2], [0; 0], []).
Proof. vm_compute. reflexivity. Qed.
