(* C16 — The k-per-sample policy yields batches with zero or exactly k plates per sample.
   Statements only; every proof is `exact <lemma from Proofs/C16*.v>`.
   Vocabulary (Model/Policy.v): a plate is (id, sample ids of its rows); `filter_eligible k batch remaining`
   models KPerSamplePlatePolicy(k).filter_eligible_plates; `cnt c l` = number of plates of sample c in l;
   `step k` moves ANY eligible plate from the remaining plates to the batch (lists up to permutation);
   `reachable k u s` = s occurs in some selection history that starts from the empty batch with u the
   unobserved plates; `select_next` models select_next_plate, `sel_hist` its iteration.
   No hypothesis that the plates are single-sample is needed: with a multi-sample plate present the policy
   refuses (C16_multi_sample_refused) and no step exists. *)
From Coq Require Import ZArith List Permutation.
From Batchie Require Import Lib.Sexp Model.Policy Proofs.C16Policy Proofs.C16Hist Proofs.C16Select.
From Batchie Require Import Generated.SrcPolicy Proofs.C16Source.
From Batchie Require Import Generated.SrcScoringPolicy Proofs.C16SourceSelect.
Import ListNotations.
Open Scope Z_scope.

(* The model is what the source says NOW: `src_filter_eligible_plates` is the whole method
   KPerSamplePlatePolicy.filter_eligible_plates of /repo's current working tree, re-translated statement by
   statement on every run (harness/py2gal.py -> Generated/SrcPolicy.v: its five loops, the defaultdicts and
   the set, the raise); it equals the hand-written model for ALL k, batch and remaining plates, so every
   theorem below is a theorem about the translated source. *)
Theorem C16_model_is_source : forall k batch remaining,
  src_filter_eligible_plates k batch remaining = filter_eligible k batch remaining.
Proof. exact src_filter_eligible_is_model. Qed.
Print Assumptions C16_model_is_source.

(* The same for the caller: `src_select_next_plate_k` is the whole function batchie.scoring.main.select_next_plate of
   /repo's current working tree, re-translated on every run in this file's vocabulary (harness/src_functions.py
   C16_SELECT -> Generated/SrcScoringPolicy.v): a Plate object is a `plate`, `obs` its is_observed attribute, the
   policy object KPerSamplePlatePolicy(k) is `Some k` and its method is filter_eligible (= the translated method by
   C16_model_is_source), the ScoresHolder is the list of its slots.  Its default arguments, the two comprehensions
   that build the policy's arguments (= select_args), the sort, the early `return` of None and the minimum-score
   choice equal the model select_next for ALL inputs; the code returns the Plate screen.get_plate(id) after reading
   its name, the model the eligible ids and the chosen id. *)
Theorem C16_model_is_source_select_next_plate : forall (k : Z) (obs : plate -> bool) (scores : list (Z * Z))
    (ps : list plate) (batch : option (list Z)) (rng : option rng_t),
  src_select_next_plate_k obs scores ps (Some k) batch rng
  = dor r <- select_next k (map (fun p => (p, obs p)) ps) scores (match batch with Some b => b | None => [] end);
    match snd r with
    | None => Ok None
    | Some i => dor _ <- plate_name (get_plate ps i); Ok (Some (get_plate ps i))
    end.
Proof. exact src_select_next_plate_k_is_model. Qed.
Print Assumptions C16_model_is_source_select_next_plate.

(* with distinct plate ids (screen.plates is built from np.unique) the name lookup cannot fail: the code returns
   exactly the plate the model chose *)
Theorem C16_model_is_source_select_next_plate_distinct_ids : forall (k : Z) (obs : plate -> bool)
    (scores : list (Z * Z)) (ps : list plate) (batch : option (list Z)) (rng : option rng_t),
  NoDup (map plate_id ps) ->
  src_select_next_plate_k obs scores ps (Some k) batch rng
  = dor r <- select_next k (map (fun p => (p, obs p)) ps) scores (match batch with Some b => b | None => [] end);
    Ok (option_map (get_plate ps) (snd r)).
Proof. exact src_select_next_plate_k_distinct_ids. Qed.
Print Assumptions C16_model_is_source_select_next_plate_distinct_ids.

(* allowed plates = remaining plates restricted by some predicate: a subset, in the same order (every state) *)
Theorem C16_eligible_subset : forall k b r el,
  filter_eligible k b r = Ok el -> (exists f, el = filter f r) /\ (forall p, In p el -> In p r).
Proof. exact c16_eligible_subset. Qed.
Print Assumptions C16_eligible_subset.

(* once a sample has between 1 and k-1 plates in the batch, exactly that sample's remaining plates are
   allowed, and there is at least one *)
Theorem C16_in_progress_only : forall k u b r c el,
  1 <= k -> reachable k u (b, r) -> 0 < cnt c b < k -> filter_eligible k b r = Ok el ->
  el = filter (fun p => sample_of p =? c) r /\ el <> [] /\
  (forall p, In p el <-> In p r /\ sample_of p = c).
Proof. exact c16_in_progress_only. Qed.
Print Assumptions C16_in_progress_only.

(* a new sample is opened only if at least k of its plates remain (every state, reachable or not) *)
Theorem C16_open_needs_k : forall k b r el p,
  filter_eligible k b r = Ok el -> In p el -> cnt (sample_of p) b = 0 -> k <= cnt (sample_of p) r.
Proof. exact c16_open_needs_k. Qed.
Print Assumptions C16_open_needs_k.

(* every batch prefix: no sample exceeds k plates and at most one is incomplete *)
Theorem C16_one_incomplete : forall k u b r,
  1 <= k -> reachable k u (b, r) ->
  (forall c, 0 <= cnt c b <= k) /\
  (forall c1 c2, cnt c1 b mod k <> 0 -> cnt c2 b mod k <> 0 -> c1 = c2).
Proof. exact c16_one_incomplete. Qed.
Print Assumptions C16_one_incomplete.

(* every batch of m*k plates gives each sample zero or exactly k plates *)
Theorem C16_batch_shape : forall k u b r m,
  1 <= k -> reachable k u (b, r) -> Z.of_nat (length b) = m * k -> forall c, cnt c b = 0 \/ cnt c b = k.
Proof. exact c16_batch_shape. Qed.
Print Assumptions C16_batch_shape.

(* the policy can run dry only at such a boundary *)
Theorem C16_batch_ends_at_boundary : forall k u b r,
  1 <= k -> reachable k u (b, r) -> filter_eligible k b r = Ok [] -> forall c, cnt c b = 0 \/ cnt c b = k.
Proof. exact c16_batch_ends_at_boundary. Qed.
Print Assumptions C16_batch_ends_at_boundary.

(* plates that do not contain exactly one sample are refused, wherever they are *)
Theorem C16_multi_sample_refused : forall k b r p,
  In p (b ++ r) -> n_unique (rows p) <> 1 -> filter_eligible k b r = Err 1.
Proof. exact c16_multi_sample_refused. Qed.
Print Assumptions C16_multi_sample_refused.

Theorem C16_single_sample_accepted : forall k b r,
  (forall p, In p (b ++ r) -> n_unique (rows p) = 1) -> exists el, filter_eligible k b r = Ok el.
Proof. exact c16_single_sample_accepted. Qed.
Print Assumptions C16_single_sample_accepted.

(* select_next_plate hands the policy the screen's plates whose id is in the batch, and the unobserved
   plates whose id is not *)
Theorem C16_select_args : forall screen ids p,
  (In p (fst (select_args screen ids)) <-> exists o, In (p, o) screen /\ In (plate_id p) ids) /\
  (In p (snd (select_args screen ids)) <-> In (p, false) screen /\ ~ In (plate_id p) ids).
Proof. exact c16_select_args_spec. Qed.
Print Assumptions C16_select_args.

(* a plate returned by select_next_plate is allowed, unobserved and new, and adding its id to the batch ids
   is one step of the history relation (whatever the scores are) *)
Theorem C16_select_next_is_a_step : forall k screen scores ids elids i,
  NoDup (map id_of screen) ->
  select_next k screen scores ids = Ok (elids, Some i) ->
  step k (select_args screen ids) (select_args screen (ids ++ [i])) /\
  In i elids /\ ~ In i ids /\ exists p, In (p, false) screen /\ plate_id p = i.
Proof. exact c16_select_step. Qed.
Print Assumptions C16_select_next_is_a_step.

(* so every batch built by iterating select_next_plate from the empty batch is covered by the theorems above *)
Theorem C16_select_next_reachable : forall k screen ids,
  NoDup (map id_of screen) -> sel_hist k screen ids ->
  reachable k (snd (select_args screen [])) (select_args screen ids).
Proof. exact c16_select_reachable. Qed.
Print Assumptions C16_select_next_reachable.

(* ---- the screen evolves within a batch (gap review g5, gap 2): the retrospective pipeline reveals the chosen plate before
   the next call, so the plates whose ids are in the batch ids ARE observed at the next call ---- *)
From Batchie Require Import Proofs.C16Reveal.

(* what the policy is handed does not depend on the observation flag of a plate whose id is in the batch ids *)
Theorem C16_select_args_reveal_invariant : forall i screen ids,
  In i ids -> select_args (reveal i screen) ids = select_args screen ids.
Proof. exact c16_select_args_reveal. Qed.
Print Assumptions C16_select_args_reveal_invariant.

Theorem C16_select_next_reveal_invariant : forall k js screen scores ids,
  incl js ids -> select_next k (reveal_all js screen) scores ids = select_next k screen scores ids.
Proof. exact c16_select_next_reveal_all. Qed.
Print Assumptions C16_select_next_reveal_invariant.

(* a history over an evolving screen (any plates already in the batch revealed between two calls) is a history over the
   first screen ... *)
Theorem C16_evolving_history_is_history : forall k screen0 screen ids,
  sel_hist_reveal k screen0 screen ids ->
  sel_hist k screen0 ids /\ forall ids', incl ids ids' -> select_args screen ids' = select_args screen0 ids'.
Proof. exact c16_sel_hist_reveal_is_sel_hist. Qed.
Print Assumptions C16_evolving_history_is_history.

(* ... hence every state it visits is reachable and covered by the theorems above *)
Theorem C16_select_next_reachable_evolving : forall k screen0 screen ids,
  NoDup (map id_of screen0) -> sel_hist_reveal k screen0 screen ids ->
  reachable k (snd (select_args screen0 [])) (select_args screen ids).
Proof. exact c16_select_reachable_evolving. Qed.
Print Assumptions C16_select_next_reachable_evolving.

(* the executable history the correspondence runs with reveals between the calls *)
Theorem C16_history_reveal_is_history : forall k screen ids tables flags,
  history_select_reveal k screen ids tables flags = history_select k screen ids tables.
Proof. exact c16_history_reveal. Qed.
Print Assumptions C16_history_reveal_is_history.

(* non-vacuity: after choosing plate 3 and revealing it, the next call (batch ids [3]) sees plate 3 observed *)
Example C16_evolving_example :
  sel_hist_reveal 2 [((1, [0]), false); ((2, [1]), false); ((3, [1]), false)]
                    (reveal_all [3] [((1, [0]), false); ((2, [1]), false); ((3, [1]), false)]) ([] ++ [3]) /\
  reveal_all [3] [((1, [0]), false); ((2, [1]), false); ((3, [1]), false)]
    = [((1, [0]), false); ((2, [1]), false); ((3, [1]), true)] /\
  select_next 2 [((1, [0]), false); ((2, [1]), false); ((3, [1]), true)] [(2, 5); (1, 0)] [3] = Ok ([2], Some 2).
Proof.
  split; [|split; vm_compute; reflexivity].
  eapply (selr_snoc 2 _ _ [] [(3, 0); (2, 5)] [2; 3] 3 [3]); [constructor | vm_compute; reflexivity | intros x Hx; exact Hx].
Qed.

(* non-vacuity.  screen: sample 0 has plates 0,1; sample 1 has plates 2,3; sample 2 has only plate 4; k = 2 *)
Definition ex_screen : list plate := [(0, [0]); (1, [0]); (2, [1]); (3, [1; 1]); (4, [2])].

(* the eligible ids along the history 1, 0, 3, 2: plate 4 is never allowed, the batch ends with 4 plates *)
Example C16_history_example :
  history_direct 2 [] ex_screen [1; 0; 3; 2] = Ok [[0; 1; 2; 3]; [0]; [2; 3]; [2]; []].
Proof. vm_compute. reflexivity. Qed.

(* a reachable state with a sample in progress, and what is allowed there *)
Example C16_reachable_example :
  reachable 2 ex_screen ([(1, [0])], [(0, [0]); (2, [1]); (3, [1; 1]); (4, [2])]) /\
  cnt 0 [(1, [0])] = 1 /\
  filter_eligible 2 [(1, [0])] [(0, [0]); (2, [1]); (3, [1; 1]); (4, [2])] = Ok [(0, [0])].
Proof.
  split; [|split; vm_compute; reflexivity].
  eapply reach_step; [apply reach_init|].
  apply (step_intro 2 [] ex_screen [(0, [0]); (1, [0]); (2, [1]); (3, [1; 1])] (1, [0])).
  - vm_compute. reflexivity.
  - right. left. reflexivity.
  - apply Permutation_refl.
  - apply perm_swap.
Qed.

Example C16_multi_sample_example : filter_eligible 2 [] [(0, [0]); (1, [0; 1])] = Err 1.
Proof. vm_compute. reflexivity. Qed.

(* through select_next_plate: plate 3 (score 1) beats plate 2 (score 5); the observed plate 0 and the
   better-scoring but not allowed plate 4 are not candidates *)
Example C16_select_example :
  select_next 2 [((0, [0]), true); ((1, [0]), false); ((2, [1]), false); ((3, [1]), false); ((4, [2]), false)]
              [(4, 0); (2, 5); (3, 1); (1, 7)] [] = Ok ([2; 3], Some 3).
Proof. vm_compute. reflexivity. Qed.

(* ---- the constructor (Generated/SrcInits.v): KPerSamplePlatePolicy.__init__ stores k, so the `self.k` the translated method reads
   (the parameter k of C16_model_is_source) is the k the policy was constructed with ---- *)
From Batchie Require Import Lib.PyRt Generated.SrcInits Proofs.C16Source_Init_Policy Proofs.C16Source_ConstructedPolicy.
Theorem C16_model_is_source_init : forall k : Z, src_k_per_sample_init k = Ok k.
Proof. exact src_k_per_sample_init_stores. Qed.
Print Assumptions C16_model_is_source_init.

(* the translated __init__ composed with the translated method: the policy constructed with k is the model's filter for k *)
Theorem C16_source_constructed_policy : forall k batch remaining,
  (dor k' <- src_k_per_sample_init k; src_filter_eligible_plates k' batch remaining) = filter_eligible k batch remaining.
Proof. exact constructed_policy_filters_with_its_k. Qed.
Print Assumptions C16_source_constructed_policy.

